"""
Check engine shared by every property (see DESIGN.md §1, §3).

One run of `bin/check Cxx`:
  1. build the fact extractor, the harness and (if needed) the CLI from the tree
     under test (VERIF_REPO, default /repo) with -tags verif into a scratch dir;
  2. regenerate lean/TaskModel/Gen/*.lean from that tree, `lake build` the property's
     theorems and the model driver, audit the axioms of every theorem;
  3. run the correspondence domains of the property: the harness evaluates the real
     code on generated cases, the Lean driver evaluates the model on the same cases,
     outputs are compared line by line; property monitors classify disagreements;
  4. replay the open known findings; write evidence; print VIOLATION lines.
"""
import fcntl
import hashlib
import json
import os
import re
import shutil
import subprocess
import sys
import tempfile
import time

VERIF = os.path.dirname(os.path.dirname(os.path.abspath(__file__)))
LEAN = os.path.join(VERIF, "lean")
REPO = os.environ.get("VERIF_REPO", "/repo")
ALLOWED_AXIOMS = {"propext", "Classical.choice", "Quot.sound"}

GOENV = dict(os.environ, GOFLAGS="-mod=mod", GOPROXY="off", GOSUMDB="off", GOTOOLCHAIN="local",
             CGO_ENABLED=os.environ.get("CGO_ENABLED", "0"))


class BuildError(Exception):
    pass


def log(*a):
    print("[check]", *a, file=sys.stderr, flush=True)


def run(cmd, cwd=None, env=None, timeout=None, check=True, stdin=None, capture=True):
    p = subprocess.run(cmd, cwd=cwd, env=env, timeout=timeout, input=stdin,
                       stdout=subprocess.PIPE if capture else None,
                       stderr=subprocess.STDOUT if capture else None, text=True)
    if check and p.returncode != 0:
        raise BuildError("command failed (%d): %s\n%s" % (p.returncode, " ".join(cmd), (p.stdout or "")[-4000:]))
    return p


class Scratch:
    def __init__(self):
        self.dir = tempfile.mkdtemp(prefix="verif-")

    def path(self, *p):
        return os.path.join(self.dir, *p)

    def cleanup(self):
        shutil.rmtree(self.dir, ignore_errors=True)


# --------------------------------------------------------------------------- Go builds

def build_go_tool(scratch, name, tags="verif", race=False):
    """Copy /verif/<name> to scratch, point it at the tree under test, build it."""
    src = os.path.join(VERIF, name)
    dst = scratch.path(name)
    shutil.copytree(src, dst)
    tmpl = os.path.join(dst, "go.mod.tmpl")
    if os.path.exists(tmpl):
        with open(tmpl) as f:
            mod = f.read().replace("@REPO@", REPO)
        with open(os.path.join(dst, "go.mod"), "w") as f:
            f.write(mod)
        shutil.copy(os.path.join(REPO, "go.sum"), os.path.join(dst, "go.sum"))
    out = scratch.path(name + ".bin")
    cmd = ["go", "build", "-o", out]
    if tags:
        cmd += ["-tags", tags]
    env = dict(GOENV)
    if race:
        cmd += ["-race"]
        env["CGO_ENABLED"] = "1"
    cmd += ["."]
    t0 = time.time()
    p = run(cmd, cwd=dst, env=env, check=False)
    if p.returncode != 0:
        raise BuildError("go build of %s against %s failed:\n%s" % (name, REPO, p.stdout[-6000:]))
    log("built %s in %.1fs" % (name, time.time() - t0))
    return out


def build_cli(scratch, tags="", race=False):
    out = scratch.path("task-race" if race else "task")
    if os.path.exists(out):
        return out
    cmd = ["go", "build", "-o", out]
    if tags:
        cmd += ["-tags", tags]
    env = dict(GOENV)
    if race:
        cmd += ["-race"]
        env["CGO_ENABLED"] = "1"
    cmd += ["./cmd/task"]
    t0 = time.time()
    p = run(cmd, cwd=REPO, env=env, check=False)
    if p.returncode != 0:
        raise BuildError("go build ./cmd/task in %s failed:\n%s" % (REPO, p.stdout[-6000:]))
    log("built task CLI in %.1fs" % (time.time() - t0))
    return out


# --------------------------------------------------------------------------- Lean

class LeanLock:
    """The lake project is shared; serialise regeneration + build + audit."""

    def __enter__(self):
        self.f = open(os.path.join(LEAN, ".lock"), "w")
        fcntl.flock(self.f, fcntl.LOCK_EX)
        return self

    def __exit__(self, *a):
        fcntl.flock(self.f, fcntl.LOCK_UN)
        self.f.close()


def regenerate_gen(scratch, extract_bins):
    gen = os.path.join(LEAN, "TaskModel", "Gen")
    tmp = scratch.path("gen")
    os.makedirs(tmp, exist_ok=True)
    for extract_bin in extract_bins:
        p = run([extract_bin, "-repo", REPO, "-out", tmp], check=False, env=GOENV)
        if p.returncode != 0:
            raise BuildError("fact extractor failed:\n" + p.stdout[-4000:])
    # Replace generated files only when their content changed (keeps lake incremental),
    # and delete stale ones.
    os.makedirs(gen, exist_ok=True)
    new = set(os.listdir(tmp))
    changed = []
    for fn in os.listdir(gen):
        if fn not in new:
            os.remove(os.path.join(gen, fn))
            changed.append("-" + fn)
    for fn in sorted(new):
        a = open(os.path.join(tmp, fn)).read()
        dst = os.path.join(gen, fn)
        if not os.path.exists(dst) or open(dst).read() != a:
            with open(dst, "w") as f:
                f.write(a)
            changed.append(fn)
    return changed


def lake_build(targets):
    t0 = time.time()
    p = run(["lake", "build"] + targets, cwd=LEAN, check=False, timeout=3000)
    log("lake build %s: rc=%d in %.1fs" % (" ".join(targets), p.returncode, time.time() - t0))
    return p.returncode == 0, p.stdout


AUDIT_TMPL = r'''
import Lean
import %(module)s
open Lean Elab Command
private def modOf (env : Environment) (n : Name) : Name :=
  match env.getModuleIdxFor? n with
  | some i => env.header.moduleNames[i.toNat]!
  | none => `_here
#eval show CommandElabM Unit from do
  let env ← getEnv
  let mut out : Array String := #[]
  for (n, ci) in env.constants.toList do
    match ci with
    | .thmInfo _ =>
      let m := modOf env n
      let ms := m.toString
      if (ms.startsWith "TaskModel" || ms.startsWith "Props") && !n.isInternalDetail then
        let axa ← Lean.collectAxioms n
        let axs := axa.toList.map (fun a => "\"" ++ a.toString ++ "\"")
        out := out.push ("{\"name\":\"" ++ n.toString ++ "\",\"module\":\"" ++ ms ++ "\",\"axioms\":[" ++ ",".intercalate axs ++ "]}")
    | _ => pure ()
  IO.println ("AUDIT[" ++ ",".intercalate out.toList ++ "]")
'''


def audit(scratch, module):
    """List every theorem of TaskModel.* / Props.* in the import closure of `module`
    with the axioms it depends on."""
    f = scratch.path("audit_%s.lean" % module.replace(".", "_"))
    with open(f, "w") as fh:
        fh.write(AUDIT_TMPL % {"module": module})
    p = run(["lake", "env", "lean", f], cwd=LEAN, check=False, timeout=1200)
    m = re.search(r"^AUDIT(\[.*\])$", p.stdout, re.M)
    if p.returncode != 0 or not m:
        raise BuildError("axiom audit of %s failed:\n%s" % (module, p.stdout[-3000:]))
    auto = re.compile(r"\.(eq_def|eq_unfold|eq_\d+|congr_simp|sizeOf_spec|injEq|inj|induct|induct_unfolding|fun_cases|fun_cases_unfolding|match_\d+\..*|proof_\d+|ext|ext_iff|mk\.\w+|ctorIdx\w*|noConfusion\w*|below\w*|rec\w*)$")
    return [t for t in json.loads(m.group(1)) if not auto.search(t["name"])]


def grep_forbidden():
    """sorry/admit/axiom/native_decide/... anywhere in the Lean sources (comments stripped)."""
    bad = []
    pat = re.compile(r"\b(sorry|admit|native_decide|bv_decide|implemented_by|unsafe)\b|^\s*axiom\s|maxHeartbeats\s+0")
    for root, _, files in os.walk(LEAN):
        if ".lake" in root:
            continue
        for fn in files:
            if not fn.endswith(".lean"):
                continue
            src = open(os.path.join(root, fn)).read()
            src = re.sub(r"/-.*?-/", lambda m: "\n" * m.group(0).count("\n"), src, flags=re.S)
            for i, line in enumerate(src.split("\n"), 1):
                line = re.sub(r"--.*$", "", line)
                if pat.search(line):
                    bad.append("%s:%d: %s" % (os.path.relpath(os.path.join(root, fn), LEAN), i, line.strip()))
    return bad


# --------------------------------------------------------------------------- correspondence

def _keep_verdicts(line, keys):
    """keep the head of an answer line and only the `K=v` verdict tokens named in keys"""
    toks = line.split()
    return " ".join(t for t in toks if "=" not in t or t.split("=")[0] in keys or t.startswith("step="))


def _impl_crash(out):
    """the crash report if the process died of a panic whose innermost non-runtime frame is in the code under test"""
    m = re.search(r"^(panic: |fatal error: |\[signal )", out, flags=re.M)
    if not m:
        return None
    rep = out[m.start():]
    g = re.search(r"^goroutine \d+ \[running\]:\n", rep, flags=re.M)
    if not g:
        return None
    for line in rep[g.end():].split("\n"):
        if not line or line.startswith(("\t", " ")):
            continue
        if line.startswith(("panic(", "runtime.", "runtime/", "sync.", "sync/", "golang.org/x/sync")):
            continue
        if line.startswith("github.com/go-task/task/v3") and "/verifhook" not in line:
            return rep[:6000]
        return None
    return None


def run_domain(scratch, harness_bin, driver_bin, domain, seed, tier, replay=None, extra_env=None, timeout=3000, verdict_keys=None):
    out = scratch.path("out-%s-%d" % (domain, len(os.listdir(scratch.dir))))
    os.makedirs(out)
    cmd = [harness_bin, domain, "-seed", str(seed), "-tier", tier, "-out", out]
    if replay:
        cmd += ["-replay", replay]
    env = dict(os.environ)
    env.update(extra_env or {})
    t0 = time.time()
    p = run(cmd, env=env, check=False, timeout=timeout, cwd=out)
    if p.returncode == 66 and "DATA RACE" in (p.stdout or ""):
        # the race detector (harness built with -race, GORACE=halt_on_error=1) stopped the run
        rep = p.stdout[p.stdout.index("WARNING: DATA RACE"):][:6000]
        stats = {"domain": domain, "seed": seed, "tier": tier, "evaluations": 1, "distinct_nontrivial": 1,
                 "rule": "race detector report", "features": {"race-report": 1}, "samples": [rep[:1500]]}
        return stats, [{"domain": domain, "index": 0, "case_line": "race.report", "case": {"race_report": rep},
                        "impl": "DATA RACE", "model": "no conflicting unsynchronised accesses (lockset discipline)"}]
    if p.returncode == 2 and _impl_crash(p.stdout or ""):
        # the Go runtime killed the harness process because the code under test panicked (in a goroutine
        # the harness cannot recover, e.g. inside an errgroup): no property allows a crash
        rep = _impl_crash(p.stdout)
        stats = {"domain": domain, "seed": seed, "tier": tier, "evaluations": 1, "distinct_nontrivial": 1,
                 "rule": "runtime crash report", "features": {"crash-report": 1}, "samples": [rep[:1500]]}
        return stats, [{"domain": domain, "index": 0, "case_line": "crash.report", "case": {"crash_report": rep, "harness_args": cmd[1:]},
                        "impl": "PANIC in the code under test", "model": "no input makes the implementation crash"}]
    if p.returncode != 0:
        raise BuildError("harness domain %s failed (rc=%d):\n%s" % (domain, p.returncode, p.stdout[-4000:]))
    t1 = time.time()
    with open(os.path.join(out, "cases.txt")) as fin, open(os.path.join(out, "model.txt"), "w") as fout:
        q = subprocess.run([driver_bin], stdin=fin, stdout=fout, stderr=subprocess.PIPE, text=True, timeout=timeout)
    if q.returncode != 0:
        raise BuildError("model driver failed on domain %s: %s" % (domain, q.stderr[-2000:]))
    log("domain %s: harness %.1fs, model %.1fs" % (domain, t1 - t0, time.time() - t1))
    cases = open(os.path.join(out, "cases.txt")).read().split("\n")
    impl = open(os.path.join(out, "impl.txt")).read().split("\n")
    model = open(os.path.join(out, "model.txt")).read().split("\n")
    meta = open(os.path.join(out, "meta.jsonl")).read().split("\n")
    stats = json.load(open(os.path.join(out, "stats.json")))
    n = stats["evaluations"]
    if not (len(cases) > n - 1 and len(impl) > n - 1 and len(model) > n - 1):
        raise BuildError("domain %s: line counts differ (cases %d impl %d model %d, expected %d)" % (
            domain, len(cases), len(impl), len(model), n))
    mismatches = []
    for i in range(n):
        a, b = impl[i], model[i]
        if verdict_keys is not None:
            # several properties share this domain: each compares its own verdicts (and acceptance)
            a, b = _keep_verdicts(a, verdict_keys), _keep_verdicts(b, verdict_keys)
        if a != b:
            mismatches.append({"domain": domain, "index": i, "case_line": cases[i], "case": json.loads(meta[i]),
                               "impl": impl[i], "model": model[i]})
    return stats, mismatches
