#!/usr/bin/env python3
"""Regenerate /verif/MANIFEST.json from lib/props.py (single source of truth)."""
import json, os, sys
sys.path.insert(0, os.path.dirname(os.path.abspath(__file__)))
import props
VERIF = os.path.dirname(os.path.dirname(os.path.abspath(__file__)))
ids = [json.loads(l)["id"] for l in open(os.path.join(VERIF, "properties.jsonl"))]
checks, na = [], []
for pid in ids:
    P = props.PROPS.get(pid)
    if not P or P.get("disabled"):
        na.append({"property_id": pid, "reason": props.NOT_YET.get(pid, "check not built yet (see DESIGN.md §5); not claimed")})
        continue
    checks.append({
        "property_id": pid,
        "quick_cmd": "bin/check %s --tier quick" % pid,
        "thorough_cmd": "bin/check %s --tier thorough" % pid,
        "evidence_file": "evidence/%s.json" % pid,
        "replay_cmd_template": "bin/check %s --replay {path}" % pid,
        "engine": "lean-model+" + "+".join(d["name"] for d in P["domains"]),
        "level_claimed": {"category": "proof", "text": P["level_text"], "design_ref": P.get("design_ref", "DESIGN.md §5 " + pid)},
        "level_note": P["level_note"],
        "technique": P.get("technique", "Lean 4 theorems over an executable model + differential correspondence check against the Go code"),
    })
man = {
    "version": 1,
    "setup_cmd": "bin/setup",
    "hooks": {
        "guard": "verif",
        "enable": "go build -tags verif (the harness module is built with -tags verif against /repo via a replace directive)",
        "baseline_off_cmd": "bin/baseline",
        "source_commits": props.HOOK_COMMITS,
        "add_only": True,
    },
    "engines": [
        {"name": "lean-model", "path": "lean/", "serves_properties": [c["property_id"] for c in checks],
         "kind_free_text": "Lean 4 models (TaskModel/*), property theorems (Props/Cxx.lean), compiled model driver (Main.lean)"},
        {"name": "fact-extractor", "path": "extract/", "serves_properties": [c["property_id"] for c in checks],
         "kind_free_text": "go/ast translator regenerating lean/TaskModel/Gen/*.lean from /repo on every run"},
        {"name": "harness", "path": "harness/", "serves_properties": [c["property_id"] for c in checks],
         "kind_free_text": "Go correspondence harness driving the real code (public packages + verif-tagged exports + CLI)"},
    ],
    "checks": checks,
    "not_applicable": na,
    "notes": "Every check: regenerate facts from /repo, lake build theorems, axiom audit, differential correspondence; see DESIGN.md.",
}
json.dump(man, open(os.path.join(VERIF, "MANIFEST.json"), "w"), indent=1)
print("checks:", [c["property_id"] for c in checks])
