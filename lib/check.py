"""bin/check entry: decide one property (see engine.py for the steps)."""
import argparse
import json
import os
import re
import shutil
import sys
import time

sys.path.insert(0, os.path.dirname(os.path.abspath(__file__)))
import engine  # noqa: E402
from engine import VERIF, LEAN, log  # noqa: E402
import props  # noqa: E402


def load_findings():
    p = os.path.join(VERIF, "known_findings.json")
    if not os.path.exists(p):
        return []
    return json.load(open(p))["findings"]


def write_replay(pid, kind, body):
    d = os.path.join(VERIF, "replays")
    os.makedirs(d, exist_ok=True)
    h = abs(hash(json.dumps(body, sort_keys=True, default=str))) % (10 ** 10)
    path = os.path.join(d, "%s-%s-%010d.json" % (pid, kind, h))
    body = dict(body, property=pid, kind=kind)
    with open(path, "w") as f:
        json.dump(body, f, indent=1, default=str)
    return path


def main():
    ap = argparse.ArgumentParser()
    ap.add_argument("prop")
    ap.add_argument("--tier", default=os.environ.get("VERIF_TIER", "quick"))
    ap.add_argument("--replay", default=None)
    args = ap.parse_args()
    if args.replay:
        args.replay = os.path.abspath(args.replay)
    pid = args.prop
    tier = args.tier if args.tier in ("quick", "thorough") else "quick"
    seed = int(os.environ.get("VERIF_SEED", "1") or "1")
    if pid not in props.PROPS:
        print("unknown property", pid)
        sys.exit(2)
    P = props.PROPS[pid]
    t0 = time.time()
    scratch = engine.Scratch()
    try:
        rc = decide(pid, P, tier, seed, args.replay, scratch, t0)
    except engine.BuildError as e:
        # the machinery could not be built against the tree under test (an extractor, the harness or the
        # driver no longer compiles, or a domain run died): the correspondence is broken, so the property is
        # no longer shown to hold — reported like a broken obligation for which no failing input was found
        print("ERROR build: %s" % e)
        path = write_replay(pid, "proof-obligation", {"broken": [{"what": "the check could not be built / run against the tree under test",
                                                                  "error": str(e)[-6000:]}],
                                                      "note": "no correspondence run was possible"})
        print("VIOLATION property=%s replay=%s no-failing-input-found" % (pid, path))
        rc = 1
    finally:
        scratch.cleanup()
    sys.exit(rc)


def decide(pid, P, tier, seed, replay, scratch, t0):
    findings = [f for f in load_findings() if f["property"] == pid]
    open_findings = [f for f in findings if f["status"] == "open"]
    violations = []      # (replay path, suffix)
    notes = []

    # ---- 1. builds from the tree under test
    env_extra = {}
    extract_bins = [engine.build_go_tool(scratch, "extract", tags=""), engine.build_go_tool(scratch, "extract2", tags="")]
    harness_bin = engine.build_go_tool(scratch, "harness", tags="verif", race=P.get("race", False))
    if P.get("race"):
        env_extra["GORACE"] = "halt_on_error=1 exitcode=66"
    if P.get("cli"):
        env_extra["VERIF_TASK_BIN"] = engine.build_cli(scratch)
    if P.get("cli_race") == "always" or (P.get("cli_race") and tier == "thorough"):
        # the real CLI built with -race and without the verif tag (whose hook mutex orders events and can hide a race)
        env_extra["VERIF_TASK_BIN_RACE"] = engine.build_cli(scratch, race=True)
    env_extra["VERIF_SCRATCH"] = scratch.path("work")
    os.makedirs(env_extra["VERIF_SCRATCH"], exist_ok=True)

    # ---- 2. regenerate facts, build theorems + driver, audit
    module = P["lean"]
    broken = []          # names/descriptions of proof obligations that no longer check
    thms = []
    driver_bin = scratch.path("driver")
    with engine.LeanLock():
        changed = engine.regenerate_gen(scratch, extract_bins)
        if changed:
            log("generated tables changed: %s" % ", ".join(changed))
        ok, out = engine.lake_build([module])
        if not ok:
            errs = re.findall(r"error: ([^\n]*\.lean:\d+:\d+: [^\n]*)", out)
            broken.append({"what": "lake build %s failed" % module, "errors": errs[:10], "log_tail": out[-3000:]})
        okd, outd = engine.lake_build(["driver"])
        if okd:
            shutil.copy(os.path.join(LEAN, ".lake", "build", "bin", "driver"), driver_bin)
        else:
            broken.append({"what": "lake build driver failed (model no longer compiles against generated facts)",
                           "log_tail": outd[-3000:]})
            driver_bin = None
        if ok:
            thms = engine.audit(scratch, module)
            for t in thms:
                bad = [a for a in t["axioms"] if a not in engine.ALLOWED_AXIOMS]
                if bad:
                    broken.append({"what": "theorem %s depends on forbidden axioms %s" % (t["name"], bad)})
        if ok and tier == "thorough" and P.get("leanchecker", True):
            p = engine.run(["lake", "env", "leanchecker", module], cwd=LEAN, check=False, timeout=3000)
            if p.returncode != 0:
                broken.append({"what": "leanchecker %s failed" % module, "log_tail": p.stdout[-2000:]})
    forb = engine.grep_forbidden()
    if forb:
        broken.append({"what": "forbidden constructs in Lean sources", "hits": forb[:20]})
    prop_thms = [t for t in thms if t["module"] in P.get("prop_modules", [module])]
    obligations = len(thms) if thms else max(1, P.get("expected_obligations", 1))
    discharged = len(thms) if not broken else 0

    # ---- 3. correspondence (search mode = thorough sizes when an obligation broke)
    run_tier = "thorough" if (broken and not replay) else tier
    all_stats = []
    mismatches = []
    if driver_bin:
        for dom in P["domains"]:
            name = dom["name"]
            # corpus first
            corp = os.path.join(VERIF, "corpus", pid, name + ".jsonl")
            if os.path.exists(corp) and not replay:
                st, mm = engine.run_domain(scratch, harness_bin, driver_bin, name, seed, run_tier, replay=corp, extra_env=env_extra,
                                           verdict_keys=dom.get("verdict_keys"))
                st["corpus"] = True
                all_stats.append(st)
                mismatches += mm
            if replay:
                rp = json.load(open(replay))
                if rp.get("domain") not in (None, name):
                    continue
                if "case" not in rp:
                    continue
            st, mm = engine.run_domain(scratch, harness_bin, driver_bin, name, seed, run_tier, replay=replay,
                                       extra_env=dict(env_extra, **dom.get("env", {})), timeout=dom.get("timeout", 3000),
                                       verdict_keys=dom.get("verdict_keys"))
            all_stats.append(st)
            mismatches += mm

    # ---- 4. classify disagreements
    known_hits = {}
    for m in mismatches:
        fid = None
        for f in open_findings:
            pred = props.FINDING_PREDICATES.get(f["id"])
            if pred and pred(m):
                fid = f["id"]
                break
        if fid:
            known_hits.setdefault(fid, []).append(m)
        else:
            m["explain"] = P.get("explain", "implementation output differs from the model's, which the theorems of %s prove to be the property-conforming outcome" % module)
            violations.append(m)

    # ---- 5. replay the witnesses of open findings against the implementation
    if driver_bin and not replay:
        for f in open_findings:
            w = f.get("witness")
            if not w:
                continue
            wp = os.path.join(VERIF, w)
            rp = json.load(open(wp))
            vk = next((d.get("verdict_keys") for d in P["domains"] if d["name"] == rp["domain"]), None)
            st, mm = engine.run_domain(scratch, harness_bin, driver_bin, rp["domain"], seed, tier, replay=wp, extra_env=env_extra, verdict_keys=vk)
            if mm:
                known_hits.setdefault(f["id"], []).extend(mm)
            else:
                notes.append("known finding %s no longer reproduces on its witness" % f["id"])
    for f in open_findings:
        if f["id"] in known_hits:
            print("KNOWN-FINDING: property=%s %s (%s; %d case(s) this run)" % (pid, f["what"], f["id"], len(known_hits[f["id"]])))

    # ---- 6. verdict
    lines = []
    seen = set()
    for m in violations[:200]:
        key = m["case_line"]
        if key in seen:
            continue
        seen.add(key)
        path = write_replay(pid, "impl-violation", m)
        lines.append("VIOLATION property=%s replay=%s" % (pid, path))
    if broken and not violations:
        path = write_replay(pid, "proof-obligation", {"broken": broken, "searched": [
            {"domain": s["domain"], "evaluations": s["evaluations"]} for s in all_stats],
            "note": "no failing input found by the widened correspondence search; the property is no longer shown to hold"})
        lines.append("VIOLATION property=%s replay=%s no-failing-input-found" % (pid, path))
    for ln in lines[:20]:
        print(ln)
    if len(lines) > 20:
        print("(%d further violations not printed)" % (len(lines) - 20))

    # ---- 7. evidence
    ev_n = sum(s["evaluations"] for s in all_stats)
    ev_d = sum(s["distinct_nontrivial"] for s in all_stats)
    samples = []
    for s in all_stats:
        samples += s.get("samples", [])[:3]
    samples += [{"theorem": t["name"], "axioms": t["axioms"]} for t in prop_thms[:6]]
    ev = {
        "property_id": pid, "tier": tier, "seed": seed, "level": "proof",
        "coverage": {
            "obligations": obligations, "discharged": discharged,
            "checker_cmd": "cd lean && lake build %s driver && lake env lean <axiom audit of %s>%s" % (
                module, module, " && lake env leanchecker " + module if tier == "thorough" else ""),
            "trusted_base": props.TRUSTED_BASE + P.get("trusted", []),
            "property_theorems": [t["name"] for t in prop_thms],
            "axioms_used": sorted({a for t in thms for a in t["axioms"]}),
            "evaluations": ev_n, "distinct_nontrivial": ev_d,
            "rule": " | ".join("%s: %s" % (s["domain"], s["rule"]) for s in all_stats if not s.get("corpus")),
            "samples": samples,
            "correspondence": [{k: s.get(k) for k in ("domain", "evaluations", "distinct_nontrivial", "features", "corpus") if k in s}
                               for s in all_stats],
            "disagreements": len(mismatches),
            "known_findings_reproduced": {k: len(v) for k, v in known_hits.items()},
            "broken_obligations": broken, "notes": notes,
            "search_mode": bool(broken),
        },
        "assumptions": P.get("assumptions", []),
        "wall_s": round(time.time() - t0, 1),
        "violations": len(lines),
    }
    os.makedirs(os.path.join(VERIF, "evidence"), exist_ok=True)
    with open(os.path.join(VERIF, "evidence", pid + ".json"), "w") as f:
        json.dump(ev, f, indent=1)
    log("%s: %d theorems (%d property), %d cases, %d disagreements, %d violations, %.1fs" % (
        pid, len(thms), len(prop_thms), ev_n, len(mismatches), len(lines), time.time() - t0))
    return 1 if lines else 0


if __name__ == "__main__":
    main()
