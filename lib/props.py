"""Per-property configuration: Lean module, correspondence domains, finding predicates."""

TRUSTED_BASE = [
    "Lean 4.33.0 kernel (theorems re-checked by `lake build`; `leanchecker` in the thorough tier)",
    "axioms permitted in property theorems: propext, Classical.choice, Quot.sound (audited per theorem on every run); "
    "no sorry/admit/native_decide/bv_decide/axiom anywhere in lean/ (grepped on every run)",
    "fact extractor /verif/extract (go/ast, stdlib only) reports the generated tables faithfully",
    "correspondence harness /verif/harness and its canonicalisation of outputs; the compiled Lean driver runs the same "
    "definitions the theorems are about",
]

PROPS = {
    "C08": {
        "lean": "Props.C08",
        "domains": [{"name": "load"}],
        "trusted": ["the harness's YAML serialiser and its decoding of the loaded ast.Task/ast.Vars back to the abstract form "
                    "(every file written is parsed back with the repo's decoder and compared with the abstract tree, per case)",
                    "file ids are numbered in the order of the file locations, so the model's key order is the string order "
                    "graph.StableTopologicalSort uses"],
        "assumptions": ["local files only (no remote nodes); include paths, dirs and vars are literal (no templates); "
                        "task and namespace names contain no ':'; one load error kind is injected per tree at most",
                        "C08_present is stated over the include graph the reader built (Reach); that every include statement "
                        "of a reachable file becomes an edge is checked by the correspondence, not proved"],
        "level_text": "Theorems (all include graphs, every topological order and per-edge include order): every non-excluded task "
                      "reachable along an include path is a key of the merged table under its full namespace path with its "
                      "commands (C08_present, C08_default_alias, C08_aliases); local references are renamed like the task they "
                      "name at any depth (C08_refs); ':'-references: depth-1 theorem, full statement refuted by two machine-checked "
                      "counterexamples (depth 2, flatten); every field survives the copy (C08_attrs over Gen.Fields); name clash, "
                      "cycle, missing file, version mismatch, dotenv are errors and keys stay distinct (C08_conflict, "
                      "C08_no_overwrite[_graph], C08_cycle, C08_missing, C08_version, C08_dotenv, C08_loaded_is_acyclic). "
                      "Tie: generated include trees loaded through Executor.Setup, merged table, global vars, error class and a "
                      "CompiledTask probe compared with the model's load.",
        "level_note": "Trusted: Lean kernel; harness serialiser/decoder (round-trip checked per case); id order = location order. "
                      "Open: ':'-references at depth >= 2 and inside flattened includes do not reach the root task.",
    },
    "C09": {
        "lean": "Props.C09",
        "domains": [{"name": "loadrep"}, {"name": "loaddeep"}],
        "trusted": ["repeated loads in one process exercise the Go runtime's map iteration orders and goroutine schedules "
                    "(25/40 loads quick, 100/200 thorough per tree); the theorem, not the sample, covers all orders",
                    "extract/load.go finds map ranges syntactically (identifiers/fields/calls whose map type is declared in "
                    "the scanned packages, plus PredecessorMap/AdjacencyMap/godotenv)"],
        "assumptions": ["compile-time determinism (templating, sh: variables) is outside this model: only the Gen.NondetSites "
                        "classification covers compiler.go / variables.go",
                        "C09_partial is proved for the sibling includes of one parent (any permutation), not for arbitrary "
                        "topological orders of arbitrary graphs"],
        "level_text": "Full statement (every topological order and per-edge order give the same merged Taskfile) is refuted by "
                      "machine-checked counterexamples (C09_sigma_counterexample, C09_eps_counterexample: rows 13, 13b). For the "
                      "canonical schedule of the fixed code (stable sort by key, edge data in declaration order, parents in key "
                      "order) theorem C09: the result is invariant under every permutation of the vertex and edge enumerations; "
                      "all_sites_classified over the regenerated Gen.NondetSites; edges_in_declaration_order over Gen.Load. "
                      "Tie: every generated tree is loaded repeatedly in one process; all dumps must coincide and equal the model.",
        "level_note": "Trusted: Lean kernel; extractor's syntactic map typing; harness. Sampled: runtime schedules (the theorem "
                      "quantifies over all of them for the canonical schedule).",
    },
    "C15": {
        "lean": "Props.C15",
        "domains": [{"name": "resolve"}],
        "trusted": ["Go regexp's leftmost-first semantics for `^lit(.*)lit…$` is what Resolve.Glob mirrors; "
                    "sajari/fuzzy ranking is an oracle (only 'a suggestion exists' is checked)"],
        "assumptions": ["names are valid UTF-8; resolution table built in memory through ast.Tasks.Set"],
        "level_text": "Theorems (all names, patterns, tables): matcher soundness/completeness/greediness, only '*' special, "
                      "exact > first wildcard in table order > unique alias, ambiguity = 203, unknown = 200. Tie: ast.Task.WildcardMatch and "
                      "Executor.GetTask are run on generated tables over an alphabet with regexp metacharacters and must equal the model.",
        "level_note": "Trusted: Lean kernel; harness canonicalisation; Go regexp semantics for the quoted pattern; fuzzy suggestion is an oracle.",
    },
}


def _has_meta(s):
    return any(ch in s for ch in ".()[]+?|\\^${}")


def _hexname(tok):
    return "" if tok == "-" else bytes.fromhex(tok).decode("utf-8", "replace")


def _parse_refs(line):
    """`ok n (T key L loc R k name*)*` -> list of (key, loc, [targets]) or None."""
    t = line.split(" ")
    if len(t) < 2 or t[0] != "ok":
        return None
    out, i = [], 2
    try:
        while i < len(t):
            if t[i] != "T" or t[i + 2] != "L" or t[i + 4] != "R":
                return None
            key, loc, k = _hexname(t[i + 1]), int(t[i + 3]), int(t[i + 5])
            out.append((key, loc, [_hexname(x) for x in t[i + 6:i + 6 + k]]))
            i += 6 + k
    except (IndexError, ValueError):
        return None
    return out


def _root_ref_diffs(m):
    """Classify every position where the implementation's reference target differs from the
    demanded one in a `load.refs` case: 'depth2' (':x' written in a file merged through two or
    more namespaces resolved to '<outer ns>:x'), 'flatten' (':x' left as ':x'), or 'other'."""
    case = m.get("case") or {}
    if m.get("domain") not in ("load", "loadrep") or case.get("op") != "refs":
        return None
    a, b = _parse_refs(m["impl"]), _parse_refs(m["model"])
    if a is None or b is None or len(a) != len(b):
        return None
    files = {f["id"]: f for f in case.get("files", [])}
    kinds = []
    for (ka, la, ra), (kb, lb, rb) in zip(a, b):
        if ka != kb or la != lb or len(ra) != len(rb):
            return None
        f = files.get(la)
        if f is None:
            return None
        local = ka.split(":")[-1]
        tasks = [t for t in f.get("tasks", []) if t["name"] == local]
        if len(tasks) != 1:
            return None
        orig = list(tasks[0].get("deps", [])) + [c["task"] for c in tasks[0].get("cmds", []) if c.get("task")]
        if len(orig) != len(ra):
            return None
        for o, x, y in zip(orig, ra, rb):
            if x == y:
                continue
            if not o.startswith(":") or la == case.get("root") or y != o[1:]:
                kinds.append("other")
            elif x == o:
                kinds.append("flatten")
            elif x.endswith(":" + o[1:]) and not x.startswith(":") and ka.startswith(x[:-len(o[1:])]) and ka.count(":") >= 2:
                kinds.append("depth2")
            else:
                kinds.append("other")
    return kinds


def _pred_root_ref_depth2(m):
    k = _root_ref_diffs(m)
    return bool(k) and "other" not in k and "depth2" in k


def _pred_root_ref_flatten(m):
    k = _root_ref_diffs(m)
    return bool(k) and all(x == "flatten" for x in k)


FINDING_PREDICATES = {
    "C08-root-ref-depth2": _pred_root_ref_depth2,
    "C08-root-ref-flatten": _pred_root_ref_flatten,
}

HOOK_COMMITS = []
NOT_YET = {}
