"""Per-property configuration: Lean module, correspondence domains, finding predicates."""

TRUSTED_BASE = [
    "Lean 4.33.0 kernel (theorems re-checked by `lake build`; `leanchecker` in the thorough tier)",
    "axioms permitted in property theorems: propext, Classical.choice, Quot.sound (audited per theorem on every run); "
    "no sorry/admit/native_decide/bv_decide/axiom anywhere in lean/ (grepped on every run)",
    "fact extractor /verif/extract (go/ast, stdlib only) reports the generated tables faithfully",
    "correspondence harness /verif/harness and its canonicalisation of outputs; the compiled Lean driver runs the same "
    "definitions the theorems are about",
]

PROPS = {
    "C04": {
        "lean": "Props.C04",
        "domains": [{"name": "fingerhist-c04"}],
        "cli": True,
        "trusted": ["the hash (xxh3-128) is uninterpreted: theorems speak of the byte stream fed to it; the harness checks that every stored "
                    "checksum is xxh3 of the model's stream; what one glob pattern matches (mvdan/sh expansion) is an oracle",
                    "the harness's copy of the goodRun monitor is tied to the Lean definition by comparing its verdict (g=) on every step"],
        "assumptions": ["status: commands are `test -f`, commands only write their declared files and append to a trace; no deps, "
                        "no preconditions, no sub-task calls; sources readable; explicit whole-second mtimes"],
        "level_text": "Theorems over TaskModel.Finger.invoke (mirror of RunTask / IsTaskUpToDate / Checksum- and TimestampChecker): C04_partial "
                      "(method checksum, pairwise distinct normalised names, histories of any length made of successful runs, runs failing in the "
                      "command loop, --dry, --status, --force, list/summary queries and arbitrary file edits: skip implies goodRun) and five "
                      "decide-checked counterexamples to C04_full. Tie: Gen.DryWiring / Gen.FingerOrder tables proved equal to the skeleton the "
                      "model was written against; random histories through the real CLI binary compared step by step (exit class, commands run, "
                      "tree incl. .task) with the model; the property monitor skip⇒goodRun evaluated on the real observations.",
        "level_note": "Trusted: Lean kernel; harness canonicalisation (mtimes rebased to a logical clock); hash uninterpreted; glob expansion is an oracle.",
    },
    "C05": {
        "lean": "Props.C05",
        "domains": [{"name": "globs"}, {"name": "fingerhist-c05"}],
        "cli": True,
        "trusted": ["mvdan/sh glob semantics is an oracle (per-pattern match sets come from the real expander run on that pattern alone)",
                    "hash uninterpreted; fingerprint inequality needs the explicit hypothesis HashInj on the two streams involved"],
        "assumptions": ["as C04; timestamp idempotence under the side condition 'no source newer than the last run'"],
        "level_text": "Theorems: C05_globs (for every pattern list and file set: p ∈ Globs ⇔ the last pattern matching p is positive; result strictly "
                      "sorted), C05_idem (both methods), C05_force, C05_missing_generates, C05_status_fails, C05_detect_checksum (edit/add/remove/"
                      "rename-in-place change the stream), C05_mtime, and C05_counterexample (directory move) with C05_detect_partial. Tie: "
                      "fingerprint.Globs run in-process on random trees and glob/exclude lists; CLI histories with file operations between runs.",
        "level_note": "Trusted: Lean kernel; harness; glob expansion oracle; hash uninterpreted (HashInj explicit).",
    },
    "C12": {
        "lean": "Props.C12",
        "domains": [{"name": "fingerhist-c12"}],
        "cli": True,
        "trusted": ["status:/sh: commands are assumed side-effect free (they do run in query modes by design)"],
        "assumptions": ["as C04; remote includes (cache writes) are outside the model"],
        "level_text": "Theorems: C12_full (every read-only invocation --dry/--status/--list[-all] [--json]/--summary leaves the state unchanged and runs "
                      "no command) and C12_continuation (H;R;K ≈ H;K for all histories) for the model with the dry wiring proved equal to the "
                      "extracted Gen.DryWiring table; counterexamples for the wiring as found (F7, F11). Tie: snapshot of the tree before/after every "
                      "read-only CLI invocation in random histories, and the same history re-run without its read-only steps.",
        "level_note": "Trusted: Lean kernel; harness snapshot (names, contents, logical mtimes; directories' own mtimes ignored).",
    },
    "C15": {
        "lean": "Props.C15",
        "domains": [{"name": "resolve"}],
        "trusted": ["Go regexp's leftmost-first semantics for `^lit(.*)lit…$` is what Resolve.Glob mirrors; "
                    "sajari/fuzzy ranking is an oracle (only 'a suggestion exists' is checked)"],
        "assumptions": ["names are valid UTF-8; resolution table built in memory through ast.Tasks.Set"],
        "level_text": "Theorems (all names, patterns, tables): matcher soundness/completeness/greediness, only '*' special, "
                      "exact > first wildcard in table order > unique alias, ambiguity = 203, unknown = 200. Tie: ast.Task.WildcardMatch and "
                      "Executor.GetTask are run on generated tables over an alphabet with regexp metacharacters and must equal the model.",
        "level_note": "Trusted: Lean kernel; harness canonicalisation; Go regexp semantics for the quoted pattern; fuzzy suggestion is an oracle.",
    },
}


def _has_meta(s):
    return any(ch in s for ch in ".()[]+?|\\^${}")


def _mon(m, prop):
    """facts of a `finger.mon <prop> <step> <task>` violation line (None if m is something else)"""
    cl = m.get("case_line", "").split()
    il = m.get("impl", "").split()
    if len(cl) < 4 or cl[0] != "finger.mon" or cl[1] != prop or not il or il[0] != "viol" or m.get("model") != "ok":
        return None
    f = dict(t.split("=", 1) for t in il[1:] if "=" in t)
    f["step"], f["task"] = cl[2], cl[3]
    return f


def _norm(s):
    return "".join(ch if ("A" <= ch <= "z" or "0" <= ch <= "9") else "-" for ch in s)


def _same_key(m, f):
    """the violating task and the task of the step that wrote the stored fingerprint are different
    tasks whose store keys coincide (checksum: label or name; timestamp: name)"""
    try:
        ts = m["case"]["tasks"]
        a, b = ts[int(f["task"])], ts[int(f["wtask"])]
    except Exception:
        return False
    if f["task"] == f["wtask"]:
        return False
    if f.get("method") == "timestamp":
        return _norm(a["name"]) == _norm(b["name"])
    return _norm(a.get("label") or a["name"]) == _norm(b.get("label") or b["name"])


def _c04(cond):
    def p(m):
        f = _mon(m, "c04")
        return bool(f) and f.get("kind") == "skip-not-good" and cond(m, f)
    return p


def _c05(cond):
    def p(m):
        f = _mon(m, "c05")
        return bool(f) and cond(m, f)
    return p


FINDING_PREDICATES = {
    # the step that last wrote the stored fingerprint was a run of the same task cancelled at the prompt
    "C04-prompt-declined-after-fingerprint": _c04(lambda m, f: f.get("wexit") == "cancelled" and f.get("wmode") == "run" and f.get("wtask") == f["task"]),
    # … or was killed / the most recent attempt at this fingerprint was killed
    "C04-killed-before-last-command": _c04(lambda m, f: (f.get("wexit") == "killed" and f.get("wtask") == f["task"]) or f.get("laexit") == "killed"),
    # method timestamp and the run that last touched the marker (or the last attempt) failed
    "C04-timestamp-failed-run": _c04(lambda m, f: f.get("method") == "timestamp" and
                                     ((f.get("wexit") == "failed" and f.get("wtask") == f["task"]) or f.get("laexit") == "failed")),
    # the stored fingerprint was written by a different task with the same normalised name
    "C04-normalised-name-collision": _c04(_same_key),
    # method timestamp, last run fine, but a generates pattern matches nothing
    "C04-timestamp-missing-generates": _c04(lambda m, f: f.get("method") == "timestamp" and f.get("gens") == "0" and f.get("laexit") == "ok"),
    # method timestamp, never attempted and no marker before: decided by the generates' mtimes alone
    "C04-timestamp-never-ran": _c04(lambda m, f: f.get("method") == "timestamp" and f.get("lastatt") == "-" and f.get("writer") == "-"),
    # method timestamp, last attempt fine, generates there, but a source is newer than that attempt (and not
    # newer than the marker, which every check — also a skipped one — moves to the time of the check)
    "C04-timestamp-marker-moved-by-every-check": _c04(lambda m, f: f.get("method") == "timestamp" and f.get("gens") == "1" and
                                                      f.get("laexit") == "ok" and f.get("srcnewer") == "1"),
    # same multiset of (base name, content), different paths
    "C05-dir-move-not-detected": _c05(lambda m, f: f.get("kind") == "change-not-detected" and f.get("samebases") == "1" and f.get("method") == "checksum"),
    "C05-timestamp-missing-generates": _c05(lambda m, f: f.get("kind") == "missing-generates-skipped" and f.get("method") == "timestamp"),
}

HOOK_COMMITS = []
NOT_YET = {}
