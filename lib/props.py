"""Per-property configuration: Lean module, correspondence domains, finding predicates."""

TRUSTED_BASE = [
    "Lean 4.33.0 kernel (theorems re-checked by `lake build`; `leanchecker` in the thorough tier)",
    "axioms permitted in property theorems: propext, Classical.choice, Quot.sound (audited per theorem on every run); "
    "no sorry/admit/native_decide/bv_decide/axiom anywhere in lean/ (grepped on every run)",
    "fact extractor /verif/extract (go/ast, stdlib only) reports the generated tables faithfully",
    "correspondence harness /verif/harness and its canonicalisation of outputs; the compiled Lean driver runs the same "
    "definitions the theorems are about",
]

PROPS = {
    "C08": {
        "lean": "Props.C08",
        "domains": [{"name": "load"}],
        "trusted": ["the harness's YAML serialiser and its decoding of the loaded ast.Task/ast.Vars back to the abstract form "
                    "(every file written is parsed back with the repo's decoder and compared with the abstract tree, per case)",
                    "file ids are numbered in the order of the file locations, so the model's key order is the string order "
                    "graph.StableTopologicalSort uses"],
        "assumptions": ["local files only (no remote nodes); include paths, dirs and vars are literal (no templates); "
                        "task and namespace names contain no ':'; one load error kind is injected per tree at most (several: C09's domains)",
                        "C08_present is stated over the include graph the reader built (Reach); that every include statement "
                        "of a reachable file becomes an edge is checked by the correspondence, not proved"],
        "level_text": "Theorems (all include graphs, every topological order and per-edge include order): every non-excluded task "
                      "reachable along an include path is a key of the merged table under its full namespace path with its "
                      "commands (C08_present, C08_default_alias, C08_aliases); local references are renamed like the task they "
                      "name at any depth (C08_refs); a ':'-prefixed reference written anywhere (root file, any include depth, any mix "
                      "of flattened levels) ends up as the root's task name (C08_root_ref_full by induction over the include path, "
                      "C08_root_ref_graph for the whole-graph merge; the renaming rule itself is pinned in the regenerated Gen.Load "
                      "by root_ref_rule_in_source); every field survives the copy (C08_attrs over Gen.Fields); name clash, "
                      "cycle, missing file, version mismatch, dotenv are errors and keys stay distinct (C08_conflict, "
                      "C08_no_overwrite[_graph], C08_cycle, C08_missing, C08_version, C08_dotenv, C08_loaded_is_acyclic); the keys of EVERY "
                      "loaded table are pairwise distinct without hypothesis on the files (C08_no_overwrite_load: a key used twice in tasks / "
                      "includes / vars / env is a decode error, C08_duplicate_key, duplicate_key_rule_in_source); the file-level defaults of an "
                      "included Taskfile (method, run, silent, set, shopt) go with its tasks (C08_file_defaults, idempotent), 'as in its own "
                      "file' holds wherever the task or its file declares the option (C08_defaults_partial; the unconditional statement is "
                      "false: C08_defaults_full_counterexample), an include never replaces the root's output style (C08_output_kept). "
                      "Tie: generated include trees loaded through Executor.Setup, merged table, global vars, error class and a "
                      "CompiledTask probe compared with the model's load; trees with ':'-references are also compared with the "
                      "independent root-reference monitor load.refs.",
        "level_note": "Trusted: Lean kernel; harness serialiser/decoder (round-trip checked per case); id order = location order. "
                      "The two former ':'-reference findings (depth >= 2, flatten) are fixed by F32; duplicate keys, dropped file-level defaults "
                      "and the overriding output style by fixes/l8 0001, 0004-0006 (05e13c6, -4, -5, -6); witnesses are in the corpus.",
    },
    "C09": {
        "lean": "Props.C09",
        "domains": [{"name": "loadrep"}, {"name": "loaddeep"}, {"name": "dotenvchain"}],
        "trusted": ["repeated loads in one process exercise the Go runtime's map iteration orders and goroutine schedules "
                    "(25/40 loads quick, 100/200 thorough per tree); the theorem, not the sample, covers all orders",
                    "extract/load.go finds map ranges syntactically (identifiers/fields/calls whose map type is declared in "
                    "the scanned packages, plus PredecessorMap/AdjacencyMap/godotenv)"],
        "assumptions": ["compile-time determinism (templating, sh: variables) is outside the Load model: the Gen.NondetSites "
                        "classification covers compiler.go / variables.go, and the values of global dotenv entries that refer to each "
                        "other are modelled (Vars.Dotenv) and compared on repeated loads (domain dotenvchain)",
                        "C09_partial is proved for the sibling includes of one parent (any permutation), not for arbitrary "
                        "topological orders of arbitrary graphs"],
        "level_text": "Full statement (every topological order and per-edge order give the same merged Taskfile) is refuted by "
                      "machine-checked counterexamples (C09_sigma_counterexample, C09_eps_counterexample: rows 13, 13b). For the "
                      "canonical schedule of the fixed code (stable sort by key, edge data in declaration order, parents in key "
                      "order) theorem C09: the result is invariant under every permutation of the vertex and edge enumerations; "
                      "all_sites_classified over the regenerated Gen.NondetSites; edges_in_declaration_order over Gen.Load; "
                      "C09_dotenv_order_indep: the templated values of a global dotenv file (variables and command environment) are the same for "
                      "every order in which godotenv's map hands out the entries (dotenv_sites_sorted pins the sorted loops). "
                      "C09_read_error_schedule_indep: with several files in error, whatever the concurrent read met first in time, Reader.Read "
                      "returns the outcome of the sequential read in declaration order, error included (firstError_eq: the walk over the "
                      "recorded results reports exactly the error of the model's visit; first_error_walk_in_source and "
                      "Sites.readErrorIsCanonical pin the walk, the records and Read's error branch; every errgroup whose error is used on the "
                      "load path is a classified site). Tie: every generated tree is loaded repeatedly in one process; all dumps must coincide "
                      "and equal the model; 30 % of the trees carry two or three load errors of different kinds (siblings, nested, a file "
                      "reached along two paths).",
        "level_note": "Trusted: Lean kernel; extractor's syntactic map typing; harness. Sampled: runtime schedules (the theorem "
                      "quantifies over all of them for the canonical schedule).",
    },
    "C15": {
        "lean": "Props.C15",
        "domains": [{"name": "resolve"}, {"name": "loadresolve"}, {"name": "resolverun"}, {"name": "suggest"}],
        "trusted": ["Go regexp's leftmost-first semantics for `(?s)^lit(.*)lit…$` is what Resolve.Glob mirrors; "
                    "sajari/fuzzy's RANKING is not modelled: Resolve.Suggest.classify is an oracle over proved edit distances "
                    "(exactly one / several words of >= 4 characters within two edits => that word / one of them; nothing within three "
                    "edits or a request more than two characters longer than every word => none), read off the library's three lookup "
                    "steps and valid for the generator's alphabet (lower-case ASCII without s / y)"],
        "assumptions": ["names are valid UTF-8; resolution table built in memory through ast.Tasks.Set"],
        "level_text": "Theorems (all names, patterns, tables): matcher soundness/completeness/greediness, only '*' special, "
                      "exact > first wildcard in table order > unique alias, ambiguity = 203, unknown = 200. Tie: ast.Task.WildcardMatch and "
                      "Executor.GetTask are run on generated tables over an alphabet with regexp metacharacters and must equal the model. "
                      "Second tie (loadresolve): the tables that includes produce — generated include trees (nesting, flatten, namespace aliases, "
                      "task aliases, default tasks, excludes) are loaded by the real executor and asked for names along every namespace / alias path "
                      "plus near misses; GetTask's answer must equal Resolve.resolve applied to the Load model's merged table; the files carry overlapping wildcard "
                      "task names in root, included and flattened files (C15_parent_first + C15_parent_first_load: the root file's tasks are a "
                      "prefix of every loaded table, so its patterns win), requests instantiate them and the rendered {{.MATCH}} of a compiled "
                      "command is compared. The matcher theorems hold for ALL strings (newline included, since (?s): C15_match_complete, "
                      "C15_match_iff) and greediness for every group (C15_match_greedy). Third tie (resolverun): Executor.Run on Taskfiles in "
                      "which other tasks do not fast-compile: the first request that does not resolve decides the error and nothing runs "
                      "(C15_unknown_nothing_runs, run_unknown_in_source). Fourth tie (suggest): DidYouMean after a real Setup is judged by the "
                      "edit-distance oracle (C15_suggestion_closest, C15_suggestion_one_of_the_close, C15_no_suggestion_when_far; "
                      "EditDist.lev_le_iff; suggestions_in_source).",
        "level_note": "Trusted: Lean kernel; harness canonicalisation; Go regexp semantics for the quoted pattern; the suggestion oracle (which class demands what) — the ranking among several close names is not modelled.",
    },
    "C07": {
        "lean": "Props.C07",
        "domains": [{"name": "sched"}],
        "trusted": ["the verif-tagged event-log hooks in /repo record acquire-type events after the slot is really taken and release-type "
                    "events before it is really given back, so the slot count read off the log never exceeds the real one"],
        "assumptions": ["commands are shell builtins (`exit N`); the Go scheduler is perturbed by seeded delays at hook points, not controlled"],
        "level_text": "Theorems over every trace the executor LTS accepts (all programs, flags, interleavings): slots in use = number of activations "
                      "holding one <= N, shell commands run only while holding a slot (C07_bound, C07_tokens_are_holders, raw monitors boundOk/holdMon); "
                      "a dependency may enter as soon as its parent waits, acquire waits only for a free slot; for EVERY program (cyclic or not, through "
                      "deduplicated tasks or not; no assumption on dedup keys): the wait-for relation between unfinished executions is acyclic in every "
                      "reachable configuration (C07_wait_acyclic; the executor's check is exact, C07_waitsFor_exact), no reachable configuration "
                      "deadlocks (C07_no_deadlock), every trace is bounded (C07_terminates_all), a quiescent configuration is final (C07_completes); "
                      "fewer than MaximumTaskCall activations of a task pass the counter, the others return 204, and so does a reference whose wait "
                      "would close a cycle through a run: once / when_changed task (C07_cycle_error, C07_cycle_error_dedup; 201 wrapping through task: "
                      "calls). The call limit counts references, not depth: an ACYCLIC program that refers to one task 1000 times ends with 204 — the model "
                      "mirrors the code, the full statement is refuted (C07_acyclic_no_204_counterexample), what holds is C07_no_204_if_refs_lt_max, the "
                      "monitor callLimitMon (verdict C07a) prints the open finding C07-call-limit-hits-acyclic-graphs on the many-refs stream. A returned "
                      "activation that passed its guards and recorded no failure has done all its work (C07_all_work_done). "
                      "The hang of the rule before the fix is kept as a fact about that rule only (C07_old_rule_deadlock). Tie: event log of the "
                      "real executor replayed through the same `replay` (a log that ends without a result is never accepted), boundOk evaluated on the "
                      "raw log; the placement of the wait-for bookkeeping and of the waitCycle hook inside the dedup critical section, and the context "
                      "of deferred commands, pinned by SchedTie; a stream of reference cycles through deduplicated tasks (ring, several top-level calls "
                      "under --parallel, deferred call) on every run; "
                      "MaximumTaskCall / `>=` / code 204 from Gen.Codes.",
        "level_note": "Trusted: Lean kernel; hook placement; harness rendering of abstract programs; liveness is a theorem about the model, the harness "
                      "only observes that sampled runs finish.",
    },
    "C13": {
        "lean": "Props.C13",
        "domains": [{"name": "sched"}],
        "trusted": ["the verif-tagged event-log hooks in /repo (verifhook.Ev calls in task.go); guard outcomes of the generated Taskfile are what the "
                    "generator says (a wrong rendering shows up as a rejected trace)"],
        "assumptions": ["guard outcomes are data of the abstract program (platform, requires, compiles, enum, precondition, prompt)"],
        "level_text": "Theorems over every step and every accepted trace, all flags incl. --force/--force-all/--yes: platform/requires/compilation/enum decided at "
                      "enter in that order — the order RunTask asks them, pinned by SchedTie.runTask_skeleton — the first failing guard alone deciding "
                      "(ok/206/plain error/207, no slot, no command, not counted as a call: C13_early_classes, C13_guard_order); a task excluded by platforms: "
                      "is skipped with success whatever its other guards would say (C13_platform_skip_first); failed precondition => only precondFail (generic) or ctxErr; prompt "
                      "without --yes => guardsPassed rejected, 205; an activation of a guarded task never starts a command (C13_no_cmd: guardedNoCmd, "
                      "noCmdMon); a failed precondition gives an error result (C13_precond_fails, waiters excepted); 202 for internal tasks before any event; "
                      "errors propagate through deps and task: calls (201 wrapping for direct callers). Codes tied to Gen.Codes. Tie: event log replay + "
                      "guardedNoCmd on the raw log.",
        "level_note": "Trusted: Lean kernel; hook placement; harness rendering of guards.",
    },
    "C14": {
        "lean": "Props.C14",
        "domains": [{"name": "sched"}],
        "trusted": ["the verif-tagged event-log hooks in /repo (verifhook.Ev calls in task.go) record each action at the point documented in "
                    "verifhook/hook_on.go — their order relative to the actions they report is regenerated into Gen.Phases and checked by the "
                    "theorems of Props.SchedTie, what remains trusted is that the hook writes the line it is given; guard outcomes / exit codes of the generated Taskfile are what the generator says (a wrong rendering "
                    "shows up as a rejected trace, i.e. an alarm, not silently)"],
        "assumptions": ["commands are shell builtins (`exit N`); the Go scheduler is perturbed by seeded delays at hook points, not controlled"],
        "level_text": "Theorems over every trace the executor LTS accepts (all programs, flags, failing positions, interleavings, cancellations): deferred "
                      "entries start in strictly decreasing index order (reverse registration order, none twice); when an activation has finished its "
                      "deferred part it has run exactly the registered entries reversed; deferred results never change the task's result or EXIT_CODE; "
                      "EXIT_CODE seen = status of the failing command — by deferred commands and, through `vars: {V: '{{.EXIT_CODE}}'}`, by the callees of deferred "
                      "task: entries (C14_deferred_call_sees_exit_code; value monitor, verdict C02v); what ran is the list of defer: entries of the PROGRAM below "
                      "the point the body reached, reversed — all of them when the body ran to its end (C14_regs_are_program, C14_all_run_complete). Tie: the event log of the real executor (verif hooks) for generated task graphs "
                      "is replayed through the same `replay`; every log must be accepted and pass the same monitors.",
        "level_note": "Trusted: Lean kernel; hook placement; harness rendering of abstract programs; schedule coverage is whatever seeded jitter reaches "
                      "(the theorem, not the sampling, covers all interleavings of the model).",
    },
    "C17": {
        "lean": "Props.C17",
        "domains": [{"name": "output"}, {"name": "outputexec", "timeout": 3000}],
        "trusted": ["each Write call on the shared sink is atomic (one recording sink object in the harness; for a terminal or pipe: one write(2) "
                    "call not larger than the pipe capacity); harness sink, goroutine scheduling and hex canonicalisation; concurrent harness cases "
                    "use distinct prefixes / begin markers / writer-specific letters so that the acceptor's search stays small (the acceptor itself is "
                    "exact: interleaves_iff)"],
        "assumptions": ["one output style per run (the style is a global Taskfile setting); "
                        "C-C17-own-stderr: Task's own log lines go to file descriptor 2 and command output to file descriptor 1 - when both are one "
                        "terminal or pipe (2>&1) the kernel orders whole write calls but may split one larger than the pipe capacity, so a log line "
                        "can then land inside a group block or prefixed line larger than that; the model has ONE sink whose Write is atomic (the "
                        "executor-level stream gives the Executor one sink object for both, where log lines are raw writes among the wrapped ones); "
                        "a raw writer (interactive: true, Task's log lines) is not line-buffered by Task: its own lines can be cut by whole prefixed lines"],
        "level_text": "Theorems for every byte string, chunking and interleaving: the prefixed writer emits exactly the lines of the concatenated input "
                      "(chunking-invariant, last partial line newline-terminated at close; C17_prefixed_bytes: the lines concatenate to the input exactly "
                      "when it is empty or ends in a newline, else to input plus one newline; each line whole); the group writer emits one write "
                      "begin++bytes++end iff output is non-empty and (not error_only or failed). Several producers of ONE command (stdout / stderr of a "
                      "pipeline's stages, background jobs) - Write and close hold the writer's own mutex, so each is one step: for EVERY interleaving of "
                      "the producers' chunk sequences the lines / the block are those of the interleaved stream, which consists of exactly the "
                      "producers' chunks, each producer's in order (C17_multi_producer_prefixed/_group). Composition down to the bytes of the shared "
                      "stream (C17_compose_project/_prefixed/_group/_group_silent, C17_thread_project): in any interleaving of the writes of any mix of "
                      "prefixed, group and raw writers the writes of writer i are exactly (linesOf input_i).map (lineBlock prefix_i), resp. its one "
                      "block, which lies contiguously in the byte stream with nothing of writer i outside it. The driver's acceptors are the model's: "
                      "accepts / acceptsThreads are exact for Shuffle (C17_accepts_sound, _complete), acceptsGW is exact for 'some interleaving of the producers' chunks' (C17_acceptsGW_sound / _complete), acceptsPW is sound (C17_acceptsPW_sound; its search prunes by the buffered beginning of the next line). Tie: Gen.Output "
                      "(lock first in Write / close of both writers, the mutex is a field of the writer, who touches the buffers, ONE sink write in "
                      "writeLine and groupWriter.close, runCommand: wrap, run, close(runErr) once and unconditionally) + the real internal/output writers "
                      "driven with the same chunkings: single, several producer goroutines on one writer, concurrent writers with raw writers in "
                      "between, compared write by write + the real Executor (domain outputexec: group / prefixed, parallel deps, ignore_error, a failing "
                      "last command, a command killed by cancellation under error_only, templated prefix / begin / end, interactive tasks, blocks over "
                      "64 KiB, stdout and stderr one recording sink).",
        "level_note": "Trusted: Lean kernel; atomicity of a single Write on the shared stream; harness sink and canonicalisation.",
    },
    "C20": {
        "lean": "Props.C20",
        "domains": [{"name": "remote", "timeout": 3000}],
        "cli": True,
        "trusted": ["the harness's loopback servers (plain http and TLS with a certificate generated per run and handed to the binary as "
                    "SSL_CERT_FILE; per-URL behaviour; a listener that never answers for the git node), pseudo-terminal (typed-ahead "
                    "answer; for chains and trees a responder that answers each prompt by the URL it names), cache-file normalisation "
                    "and the simulated damage / torn states (files written directly; the failure of the last cache write is REAL: the "
                    "binary runs under a 512-byte file-size limit) (harness/remote.go); "
                    "SHA-256 collision resistance turns 'approved checksum' into 'approved content' (sha is uninterpreted in the model); "
                    "net/http fails a request at once when its context's deadline has passed (Chain.net2: observed on every chain case "
                    "in which node 1 stalls, not derived) and applies the client's CheckRedirect to every hop (observed on the TLS URL); "
                    "cache keys are injective in the URL up to SHA-256 collisions (Tie.remote_cacheKey_ok pins that the whole location "
                    "string is hashed; the model indexes cache entries by abstract URL ids); "
                    "git nodes are exercised only against a server that never answers (no git server offline): their cache, prompt and "
                    "content path is the shared readRemoteNodeContent (Tie.remote_readNodeContent_ok), their clone itself is go-git's"],
        "assumptions": ["per invocation a tree of remote Taskfiles in which no URL is reached along two paths (a diamond is read once by the "
                        "code and once per path by the model); the chain theorems are for chains of two, the tree theorems (trust, frame, "
                        "all-or-nothing) for any depth and any number of sibling includes; http(s) nodes (git: see trusted)",
                        "shared deadline: only a fetch that stalls past --timeout uses up the invocation's time budget, and only for the "
                        "nodes below it (siblings are read concurrently); cache reads, refused connections, HTTP errors, downloads and "
                        "(typed-ahead / immediately answered) prompts take no time, and a 'patient' --timeout (10s) exceeds the summed "
                        "delays of the slow servers of one invocation",
                        "the checksum file is written by Task only (the .yaml may be replaced, truncated or removed by anything, an "
                        "invocation may be killed between any two of its cache writes: both are events of the histories the theorems "
                        "quantify over)",
                        "the wall clock is monotone and an invocation takes less than the 1h expiry used"],
        "level_text": "Theorems (every state, hence all histories of invocations x server states x answers x crashes between the cache "
                      "writes x damage to cached copies; any checksum function): content is handed on for execution only with the "
                      "stored checksum - a cached copy is used only if its recomputed checksum is the stored one (usable; fix R8-3), so "
                      "no invariant between the cache files is needed any more (C20_trust, TrustStep in every state) -, and the stored "
                      "checksum was put there by an invocation, complete or killed, in which a prompt for exactly that checksum was "
                      "accepted or passed by --yes (ApprovedNow, C20_sum_approved, end to end: C20_trust_history; the rule without the "
                      "recheck: C20_trust_norecheck_counterexample; an invocation whose .yaml write fails IS crash+damage: stateL_expand, "
                      "C20_trust_limited); unapproved new/changed content = 104, trace empty, cache untouched; "
                      "plain http without --insecure = 105 before any cache or network access, and EVERY hop of a chain of redirects is "
                      "https unless --insecure (C20_http_hops; a refused hop gives no content: C20_http_hop_refused; fix R8-1); "
                      "--offline and any failed fetch (refused, HTTP error, refused redirect, timeout) run the usable cached copy "
                      "(repaired rule F16; the rule as written is shown not to). CHAINS (Remote.Chain: remote A includes remote B, own "
                      "cache entry, trust state, server and answer each, ONE --timeout deadline): C20_chain_trust, "
                      "C20_chain_offline / _offline_no_network, C20_chain_available / _node2 / _deadline, C20_chain_extends - with the "
                      "include resolved against the location STORED with A's copy (inc : Content -> Url -> Option Url, baseOf; fix R8-2): "
                      "C20_chain_same_nodes (what ran online as A+B runs as the same A+B from the cache - offline or with both servers "
                      "down -, also when A is a directory-style URL found under a default name and B a relative include). TREES "
                      "(Remote.Tree: any number of sibling includes, any depth): C20_tree_trust (every node that ran has the checksum "
                      "stored for its URL, approved before or by that node's own passed prompt), C20_tree_frame, "
                      "C20_tree_error_runs_nothing (one failing node anywhere = nothing executed). Tie: regenerated control skeletons of "
                      "readRemoteNodeContent and 20 neighbouring functions must equal the ones the model mirrors - incl. RemoteExists "
                      "(default-name probe: only the status of a default name is looked at; ctx.Err() after every request, fix R8-6), "
                      "HTTPNode.client (CheckRedirect), httpDoers / httpDefaultClientUses (every request of package taskfile goes through "
                      "that client, nothing mentions http.DefaultClient), readContextUses (every node's ReadContext uses its context: "
                      "the git node clones with CloneContext, fix R8-4), newGitNode (http AND git:// refused without --insecure, fix "
                      "R8-5), the location writers/readers - plus cacheBeforeCtx, ctxFlow, ctxMakers, cacheKey / httpLocation / "
                      "cacheFilePath / checksumFn / httpResolveEntrypoint; local variables in all these facts are scope-resolved "
                      "placeholders. The harness runs the real binary against loopback servers (http, TLS, black hole) over generated "
                      "sequences - ten URLs incl. query / case / slash variants, a TLS URL that redirects to http or https, a directory "
                      "URL with three default names and its relative include, damaged and torn cache entries, chains, sibling includes "
                      "and chains of three, a git node whose server never answers - and must equal Remote.invoke / Chain.invokeChain / "
                      "Tree.invokeTree step by step (exit code, trace of versions run, cache files and stored location of every URL), with "
                      "a direct trust monitor for every node.",
        "level_note": "Trusted: Lean kernel; harness servers/pty/normalisation; extractor. Not modelled: the git clone itself, diamonds "
                      "(a Taskfile included along two paths), time spent at a prompt counting against --timeout, caches written before "
                      "the .location file existed when the GET (not the probe) fails.",
    },
    "C19": {
        "lean": "Props.C19",
        "domains": [{"name": "quote"}, {"name": "cliargs"}],
        "cli": True,
        "trusted": ["mvdan.cc/sh's lexer + quote removal (shell.Fields, and the interpreter that runs task commands) is the shell: "
                    "the model's `words` is compared with it on generated command lines of the quoted sub-language, not derived from it",
                    "unicode.IsPrint is read from the toolchain's tables (TaskModel.Gen.QuoteTab.printRanges, regenerated on every run)"],
        "assumptions": ["arguments contain no NUL byte (the OS cannot pass one; syntax.Quote rejects it, modelled)",
                        "the command line handed to the shell consists of the quoted forms separated by single spaces, as "
                        "`REC {{.CLI_ARGS}}` / `REC {{shellQuote .X}}` produce; a shell other than mvdan.cc/sh (bash) decodes \\uXXXX "
                        "according to its locale",
                        "--init: unix paths; names containing .ROOT_DIR/.TASKFILE_DIR/.USER_WORKING_DIR (treated as absolute by "
                        "filepathext.IsAbs) are outside the modelled domain"],
        "level_text": "Theorems (all argument vectors of NUL-free byte strings, any bytes 0x01-0xFF incl. invalid UTF-8, any length and count): "
                      "words(join(map quote args)) = args, i.e. every forwarded argument arrives as exactly one identical argument; the same for a "
                      "single shellQuote'd value; splitVar splits at the first '=' only; args.Parse keeps order and last assignment; --init writes "
                      "at the path computed from the first positional argument and never over an existing entry. Tie: syntax.Quote, shell.Fields, "
                      "args.Parse/Get run in process against the model on generated byte strings (exact equality), and the real CLI end to end with "
                      "an argv-recording helper for {{.CLI_ARGS}}, {{shellQuote .X}}, {{q .X}} — directly, through an included task, through a task: call "
                      "handing the value on in vars:, through a global alias, and for non-string values — and task --init on generated trees, where the "
                      "expected target is computed by the generator from the rule (directory -> dir/Taskfile.yml, .ext -> Taskfile.ext, file -> that file, "
                      "never overwrite) and the model must agree with it.",
        "level_note": "Trusted: Lean kernel; harness canonicalisation; mvdan.cc/sh as the shell (oracle for `words`); unicode tables of the Go toolchain. "
                      "Open findings: forwarded values that contain a template action are evaluated by the template engine (DESIGN §8 row 26); the literal "
                      "<no value> is deleted; a global variable defined from a forwarded value is empty (C19-forwarded-value-empty-in-global-alias).",
    },
    "C04": {
        "lean": "Props.C04",
        "domains": [{"name": "fingerhist-c04"}],
        "cli": True,
        "trusted": ["the hashes (xxh3-128 of the stream, xxh3-64 of its length table) are uninterpreted: theorems speak of the bytes fed to them; the "
                    "harness checks that every stored checksum is xxh3 of the model's stream followed by xxh3 of the model's length table; what one glob "
                    "pattern matches (mvdan/sh expansion) is an oracle",
                    "the harness's copy of the goodRun monitor is tied to the Lean definition by comparing its verdict (g=) on every step"],
        "assumptions": ["status: commands are `test -f`, commands only write their declared files and append to a trace; no deps "
                        "(except the parent / failing-sibling pair that renders a run cancelled between check and first command), "
                        "no preconditions; sub-task calls only in the form `task: helper` where the helper has one `test -f` precondition and one command "
                        "(a call that fails before anything runs, also under --dry); sources readable; explicit whole-second mtimes; every sources pattern matches "
                        "below the task directory (no `..`), so the name hashed with a file (its path relative to t.Dir) is its root-relative "
                        "path without the `dir/` prefix"],
        "level_text": "Theorems over TaskModel.Finger.invoke (mirror of RunTask / IsTaskUpToDate / Checksum- and TimestampChecker, the latter as "
                      "patched by TS1-TS3 and fix M, state file names as by fix N and fix F8A): C04_partial (method checksum, NO hypothesis beyond pairwise "
                      "distinct task names, which every Taskfile has - names that merely normalise alike have distinct state files, stateKey_inj; "
                      "tasks with equal labels, or a label equal to another task's name, have distinct checksum files, sumKey_inj: the file is a "
                      "function of the pair (task name, label) -, histories of any length made of "
                      "successful runs, runs failing in the command loop, runs cancelled at the prompt, runs cancelled by a failing sibling between the "
                      "up-to-date check and the first command (Env.cancelled; C04_sibling_cancelled_no_entry), runs whose up-to-date check returns an error "
                      "(an unexpandable generates entry: checkErr, C04_check_error_leaves_nothing, F8D), --dry, --status, --force, list/summary "
                      "queries and arbitrary file edits: skip implies goodRun), C04_partial_timestamp_general (the same histories for ANY "
                      "method-timestamp task, distinct task names, non-decreasing clock: skip implies goodRun or a generates file newer than the "
                      "marker vouched; C04_partial_timestamp: plain goodRun without positive generates pattern), C04_prompt_declined_no_entry / "
                      "_next_runs and C04_timestamp_declined_no_marker / _failed_no_marker / _no_marker_next_runs (a declined prompt or a failed "
                      "run leaves no checksum entry / no marker; the next run is not skipped unless a generates file vouches), "
                      "C04_timestamp_uptodate_check_pure / _checks_pure / _edit_after_checks_detected (a check ending in 'up to date' changes "
                      "nothing - no marker moved, none created -, so a source written after the last run is rebuilt however many checks lay in "
                      "between), "
                      "C04_timestamp_skip_generates_exist, C04_partial_src (the same conclusion in terms of the names and contents of the sources - ghost "
                      "Attempt.src, goodRunSrc - under an explicit no-collision hypothesis; C04_constant_hash_vacuous shows why), C04_partial_queries (--status / --dry / --list --json verdicts are as sound as a run: the verdict is "
                      "mode-independent), and decide-checked counterexamples to C04_full over the patched model (a second activation of the task in one "
                      "invocation reported up to date while the first still runs: C04_counterexample_concurrent / C04_concurrent_root; kill for both "
                      "methods, method timestamp: never ran / failed run / generates "
                      "rewritten by others - one root: a generates file as new as the sources vouches on its own). Tie: Gen.DryWiring / "
                      "Gen.FingerOrder tables (incl. the definitions of the timestamp verdict variables, the touchMarker closure, "
                      "stateFilename and checksumFilename) proved equal to the skeleton the "
                      "model was written against; random histories through the real CLI binary compared step by step (exit class, commands run, "
                      "tree incl. .task) with the model; the property monitor skip⇒goodRun evaluated on the real observations.",
        "level_note": "Trusted: Lean kernel; harness canonicalisation (mtimes rebased to a logical clock; state file names mapped back by recomputing "
                      "xxh3 of the generated names and (name, label) pairs); hashes uninterpreted (the 64-bit name hashes of stateFilename / "
                      "checksumFilename idealised as injective); glob "
                      "expansion is an oracle.",
    },
    "C05": {
        "lean": "Props.C05",
        "domains": [{"name": "globs"}, {"name": "fingerhist-c05"}],
        "cli": True,
        "trusted": ["mvdan/sh glob semantics is an oracle (per-pattern match sets come from the real expander run on that pattern alone)",
                    "hashes uninterpreted; fingerprint inequality needs the explicit hypothesis FpInj (no collision) on the two (stream, length table) "
                    "pairs involved"],
        "assumptions": ["as C04; timestamp idempotence under the side conditions 'no source newer than the last run', 'the generates exist' and "
                        "(since TS2 touches the marker only when the timestamp check itself asks for the run) 'the status commands did not fail "
                        "before that run'"],
        "level_text": "Theorems: C05_globs (for every pattern list and file set: p ∈ Globs ⇔ the last pattern matching p is positive; result strictly "
                      "sorted), C05_idem (both methods; also for a run whose only failures were swallowed by ignore_error: C05_ignored_failure_ok, F8C), "
                      "C05_idem_checksum_after_force (a forced run records the fingerprint like any other, F8F), C05_match_independent (whether a path is a source does not depend on other files: a field of a pattern that cannot be stat'ed is "
                      "skipped, F8E), C05_force, C05_missing_generates (both methods since TS1), C05_status_fails, C05_detect_full_inj (FULL "
                      "detection since fix F8B: the byte stream - names and contents back to back - together with the length table - the length of every "
                      "name and content, 8 bytes each, fed to a second hash - is an injective encoding of the list of (name, content), stream_lenTable_inj; "
                      "so for every project with injective names, i.e. every project since F8, different lists of (path, content) of the matched files give "
                      "a different stream or a different length table: any edit, addition, removal, rename or move and any combination of them) and "
                      "C05_detect_full_rerun (hence, under FpInj, the task reruns), C05_undelimited_fixed / C05_undelimited_two_files_fixed (the former "
                      "counterexamples: file ab=c against file a=bc, a byte moving between a content and the next file's name), "
                      "C05_counterexample_undelimited_historical / C05_stream_alone_not_injective (the stream alone, all that was hashed before the fix), "
                      "C05_detect_checksum / C05_detect_partial (edit/add/remove change the stream itself), C05_detect_move / C05_detect_move_op (the hashed "
                      "name is the path relative to the task dir, injective on matched paths), C05_mtime, "
                      "C05_idem_timestamp_status_counterexample (timestamp idempotence without the status side condition). Tie: "
                      "fingerprint.Globs run in-process on random trees and glob/exclude lists; Gen.FingerOrder incl. checksumFeed (what is fed to which "
                      "hasher, in which order); CLI histories with file operations between runs, incl. a directed stream of boundary-shift pairs (a rename "
                      "plus an edit that moves bytes between a name and the neighbouring content); the monitor 'skipped although the commands were never "
                      "attempted on the present list of (path, content)' on the real observations.",
        "level_note": "Trusted: Lean kernel; harness; glob expansion oracle; hashes uninterpreted (FpInj explicit). Open finding: method timestamp "
                      "notices only a source newer than the newest generates file / marker (C05_detect_timestamp_partial); removal, rename, addition with "
                      "an old mtime and edit with restored mtime go unnoticed (C05_timestamp_*_undetected, C05-timestamp-misses-non-mtime-changes).",
    },
    "C12": {
        "lean": "Props.C12",
        "domains": [{"name": "fingerhist-c12"}],
        "cli": True,
        "trusted": ["status:/sh: commands are assumed side-effect free (they do run in query modes by design)"],
        "assumptions": ["as C04; remote includes (cache writes: the four CacheNode writers of Gen.WriteSites, class remoteCache) are outside the model"],
        "level_text": "write_sites_reviewed: every os call of the module that creates, changes or removes something in the file system "
                      "(regenerated typed table Gen.WriteSites with the conditions each writer and each call site of its function sits under) is "
                      "dry-guarded, guarded at every call site, part of a non-query action or the remote cache - the model's writers are all the writers. "
                      "Theorems: C12_full (every read-only invocation --dry/--status/--list[-all] [--json]/--summary leaves the state unchanged and runs "
                      "no command - histories may contain `task:` calls whose precondition fails, the one thing that fails under --dry), "
                      "C12_marker_untouched / C12_dry_body_no_onError / C12_dry_failing_call (a failing call under --dry exits `failed` and changes "
                      "nothing: checker.OnError sits under !(e.Dry), onError_unreachable_when_dry, TS4; C12_dry_onError_counterexample for the "
                      "rule before the fix) and C12_continuation "
                      "(H;R;K ≈ H;K for all histories) for the model with the dry wiring proved equal to the "
                      "extracted Gen.DryWiring table; counterexamples for the wiring as found (F7, F11, TS4). Tie: snapshot of the tree before/after every "
                      "read-only CLI invocation in random histories, and the same history re-run without its read-only steps.",
        "level_note": "Trusted: Lean kernel; harness snapshot (names, contents, logical mtimes; directories' own mtimes ignored).",
    },
}


_SCHED_TRUSTED = PROPS["C14"]["trusted"]
_SCHED_ASSUME = PROPS["C14"]["assumptions"]
_SCHED_NOTE = PROPS["C14"]["level_note"]
_SCHED_TIE = (" Tie: the event log the real executor writes through the verif hooks, for generated task graphs under seeded schedule perturbation, "
              "is replayed through the same `replay`; every log must be accepted and pass the property's raw-trace monitor.")


def _sched(pid, text):
    PROPS[pid] = {"lean": "Props." + pid, "domains": [{"name": "sched"}], "trusted": _SCHED_TRUSTED, "assumptions": _SCHED_ASSUME,
                  "level_text": text + _SCHED_TIE, "level_note": _SCHED_NOTE}


_sched("C01", "Theorems over every accepted trace of the executor LTS (all programs, flags, interleavings): when a command of an activation starts, every "
              "dependency activation has entered, exited and returned ok (C01_deps_done_ok, C01_cmd_start); a dependency served by a dedup waiter "
              "returned only after the one registered execution finished, with that execution's result (C01_shared, C01_shared_dep); the raw monitors "
              "wakeAfterDone / depsExitedBefore hold on every accepted trace. The log's dedup keys are numbered per (task, hash): an execution is shared "
              "by references of one task only, so a dependency 'served' by the execution of a different task is a rejected log.")
_sched("C06", "Theorems over every accepted trace: a dedup key is registered at most once and held by exactly one activation; only the registering "
              "activation runs a body, every other activation meeting the key becomes a waiter that never starts a command and returns the execution's "
              "outcome after it finished; which key a reference gets — one per run: once task, one per (when_changed task, value), never shared by two tasks — "
              "is the monitor keyMon evaluated on every log (verdict C06k; C06_key_discipline, C06_key_owner: the acceptor alone accepts fresh keys); beyond "
              "the call limit the 1000th reference of a run: once task fails instead of waiting (open finding C06-call-limit-hits-many-references); also when that one execution was cut short by a cancellation local to the caller that started it (stream "
              "cut-short); run: always never dedups. Key half (Props.C06Key): with a hash that reaches every part of the compiled task two "
              "references of a when_changed task get the same key iff they are called with the same set of variable values, so for every arrival order "
              "the executions are exactly one per distinct set (whenChanged_exact, _order_indep); once executes the first reference only, always every "
              "reference; that the code's hash reaches the resolved variables, command texts, env: and the vars: of sub-calls and dependencies is the "
              "obligation hash_reaches_all / no_opaque_field / key_functions over the regenerated Gen.HashFields (typed extractor: exported fields, "
              "Hashable types, GetHash's mode table).")
PROPS["C06"]["domains"].append({"name": "wc"})
PROPS["C06"]["prop_modules"] = ["Props.C06", "Props.C06Key"]
PROPS["C06"]["trusted"] = PROPS["C06"]["trusted"] + [
    "the 64-bit structural hash is idealised as injective on what it reaches (a collision is outside the model); that (*ast.Vars).Hash covers every "
    "entry is checked by the wc correspondence (generated references whose values reach only env:, only a sub-call, only a dependency, or nothing), "
    "not by a theorem"]
PROPS["C06"]["level_text"] += (" Second tie (domain wc): generated Taskfiles reference one deduplicated task from dependencies and commands, directly, "
                               "through pass-through tasks and through an include, with generated sets of variable values; the sorted lines printed by "
                               "the executions must equal the model's executions under the full hash.")


PROPS["C10"] = {
    "lean": "Props.C10", "domains": [{"name": "vars", "env": {"VERIF_VARS_ENVDEP": "0"}}, {"name": "varscli"}], "cli": True,
    "trusted": ["the shell is an input of the model (theorems hold for every shell); the harness hands the model the Taskfiles AS IT WROTE THEM (root / included / "
                "nested file vars, include statements' vars, call and task vars, names, raw dirs, file locations) — the merges of Taskfile.Merge, the read-time "
                "templating of include vars, the special variables, MATCH and the POST layer are definitions of the model (Vars.Compile), not harness input; it "
                "emits only the template forms its generator knows; fingerprint values are canonicalised to LIVE (who wins is compared, not the hash)"],
    "assumptions": ["templates are concatenations of text and {{.NAME}} references; values are strings (an env entry given by a ref: that resolves to nothing is outside "
                    "the modelled domain); one include chain (sibling includes are the Load domain's); dir: templates without .ROOT_DIR/.TASKFILE_DIR/.USER_WORKING_DIR; "
                    "the env-precedence experiment is exercised through the CLI binary (TASK_X_ENV_PRECEDENCE=1), its guard is pinned by Gen.VarLayers"],
    "level_text": "Theorems for every set of definitions at every site, every value kind and every shell: the model's six sites are the code's six loops by name "
                  "(docOrder_matches); the last definition of a name in processing order wins and is evaluated over exactly what the sites below it and the "
                  "definitions before it resolved, in the directory of that site at that moment (C10_last_wins, no existential); special variables are a "
                  "definition (special), available when no site defines them and overridden by any site (C10_special_available/_overridden) except for the POST "
                  "layer CHECKSUM/TIMESTAMP (counterexample + partial: open finding); the global layer is the root file's vars with every included file's merged in "
                  "(later wins, position kept) and the command-line layer appended: a root task sees an included file's value (C10_root_task_sees_included_global), a "
                  "declared global sees a NAME=value assignment iff the name stands before it in the merged layer (C10_cli_ref_iff; CLI_* likewise: open finding); "
                  "command environment over the real pipeline: task env > task dotenv (first file wins) > global env, each rendered over the task's final "
                  "variables, process environment wins unless the experiment (C10_env_pipeline). Tie: Gen.VarLayers (loop order, task-dir closure, special-variable "
                  "table, POST layer, MATCH, cmd/task's merge, env merges, GetFromVars guard); the real CompiledTask / the real CLI on generated definition-site "
                  "lattices must equal the model computed from the files as written.",
    "level_note": "Trusted: Lean kernel; extractor; harness rendering of the Taskfiles it describes to the model; go-task/template for the restricted template forms. "
                  "Open: C10-cli-specials-defined-after-globals, C10-fingerprint-vars-override-user-definition.",
}
PROPS["C11"] = {
    "lean": "Props.C11", "domains": [{"name": "vars", "env": {"VERIF_VARS_POSTMON": "0"}}],
    "trusted": PROPS["C10"]["trusted"] + ["the file-system stream tracks the world itself (which file holds what when a call starts, what the first read of a "
                                          "(directory, command) pair was) to evaluate the property's monitor"],
    "assumptions": PROPS["C10"]["assumptions"] + ["C11 is proved under EnvIndep (an sh: command's output depends on its text and directory only) and, over the file "
                                                   "system, for histories whose command effects are invisible to the sh: commands; without these the statement is false "
                                                   "(machine-checked counterexamples; open findings C11-dynamic-cache-ignores-env, C11-dynamic-cache-ignores-files)"],
    "level_text": "Theorem (induction over arbitrary histories of compilations): for every cache reachable by compiling any sequence of other tasks, a task "
                  "resolves to the same variables as with an empty cache, provided sh: output depends on command text and directory only; the cache stays "
                  "coherent. Over a world state (Vars.World: the oracle gets the file system, commands are functions on it, histories interleave compilations "
                  "and command effects): C11_fs_full is refuted by `decide` (b reads what a cached before a's command rewrote the file), C11_fs_partial holds "
                  "for effects no sh: command can see. Directory clause: an sh: variable of the task runs in the task's directory as resolved over the "
                  "variables known when it is reached (fix V8-3); it is the compiled Dir whenever nothing from that point on defines a name the dir: refers "
                  "to (C11_dir_clause_partial; the full clause is circular: counterexample). Tie: Gen.VarLayers pins the cache key (dir + command), its lock and "
                  "the per-variable directory closure; the harness compiles random call sequences in ONE executor and compares every compile with the model on an "
                  "EMPTY cache, and runs sequences of tasks whose commands rewrite files later sh: variables read.",
    "level_note": "Trusted: as C10. The concurrent case (two compilations racing on shared definitions) is C18's.",
}
_sched("C02", "Theorems over every accepted trace: the non-deferred entries of one execution start one at a time, in strictly increasing index order, "
              "each closed before the next (seqMon, C02_seq); a `task:` entry returns only after the callee, all its descendants at any depth and all "
              "its deferred entries have finished (C02_call_sync, C02_descendants_done); a woken dedup waiter implies the shared execution is over; "
              "the started entries are exactly the non-deferred entries of the command list below the loop position, all of them once the body ran to "
              "its end (C02_no_entry_skipped, C02_body_complete); every command of a callee saw the value its reference passed (literal, a variable of "
              "the referrer, the referrer's own value; Sched.Pass, valMon beside the acceptor's own step: verdict C02v, C02_callee_sees_passed). "
              "Loop order (list, row-major matrix), loops over MAP variables (order unspecified, every KEY paired with its own ITEM: C02_map_loop_pairs, "
              "stream vars.loopmap) and call variables: Props.C02Vars over the Vars model, tied by domain `vars`.")
PROPS["C02"]["domains"] = [{"name": "sched"}, {"name": "vars", "env": {"VERIF_VARS_ENVDEP": "0", "VERIF_VARS_POSTMON": "0"}}, {"name": "callvals"}]
PROPS["C02"]["lean"] = "Props.C02All"
PROPS["C02"]["prop_modules"] = ["Props.C02", "Props.C02Vars"]
_sched("C03", "Theorems over every accepted trace: after a command failure that is not ignored no later non-deferred entry of that activation starts "
              "(failStopMon); the failure propagates to callers (task: entries) and dependents (deps), which start nothing further; ignore_error is exact "
              "(command level: that shell command's exit status only; task level: exit statuses of its own entries only); exit codes from Gen.Codes: "
              "201 / the command's status with --exit-code for own commands, callees and dependencies (one level + chain lemma). A task that does not "
              "compile (template error in a task-level field; TaskDef.compileOk, program data like the guard outcomes) fails before any of its commands "
              "and before it counts as a call or takes a slot (C03_compile_error_before_cmds). Status at full "
              "strength (C03_status_full, a theorem since the fix of C03-dedup-waiter-status): the execution of a task ends with the bare failure and "
              "a marker (Outcome); every activation that takes it - the executor and every dedup waiter - returns its own wrapping (wrapFor, "
              "OutInv_sound), so in every reachable configuration a top-level activation, executor or waiter, never returns a bare exit status nor a "
              "doubly wrapped TaskRunError and returns TaskRunError{bare error} for a failed command (C03_waiter_as_executor, C03_no_double_wrap). "
              "The raw monitor C03s (Run's error well shaped, no dependency group reports a TaskRunError) is proved sound for every accepted run "
              "(C03_statusMon_sound) and evaluated on every trace of the real executor; a generator stream makes top-level callers wait for "
              "indirectly started failing executions and vice versa.")
PROPS["C16"] = {
    "lean": "Props.C16", "domains": [{"name": "decode", "env": {"TASK_X_REMOTE_TASKFILES": "1"}, "timeout": 3000}], "cli": True,
    "trusted": ["yaml.v3, chroma, go-task/template and mvdan/sh themselves do not panic (every byte sequence reaches Task only through them); "
                "yaml.v3 mapping nodes have an even number of children; the typed extractor /verif/extract2 enumerates index / slice / unchecked "
                "assertion / Must* / panic expressions and loops that read a field through the element of a list of pointers without a "
                "nil guard, keyed by occurrence (other nil-pointer dereferences and division are not enumerable syntactically: the decode "
                "correspondence is what looks for those); its origin analysis of task values (taskFlows) reads the textually last assignment "
                "before a call and does not follow loops; its call graph resolves interface calls to every implementing method of the module "
                "and does not see calls through function values other than self-calling closures"],
    "assumptions": ["partial by scope: the theorem covers Task's own panic-capable expressions on the load/list/compile/resolve/watch path and in the "
                    "command-line front end (cmd/task, internal/flags, internal/logger, taskrc, experiments) and, for running, the guards of RunTask / "
                    "runCommand; documents mutated from real Taskfiles are compiled and listed but not run (their sh: / precondition / status commands "
                    "are arbitrary), remote includes are offline; malformed FLAGS (pflag exits with 2) are outside the property's quantifier and not generated; "
                    "termination of loops is covered by the total Lean models of load / merge and by C07_terminates_all, recursion by the reviewed table"],
    "level_text": "Theorems (decide over regenerated, typed tables): every panic-capable expression on the path - keyed by OCCURRENCE, so a second "
                  "expression of the same shape is a new site - is discharged by a recorded reason (all_panic_sites_discharged); the 'compiled' reasons "
                  "are checked against the extracted table of every call that hands over a task: each consumer gets its task from CompiledTask / "
                  "FastCompiledTask / compiledTask / GetTaskList at every call site, through parameters, or the caller is dead code "
                  "(compiled_reasons_checked - false of the tree before the Globs fix, whose watch-mode caller passed the raw task); "
                  "compiled_lists_nil_free: every list-of-pointers field of the compiled task is filtered of nil entries or is the reviewed pass-through "
                  "field whose readers all guard; all_recursion_bounded: every function on a cycle of the static call graph (and every self-calling "
                  "closure) has a recorded bound - visited set, call counter, structural, or a static cycle that cannot be taken; lemmas for the two "
                  "non-obvious reasons (yaml children come in pairs; snippet bounds stay within both line lists); C16_outcomes: an error is acceptable "
                  "exactly when its code is a documented constant of errors/errors.go (Gen.Codes), error_types_documented. Tie: node-shape grammar at "
                  "every schema position of the root AND of an included file, mutated real Taskfiles with CR/NEL/LS terminators, metacharacter names, "
                  "names / aliases / keys of 10^3-10^4 characters, run in a worker process (address-space cap) through Setup / ListTasks / --list --json / "
                  "FastCompiledTask / GetTask and (grammar documents) Run --dry, Run --dry --force --yes, Run --summary, Status, a Run with command-line "
                  "variable assignments and one non-dry Run of every task; the real binary with .taskrc.yml shapes, TASK_* environment values, "
                  "assignments and listing flags (exit code must be documented); watch mode on the binary (nil source entries, cyclic call graphs, a "
                  "file touched while watching). A panic (also in goroutines Task starts), a time-out, a watcher that never gets to watch, or an "
                  "undocumented exit code is a violation.",
    "level_note": "Trusted: Lean kernel; extractor; third-party parsers; harness worker supervision.",
}
PROPS["C18"] = {
    "lean": "Props.C18", "domains": [{"name": "race", "timeout": 5400}], "race": True, "cli_race": "always",
    "trusted": ["static call graph of extract2/callgraph.go (go/types: direct and method calls, interface calls resolved to every implementing method of "
                "the module, function values counted as called where they are taken, concrete values converted to an interface give their methods to the "
                "converting function); what it cannot see — reflection on fields of a converted value, unsafe, linkname, cgo — is trusted absent. The NAME-based "
                "phase classification of extract2/classify.go is no longer trusted: it is a claim checked against that graph (setup_edges_reviewed, "
                "no_setup_function_in_run_phase; three reviewed edges with written reasons); the confined-type list is checked by a syntactic escape search "
                "(confined_no_escape) and the 'fresh copy' bases by copy / aliasing facts (compiled_task_holds_copies, copiers_return_fresh); what stays a "
                "reviewed statement: the (function, base) confinement pairs of isConfinedBase and that a per-call object reached through a parameter is not "
                "shared by the caller",
                "syntactic, intraprocedural lockset (a mutex counts as held from its Lock() statement to Unlock(), path-insensitive except for blocks that "
                "return); the thread model of TaskModel.Race.Threads abstracts goroutines to straight-line sequences of lock / unlock / access / close / recv"],
    "assumptions": ["partial by scope: the all-schedules theorem is about the extracted abstraction (field-granular locations, straight-line bodies, sync.Mutex and "
                    "one closed `done` channel), not the Go memory model; third-party code and accesses through closures/interfaces are not in the table; the race "
                    "search is bounded by the generated workloads of domain `race` and by the schedules that happen (perturbed by seeded delays at the hook points)"],
    "level_text": "Theorems. (1) C18_no_race_state / C18_chan_ordered (TaskModel.Race.Threads): in a model of any number of threads running sequences of "
                  "lock / unlock / access / close / recv under mutex and channel semantics, if every two conflicting access positions share a statically held "
                  "mutex (heldAt: locked and not yet unlocked — the extractor's rule) or are ordered by the close of a channel, then NO state reachable by any "
                  "interleaving of any length has two threads at conflicting accesses (invariant: m in heldAt t <-> owner m = t). (2) C18_lockset (decide over "
                  "the regenerated access table) + C18_no_race_state_table / C18_no_race_state_rows: the table of the current tree keeps that discipline, so any "
                  "program whose access positions are its rows — in particular any number of threads running the critical sections of any rows — has no race "
                  "state. (3) Obligations that tie the table's inputs to the source: setup_edges_reviewed and no_setup_function_in_run_phase (call graph vs. "
                  "phase claims: a lazily initialised field shows as a new edge and its accesses enter the table), confined_no_escape, copiers_return_fresh, "
                  "compiled_task_holds_copies, chanSync_is / chanSync_ordered (the done-channel exemption is computed from ordering facts about startExecution), "
                  "C18_matrix_rows_private. Tie/search: a seeded generator composes Taskfiles from ~40 features (unknown names, fingerprints, shared dirs, sh: "
                  "vars, dotenv, wildcards, aliases, prefixes, defers, run: once incl. cycles, includes, matrices, flags) so that >= 2 activations touching the "
                  "same structure run concurrently, under GOMAXPROCS 1..16 and concurrency limits 0..N; every workload runs in a worker process under the race "
                  "detector, in-process with seeded delays (-tags verif) and through the -race CLI (no tag); a report is a violation whose replay is the workload.",
    "level_note": "Trusted: Lean kernel; typed extractor incl. its call-graph construction and lockset rules; Go race detector for the search half.",
}


def _has_meta(s):
    return any(ch in s for ch in ".()[]+?|\\^${}")


def _c19_args_with(m, hexneedle):
    c = m.get("case") or {}
    if m.get("domain") != "cliargs" or c.get("kind") not in ("fwd", "var"):
        return None
    return any(a[i:i + len(hexneedle)] == hexneedle for a in c.get("argv", []) for i in range(0, len(a), 2))


def _c19_values_templated(m):
    """DESIGN §8 row 26, one mechanism only: a forwarded argument (after `--`, or NAME=value)
    contains a template action and what the helper received is exactly what the variable pass
    of the real templater yields for the forwarded text (the harness monitor computes that and
    tags the outcome `templated`), or that pass fails and so does the run."""
    return bool(_c19_args_with(m, "7b7b")) and m["impl"].endswith(" templated")


def _c19_no_value_deleted(m):
    """templater.Replace deletes the literal text `<no value>` from everything it renders: a
    forwarded argument without any template action but with that literal arrives without it
    (tag `novalue` set by the harness monitor)."""
    return (_c19_args_with(m, "7b7b") is False and bool(_c19_args_with(m, "3c6e6f2076616c75653e"))
            and m["impl"].endswith(" novalue"))


def _c02_call_values(m):
    """C02-call-values-templated-again, one mechanism only: the monitor line of the callvals domain for a value that contains a template
    action or the literal <no value>, and the callee holds exactly what one more pass of the real templater makes of it (or that pass
    fails and so does the call) - tag set by the harness."""
    return (m.get("domain") == "callvals" and m.get("case_line", "").startswith("vars.callmon ")
            and m["impl"].endswith(" templated-again"))


def _c19_alias_empty(m):
    """C19-forwarded-value-empty-in-global-alias, one mechanism only: the `alias` path of the cliargs domain (the command uses a GLOBAL
    variable defined as '{{.CLI_ARGS}}' / '{{.X}}') and the helper received nothing resp. two empty arguments (tag set by the harness)."""
    c = m.get("case") or {}
    return (m.get("domain") == "cliargs" and c.get("path") == "alias" and c.get("kind") in ("fwd", "var")
            and m["impl"].endswith(" alias-empty"))


def _c11_env_cache(m):
    """C11-dynamic-cache-ignores-env: the dynamic-variable cache is keyed by (dir, command text); a command that reads a
    variable from the environment it is handed is served from the entry another task created with a different value.
    Narrow: vars domain, not the first compile of the sequence (same or another task compiled earlier with other values), the
    case contains an env-reading command, and only names defined through such a command (or referring to one) differ."""
    c = m.get("case") or {}
    if m.get("domain") != "vars" or c.get("kind") != "resolve" or c.get("only", 0) < 1 or not m["case_line"].startswith("vars.compile"):
        return False
    lists = [c.get("root_vars") or [], c.get("inc_vars") or [], c.get("sub_vars") or [], c.get("deep_inc_vars") or [], c.get("leaf_vars") or []]
    for t in c.get("tasks") or []:
        lists.append(t.get("vars") or [])
    for cl in c.get("seq") or []:
        lists.append(cl.get("vars") or [])
    texts = {}
    tainted = set()
    for i, l in enumerate(lists):
        for d in l:
            if d["kind"] == "envsh":
                texts.setdefault(d["text"], set()).add(i)
                tainted.add(d["name"])
    if not texts:
        return False
    changed = True
    while changed:
        changed = False
        for l in lists:
            for d in l:
                if d["name"] not in tainted and any(("{{.%s}}" % t) in d["text"] or (d["kind"] in ("ref", "envsh") and d["text"] == t) for t in tainted):
                    tainted.add(d["name"]); changed = True
    # the answer line: the values of VARS_QUERY (harness vQuery), then `dir=…`
    a, b = m["impl"].split(), m["model"].split()
    if len(a) != len(b) or len(a) != len(VARS_QUERY) + 1:
        return False
    return a[-1] == b[-1] and all(VARS_QUERY[i] in tainted for i in range(len(VARS_QUERY)) if a[i] != b[i])


VARS_QUERY = ["VA", "VB", "VC", "VD", "VE", "VF", "VG", "TASK", "TASK_DIR", "ROOT_DIR", "ROOT_TASKFILE", "TASKFILE", "TASKFILE_DIR", "USER_WORKING_DIR",
              "ALIAS", "MATCH", "CHECKSUM", "TIMESTAMP"]


def _c11_fs_cache(m):
    """C11-dynamic-cache-ignores-files, one mechanism only: the monitor line `vars.fsmon` of the file-system stream (a call must read
    what it would read alone in the world as it is when it starts) and what it printed instead is exactly what the cache entry of
    its (directory, command) holds from an earlier compilation (tag set by the harness, which tracks the world and the first reads)."""
    return (m.get("domain") == "vars" and m.get("case_line", "").startswith("vars.fsmon ")
            and m["impl"].endswith(" stale-cache"))


def _c10_cli_specials(m):
    """C10-cli-specials-defined-after-globals, one mechanism only: the monitor line of the CLI stream (`vars.climon`) for a declared
    global / global env entry that refers to CLI_* names only, and the value printed is exactly the entry's text with those references
    rendered empty (tag set by the harness)."""
    return (m.get("domain") == "varscli" and m.get("case_line", "").startswith("vars.climon ")
            and m["impl"].endswith(" cli-special-empty"))


def _c10_post_layer(m):
    """C10-fingerprint-vars-override-user-definition, one mechanism only: the monitor line `vars.postmon` of a task with sources whose
    CHECKSUM / TIMESTAMP is defined (one literal) at a site the call sees, and the task got the live fingerprint value instead (tag set
    by the harness)."""
    return (m.get("domain") == "vars" and m.get("case_line", "").startswith("vars.postmon ")
            and m["impl"].endswith(" post-layer-wins"))


def _call_limit_acyclic(m):
    """C07-call-limit-hits-acyclic-graphs / C06-call-limit-hits-many-references: the log is accepted, every other verdict agrees,
    and the one difference is the call-limit monitor (Sched.callLimitMon: the program is acyclic AND an activation was born
    with the call-limit error).  The monitor is the definition of the mechanism, so nothing else can be claimed through this."""
    if m.get("domain") != "sched":
        return False
    a, b = m.get("impl", "").split(), m.get("model", "").split()
    if not a or a[0] != "accept" or len(a) != len(b):
        return False
    return [(x, y) for x, y in zip(a, b) if x != y] == [("C07a=1", "C07a=0")]


FINDING_PREDICATES = {
    "C07-call-limit-hits-acyclic-graphs": _call_limit_acyclic,
    "C06-call-limit-hits-many-references": _call_limit_acyclic,
    "C02-call-values-templated-again": _c02_call_values,
    "C10-cli-specials-defined-after-globals": _c10_cli_specials,
    "C10-fingerprint-vars-override-user-definition": _c10_post_layer,
    "C11-dynamic-cache-ignores-env": _c11_env_cache,
    "C11-dynamic-cache-ignores-files": _c11_fs_cache,
    "C19-cli-values-are-templated": _c19_values_templated,
    "C19-forwarded-value-empty-in-global-alias": _c19_alias_empty,
    "C19-no-value-text-deleted": _c19_no_value_deleted,
}


def _mon(m, prop):
    """facts of a `finger.mon <prop> <step> <task>` violation line (None if m is something else)"""
    cl = m.get("case_line", "").split()
    il = m.get("impl", "").split()
    if len(cl) < 4 or cl[0] != "finger.mon" or cl[1] != prop or not il or il[0] != "viol" or m.get("model") != "ok":
        return None
    f = dict(t.split("=", 1) for t in il[1:] if "=" in t)
    f["step"], f["task"] = cl[2], cl[3]
    return f


def _norm(s):
    return "".join(ch if ("A" <= ch <= "z" or "0" <= ch <= "9") else "-" for ch in s)


def _writer_pair(m, f):
    """the violating task and the task of the step that wrote the stored fingerprint, if they are different tasks"""
    try:
        ts = m["case"]["tasks"]
        a, b = ts[int(f["task"])], ts[int(f["wtask"])]
    except Exception:
        return None
    if f["task"] == f["wtask"]:
        return None
    return a, b


def _same_key(m, f):
    """(the rule before fix N) different tasks whose names / display names differ but NORMALISE to the same file name
    (checksum: label or name; timestamp: name)"""
    ab = _writer_pair(m, f)
    if not ab:
        return False
    a, b = ab
    if f.get("method") == "timestamp":
        return a["name"] != b["name"] and _norm(a["name"]) == _norm(b["name"])
    da, db = a.get("label") or a["name"], b.get("label") or b["name"]
    return da != db and _norm(da) == _norm(db)


def _gen_vouches(f):
    """method timestamp: before the check an existing generates file was at least as new as every source (vouch=gen), or the
    marker that vouched had been CREATED by an invocation that itself reported "up to date" (wskip=1)"""
    return f.get("vouch") == "gen" or (f.get("vouch") == "marker" and f.get("wskip") == "1")


def _marker_vouches(f):
    """method timestamp: only the marker vouched, and it was last written by an invocation that did not report 'up to date'"""
    return f.get("vouch") == "marker" and f.get("wskip") == "0"


def _c04(cond):
    def p(m):
        f = _mon(m, "c04")
        # (a run that skips, or a query that says "up to date" — the verdict does not depend on the mode — although goodRun fails)
        return bool(f) and f.get("kind") in ("skip-not-good", "status-not-good", "dry-skip-not-good", "list-not-good") and cond(m, f)
    return p


def _c05(cond):
    def p(m):
        f = _mon(m, "c05")
        return bool(f) and cond(m, f)
    return p


FINDING_PREDICATES.update({
    # the step that last wrote the stored fingerprint was a run of the same task cancelled at the prompt
    # (method checksum: FIXED by F31, the entry is kept so that a regression is named)
    "C04-prompt-declined-after-fingerprint": _c04(lambda m, f: f.get("method") == "checksum" and f.get("wexit") == "cancelled" and
                                                  f.get("wmode") == "run" and f.get("wtask") == f["task"]),
    # (method timestamp: FIXED by TS3 — a marker left by a cancelled run vouches; the run removes its marker now)
    "C04-timestamp-prompt-declined": _c04(lambda m, f: f.get("method") == "timestamp" and f.get("wexit") == "cancelled" and
                                          f.get("wmode") == "run" and f.get("wtask") == f["task"] and _marker_vouches(f)),
    # … or was killed / the most recent attempt at this fingerprint was killed
    "C04-killed-before-last-command": _c04(lambda m, f: (f.get("wexit") == "killed" and f.get("wtask") == f["task"]) or f.get("laexit") == "killed"),
    # method timestamp, the marker left by a failed run (or by whoever, while the last attempt failed) vouches
    # (FIXED by TS3: a failed run removes the marker; kept so that a regression is named)
    "C04-timestamp-failed-run": _c04(lambda m, f: f.get("method") == "timestamp" and _marker_vouches(f) and
                                     ((f.get("wexit") == "failed" and f.get("wtask") == f["task"]) or f.get("laexit") == "failed")),
    # … what is left of it: the last attempt failed, its marker is gone, but a generates file as new as the sources vouches on its
    # own (vouch=gen) — or the marker that such a skipped check then created does (wskip=1)
    "C04-timestamp-failed-run-generates-newer": _c04(lambda m, f: f.get("method") == "timestamp" and f.get("laexit") == "failed" and
                                                     _gen_vouches(f)),
    # the stored fingerprint was written by a different task whose name normalises to the same file name (FIXED by fix N) …
    "C04-normalised-name-collision": _c04(_same_key),
    # (… or by a different checksum task with the same display name (label): FIXED by fix F8A, the checksum file is a function of
    # task name AND label; no predicate: such a skip is a violation again)
    # "up to date" was said by a SECOND activation of the task while the first activation of the same invocation was still running
    # its commands (twin=1): the fingerprint is recorded at check time — the root of the kill finding, reached without any kill
    "C04-concurrent-activation-skipped": _c04(lambda m, f: f.get("twin") == "1" and f.get("kind") == "skip-not-good"),
    # method timestamp, last run fine, but a generates pattern matches nothing (FIXED by TS1)
    "C04-timestamp-missing-generates": _c04(lambda m, f: f.get("method") == "timestamp" and f.get("gens") == "0" and f.get("laexit") == "ok"),
    # method timestamp, the commands never ran: the generates' mtimes alone decided (no marker), or the marker a check created
    # when it said "up to date" for that reason
    "C04-timestamp-never-ran": _c04(lambda m, f: f.get("method") == "timestamp" and f.get("lastatt") == "-" and _gen_vouches(f)),
    # method timestamp, last attempt fine, generates there, but a source is newer than that attempt and not newer than the
    # marker, which a check that ended in "up to date" had MOVED there (FIXED by TS2; kept so that a regression is named) …
    "C04-timestamp-marker-moved-by-every-check": _c04(lambda m, f: f.get("method") == "timestamp" and f.get("gens") == "1" and
                                                      f.get("laexit") == "ok" and f.get("srcnewer") == "1" and _marker_vouches(f)),
    # … or had CREATED there, there being none (FIXED by fix M)
    "C04-timestamp-marker-created-by-uptodate-check": _c04(lambda m, f: f.get("method") == "timestamp" and f.get("laexit") == "ok" and
                                                           f.get("srcnewer") == "1" and f.get("vouch") == "marker" and f.get("wskip") == "1"),
    # method timestamp, last attempt fine, a source is newer than it, and a generates file is newer still
    "C04-timestamp-generates-newer-after-edit": _c04(lambda m, f: f.get("method") == "timestamp" and f.get("laexit") == "ok" and
                                                     f.get("srcnewer") == "1" and f.get("vouch") == "gen"),
    # same multiset of (base name, content), different paths (FIXED by F8; kept so that a regression is named)
    # a read-only --dry invocation that exits `failed` (a task: call failed) changed the tree (FIXED by TS4)
    "C12-dry-failed-call-removes-fingerprint": lambda m: (lambda f: bool(f) and f.get("kind") == "tree-changed" and f.get("mode") == "dry" and
                                                          f.get("exit") == "failed")(_mon(m, "c12")),
    "C05-dir-move-not-detected": _c05(lambda m, f: f.get("kind") == "change-not-detected" and f.get("samebases") == "1" and f.get("method") == "checksum"),
    # method timestamp, skipped although the list of (path, content) of the sources differs from that of every attempt, and NO source
    # is newer than the last attempt: a removal, a rename, an addition with an old mtime, an edit with a restored mtime — changes that
    # leave no mtime trace, invisible to the method by design (srcnewer=1 — a source IS newer and the run was skipped — stays a violation)
    "C05-timestamp-misses-non-mtime-changes": _c05(lambda m, f: f.get("kind") == "change-not-detected" and f.get("method") == "timestamp" and
                                                   f.get("srcnewer") == "0" and f.get("op") in ("removal", "rename", "addition", "edit", "mixed")),
    # (the run right after a successful --force run executed the commands again, `not-idempotent … first=force`: FIXED by F8F, the
    # forced run records the fingerprint; no predicate: a violation again)
    # (FIXED by TS1)
    "C05-timestamp-missing-generates": _c05(lambda m, f: f.get("kind") == "missing-generates-skipped" and f.get("method") == "timestamp"),
})

# the sched domain serves seven properties: each compares acceptance + its own verdict(s)
# (C02v: the value monitor — callee sees what was passed, deferred call sees the exit code; C06k: the key discipline monitor;
#  C07a: an acyclic program does not hit the call limit — open findings C07-call-limit-hits-acyclic-graphs / C06-…-many-references)
for _pid, _keys in {"C01": ["C01"], "C02": ["C02", "C02v"], "C03": ["C03", "C03s"], "C06": ["C06", "C06k", "C07a"], "C07": ["C07", "C07a"], "C13": ["C13"],
                    "C14": ["C14", "C02v"]}.items():
    for _d in PROPS[_pid]["domains"]:
        if _d["name"] == "sched":
            _d["verdict_keys"] = _keys

HOOK_COMMITS = ["339bb5a", "c6219b0", "409314f", "54a7dc6", "a37d6ee", "6c1ad25", "35abbc3", "0ffdce0"]
NOT_YET = {}
