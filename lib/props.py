"""Per-property configuration: Lean module, correspondence domains, finding predicates."""

TRUSTED_BASE = [
    "Lean 4.33.0 kernel (theorems re-checked by `lake build`; `leanchecker` in the thorough tier)",
    "axioms permitted in property theorems: propext, Classical.choice, Quot.sound (audited per theorem on every run); "
    "no sorry/admit/native_decide/bv_decide/axiom anywhere in lean/ (grepped on every run)",
    "fact extractor /verif/extract (go/ast, stdlib only) reports the generated tables faithfully",
    "correspondence harness /verif/harness and its canonicalisation of outputs; the compiled Lean driver runs the same "
    "definitions the theorems are about",
]

PROPS = {
    "C15": {
        "lean": "Props.C15",
        "domains": [{"name": "resolve"}],
        "trusted": ["Go regexp's leftmost-first semantics for `^lit(.*)lit…$` is what Resolve.Glob mirrors; "
                    "sajari/fuzzy ranking is an oracle (only 'a suggestion exists' is checked)"],
        "assumptions": ["names are valid UTF-8; resolution table built in memory through ast.Tasks.Set"],
        "level_text": "Theorems (all names, patterns, tables): matcher soundness/completeness/greediness, only '*' special, "
                      "exact > first wildcard in table order > unique alias, ambiguity = 203, unknown = 200. Tie: ast.Task.WildcardMatch and "
                      "Executor.GetTask are run on generated tables over an alphabet with regexp metacharacters and must equal the model.",
        "level_note": "Trusted: Lean kernel; harness canonicalisation; Go regexp semantics for the quoted pattern; fuzzy suggestion is an oracle.",
    },
    "C07": {
        "lean": "Props.C07",
        "domains": [{"name": "sched"}],
        "trusted": ["the verif-tagged event-log hooks in /repo record acquire-type events after the slot is really taken and release-type "
                    "events before it is really given back, so the slot count read off the log never exceeds the real one",
                    "dedup keys identify the task (GetHash): assumption `KeysByTask` of the liveness theorems"],
        "assumptions": ["commands are shell builtins (`exit N`); the Go scheduler is perturbed by seeded delays at hook points, not controlled"],
        "level_text": "Theorems over every trace the executor LTS accepts (all programs, flags, interleavings): slots in use = number of activations "
                      "holding one <= N, shell commands run only while holding a slot (C07_bound, C07_tokens_are_holders, raw monitors boundOk/holdMon); "
                      "a dependency may enter as soon as its parent waits, acquire waits only for a free slot; deadlock freedom for every program without "
                      "a reference cycle through a deduplicated task (C07_no_deadlock), termination of every program (C07_terminates_all), a quiescent "
                      "configuration is final (C07_completes); fewer than MaximumTaskCall activations of a task pass the counter, the others return 204 "
                      "(201 wrapping through task: calls). FALSE as stated for cycles through run: once tasks: machine-checked deadlock "
                      "(C07_once_cycle_deadlock). Tie: event log of the real executor replayed through the same `replay`, boundOk evaluated on the raw log; "
                      "MaximumTaskCall / `>=` / code 204 from Gen.Codes.",
        "level_note": "Trusted: Lean kernel; hook placement; harness rendering of abstract programs; liveness is a theorem about the model, the harness "
                      "only observes that sampled runs finish.",
    },
    "C13": {
        "lean": "Props.C13",
        "domains": [{"name": "sched"}],
        "trusted": ["the verif-tagged event-log hooks in /repo (verifhook.Ev calls in task.go); guard outcomes of the generated Taskfile are what the "
                    "generator says (a wrong rendering shows up as a rejected trace)"],
        "assumptions": ["guard outcomes are data of the abstract program (platform, requires, enum, precondition, prompt)"],
        "level_text": "Theorems over every step and every accepted trace, all flags incl. --force/--force-all/--yes: platform/requires/enum decided at "
                      "enter (ok/206/207, no slot, no command, not counted as a call); failed precondition => only precondFail (generic) or ctxErr; prompt "
                      "without --yes => guardsPassed rejected, 205; an activation of a guarded task never starts a command (C13_no_cmd: guardedNoCmd, "
                      "noCmdMon); a failed precondition gives an error result (C13_precond_fails, waiters excepted); 202 for internal tasks before any event; "
                      "errors propagate through deps and task: calls (201 wrapping for direct callers). Codes tied to Gen.Codes. Tie: event log replay + "
                      "guardedNoCmd on the raw log.",
        "level_note": "Trusted: Lean kernel; hook placement; harness rendering of guards.",
    },
    "C14": {
        "lean": "Props.C14",
        "domains": [{"name": "sched"}],
        "trusted": ["the verif-tagged event-log hooks in /repo (verifhook.Ev calls in task.go) record each action at the point documented in "
                    "verifhook/hook_on.go; guard outcomes / exit codes of the generated Taskfile are what the generator says (a wrong rendering "
                    "shows up as a rejected trace, i.e. an alarm, not silently)"],
        "assumptions": ["commands are shell builtins (`exit N`); the Go scheduler is perturbed by seeded delays at hook points, not controlled"],
        "level_text": "Theorems over every trace the executor LTS accepts (all programs, flags, failing positions, interleavings, cancellations): deferred "
                      "entries start in strictly decreasing index order (reverse registration order, none twice); when an activation has finished its "
                      "deferred part it has run exactly the registered entries reversed; deferred results never change the task's result or EXIT_CODE; "
                      "EXIT_CODE seen = status of the failing command. Tie: the event log of the real executor (verif hooks) for generated task graphs "
                      "is replayed through the same `replay`; every log must be accepted and pass the same monitors.",
        "level_note": "Trusted: Lean kernel; hook placement; harness rendering of abstract programs; schedule coverage is whatever seeded jitter reaches "
                      "(the theorem, not the sampling, covers all interleavings of the model).",
    },
}


def _has_meta(s):
    return any(ch in s for ch in ".()[]+?|\\^${}")


FINDING_PREDICATES = {
}

HOOK_COMMITS = []
NOT_YET = {}
