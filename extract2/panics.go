package main

import (
	"go/ast"
	"go/token"
	"go/types"
	"sort"
	"strconv"
	"strings"

	"golang.org/x/tools/go/packages"
)

// normExpr prints an expression with every identifier that denotes a local variable or
// parameter replaced by ‹its type›, so that renaming locals does not change the fact.
func normExpr(info *types.Info, pkg *types.Package, e ast.Expr) string {
	type saved struct {
		id   *ast.Ident
		name string
	}
	var sv []saved
	ast.Inspect(e, func(n ast.Node) bool {
		id, ok := n.(*ast.Ident)
		if !ok {
			return true
		}
		obj := info.Uses[id]
		if obj == nil {
			obj = info.Defs[id]
		}
		v, ok := obj.(*types.Var)
		if !ok || v.IsField() || v.Parent() == nil || v.Parent() == pkg.Scope() || v.Parent() == types.Universe {
			return true
		}
		sv = append(sv, saved{id, id.Name})
		id.Name = "‹" + types.TypeString(v.Type(), func(p *types.Package) string { return p.Name() }) + "›"
		return true
	})
	out := src(e)
	for _, s := range sv {
		s.id.Name = s.name
	}
	return out
}

// nilElemSite: the first field selection on the value variable of a range over []*T (T a struct
// declared in this module) that is not preceded, in the loop body, by a nil guard that leaves the
// iteration.  Returns nil when the loop has no such selection.
func nilElemSite(p *packages.Package, rs *ast.RangeStmt) ast.Expr {
	vid, ok := rs.Value.(*ast.Ident)
	if !ok || vid.Name == "_" {
		return nil
	}
	vobj := p.TypesInfo.Defs[vid]
	if vobj == nil {
		vobj = p.TypesInfo.Uses[vid]
	}
	t := p.TypesInfo.TypeOf(rs.X)
	if t == nil || vobj == nil {
		return nil
	}
	sl, ok := t.Underlying().(*types.Slice)
	if !ok {
		return nil
	}
	ptr, ok := sl.Elem().Underlying().(*types.Pointer)
	if !ok {
		return nil
	}
	named, ok := ptr.Elem().(*types.Named)
	if !ok || named.Obj().Pkg() == nil || !strings.HasPrefix(named.Obj().Pkg().Path(), "github.com/go-task/task/v3") {
		return nil
	}
	if _, ok := named.Underlying().(*types.Struct); !ok {
		return nil
	}
	isV := func(e ast.Expr) bool {
		id, ok := e.(*ast.Ident)
		return ok && p.TypesInfo.Uses[id] == vobj
	}
	leaves := func(b *ast.BlockStmt) bool {
		if len(b.List) == 0 {
			return false
		}
		switch l := b.List[len(b.List)-1].(type) {
		case *ast.ReturnStmt:
			return true
		case *ast.BranchStmt:
			return l.Tok.String() == "continue" || l.Tok.String() == "break"
		}
		return false
	}
	for _, st := range rs.Body.List {
		if is, ok := st.(*ast.IfStmt); ok && is.Init == nil {
			if be, ok := is.Cond.(*ast.BinaryExpr); ok && be.Op.String() == "==" {
				if id, ok := be.Y.(*ast.Ident); ok && id.Name == "nil" && isV(be.X) && leaves(is.Body) {
					return nil // guarded from here on
				}
			}
		}
		var hit ast.Expr
		notNil := func(e ast.Expr) bool { // does the && chain `e` contain `v != nil`?
			found := false
			var walk func(e ast.Expr)
			walk = func(e ast.Expr) {
				if pe, ok := e.(*ast.ParenExpr); ok {
					walk(pe.X)
					return
				}
				if be, ok := e.(*ast.BinaryExpr); ok {
					if be.Op.String() == "&&" {
						walk(be.X)
						walk(be.Y)
					} else if be.Op.String() == "!=" {
						if id, ok := be.Y.(*ast.Ident); ok && id.Name == "nil" && isV(be.X) {
							found = true
						}
					}
				}
			}
			walk(e)
			return found
		}
		var scan func(n ast.Node)
		scan = func(n ast.Node) {
			if n == nil || hit != nil {
				return
			}
			ast.Inspect(n, func(m ast.Node) bool {
				if hit != nil {
					return false
				}
				switch x := m.(type) {
				case *ast.IfStmt:
					if x.Init != nil {
						scan(x.Init)
					}
					scan(x.Cond)
					if !notNil(x.Cond) { // a body behind `v != nil && …` is guarded
						scan(x.Body)
					}
					if x.Else != nil {
						scan(x.Else)
					}
					return false
				case *ast.BinaryExpr:
					if x.Op.String() == "&&" {
						scan(x.X)
						if !notNil(x.X) {
							scan(x.Y)
						}
						return false
					}
				case *ast.SelectorExpr:
					if isV(x.X) {
						if sel := p.TypesInfo.Selections[x]; sel != nil && sel.Kind() == types.FieldVal {
							hit = x
							return false
						}
					}
				}
				return true
			})
		}
		scan(st)
		if hit != nil {
			return hit
		}
	}
	return nil
}

// compiledListsOf: in compiledTask, every assignment (composite-literal entry or `new.F = …`) to a field
// whose type is a slice of pointers to structs of this module, and every loop `for _, v := range
// origTask.F` whose first statement is `if v == nil { continue }`.
func compiledListsOf(p *packages.Package, fd *ast.FuncDecl) []string {
	var rows []string
	ptrList := func(t types.Type) bool {
		if t == nil {
			return false
		}
		sl, ok := t.Underlying().(*types.Slice)
		if !ok {
			return false
		}
		_, ok = sl.Elem().Underlying().(*types.Pointer)
		return ok && namedStruct(sl.Elem()) != ""
	}
	seen := map[string]bool{}
	add := func(f, how string) {
		k := "(" + q(f) + ", " + q(how) + ")"
		if !seen[k] {
			seen[k] = true
			rows = append(rows, k)
		}
	}
	// how a value is produced: `call:<callee>` (builtins by name), `pass` (a field read as it is), else the expression
	classify := func(e ast.Expr) string {
		switch v := e.(type) {
		case *ast.CallExpr:
			switch f := v.Fun.(type) {
			case *ast.Ident:
				return "call:" + f.Name
			case *ast.SelectorExpr:
				return "call:" + src(f)
			}
		case *ast.SelectorExpr:
			if sel := p.TypesInfo.Selections[v]; sel != nil && sel.Kind() == types.FieldVal {
				return "pass"
			}
		}
		return "expr:" + normExpr(p.TypesInfo, p.Types, e)
	}
	ast.Inspect(fd.Body, func(n ast.Node) bool {
		switch x := n.(type) {
		case *ast.KeyValueExpr:
			if id, ok := x.Key.(*ast.Ident); ok {
				if v, ok := p.TypesInfo.Uses[id].(*types.Var); ok && v.IsField() && ptrList(v.Type()) {
					add(id.Name, classify(x.Value))
				}
			}
		case *ast.AssignStmt:
			for i, l := range x.Lhs {
				if se, ok := l.(*ast.SelectorExpr); ok && i < len(x.Rhs) {
					if sel := p.TypesInfo.Selections[se]; sel != nil && sel.Kind() == types.FieldVal && ptrList(sel.Type()) {
						add(se.Sel.Name, classify(x.Rhs[i]))
					}
				}
			}
		case *ast.RangeStmt:
			se, ok := x.X.(*ast.SelectorExpr)
			vid, ok2 := x.Value.(*ast.Ident)
			if !ok || !ok2 || !ptrList(p.TypesInfo.TypeOf(x.X)) || len(x.Body.List) == 0 {
				return true
			}
			if is, ok := x.Body.List[0].(*ast.IfStmt); ok && is.Init == nil {
				if be, ok := is.Cond.(*ast.BinaryExpr); ok && be.Op.String() == "==" {
					xi, okx := be.X.(*ast.Ident)
					yi, oky := be.Y.(*ast.Ident)
					if okx && oky && yi.Name == "nil" && p.TypesInfo.Uses[xi] == p.TypesInfo.Defs[vid] && len(is.Body.List) == 1 {
						if br, ok := is.Body.List[0].(*ast.BranchStmt); ok && br.Tok.String() == "continue" {
							add(se.Sel.Name, "filtered-nil")
						}
					}
				}
			}
		}
		return true
	})
	return rows
}

// ---- where *ast.Task values come from (the fact behind the `compiled` discharge reasons) ----

func isAstTaskPtr(t types.Type) bool {
	if sl, ok := t.Underlying().(*types.Slice); ok {
		t = sl.Elem() // a list of tasks counts as its elements
	}
	p, ok := t.(*types.Pointer)
	if !ok {
		return false
	}
	n, ok := p.Elem().(*types.Named)
	return ok && n.Obj().Name() == "Task" && n.Obj().Pkg() != nil && n.Obj().Pkg().Path() == modPath+"/taskfile/ast"
}

func funcKey(f *types.Func) string {
	if f == nil || f.Pkg() == nil {
		return ""
	}
	k := shortPkg(f.Pkg().Path()) + ":"
	if sig, ok := f.Type().(*types.Signature); ok && sig.Recv() != nil {
		t := sig.Recv().Type()
		if p, ok := t.(*types.Pointer); ok {
			t = p.Elem()
		}
		if n, ok := t.(*types.Named); ok {
			k += n.Obj().Name() + "."
		}
	}
	return k + f.Name()
}

// calleeKeys: the functions of this module a call may reach: the static callee, or — for a call through an
// interface — every method of that name on a named type of the module that implements the interface
func calleeKeys(pkgs []*packages.Package, p *packages.Package, ce *ast.CallExpr) []string {
	var id *ast.Ident
	switch f := ce.Fun.(type) {
	case *ast.Ident:
		id = f
	case *ast.SelectorExpr:
		id = f.Sel
	default:
		return nil
	}
	fn, ok := p.TypesInfo.Uses[id].(*types.Func)
	if !ok || fn.Pkg() == nil || !strings.HasPrefix(fn.Pkg().Path(), modPath) {
		return nil
	}
	sig := fn.Type().(*types.Signature)
	if sig.Recv() != nil {
		if it, ok := sig.Recv().Type().Underlying().(*types.Interface); ok {
			var out []string
			for _, q := range pkgs {
				if q.Types == nil {
					continue
				}
				sc := q.Types.Scope()
				for _, nm := range sc.Names() {
					tn, ok := sc.Lookup(nm).(*types.TypeName)
					if !ok {
						continue
					}
					if _, isIface := tn.Type().Underlying().(*types.Interface); isIface {
						continue
					}
					if pos := q.Fset.Position(tn.Pos()); strings.Contains(pos.Filename, "checker_mock") || strings.HasSuffix(pos.Filename, "_test.go") {
						continue // generated test doubles
					}
					for _, t := range []types.Type{tn.Type(), types.NewPointer(tn.Type())} {
						if types.Implements(t, it) {
							if obj, _, _ := types.LookupFieldOrMethod(t, true, q.Types, fn.Name()); obj != nil {
								if m, ok := obj.(*types.Func); ok {
									out = append(out, funcKey(m))
								}
							}
							break
						}
					}
				}
			}
			sort.Strings(out)
			return out
		}
	}
	return []string{funcKey(fn)}
}

// taskOrigin: where the *ast.Task (or the list read from one) denoted by e comes from, looking only at the enclosing
// function declaration: ("param", "") — a parameter of the declared function; ("call", callee) — the result of a call,
// through the textually last assignment of the variable before `at` (loops are not followed: straight-line reading);
// anything else is ("other", normalised text).
func taskOrigin(pkgs []*packages.Package, p *packages.Package, fd *ast.FuncDecl, e ast.Expr, at token.Pos, depth int) (string, string) {
	if depth > 6 {
		return "other", "deep"
	}
	switch x := e.(type) {
	case *ast.ParenExpr:
		return taskOrigin(pkgs, p, fd, x.X, at, depth+1)
	case *ast.IndexExpr:
		return taskOrigin(pkgs, p, fd, x.X, at, depth+1)
	case *ast.CallExpr:
		ks := calleeKeys(pkgs, p, x)
		if len(ks) == 1 {
			return "call", ks[0]
		}
		return "other", normExpr(p.TypesInfo, p.Types, x)
	case *ast.SelectorExpr:
		// a list field of a task (t.Sources): the task's origin
		if bt := p.TypesInfo.TypeOf(x.X); bt != nil && isAstTaskPtr(bt) {
			return taskOrigin(pkgs, p, fd, x.X, at, depth+1)
		}
		return "other", normExpr(p.TypesInfo, p.Types, x)
	case *ast.Ident:
		obj := p.TypesInfo.Uses[x]
		if obj == nil {
			obj = p.TypesInfo.Defs[x]
		}
		v, ok := obj.(*types.Var)
		if !ok {
			return "other", x.Name
		}
		// parameter of the declared function?
		if fd.Type.Params != nil {
			for _, f := range fd.Type.Params.List {
				for _, nm := range f.Names {
					if p.TypesInfo.Defs[nm] == v {
						return "param", ""
					}
				}
			}
		}
		// the textually last definition before the use
		var best ast.Node
		var bestRhs ast.Expr
		var bestRange ast.Expr
		ast.Inspect(fd.Body, func(n ast.Node) bool {
			if n == nil || n.Pos() >= at {
				return n == nil || n.Pos() < at
			}
			switch a := n.(type) {
			case *ast.AssignStmt:
				for i, l := range a.Lhs {
					id, ok := l.(*ast.Ident)
					if !ok {
						continue
					}
					if p.TypesInfo.Defs[id] == v || p.TypesInfo.Uses[id] == v {
						if best == nil || a.Pos() > best.Pos() {
							best, bestRange = a, nil
							if len(a.Rhs) == len(a.Lhs) {
								bestRhs = a.Rhs[i]
							} else if len(a.Rhs) == 1 {
								bestRhs = a.Rhs[0]
							}
						}
					}
				}
			case *ast.RangeStmt:
				for _, l := range []ast.Expr{a.Key, a.Value} {
					if id, ok := l.(*ast.Ident); ok && (p.TypesInfo.Defs[id] == v || p.TypesInfo.Uses[id] == v) {
						if best == nil || a.Pos() > best.Pos() {
							best, bestRhs, bestRange = a, nil, a.X
						}
					}
				}
			case *ast.ValueSpec:
				for i, nm := range a.Names {
					if p.TypesInfo.Defs[nm] == v && (best == nil || a.Pos() > best.Pos()) {
						best, bestRange, bestRhs = a, nil, nil
						if i < len(a.Values) {
							bestRhs = a.Values[i]
						}
					}
				}
			}
			return true
		})
		if bestRange != nil {
			return taskOrigin(pkgs, p, fd, bestRange, best.Pos(), depth+1)
		}
		if bestRhs != nil {
			return taskOrigin(pkgs, p, fd, bestRhs, best.Pos(), depth+1)
		}
		return "other", "‹" + types.TypeString(v.Type(), func(q *types.Package) string { return q.Name() }) + "› (closure parameter or never assigned)"
	}
	return "other", normExpr(p.TypesInfo, p.Types, e)
}

// genPanicSites: in the packages on the load / compile / resolve / list path, every
// expression that can panic at run time by itself: index and slice expressions on slices,
// arrays and strings (map indexing cannot panic), type assertions without comma-ok,
// calls to Must* functions, explicit panic(...), and pointers bound from a two-result call
// whose ok / error companion is discarded (`p, _ := lookup(k)`). Keyed by function + normalised expression text.
func genPanicSites(pkgs []*packages.Package) {
	want := map[string]bool{
		"task": true, "taskfile": true, "taskfile/ast": true, "args": true, "errors": true,
		"internal/templater": true, "internal/deepcopy": true, "internal/env": true, "internal/filepathext": true,
		"internal/fingerprint": true, "internal/hash": true, "internal/sort": true, "internal/summary": true,
		"internal/editors": true, "internal/output": true, "internal/execext": true, "internal/version": true,
		// the command-line front end, the flag / environment / .taskrc readers and the logger see user input before and
		// around the load path
		"cmd/task": true, "internal/flags": true, "internal/logger": true, "taskrc": true, "taskrc/ast": true,
		"internal/fsnotifyext": true, "internal/term": true, "internal/experiments": true, "internal/slicesext": true, "internal/sysinfo": true,
	}
	var rows []string
	var compiled []string
	occ := map[string]int{}
	for _, p := range pkgs {
		if !want[shortPkg(p.PkgPath)] {
			continue
		}
		for _, f := range p.Syntax {
			fname := p.Fset.Position(f.Pos()).Filename
			if strings.HasSuffix(fname, "_test.go") || strings.Contains(fname, "checker_mock") {
				continue
			}
			for _, d := range f.Decls {
				fd, ok := d.(*ast.FuncDecl)
				if !ok || fd.Body == nil {
					continue
				}
				fn := shortPkg(p.PkgPath) + ":" + funcName(fd)
				// type assertions in comma-ok / type-switch position
				okAssert := map[*ast.TypeAssertExpr]bool{}
				ast.Inspect(fd.Body, func(n ast.Node) bool {
					switch x := n.(type) {
					case *ast.AssignStmt:
						if len(x.Lhs) == 2 && len(x.Rhs) == 1 {
							if ta, ok := x.Rhs[0].(*ast.TypeAssertExpr); ok {
								okAssert[ta] = true
							}
						}
					case *ast.ValueSpec:
						if len(x.Names) == 2 && len(x.Values) == 1 {
							if ta, ok := x.Values[0].(*ast.TypeAssertExpr); ok {
								okAssert[ta] = true
							}
						}
					case *ast.TypeSwitchStmt:
						ast.Inspect(x.Assign, func(m ast.Node) bool {
							if ta, ok := m.(*ast.TypeAssertExpr); ok {
								okAssert[ta] = true
							}
							return true
						})
					}
					return true
				})
				// a site is keyed by OCCURRENCE: (function, kind, normalised text, how many sites with the same key came
				// before it in the function, in source order) — a second `xs[i]` of the same shape is a new site
				addText := func(kind string, expr string) {
					base := q(fn) + ", " + q(kind) + ", " + q(expr)
					k := "(" + base + ", " + strconv.Itoa(occ[base]) + ")"
					occ[base]++
					rows = append(rows, k)
				}
				add := func(kind string, e ast.Expr) { addText(kind, normExpr(p.TypesInfo, p.Types, e)) }
				if fn == "task:Executor.compiledTask" {
					compiled = compiledListsOf(p, fd)
				}
				ast.Inspect(fd.Body, func(n ast.Node) bool {
					switch x := n.(type) {
					case *ast.IndexExpr:
						t := p.TypesInfo.TypeOf(x.X)
						if t == nil {
							return true
						}
						switch u := t.Underlying().(type) {
						case *types.Slice, *types.Array:
							add("index", x)
						case *types.Basic:
							if u.Info()&types.IsString != 0 {
								add("index", x)
							}
						case *types.Pointer:
							if _, ok := u.Elem().Underlying().(*types.Array); ok {
								add("index", x)
							}
						}
					case *ast.AssignStmt:
						// `p, _ := lookup(...)`: a pointer taken from a call whose ok / error companion is discarded
						if len(x.Lhs) == 2 && len(x.Rhs) == 1 {
							if id, ok := x.Lhs[1].(*ast.Ident); ok && id.Name == "_" {
								if call, ok := x.Rhs[0].(*ast.CallExpr); ok {
									if first, ok := x.Lhs[0].(*ast.Ident); ok && first.Name != "_" {
										if tup, ok := p.TypesInfo.TypeOf(call).(*types.Tuple); ok && tup.Len() == 2 {
											if _, isPtr := tup.At(0).Type().Underlying().(*types.Pointer); isPtr {
												add("unchecked", call)
											}
										}
									}
								}
							}
						}
					case *ast.RangeStmt:
						// `for _, v := range xs` over a slice of POINTERS to a struct of this module (what YAML
						// decoding fills: a null list entry decodes to a nil element): a field of `v` read in
						// the body before any `if v == nil { continue / return / break }`
						if site := nilElemSite(p, x); site != nil {
							addText("nilelem", "range "+normExpr(p.TypesInfo, p.Types, x.X)+": "+normExpr(p.TypesInfo, p.Types, site))
						}
					case *ast.SliceExpr:
						add("slice", x)
					case *ast.TypeAssertExpr:
						if x.Type != nil && !okAssert[x] {
							add("assert", x)
						}
					case *ast.CallExpr:
						switch f := x.Fun.(type) {
						case *ast.Ident:
							if f.Name == "panic" {
								add("panic", x)
							}
						case *ast.SelectorExpr:
							if strings.HasPrefix(f.Sel.Name, "Must") {
								add("must", x)
							}
						}
					}
					return true
				})
			}
		}
	}
	// ---- task flows: every call of the module that hands over a *ast.Task, with where that task comes from; and every
	// nilelem loop over a list of a LOCAL task variable (consumer = the function itself)
	var flows []string
	flowSeen := map[string]bool{}
	addFlow := func(consumer, via, kind, detail string) {
		k := "(" + q(consumer) + ", " + q(via) + ", " + q(kind) + ", " + q(detail) + ")"
		if !flowSeen[k] {
			flowSeen[k] = true
			flows = append(flows, k)
		}
	}
	referenced := map[types.Object]bool{}
	type declInfo struct {
		key string
		obj types.Object
		exp bool
	}
	var decls []declInfo
	callGraph := map[string]map[string]bool{}
	for _, p := range pkgs {
		if strings.Contains(p.PkgPath, "/verifhook") || strings.Contains(p.PkgPath, "/website") {
			continue
		}
		for _, f := range p.Syntax {
			fname := p.Fset.Position(f.Pos()).Filename
			if strings.HasSuffix(fname, "_test.go") || strings.Contains(fname, "checker_mock") {
				continue
			}
			for id, obj := range p.TypesInfo.Uses {
				if id.Pos() >= f.Pos() && id.End() <= f.End() {
					if fo, ok := obj.(*types.Func); ok {
						referenced[fo] = true
					}
				}
			}
			for _, d := range f.Decls {
				fd, ok := d.(*ast.FuncDecl)
				if !ok || fd.Body == nil {
					continue
				}
				fn := shortPkg(p.PkgPath) + ":" + funcName(fd)
				internalPkg := strings.Contains(p.PkgPath, "/internal/") || strings.HasSuffix(p.PkgPath, "/cmd/task")
				decls = append(decls, declInfo{fn, p.TypesInfo.Defs[fd.Name], fd.Name.IsExported() && !internalPkg})
				if callGraph[fn] == nil {
					callGraph[fn] = map[string]bool{}
				}
				// closures that call themselves through the variable they are assigned to
				closureVars := map[types.Object]bool{}
				ast.Inspect(fd.Body, func(n ast.Node) bool {
					if as, ok := n.(*ast.AssignStmt); ok && len(as.Lhs) == 1 && len(as.Rhs) == 1 {
						if fl, ok := as.Rhs[0].(*ast.FuncLit); ok {
							if id, ok := as.Lhs[0].(*ast.Ident); ok {
								obj := p.TypesInfo.Uses[id]
								if obj == nil {
									obj = p.TypesInfo.Defs[id]
								}
								self := false
								ast.Inspect(fl.Body, func(m ast.Node) bool {
									if ce, ok := m.(*ast.CallExpr); ok {
										if cid, ok := ce.Fun.(*ast.Ident); ok && obj != nil && p.TypesInfo.Uses[cid] == obj {
											self = true
										}
									}
									return true
								})
								if self && obj != nil {
									closureVars[obj] = true
									callGraph[fn+"·"+id.Name] = map[string]bool{fn + "·" + id.Name: true}
								}
							}
						}
					}
					return true
				})
				ast.Inspect(fd.Body, func(n ast.Node) bool {
					ce, ok := n.(*ast.CallExpr)
					if !ok {
						return true
					}
					keys := calleeKeys(pkgs, p, ce)
					for _, k := range keys {
						callGraph[fn][k] = true
					}
					for _, a := range ce.Args {
						if t := p.TypesInfo.TypeOf(a); t != nil && isAstTaskPtr(t) {
							kind, detail := taskOrigin(pkgs, p, fd, a, ce.Pos(), 0)
							for _, k := range keys {
								addFlow(k, fn, kind, detail)
							}
						}
					}
					return true
				})
				ast.Inspect(fd.Body, func(n ast.Node) bool {
					rs, ok := n.(*ast.RangeStmt)
					if !ok || nilElemSite(p, rs) == nil {
						return true
					}
					if se, ok := rs.X.(*ast.SelectorExpr); ok {
						if bt := p.TypesInfo.TypeOf(se.X); bt != nil && isAstTaskPtr(bt) {
							kind, detail := taskOrigin(pkgs, p, fd, se.X, rs.Pos(), 0)
							if kind != "param" {
								addFlow(fn, fn, kind, detail)
							}
						}
					}
					return true
				})
			}
		}
	}
	sort.Strings(flows)
	var dead []string
	for _, d := range decls {
		if d.obj != nil && !referenced[d.obj] && !d.exp && !strings.HasSuffix(d.key, ":main") && !strings.HasSuffix(d.key, ":init") {
			// methods may be reached through interfaces (UnmarshalYAML, Error, String …): only plain functions count
			if fo, ok := d.obj.(*types.Func); ok && fo.Type().(*types.Signature).Recv() == nil {
				dead = append(dead, q(d.key))
			}
		}
	}
	sort.Strings(dead)

	// ---- recursion: the strongly connected components of the static call graph (calls through interfaces reach every
	// implementing method of the module) that contain a cycle, and closures that call themselves
	var recRows []string
	{
		index, low := map[string]int{}, map[string]int{}
		on := map[string]bool{}
		var stack []string
		next := 0
		var names []string
		for k := range callGraph {
			names = append(names, k)
		}
		sort.Strings(names)
		var strong func(v string)
		strong = func(v string) {
			index[v], low[v] = next, next
			next++
			stack = append(stack, v)
			on[v] = true
			var succ []string
			for w := range callGraph[v] {
				succ = append(succ, w)
			}
			sort.Strings(succ)
			for _, w := range succ {
				if _, known := callGraph[w]; !known {
					continue
				}
				if _, seen := index[w]; !seen {
					strong(w)
					low[v] = min(low[v], low[w])
				} else if on[w] {
					low[v] = min(low[v], index[w])
				}
			}
			if low[v] == index[v] {
				var comp []string
				for {
					w := stack[len(stack)-1]
					stack = stack[:len(stack)-1]
					on[w] = false
					comp = append(comp, w)
					if w == v {
						break
					}
				}
				sort.Strings(comp)
				if len(comp) > 1 || callGraph[v][v] {
					for _, m := range comp {
						recRows = append(recRows, "("+q(m)+", "+q(strings.Join(comp, " "))+")")
					}
				}
			}
		}
		for _, v := range names {
			if _, seen := index[v]; !seen {
				strong(v)
			}
		}
		sort.Strings(recRows)
	}

	sort.Strings(rows)
	body := "/-- (function, kind, expression, occurrence) -/\ndef sites : List (String × String × String × Nat) := [\n  " + strings.Join(rows, ",\n  ") + "]\n"
	sort.Strings(compiled)
	body += "\n/-- how `Executor.compiledTask` fills the fields of the compiled task that are lists of pointers (what a null YAML\nlist entry turns into a nil element of): (field, how) with how = the normalised right-hand side of the assignment,\n`filtered-nil` = elements appended in a loop over the definition's list that skips nil elements first -/\ndef compiledLists : List (String × String) := [\n  " + strings.Join(compiled, ",\n  ") + "]\n"
	body += "\n/-- every call of the module that hands over a `*ast.Task`: (callee — for a call through an interface every implementing\nmethod —, calling function, origin kind, origin detail); origin = `param` (a parameter of the calling function), `call` +\nthe function whose result it is (through the textually last assignment before the call), or `other`.  Also, for every\n`nilelem` loop over a list of a LOCAL task variable, a row (function, function, origin of that variable) -/\ndef taskFlows : List (String × String × String × String) := [\n  " + strings.Join(flows, ",\n  ") + "]\n"
	body += "\n/-- plain functions of the module that nothing in the module refers to and that are not part of its public API -/\ndef deadFuncs : List String := [" + strings.Join(dead, ", ") + "]\n"
	body += "\n/-- functions on a cycle of the static call graph (function, members of its strongly connected component); `f·g` is the\nclosure assigned to the local `g` of `f` that calls itself -/\ndef recursive : List (String × String) := [\n  " + strings.Join(recRows, ",\n  ") + "]\n"
	writeLean("PanicSites", "Expressions that can panic by themselves (index, slice, unchecked type assertion, Must*, panic) on the load/compile/resolve/list path.", body)
}
