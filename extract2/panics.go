package main

import (
	"go/ast"
	"go/types"
	"sort"
	"strings"

	"golang.org/x/tools/go/packages"
)

// normExpr prints an expression with every identifier that denotes a local variable or
// parameter replaced by ‹its type›, so that renaming locals does not change the fact.
func normExpr(info *types.Info, pkg *types.Package, e ast.Expr) string {
	type saved struct {
		id   *ast.Ident
		name string
	}
	var sv []saved
	ast.Inspect(e, func(n ast.Node) bool {
		id, ok := n.(*ast.Ident)
		if !ok {
			return true
		}
		obj := info.Uses[id]
		if obj == nil {
			obj = info.Defs[id]
		}
		v, ok := obj.(*types.Var)
		if !ok || v.IsField() || v.Parent() == nil || v.Parent() == pkg.Scope() || v.Parent() == types.Universe {
			return true
		}
		sv = append(sv, saved{id, id.Name})
		id.Name = "‹" + types.TypeString(v.Type(), func(p *types.Package) string { return p.Name() }) + "›"
		return true
	})
	out := src(e)
	for _, s := range sv {
		s.id.Name = s.name
	}
	return out
}

// nilElemSite: the first field selection on the value variable of a range over []*T (T a struct
// declared in this module) that is not preceded, in the loop body, by a nil guard that leaves the
// iteration.  Returns nil when the loop has no such selection.
func nilElemSite(p *packages.Package, rs *ast.RangeStmt) ast.Expr {
	vid, ok := rs.Value.(*ast.Ident)
	if !ok || vid.Name == "_" {
		return nil
	}
	vobj := p.TypesInfo.Defs[vid]
	if vobj == nil {
		vobj = p.TypesInfo.Uses[vid]
	}
	t := p.TypesInfo.TypeOf(rs.X)
	if t == nil || vobj == nil {
		return nil
	}
	sl, ok := t.Underlying().(*types.Slice)
	if !ok {
		return nil
	}
	ptr, ok := sl.Elem().Underlying().(*types.Pointer)
	if !ok {
		return nil
	}
	named, ok := ptr.Elem().(*types.Named)
	if !ok || named.Obj().Pkg() == nil || !strings.HasPrefix(named.Obj().Pkg().Path(), "github.com/go-task/task/v3") {
		return nil
	}
	if _, ok := named.Underlying().(*types.Struct); !ok {
		return nil
	}
	isV := func(e ast.Expr) bool {
		id, ok := e.(*ast.Ident)
		return ok && p.TypesInfo.Uses[id] == vobj
	}
	leaves := func(b *ast.BlockStmt) bool {
		if len(b.List) == 0 {
			return false
		}
		switch l := b.List[len(b.List)-1].(type) {
		case *ast.ReturnStmt:
			return true
		case *ast.BranchStmt:
			return l.Tok.String() == "continue" || l.Tok.String() == "break"
		}
		return false
	}
	for _, st := range rs.Body.List {
		if is, ok := st.(*ast.IfStmt); ok && is.Init == nil {
			if be, ok := is.Cond.(*ast.BinaryExpr); ok && be.Op.String() == "==" {
				if id, ok := be.Y.(*ast.Ident); ok && id.Name == "nil" && isV(be.X) && leaves(is.Body) {
					return nil // guarded from here on
				}
			}
		}
		var hit ast.Expr
		notNil := func(e ast.Expr) bool { // does the && chain `e` contain `v != nil`?
			found := false
			var walk func(e ast.Expr)
			walk = func(e ast.Expr) {
				if pe, ok := e.(*ast.ParenExpr); ok {
					walk(pe.X)
					return
				}
				if be, ok := e.(*ast.BinaryExpr); ok {
					if be.Op.String() == "&&" {
						walk(be.X)
						walk(be.Y)
					} else if be.Op.String() == "!=" {
						if id, ok := be.Y.(*ast.Ident); ok && id.Name == "nil" && isV(be.X) {
							found = true
						}
					}
				}
			}
			walk(e)
			return found
		}
		var scan func(n ast.Node)
		scan = func(n ast.Node) {
			if n == nil || hit != nil {
				return
			}
			ast.Inspect(n, func(m ast.Node) bool {
				if hit != nil {
					return false
				}
				switch x := m.(type) {
				case *ast.IfStmt:
					if x.Init != nil {
						scan(x.Init)
					}
					scan(x.Cond)
					if !notNil(x.Cond) { // a body behind `v != nil && …` is guarded
						scan(x.Body)
					}
					if x.Else != nil {
						scan(x.Else)
					}
					return false
				case *ast.BinaryExpr:
					if x.Op.String() == "&&" {
						scan(x.X)
						if !notNil(x.X) {
							scan(x.Y)
						}
						return false
					}
				case *ast.SelectorExpr:
					if isV(x.X) {
						if sel := p.TypesInfo.Selections[x]; sel != nil && sel.Kind() == types.FieldVal {
							hit = x
							return false
						}
					}
				}
				return true
			})
		}
		scan(st)
		if hit != nil {
			return hit
		}
	}
	return nil
}

// compiledListsOf: in compiledTask, every assignment (composite-literal entry or `new.F = …`) to a field
// whose type is a slice of pointers to structs of this module, and every loop `for _, v := range
// origTask.F` whose first statement is `if v == nil { continue }`.
func compiledListsOf(p *packages.Package, fd *ast.FuncDecl) []string {
	var rows []string
	ptrList := func(t types.Type) bool {
		if t == nil {
			return false
		}
		sl, ok := t.Underlying().(*types.Slice)
		if !ok {
			return false
		}
		_, ok = sl.Elem().Underlying().(*types.Pointer)
		return ok && namedStruct(sl.Elem()) != ""
	}
	seen := map[string]bool{}
	add := func(f, how string) {
		k := "(" + q(f) + ", " + q(how) + ")"
		if !seen[k] {
			seen[k] = true
			rows = append(rows, k)
		}
	}
	// how a value is produced: `call:<callee>` (builtins by name), `pass` (a field read as it is), else the expression
	classify := func(e ast.Expr) string {
		switch v := e.(type) {
		case *ast.CallExpr:
			switch f := v.Fun.(type) {
			case *ast.Ident:
				return "call:" + f.Name
			case *ast.SelectorExpr:
				return "call:" + src(f)
			}
		case *ast.SelectorExpr:
			if sel := p.TypesInfo.Selections[v]; sel != nil && sel.Kind() == types.FieldVal {
				return "pass"
			}
		}
		return "expr:" + normExpr(p.TypesInfo, p.Types, e)
	}
	ast.Inspect(fd.Body, func(n ast.Node) bool {
		switch x := n.(type) {
		case *ast.KeyValueExpr:
			if id, ok := x.Key.(*ast.Ident); ok {
				if v, ok := p.TypesInfo.Uses[id].(*types.Var); ok && v.IsField() && ptrList(v.Type()) {
					add(id.Name, classify(x.Value))
				}
			}
		case *ast.AssignStmt:
			for i, l := range x.Lhs {
				if se, ok := l.(*ast.SelectorExpr); ok && i < len(x.Rhs) {
					if sel := p.TypesInfo.Selections[se]; sel != nil && sel.Kind() == types.FieldVal && ptrList(sel.Type()) {
						add(se.Sel.Name, classify(x.Rhs[i]))
					}
				}
			}
		case *ast.RangeStmt:
			se, ok := x.X.(*ast.SelectorExpr)
			vid, ok2 := x.Value.(*ast.Ident)
			if !ok || !ok2 || !ptrList(p.TypesInfo.TypeOf(x.X)) || len(x.Body.List) == 0 {
				return true
			}
			if is, ok := x.Body.List[0].(*ast.IfStmt); ok && is.Init == nil {
				if be, ok := is.Cond.(*ast.BinaryExpr); ok && be.Op.String() == "==" {
					xi, okx := be.X.(*ast.Ident)
					yi, oky := be.Y.(*ast.Ident)
					if okx && oky && yi.Name == "nil" && p.TypesInfo.Uses[xi] == p.TypesInfo.Defs[vid] && len(is.Body.List) == 1 {
						if br, ok := is.Body.List[0].(*ast.BranchStmt); ok && br.Tok.String() == "continue" {
							add(se.Sel.Name, "filtered-nil")
						}
					}
				}
			}
		}
		return true
	})
	return rows
}

// genPanicSites: in the packages on the load / compile / resolve / list path, every
// expression that can panic at run time by itself: index and slice expressions on slices,
// arrays and strings (map indexing cannot panic), type assertions without comma-ok,
// calls to Must* functions, explicit panic(...), and pointers bound from a two-result call
// whose ok / error companion is discarded (`p, _ := lookup(k)`). Keyed by function + normalised expression text.
func genPanicSites(pkgs []*packages.Package) {
	want := map[string]bool{
		"task": true, "taskfile": true, "taskfile/ast": true, "args": true, "errors": true,
		"internal/templater": true, "internal/deepcopy": true, "internal/env": true, "internal/filepathext": true,
		"internal/fingerprint": true, "internal/hash": true, "internal/sort": true, "internal/summary": true,
		"internal/editors": true, "internal/output": true, "internal/execext": true, "internal/version": true,
	}
	var rows []string
	var compiled []string
	seen := map[string]bool{}
	for _, p := range pkgs {
		if !want[shortPkg(p.PkgPath)] {
			continue
		}
		for _, f := range p.Syntax {
			fname := p.Fset.Position(f.Pos()).Filename
			if strings.HasSuffix(fname, "_test.go") || strings.Contains(fname, "checker_mock") || strings.Contains(fname, "watch.go") {
				continue
			}
			for _, d := range f.Decls {
				fd, ok := d.(*ast.FuncDecl)
				if !ok || fd.Body == nil {
					continue
				}
				fn := shortPkg(p.PkgPath) + ":" + funcName(fd)
				// type assertions in comma-ok / type-switch position
				okAssert := map[*ast.TypeAssertExpr]bool{}
				ast.Inspect(fd.Body, func(n ast.Node) bool {
					switch x := n.(type) {
					case *ast.AssignStmt:
						if len(x.Lhs) == 2 && len(x.Rhs) == 1 {
							if ta, ok := x.Rhs[0].(*ast.TypeAssertExpr); ok {
								okAssert[ta] = true
							}
						}
					case *ast.ValueSpec:
						if len(x.Names) == 2 && len(x.Values) == 1 {
							if ta, ok := x.Values[0].(*ast.TypeAssertExpr); ok {
								okAssert[ta] = true
							}
						}
					case *ast.TypeSwitchStmt:
						ast.Inspect(x.Assign, func(m ast.Node) bool {
							if ta, ok := m.(*ast.TypeAssertExpr); ok {
								okAssert[ta] = true
							}
							return true
						})
					}
					return true
				})
				addText := func(kind string, expr string) {
					k := "(" + q(fn) + ", " + q(kind) + ", " + q(expr) + ")"
					if !seen[k] {
						seen[k] = true
						rows = append(rows, k)
					}
				}
				add := func(kind string, e ast.Expr) { addText(kind, normExpr(p.TypesInfo, p.Types, e)) }
				if fn == "task:Executor.compiledTask" {
					compiled = compiledListsOf(p, fd)
				}
				ast.Inspect(fd.Body, func(n ast.Node) bool {
					switch x := n.(type) {
					case *ast.IndexExpr:
						t := p.TypesInfo.TypeOf(x.X)
						if t == nil {
							return true
						}
						switch u := t.Underlying().(type) {
						case *types.Slice, *types.Array:
							add("index", x)
						case *types.Basic:
							if u.Info()&types.IsString != 0 {
								add("index", x)
							}
						case *types.Pointer:
							if _, ok := u.Elem().Underlying().(*types.Array); ok {
								add("index", x)
							}
						}
					case *ast.AssignStmt:
						// `p, _ := lookup(...)`: a pointer taken from a call whose ok / error companion is discarded
						if len(x.Lhs) == 2 && len(x.Rhs) == 1 {
							if id, ok := x.Lhs[1].(*ast.Ident); ok && id.Name == "_" {
								if call, ok := x.Rhs[0].(*ast.CallExpr); ok {
									if first, ok := x.Lhs[0].(*ast.Ident); ok && first.Name != "_" {
										if tup, ok := p.TypesInfo.TypeOf(call).(*types.Tuple); ok && tup.Len() == 2 {
											if _, isPtr := tup.At(0).Type().Underlying().(*types.Pointer); isPtr {
												add("unchecked", call)
											}
										}
									}
								}
							}
						}
					case *ast.RangeStmt:
						// `for _, v := range xs` over a slice of POINTERS to a struct of this module (what YAML
						// decoding fills: a null list entry decodes to a nil element): a field of `v` read in
						// the body before any `if v == nil { continue / return / break }`
						if site := nilElemSite(p, x); site != nil {
							addText("nilelem", "range "+normExpr(p.TypesInfo, p.Types, x.X)+": "+normExpr(p.TypesInfo, p.Types, site))
						}
					case *ast.SliceExpr:
						add("slice", x)
					case *ast.TypeAssertExpr:
						if x.Type != nil && !okAssert[x] {
							add("assert", x)
						}
					case *ast.CallExpr:
						switch f := x.Fun.(type) {
						case *ast.Ident:
							if f.Name == "panic" {
								add("panic", x)
							}
						case *ast.SelectorExpr:
							if strings.HasPrefix(f.Sel.Name, "Must") {
								add("must", x)
							}
						}
					}
					return true
				})
			}
		}
	}
	sort.Strings(rows)
	body := "/-- (function, kind, expression) -/\ndef sites : List (String × String × String) := [\n  " + strings.Join(rows, ",\n  ") + "]\n"
	sort.Strings(compiled)
	body += "\n/-- how `Executor.compiledTask` fills the fields of the compiled task that are lists of pointers (what a null YAML\nlist entry turns into a nil element of): (field, how) with how = the normalised right-hand side of the assignment,\n`filtered-nil` = elements appended in a loop over the definition's list that skips nil elements first -/\ndef compiledLists : List (String × String) := [\n  " + strings.Join(compiled, ",\n  ") + "]\n"
	writeLean("PanicSites", "Expressions that can panic by themselves (index, slice, unchecked type assertion, Must*, panic) on the load/compile/resolve/list path.", body)
}
