package main

import (
	"go/ast"
	"go/types"
	"sort"
	"strings"

	"golang.org/x/tools/go/packages"
)

// normExpr prints an expression with every identifier that denotes a local variable or
// parameter replaced by ‹its type›, so that renaming locals does not change the fact.
func normExpr(info *types.Info, pkg *types.Package, e ast.Expr) string {
	type saved struct {
		id   *ast.Ident
		name string
	}
	var sv []saved
	ast.Inspect(e, func(n ast.Node) bool {
		id, ok := n.(*ast.Ident)
		if !ok {
			return true
		}
		obj := info.Uses[id]
		if obj == nil {
			obj = info.Defs[id]
		}
		v, ok := obj.(*types.Var)
		if !ok || v.IsField() || v.Parent() == nil || v.Parent() == pkg.Scope() || v.Parent() == types.Universe {
			return true
		}
		sv = append(sv, saved{id, id.Name})
		id.Name = "‹" + types.TypeString(v.Type(), func(p *types.Package) string { return p.Name() }) + "›"
		return true
	})
	out := src(e)
	for _, s := range sv {
		s.id.Name = s.name
	}
	return out
}

// genPanicSites: in the packages on the load / compile / resolve / list path, every
// expression that can panic at run time by itself: index and slice expressions on slices,
// arrays and strings (map indexing cannot panic), type assertions without comma-ok,
// calls to Must* functions, explicit panic(...), and pointers bound from a two-result call
// whose ok / error companion is discarded (`p, _ := lookup(k)`). Keyed by function + normalised expression text.
func genPanicSites(pkgs []*packages.Package) {
	want := map[string]bool{
		"task": true, "taskfile": true, "taskfile/ast": true, "args": true, "errors": true,
		"internal/templater": true, "internal/deepcopy": true, "internal/env": true, "internal/filepathext": true,
		"internal/fingerprint": true, "internal/hash": true, "internal/sort": true, "internal/summary": true,
		"internal/editors": true, "internal/output": true, "internal/execext": true, "internal/version": true,
	}
	var rows []string
	seen := map[string]bool{}
	for _, p := range pkgs {
		if !want[shortPkg(p.PkgPath)] {
			continue
		}
		for _, f := range p.Syntax {
			fname := p.Fset.Position(f.Pos()).Filename
			if strings.HasSuffix(fname, "_test.go") || strings.Contains(fname, "checker_mock") || strings.Contains(fname, "watch.go") {
				continue
			}
			for _, d := range f.Decls {
				fd, ok := d.(*ast.FuncDecl)
				if !ok || fd.Body == nil {
					continue
				}
				fn := shortPkg(p.PkgPath) + ":" + funcName(fd)
				// type assertions in comma-ok / type-switch position
				okAssert := map[*ast.TypeAssertExpr]bool{}
				ast.Inspect(fd.Body, func(n ast.Node) bool {
					switch x := n.(type) {
					case *ast.AssignStmt:
						if len(x.Lhs) == 2 && len(x.Rhs) == 1 {
							if ta, ok := x.Rhs[0].(*ast.TypeAssertExpr); ok {
								okAssert[ta] = true
							}
						}
					case *ast.ValueSpec:
						if len(x.Names) == 2 && len(x.Values) == 1 {
							if ta, ok := x.Values[0].(*ast.TypeAssertExpr); ok {
								okAssert[ta] = true
							}
						}
					case *ast.TypeSwitchStmt:
						ast.Inspect(x.Assign, func(m ast.Node) bool {
							if ta, ok := m.(*ast.TypeAssertExpr); ok {
								okAssert[ta] = true
							}
							return true
						})
					}
					return true
				})
				add := func(kind string, e ast.Expr) {
					expr := normExpr(p.TypesInfo, p.Types, e)
					k := "(" + q(fn) + ", " + q(kind) + ", " + q(expr) + ")"
					if !seen[k] {
						seen[k] = true
						rows = append(rows, k)
					}
				}
				ast.Inspect(fd.Body, func(n ast.Node) bool {
					switch x := n.(type) {
					case *ast.IndexExpr:
						t := p.TypesInfo.TypeOf(x.X)
						if t == nil {
							return true
						}
						switch u := t.Underlying().(type) {
						case *types.Slice, *types.Array:
							add("index", x)
						case *types.Basic:
							if u.Info()&types.IsString != 0 {
								add("index", x)
							}
						case *types.Pointer:
							if _, ok := u.Elem().Underlying().(*types.Array); ok {
								add("index", x)
							}
						}
					case *ast.AssignStmt:
						// `p, _ := lookup(...)`: a pointer taken from a call whose ok / error companion is discarded
						if len(x.Lhs) == 2 && len(x.Rhs) == 1 {
							if id, ok := x.Lhs[1].(*ast.Ident); ok && id.Name == "_" {
								if call, ok := x.Rhs[0].(*ast.CallExpr); ok {
									if first, ok := x.Lhs[0].(*ast.Ident); ok && first.Name != "_" {
										if tup, ok := p.TypesInfo.TypeOf(call).(*types.Tuple); ok && tup.Len() == 2 {
											if _, isPtr := tup.At(0).Type().Underlying().(*types.Pointer); isPtr {
												add("unchecked", call)
											}
										}
									}
								}
							}
						}
					case *ast.SliceExpr:
						add("slice", x)
					case *ast.TypeAssertExpr:
						if x.Type != nil && !okAssert[x] {
							add("assert", x)
						}
					case *ast.CallExpr:
						switch f := x.Fun.(type) {
						case *ast.Ident:
							if f.Name == "panic" {
								add("panic", x)
							}
						case *ast.SelectorExpr:
							if strings.HasPrefix(f.Sel.Name, "Must") {
								add("must", x)
							}
						}
					}
					return true
				})
			}
		}
	}
	sort.Strings(rows)
	body := "/-- (function, kind, expression) -/\ndef sites : List (String × String × String) := [\n  " + strings.Join(rows, ",\n  ") + "]\n"
	writeLean("PanicSites", "Expressions that can panic by themselves (index, slice, unchecked type assertion, Must*, panic) on the load/compile/resolve/list path.", body)
}
