package main

import "strings"

// Hand-written classification used by genAccess (part of the trusted base of C18; validated by
// race-detector runs of the harness): which packages can run concurrently at all, which
// functions only run while the program is still single-threaded (set-up, YAML decoding,
// merging, option application, list/summary queries), and which objects are confined to one
// goroutine (fresh per call / per command).

var accessScope = map[string]bool{
	"task": true, "internal/output": true, "internal/templater": true, "internal/fingerprint": true, "internal/env": true,
	"internal/execext": true, "internal/hash": true, "internal/logger": true, "internal/deepcopy": true, "taskfile/ast": true,
}

// functions that never run concurrently with task execution
func isSetupFunc(fn string) bool {
	name := fn[strings.Index(fn, ":")+1:]
	switch {
	case strings.HasSuffix(name, ".ApplyToExecutor"), strings.HasSuffix(name, ".UnmarshalYAML"):
		return true
	case strings.HasPrefix(fn, "task:Executor.setup"), strings.HasPrefix(fn, "task:With"), strings.HasPrefix(fn, "task:New"):
		return true
	}
	switch fn {
	case "task:Executor.Setup", "task:Executor.readTaskfile", "task:Executor.getRootNode", "task:Executor.readDotEnvFiles",
		"task:Executor.doVersionChecks", "task:Executor.Options",
		// list / summary / editor queries run instead of task execution
		"task:Executor.GetTaskList", "task:Executor.ListTasks", "task:Executor.ListTaskNames", "task:Executor.ToEditorOutput",
		// watch mode is outside every model
		"task:Executor.watchTasks", "task:Executor.registerWatchedDirs", "task:Executor.collectSources",
		// merging and graph building happen while loading
		"taskfile/ast:Taskfile.Merge", "taskfile/ast:Tasks.Merge", "taskfile/ast:TaskfileGraph.Merge", "taskfile/ast:NewTaskfileGraph",
		"taskfile/ast:Tasks.ResolveRootRefs", // called by TaskfileGraph.Merge only (after F32), on the merged root table
		"taskfile/ast:Tasks.setDefaults",     // called by Taskfile.Merge only (fixes L8-4/5), on the included file's table while loading
		"taskfile/ast:Include.DeepCopy", "taskfile/ast:Includes.Set", "taskfile/ast:NewIncludes",
		// option constructors of the fingerprint package write a fresh config
		"taskfile/ast:Platform.parseArch", "taskfile/ast:Platform.parseOsOrArch", // YAML decoding
		"taskfile/ast:Platform.parsePlatform":
		return true
	}
	return false
}

// locations whose objects are created per call / per command and never shared
var confinedLoc = []string{
	"internal/templater.Cache.", "internal/fingerprint.CheckerConfig.", "internal/output.groupWriter.", "internal/output.prefixWriter.",
	"internal/execext.RunCommandOptions.", "task.Call.", "task.MatchingTask.", "internal/fingerprint.ChecksumChecker.", "internal/fingerprint.TimestampChecker.",
	"internal/fingerprint.StatusChecker.",
}

// (function, base expression) pairs that denote a freshly built, not yet published object
var matrixCopied bool // set by genAccess: itemsFromFor copies the loop definition before resolving refs

func isConfinedBase(fn, base string) bool {
	name := fn[strings.Index(fn, ":")+1:]
	switch {
	case strings.HasSuffix(name, ".DeepCopy"): // writes go to the copy being built
		return true
	case strings.HasPrefix(name, "New"): // constructors
		return true
	}
	// bases are printed by ORIGIN (see baseOrigin): ‹rhs of the local's definition› / ‹range X›; receivers and parameters by name
	if matrixCopied && (fn == "task:resolveMatrixRefs" || fn == "task:product") && base == "‹range ‹*ast.Matrix›.All()›" {
		return true // rows of the private copy made by itemsFromFor
	}
	switch fn + "|" + base {
	case "task:Executor.compiledTask|‹‹*ast.Cmd›.DeepCopy()›", "task:Executor.compiledTask|‹‹*ast.Dep›.DeepCopy()›",
		"task:Executor.compiledTask|‹‹*ast.Precondition›.DeepCopy()›",            // fresh copies
		"taskfile/ast:Vars.Merge|‹‹*orderedmap.Element[string, ast.Var]›.Value›", // a local copy of the map element
		"task:Executor.runDeferred|‹‹*ast.Task›.Cmds[‹int›]›",                    // a command of this activation's compiled copy
		"taskfile/ast:Vars.UnmarshalYAML|vs",
		"taskfile/ast:Vars.Set|vars", "taskfile/ast:Tasks.Set|tasks", "taskfile/ast:Matrix.Set|matrix": // lazy init of a nil map: only on objects under construction
		return true
	}
	if fn == "task:Executor.compiledTask" && strings.HasPrefix(base, "‹ast.Task{") {
		return true // the compiled copy under construction
	}
	return false
}

// Reviewed call edges from the run phase into functions classified set-up-only: (caller, callee).  An edge listed
// here is not followed when the run-phase reachable set is computed, so its callee keeps its set-up classification.
// Each needs a reason, written beside the same pair in lean/Props/C18.lean (`reviewedSetupEdges`), where the
// generated edge list is pinned to be exactly this list.
var reviewedSetupEdges = [][2]string{
	{"internal/hash:Hash", "taskfile/ast:Task.UnmarshalYAML"}, // the task is handed to hashstructure as `any`: reflection over fields, no decoding
	{"task:Executor.Run", "task:Executor.ListTasks"},          // printed when a requested task does not exist, before any task is started
	{"task:Executor.Run", "task:Executor.watchTasks"},         // watch mode, after g.Wait(): outside every model
}
