package main

import (
	"go/ast"
	"go/token"
	"go/types"
	"sort"
	"strings"
)

// Channel ordering instead of a mutex.  A struct of the module with a channel field (today only
// `task.execution`, field `done`) may publish its other fields through that channel: the one
// goroutine that created the object writes them before it closes the channel, everybody else
// reads them only after a receive from it.  For every access to such a field that holds no mutex
// — in ANY function of the module, whatever its phase — the role is computed syntactically:
//
//	before-close(T.ch)  the base is a local variable initialised in this function by `&T{…}`
//	                    (so this activation is the only one that can close this object's channel)
//	                    and the function closes `base.ch` after the access in source order, or
//	                    by a deferred `close(base.ch)` (which runs after every statement and
//	                    after the result expressions of `return`);
//	after-recv(T.ch)    the function has a receive statement `<-base.ch` on the same base
//	                    variable before the access, in a block that also contains the access
//	                    (so the receive dominates it);
//	unordered           anything else.
//
// TaskModel.Race computes the channel-synchronised locations FROM this table (`chanSyncOf`):
// a location is exempt from the lockset rule only if every write is `before-close` and every
// other access is `before-close` or `after-recv` — the situation `chan_ordered_no_race` covers.
type fnSyntax struct {
	fd   *ast.FuncDecl
	info *types.Info
}

func chanFieldOf(t types.Type) (string, bool) {
	for {
		if p, ok := t.(*types.Pointer); ok {
			t = p.Elem()
			continue
		}
		break
	}
	st, ok := t.Underlying().(*types.Struct)
	if !ok {
		return "", false
	}
	for i := 0; i < st.NumFields(); i++ {
		if _, ok := st.Field(i).Type().Underlying().(*types.Chan); ok {
			return st.Field(i).Name(), true
		}
	}
	return "", false
}

func baseVarOf(info *types.Info, e ast.Expr) *types.Var {
	if id, ok := e.(*ast.Ident); ok {
		v, _ := info.ObjectOf(id).(*types.Var)
		return v
	}
	return nil
}

// isChanField: e is `x.ch` with x the variable v and ch the channel field
func isChanOf(info *types.Info, e ast.Expr, v *types.Var, ch string) bool {
	se, ok := e.(*ast.SelectorExpr)
	if !ok || se.Sel.Name != ch {
		return false
	}
	return baseVarOf(info, se.X) == v && v != nil
}

func chanRole(fs fnSyntax, a access) string {
	info, fd := fs.info, fs.fd
	v := a.baseVar
	if v == nil {
		return "unordered"
	}
	ch, ok := chanFieldOf(v.Type())
	if !ok {
		return "unordered"
	}
	tname := namedStruct(v.Type())
	// fresh: v := &T{…} inside this function
	fresh := false
	ast.Inspect(fd.Body, func(n ast.Node) bool {
		as, ok := n.(*ast.AssignStmt)
		if !ok || as.Tok != token.DEFINE || len(as.Lhs) != len(as.Rhs) {
			return true
		}
		for i, l := range as.Lhs {
			if id, ok := l.(*ast.Ident); ok && info.Defs[id] == v {
				if u, ok := as.Rhs[i].(*ast.UnaryExpr); ok && u.Op == token.AND {
					if _, ok := u.X.(*ast.CompositeLit); ok {
						fresh = true
					}
				}
			}
		}
		return true
	})
	closedAfter := false
	if fresh {
		ast.Inspect(fd.Body, func(n ast.Node) bool {
			switch x := n.(type) {
			case *ast.FuncLit:
				return false // a close inside a closure runs at an unknown time
			case *ast.DeferStmt:
				if id, ok := x.Call.Fun.(*ast.Ident); ok && id.Name == "close" && len(x.Call.Args) == 1 && isChanOf(info, x.Call.Args[0], v, ch) {
					closedAfter = true
				}
				return false
			case *ast.ExprStmt:
				if c, ok := x.X.(*ast.CallExpr); ok {
					if id, ok := c.Fun.(*ast.Ident); ok && id.Name == "close" && len(c.Args) == 1 && isChanOf(info, c.Args[0], v, ch) && c.Pos() > a.pos {
						closedAfter = true
					}
				}
			}
			return true
		})
		// … and nothing closes it BEFORE the access
		ast.Inspect(fd.Body, func(n ast.Node) bool {
			if x, ok := n.(*ast.ExprStmt); ok {
				if c, ok := x.X.(*ast.CallExpr); ok {
					if id, ok := c.Fun.(*ast.Ident); ok && id.Name == "close" && len(c.Args) == 1 && isChanOf(info, c.Args[0], v, ch) && c.Pos() < a.pos {
						closedAfter = false
					}
				}
			}
			return true
		})
	}
	if closedAfter {
		return "before-close|" + tname + "." + ch
	}
	recvBefore := false
	ast.Inspect(fd.Body, func(n ast.Node) bool {
		blk, ok := n.(*ast.BlockStmt)
		if !ok {
			return true
		}
		for _, st := range blk.List {
			es, ok := st.(*ast.ExprStmt)
			if !ok {
				continue
			}
			u, ok := es.X.(*ast.UnaryExpr)
			if !ok || u.Op != token.ARROW || !isChanOf(info, u.X, v, ch) {
				continue
			}
			if es.End() <= a.pos && a.pos < blk.End() {
				recvBefore = true
			}
		}
		return true
	})
	if recvBefore {
		return "after-recv|" + tname + "." + ch
	}
	return "unordered"
}

func genChanOrder(all []access, syn map[string]fnSyntax) string {
	type row struct {
		loc, fn, role string
		write         bool
	}
	seen := map[row]bool{}
	// only channels that are closed somewhere publish anything (a semaphore channel does not)
	closed := map[string]bool{}
	for _, fs := range syn {
		ast.Inspect(fs.fd.Body, func(n ast.Node) bool {
			c, ok := n.(*ast.CallExpr)
			if !ok || len(c.Args) != 1 {
				return true
			}
			if id, ok := c.Fun.(*ast.Ident); !ok || id.Name != "close" {
				return true
			}
			if se, ok := c.Args[0].(*ast.SelectorExpr); ok {
				if sel := fs.info.Selections[se]; sel != nil && sel.Kind() == types.FieldVal {
					closed[namedStruct(sel.Recv())+"."+se.Sel.Name] = true
				}
			}
			return true
		})
	}
	for _, a := range all {
		if len(a.locks) > 0 || a.recvType == nil {
			continue
		}
		ch, ok := chanFieldOf(a.recvType)
		if !ok || strings.HasSuffix(a.loc, "."+ch) || !closed[namedStruct(a.recvType)+"."+ch] {
			continue
		}
		fs, ok := syn[a.fn]
		if !ok {
			continue
		}
		seen[row{a.loc, a.fn, chanRole(fs, a), a.write}] = true
	}
	var rows []row
	for r := range seen {
		rows = append(rows, r)
	}
	sort.Slice(rows, func(i, j int) bool {
		a, b := rows[i], rows[j]
		if a.loc != b.loc {
			return a.loc < b.loc
		}
		if a.fn != b.fn {
			return a.fn < b.fn
		}
		if a.write != b.write {
			return !a.write
		}
		return a.role < b.role
	})
	var b strings.Builder
	b.WriteString("\n/-- CHANNEL ORDERING FACTS: every access that holds no mutex, in any function of the module, to a field of a struct\nthat has a channel field: (location, function, is-write, role, channel) with role `before-close` (the creating activation, before it closes the\nchannel `T.ch`), `after-recv` (after a receive from it) or `unordered`. -/\n")
	b.WriteString("def chanOrdered : List (String × String × Bool × String × String) := [")
	for i, r := range rows {
		if i > 0 {
			b.WriteString(",")
		}
		w := "false"
		if r.write {
			w = "true"
		}
		role, ch := r.role, ""
		if i := strings.Index(role, "|"); i >= 0 {
			role, ch = role[:i], role[i+1:]
		}
		b.WriteString("\n  (" + q(r.loc) + ", " + q(r.fn) + ", " + w + ", " + q(role) + ", " + q(ch) + ")")
	}
	b.WriteString("]\n")
	return b.String()
}
