package main

import (
	"fmt"
	"go/ast"
	"go/types"
	"os"
	"sort"
	"strconv"
	"strings"

	"golang.org/x/tools/go/packages"
)

// Static call graph of the module under test (go/types), used to CHECK the phase claims of
// classify.go instead of trusting them.
//
// Nodes: the declared functions and methods of the module (outside tests), named as in the
// access table ("pkg:Recv.Name").  A function literal belongs to the function it is written in.
// Edges, from the function whose body (function literals included) contains the reference:
//   - every reference to a declared function or concrete method — as the callee of a call, of a
//     `go` / `defer` statement, as an argument of `g.Go(...)`, or as a value (method value,
//     callback): a function used as a value counts as called from where the value is taken;
//   - a call (or value use) of an INTERFACE method: one edge to that method of every named type
//     of the module that implements the interface;
//   - a value of a concrete module type T converted to an interface type I (argument, assignment,
//     return, composite-literal element, explicit conversion): edges to the methods of T that I
//     names — or, when I is the empty interface, to all methods of T (the consumer may use
//     reflection or type assertions: yaml, fmt, template engine).  This is how methods that only
//     third-party code calls (io.Writer.Write of the output wrappers, UnmarshalYAML) get callers.
//
// Calls through function-typed variables are covered by the value rule (the literal or the
// function named where the variable got its value).  Not covered: reflection on FIELDS of a
// converted value, unsafe, linkname, cgo — part of the trusted base.
type callGraph struct {
	name    map[*types.Func]string
	edges   map[string]map[string]bool
	nodes   map[string]bool
	pkgOf   map[string]string // node ↦ short package path
	named   []*types.Named    // non-interface named types of the module
	methods map[*types.Named][]*types.Func
}

func isModulePkg(p *types.Package) bool {
	return p != nil && (p.Path() == modPath || strings.HasPrefix(p.Path(), modPath+"/"))
}

func skipFile(name string) bool {
	return strings.HasSuffix(name, "_test.go") || strings.Contains(name, "checker_mock")
}

func skipPkg(path string) bool {
	sp := shortPkg(path)
	return strings.HasPrefix(sp, "verifhook") || strings.HasPrefix(sp, "_") || strings.Contains(sp, "/_")
}

func buildCallGraph(pkgs []*packages.Package) *callGraph {
	g := &callGraph{name: map[*types.Func]string{}, edges: map[string]map[string]bool{}, nodes: map[string]bool{},
		pkgOf: map[string]string{}, methods: map[*types.Named][]*types.Func{}}
	// nodes
	for _, p := range pkgs {
		if skipPkg(p.PkgPath) {
			continue
		}
		for _, f := range p.Syntax {
			if skipFile(p.Fset.Position(f.Pos()).Filename) {
				continue
			}
			for _, d := range f.Decls {
				fd, ok := d.(*ast.FuncDecl)
				if !ok || fd.Body == nil {
					continue
				}
				if o, ok := p.TypesInfo.Defs[fd.Name].(*types.Func); ok {
					n := shortPkg(p.PkgPath) + ":" + funcName(fd)
					g.name[o.Origin()] = n
					g.nodes[n] = true
					g.pkgOf[n] = shortPkg(p.PkgPath)
				}
			}
		}
		sc := p.Types.Scope()
		for _, nm := range sc.Names() {
			tn, ok := sc.Lookup(nm).(*types.TypeName)
			if !ok || tn.IsAlias() {
				continue
			}
			nt, ok := tn.Type().(*types.Named)
			if !ok {
				continue
			}
			if _, isIface := nt.Underlying().(*types.Interface); isIface {
				continue
			}
			g.named = append(g.named, nt)
		}
	}
	sort.Slice(g.named, func(i, j int) bool { return g.named[i].String() < g.named[j].String() })
	// edges
	for _, p := range pkgs {
		if skipPkg(p.PkgPath) {
			continue
		}
		for _, f := range p.Syntax {
			if skipFile(p.Fset.Position(f.Pos()).Filename) {
				continue
			}
			for _, d := range f.Decls {
				fd, ok := d.(*ast.FuncDecl)
				if !ok || fd.Body == nil {
					continue
				}
				o, ok := p.TypesInfo.Defs[fd.Name].(*types.Func)
				if !ok {
					continue
				}
				g.scanBody(p.TypesInfo, g.name[o.Origin()], fd)
			}
		}
	}
	return g
}

func (g *callGraph) add(from, to string) {
	if from == "" || to == "" {
		return
	}
	if g.edges[from] == nil {
		g.edges[from] = map[string]bool{}
	}
	g.edges[from][to] = true
}

// implementers: the method `name` of every module type whose value or pointer implements iface
func (g *callGraph) implementers(iface *types.Interface, name string) []*types.Func {
	var out []*types.Func
	for _, nt := range g.named {
		if nt.TypeParams().Len() > 0 {
			continue // uninstantiated generic: no method set to test
		}
		var t types.Type = nt
		if !types.Implements(t, iface) {
			t = types.NewPointer(nt)
			if !types.Implements(t, iface) {
				continue
			}
		}
		obj, _, _ := types.LookupFieldOrMethod(t, true, nt.Obj().Pkg(), name)
		if fo, ok := obj.(*types.Func); ok {
			out = append(out, fo.Origin())
		}
	}
	return out
}

func ifaceOf(t types.Type) *types.Interface {
	if t == nil {
		return nil
	}
	if _, isTP := t.(*types.TypeParam); isTP {
		return nil
	}
	i, _ := t.Underlying().(*types.Interface)
	return i
}

// concrete module type behind t (after pointers), or nil
func moduleNamed(t types.Type) *types.Named {
	for {
		if p, ok := t.(*types.Pointer); ok {
			t = p.Elem()
			continue
		}
		break
	}
	n, ok := t.(*types.Named)
	if !ok || !isModulePkg(n.Obj().Pkg()) {
		return nil
	}
	if _, isIface := n.Underlying().(*types.Interface); isIface {
		return nil
	}
	return n
}

// converted: a value of static type `from` flows into a slot of type `to`
func (g *callGraph) converted(fn string, from, to types.Type) {
	iface := ifaceOf(to)
	if iface == nil || from == nil {
		return
	}
	if ifaceOf(from) != nil {
		return // interface to interface: the concrete type was converted elsewhere
	}
	nt := moduleNamed(from)
	if nt == nil {
		return
	}
	// the method set that the interface value can reach: that of the pointer if a pointer (or an
	// addressable value) was converted; taking the pointer's is the over-approximation
	ms := types.NewMethodSet(types.NewPointer(nt.Origin()))
	for i := 0; i < ms.Len(); i++ {
		fo, ok := ms.At(i).Obj().(*types.Func)
		if !ok {
			continue
		}
		if iface.NumMethods() > 0 {
			named := false
			for j := 0; j < iface.NumMethods(); j++ {
				if iface.Method(j).Name() == fo.Name() {
					named = true
				}
			}
			if !named {
				continue
			}
		}
		g.add(fn, g.name[fo.Origin()])
	}
}

func (g *callGraph) scanBody(info *types.Info, fn string, fd *ast.FuncDecl) {
	// references to functions and methods
	ast.Inspect(fd.Body, func(n ast.Node) bool {
		switch x := n.(type) {
		case *ast.SelectorExpr:
			if sel := info.Selections[x]; sel != nil {
				fo, ok := sel.Obj().(*types.Func)
				if !ok {
					return true
				}
				if iface := ifaceOf(sel.Recv()); iface != nil {
					for _, m := range g.implementers(iface, fo.Name()) {
						g.add(fn, g.name[m])
					}
					return true
				}
				g.add(fn, g.name[fo.Origin()])
				return true
			}
			// qualified identifier pkg.F
			if fo, ok := info.Uses[x.Sel].(*types.Func); ok {
				g.add(fn, g.name[fo.Origin()])
			}
		case *ast.Ident:
			if fo, ok := info.Uses[x].(*types.Func); ok {
				if sig, ok := fo.Type().(*types.Signature); ok && sig.Recv() != nil {
					return true // a method named through a selector: handled above
				}
				g.add(fn, g.name[fo.Origin()])
			}
		}
		return true
	})
	// conversions of concrete module values to interface types
	var sigs []*types.Signature
	if o, ok := info.Defs[fd.Name].(*types.Func); ok {
		sigs = append(sigs, o.Type().(*types.Signature))
	}
	var walk func(n ast.Node)
	walk = func(n ast.Node) {
		ast.Inspect(n, func(n ast.Node) bool {
			switch x := n.(type) {
			case *ast.FuncLit:
				if s, ok := info.TypeOf(x).(*types.Signature); ok {
					sigs = append(sigs, s)
					walk(x.Body)
					sigs = sigs[:len(sigs)-1]
					return false
				}
			case *ast.CallExpr:
				tv, ok := info.Types[x.Fun]
				if !ok {
					return true
				}
				if tv.IsType() { // explicit conversion I(v)
					if len(x.Args) == 1 {
						g.converted(fn, info.TypeOf(x.Args[0]), tv.Type)
					}
					return true
				}
				sig, ok := tv.Type.Underlying().(*types.Signature)
				if !ok {
					return true
				}
				np := sig.Params().Len()
				for i, a := range x.Args {
					var pt types.Type
					switch {
					case sig.Variadic() && i >= np-1:
						pt = sig.Params().At(np - 1).Type()
						if sl, ok := pt.(*types.Slice); ok && !x.Ellipsis.IsValid() {
							pt = sl.Elem()
						}
					case i < np:
						pt = sig.Params().At(i).Type()
					}
					if pt != nil {
						g.converted(fn, info.TypeOf(a), pt)
					}
				}
			case *ast.AssignStmt:
				if len(x.Lhs) == len(x.Rhs) {
					for i := range x.Lhs {
						g.converted(fn, info.TypeOf(x.Rhs[i]), info.TypeOf(x.Lhs[i]))
					}
				}
			case *ast.ValueSpec:
				if x.Type != nil {
					for _, v := range x.Values {
						g.converted(fn, info.TypeOf(v), info.TypeOf(x.Type))
					}
				}
			case *ast.ReturnStmt:
				if len(sigs) > 0 {
					res := sigs[len(sigs)-1].Results()
					if res.Len() == len(x.Results) {
						for i, r := range x.Results {
							g.converted(fn, info.TypeOf(r), res.At(i).Type())
						}
					}
				}
			case *ast.SendStmt:
				if ch, ok := info.TypeOf(x.Chan).Underlying().(*types.Chan); ok {
					g.converted(fn, info.TypeOf(x.Value), ch.Elem())
				}
			case *ast.CompositeLit:
				t := info.TypeOf(x)
				if t == nil {
					return true
				}
				switch u := t.Underlying().(type) {
				case *types.Struct:
					for i, el := range x.Elts {
						if kv, ok := el.(*ast.KeyValueExpr); ok {
							if id, ok := kv.Key.(*ast.Ident); ok {
								for j := 0; j < u.NumFields(); j++ {
									if u.Field(j).Name() == id.Name {
										g.converted(fn, info.TypeOf(kv.Value), u.Field(j).Type())
									}
								}
							}
						} else if i < u.NumFields() {
							g.converted(fn, info.TypeOf(el), u.Field(i).Type())
						}
					}
				case *types.Slice:
					for _, el := range x.Elts {
						g.converted(fn, info.TypeOf(valueOf(el)), u.Elem())
					}
				case *types.Array:
					for _, el := range x.Elts {
						g.converted(fn, info.TypeOf(valueOf(el)), u.Elem())
					}
				case *types.Map:
					for _, el := range x.Elts {
						g.converted(fn, info.TypeOf(valueOf(el)), u.Elem())
					}
				}
			}
			return true
		})
	}
	walk(fd.Body)
}

func valueOf(e ast.Expr) ast.Expr {
	if kv, ok := e.(*ast.KeyValueExpr); ok {
		return kv.Value
	}
	return e
}

// reach: the functions reachable from the roots; an edge listed in `skip` is not followed
func (g *callGraph) reach(roots []string, skip map[[2]string]bool) map[string]bool {
	seen := map[string]bool{}
	var stack []string
	for _, r := range roots {
		if g.nodes[r] && !seen[r] {
			seen[r] = true
			stack = append(stack, r)
		}
	}
	for len(stack) > 0 {
		f := stack[len(stack)-1]
		stack = stack[:len(stack)-1]
		for to := range g.edges[f] {
			if skip[[2]string{f, to}] || seen[to] {
				continue
			}
			seen[to] = true
			stack = append(stack, to)
		}
	}
	return seen
}

func sortedKeys(m map[string]bool) []string {
	out := make([]string, 0, len(m))
	for k := range m {
		out = append(out, k)
	}
	sort.Strings(out)
	return out
}

// ---------------------------------------------------------------------------- phase check

// runRoots: everything that executes while tasks run is reached from these
var runRoots = []string{"task:Executor.Run", "task:Executor.RunTask"}

type phaseCheck struct {
	edges    [][2]string     // (run-phase caller, set-up-classified callee), every such edge, reviewed or not
	promoted map[string]bool // set-up-classified functions reachable from the roots through unreviewed edges
	reach    map[string]bool
	outPkgs  map[string][]string // package outside accessScope ↦ its run-reachable functions
}

func checkPhases(g *callGraph) *phaseCheck {
	skip := map[[2]string]bool{}
	for _, e := range reviewedSetupEdges {
		skip[e] = true
	}
	ph := &phaseCheck{promoted: map[string]bool{}, outPkgs: map[string][]string{}}
	ph.reach = g.reach(runRoots, skip)
	if os.Getenv("VERIF_X2_DEBUG") != "" { // the reachable set and the edges, for reviewing the construction
		for _, f := range sortedKeys(ph.reach) {
			fmt.Fprintln(os.Stderr, "reach", f, "->", strings.Join(sortedKeys(g.edges[f]), " "))
		}
	}
	for _, from := range sortedKeys(ph.reach) {
		for _, to := range sortedKeys(g.edges[from]) {
			if isSetupFunc(to) {
				ph.edges = append(ph.edges, [2]string{from, to})
			}
		}
	}
	for _, f := range sortedKeys(ph.reach) {
		if isSetupFunc(f) {
			ph.promoted[f] = true
		}
		if pk := g.pkgOf[f]; !accessScope[pk] {
			ph.outPkgs[pk] = append(ph.outPkgs[pk], f)
		}
	}
	return ph
}

func (ph *phaseCheck) lean() string {
	var b strings.Builder
	b.WriteString("\n/-- PHASE CLAIMS CHECKED BY THE CALL GRAPH.  Every call edge (caller, callee) from a function reachable from\n`Executor.Run` / `Executor.RunTask` to a function that the classification calls set-up-only.  An edge that is not\nreviewed (extract2/classify.go `reviewedSetupEdges`, pinned with its reason in `Props.C18`) makes the callee a\nrun-phase function: its accesses are in `accesses`. -/\n")
	b.WriteString("def setupReachedFromRun : List (String × String) := [")
	for i, e := range ph.edges {
		if i > 0 {
			b.WriteString(",")
		}
		b.WriteString("\n  (" + q(e[0]) + ", " + q(e[1]) + ")")
	}
	b.WriteString("]\n\n/-- set-up-classified functions that are reachable from the run roots through unreviewed edges (treated as run-phase) -/\n")
	b.WriteString("def setupPromoted : List String := [" + joinQ(sortedKeys(ph.promoted)) + "]\n\n")
	b.WriteString("/-- size of the run-phase reachable set (for the non-emptiness check) -/\ndef runReachableFunctions : Nat := " + strconv.Itoa(len(ph.reach)) + "\n")
	return b.String()
}
