package main

import (
	"fmt"
	"go/ast"
	"go/types"
	"reflect"
	"sort"
	"strings"

	"golang.org/x/tools/go/packages"
)

// genHashFields: what the structural hash behind `run: when_changed` reaches.  hashstructure
// walks exported struct fields (skipping `hash:"-"` / `hash:"ignore"`), follows pointers,
// slices, arrays and maps, and calls Hash() on a type (or its pointer) that implements
// Hashable instead of walking it.  For every struct reachable from ast.Task one row per field:
// (struct, field, kind, element type) with kind one of
//
//	value      basic type or interface (walked by value)
//	hashable   named type with a Hash() (uint64, error) method
//	struct     named struct with exported fields (walked; its own rows follow)
//	opaque     struct with no exported field and no Hash method: contributes NOTHING
//	unexported / ignored   the field itself is skipped
//
// plus the run-mode → key-function table of Executor.GetHash and the key expressions.
func genHashFields(pkgs []*packages.Package) {
	var astPkg, hashPkg, rootPkg *packages.Package
	for _, p := range pkgs {
		switch p.PkgPath {
		case modPath + "/taskfile/ast":
			astPkg = p
		case modPath + "/internal/hash":
			hashPkg = p
		case modPath:
			rootPkg = p
		}
	}
	var b strings.Builder
	hasHash := func(t types.Type) bool {
		for _, tt := range []types.Type{t, types.NewPointer(t)} {
			ms := types.NewMethodSet(tt)
			for i := 0; i < ms.Len(); i++ {
				f := ms.At(i).Obj().(*types.Func)
				if f.Name() != "Hash" {
					continue
				}
				sig := f.Type().(*types.Signature)
				if sig.Params().Len() == 0 && sig.Results().Len() == 2 && sig.Results().At(0).Type().String() == "uint64" && sig.Results().At(1).Type().String() == "error" {
					return true
				}
			}
		}
		return false
	}
	tname := func(n *types.Named) string {
		if n.Obj().Pkg() == nil {
			return n.Obj().Name()
		}
		p := n.Obj().Pkg().Path()
		if strings.HasPrefix(p, modPath) {
			return shortPkg(p)[strings.LastIndex(shortPkg(p), "/")+1:] + "." + n.Obj().Name()
		}
		return p + "." + n.Obj().Name()
	}
	var rows []string
	seen := map[string]bool{}
	var queue []*types.Named
	var classify func(t types.Type) (string, string)
	classify = func(t types.Type) (string, string) {
		for {
			switch x := t.(type) {
			case *types.Pointer:
				t = x.Elem()
				continue
			case *types.Slice:
				t = x.Elem()
				continue
			case *types.Array:
				t = x.Elem()
				continue
			case *types.Map:
				t = x.Elem()
				continue
			case *types.Alias:
				t = types.Unalias(t)
				continue
			}
			break
		}
		if n, ok := t.(*types.Named); ok {
			if hasHash(n) {
				return "hashable", tname(n)
			}
			if st, ok := n.Underlying().(*types.Struct); ok {
				exp := 0
				for i := 0; i < st.NumFields(); i++ {
					if st.Field(i).Exported() {
						exp++
					}
				}
				if exp == 0 {
					return "opaque", tname(n)
				}
				if !seen[tname(n)] {
					seen[tname(n)] = true
					queue = append(queue, n)
				}
				return "struct", tname(n)
			}
			return classify(n.Underlying())
		}
		switch t.(type) {
		case *types.Basic, *types.Interface:
			return "value", t.String()
		case *types.Struct:
			return "value", "struct{}"
		}
		return "other", t.String()
	}
	if astPkg != nil {
		// Task is the root; Var is what a Hashable *Vars hands to hashstructure entry by entry
		for _, root := range []string{"Task", "Var"} {
			if o := astPkg.Types.Scope().Lookup(root); o != nil {
				n := o.Type().(*types.Named)
				seen[tname(n)] = true
				queue = append(queue, n)
			}
		}
	}
	for len(queue) > 0 {
		n := queue[0]
		queue = queue[1:]
		st := n.Underlying().(*types.Struct)
		for i := 0; i < st.NumFields(); i++ {
			f := st.Field(i)
			kind, el := "", ""
			tag := reflect.StructTag(st.Tag(i)).Get("hash")
			switch {
			case !f.Exported():
				kind, el = "unexported", ""
			case tag == "-" || tag == "ignore":
				kind, el = "ignored", ""
			default:
				kind, el = classify(f.Type())
			}
			rows = append(rows, fmt.Sprintf("(%s, %s, %s, %s)", q(tname(n)), q(f.Name()), q(kind), q(el)))
		}
	}
	sort.Strings(rows)
	fmt.Fprintf(&b, "def fields : List (String × String × String × String) := [%s]\n\n", strings.Join(rows, ",\n  "))

	// GetHash: run mode → key function
	var modes []string
	if rootPkg != nil {
		for _, f := range rootPkg.Syntax {
			for _, d := range f.Decls {
				fd, ok := d.(*ast.FuncDecl)
				if !ok || funcName(fd) != "Executor.GetHash" {
					continue
				}
				ast.Inspect(fd.Body, func(m ast.Node) bool {
					cc, ok := m.(*ast.CaseClause)
					if !ok {
						return true
					}
					val := "?"
					for _, s := range cc.Body {
						if as, ok := s.(*ast.AssignStmt); ok && len(as.Rhs) == 1 {
							val = src(as.Rhs[0])
						}
						if _, ok := s.(*ast.ReturnStmt); ok {
							val = "error"
						}
					}
					if len(cc.List) == 0 {
						modes = append(modes, fmt.Sprintf("(%s, %s)", q("default"), q(val)))
					}
					for _, e := range cc.List {
						modes = append(modes, fmt.Sprintf("(%s, %s)", q(strings.Trim(src(e), "\"")), q(val)))
					}
					return true
				})
			}
		}
	}
	fmt.Fprintf(&b, "def runModes : List (String × String) := [%s]\n\n", strings.Join(modes, ", "))
	// key expressions of internal/hash
	var keys []string
	if hashPkg != nil {
		for _, f := range hashPkg.Syntax {
			for _, d := range f.Decls {
				fd, ok := d.(*ast.FuncDecl)
				if !ok || fd.Recv != nil {
					continue
				}
				var calls []string
				ast.Inspect(fd.Body, func(m ast.Node) bool {
					if c, ok := m.(*ast.CallExpr); ok {
						s := normExpr(hashPkg.TypesInfo, hashPkg.Types, c)
						if strings.HasPrefix(s, "hashstructure.Hash(") || strings.HasPrefix(s, "fmt.Sprintf(") {
							calls = append(calls, s)
						}
					}
					if r, ok := m.(*ast.ReturnStmt); ok && len(r.Results) > 0 {
						if _, isCall := r.Results[0].(*ast.CallExpr); !isCall {
							calls = append(calls, "return "+src(r.Results[0]))
						}
					}
					return true
				})
				keys = append(keys, fmt.Sprintf("(%s, [%s])", q("hash."+fd.Name.Name), strings.Join(mapq(calls), ", ")))
			}
		}
	}
	// the local name `hash.Name` keys on: what Task.LocalName strips from the full name
	var ln []string
	if astPkg != nil {
		if fd := findFunc(astPkg, "Task.LocalName"); fd != nil {
			for _, st := range fd.Body.List {
				ln = append(ln, q(normExprF(astPkg.TypesInfo, fd, st)))
			}
		}
	}
	fmt.Fprintf(&b, "def localName : List String := [%s]\n\n", strings.Join(ln, ", "))
	sort.Strings(keys)
	fmt.Fprintf(&b, "def keyFuncs : List (String × List String) := [%s]\n", strings.Join(keys, ",\n  "))
	writeLean("HashFields", "What hashstructure reaches from ast.Task (exported fields, Hashable types), the run-mode → key-function table of GetHash, and the key expressions of internal/hash.", b.String())
}

func mapq(ss []string) []string {
	out := make([]string, len(ss))
	for i, s := range ss {
		out[i] = q(s)
	}
	return out
}
