package main

import (
	"go/ast"
	"go/types"
	"sort"
	"strings"

	"golang.org/x/tools/go/packages"
)

// genWriteSites: EVERY call in the module (tests, the release tool and the verification hooks aside) that
// creates, changes or removes something in the file system through package os, with
//   - the conditions it sits under inside its function: each enclosing `if` (conjuncts split, `else:` for the
//     else branch) and each earlier `if C { … return }` of an enclosing block (`not:C`);
//   - the same for every static call site of its enclosing function (one level up; interface methods by name),
//     because some writers are guarded by their caller (`OnError` by `statusOnError`, `mkdir` by `RunTask`).
// Property C12 ("query and dry-run modes never create, modify or delete any file") rests on this list being
// complete and on every entry being dry-guarded or outside the query paths; `Props.C12.write_sites_reviewed`
// pins both.  A new writer anywhere in the module shows up here without a reviewed entry.
var mutatingOS = map[string]bool{
	"WriteFile": true, "Create": true, "MkdirAll": true, "Mkdir": true, "Remove": true, "RemoveAll": true, "Rename": true,
	"Chtimes": true, "OpenFile": true, "Symlink": true, "Link": true, "Truncate": true, "Chmod": true, "Chown": true,
	"CreateTemp": true, "MkdirTemp": true,
}

type wsFunc struct {
	pkg  *packages.Package
	decl *ast.FuncDecl
	name string
	obj  *types.Func
}

// guardsOf: the conditions on the path from the body of `root` to node `target`
func guardsOf(p *packages.Package, root ast.Node, target ast.Node) []string {
	var out []string
	conj := func(prefix string, e ast.Expr) {
		var walk func(e ast.Expr)
		walk = func(e ast.Expr) {
			if pe, ok := e.(*ast.ParenExpr); ok {
				walk(pe.X)
				return
			}
			if be, ok := e.(*ast.BinaryExpr); ok && be.Op.String() == "&&" && prefix == "" {
				walk(be.X)
				walk(be.Y)
				return
			}
			out = append(out, prefix+normExpr(p.TypesInfo, p.Types, e))
		}
		walk(e)
	}
	contains := func(n ast.Node) bool { return n != nil && n.Pos() <= target.Pos() && target.End() <= n.End() }
	returns := func(b *ast.BlockStmt) bool {
		if len(b.List) == 0 {
			return false
		}
		_, ok := b.List[len(b.List)-1].(*ast.ReturnStmt)
		return ok
	}
	var visit func(n ast.Node)
	visit = func(n ast.Node) {
		switch x := n.(type) {
		case *ast.BlockStmt:
			for _, st := range x.List {
				if contains(st) {
					visit(st)
					return
				}
				if is, ok := st.(*ast.IfStmt); ok && is.Else == nil && returns(is.Body) {
					conj("not:", is.Cond)
				}
			}
		case *ast.IfStmt:
			if x.Init != nil && contains(x.Init) {
				visit(x.Init)
				return
			}
			if contains(x.Cond) {
				return
			}
			if contains(x.Body) {
				conj("", x.Cond)
				visit(x.Body)
				return
			}
			if x.Else != nil && contains(x.Else) {
				conj("else:", x.Cond)
				visit(x.Else)
			}
		default:
			// descend into whatever child contains the target
			var next ast.Node
			ast.Inspect(n, func(m ast.Node) bool {
				if m == nil || m == n || next != nil {
					return m == n
				}
				if contains(m) {
					switch m.(type) {
					case *ast.BlockStmt, *ast.IfStmt:
						next = m
						return false
					}
					return true
				}
				return false
			})
			if next != nil {
				visit(next)
			}
		}
	}
	visit(root)
	sort.Strings(out)
	return out
}

func genWriteSites(pkgs []*packages.Package) {
	var funcs []wsFunc
	for _, p := range pkgs {
		sp := shortPkg(p.PkgPath)
		if strings.HasPrefix(sp, "cmd/release") || strings.HasPrefix(sp, "cmd/sleepit") || strings.HasPrefix(sp, "verifhook") || strings.HasPrefix(sp, "website") {
			continue
		}
		for _, f := range p.Syntax {
			fname := p.Fset.Position(f.Pos()).Filename
			if strings.HasSuffix(fname, "_test.go") || strings.Contains(fname, "checker_mock") {
				continue
			}
			for _, d := range f.Decls {
				if fd, ok := d.(*ast.FuncDecl); ok && fd.Body != nil {
					o, _ := p.TypesInfo.Defs[fd.Name].(*types.Func)
					funcs = append(funcs, wsFunc{p, fd, sp + ":" + funcName(fd), o})
				}
			}
		}
	}
	// call sites of a function, by object, and of a method by name (interface dispatch)
	callersOf := func(target wsFunc) []string {
		var rows []string
		for _, f := range funcs {
			ast.Inspect(f.decl.Body, func(n ast.Node) bool {
				c, ok := n.(*ast.CallExpr)
				if !ok {
					return true
				}
				var id *ast.Ident
				switch fx := c.Fun.(type) {
				case *ast.Ident:
					id = fx
				case *ast.SelectorExpr:
					id = fx.Sel
				}
				if id == nil {
					return true
				}
				callee, _ := f.pkg.TypesInfo.Uses[id].(*types.Func)
				if callee == nil {
					return true
				}
				same := callee == target.obj
				if !same && target.decl.Recv != nil && callee.Name() == target.decl.Name.Name {
					// an interface method of this module with the same name dispatches to it
					if sig, ok := callee.Type().(*types.Signature); ok && sig.Recv() != nil {
						if _, isIface := sig.Recv().Type().Underlying().(*types.Interface); isIface && callee.Pkg() != nil && strings.HasPrefix(callee.Pkg().Path(), modPath) {
							same = true
						}
					}
				}
				if same {
					gs := guardsOf(f.pkg, f.decl.Body, c)
					gq := make([]string, len(gs))
					for i, g := range gs {
						gq[i] = q(g)
					}
					rows = append(rows, "("+q(f.name)+", ["+strings.Join(gq, ", ")+"])")
				}
				return true
			})
		}
		sort.Strings(rows)
		return rows
	}
	var rows []string
	for _, f := range funcs {
		ast.Inspect(f.decl.Body, func(n ast.Node) bool {
			c, ok := n.(*ast.CallExpr)
			if !ok {
				return true
			}
			se, ok := c.Fun.(*ast.SelectorExpr)
			if !ok {
				return true
			}
			callee, _ := f.pkg.TypesInfo.Uses[se.Sel].(*types.Func)
			if callee == nil || callee.Pkg() == nil || callee.Pkg().Path() != "os" || !mutatingOS[callee.Name()] {
				return true
			}
			if sig, ok := callee.Type().(*types.Signature); ok && sig.Recv() != nil {
				return true // methods of *os.File: the file was opened by one of the functions above
			}
			local := guardsOf(f.pkg, f.decl.Body, c)
			lq := make([]string, len(local))
			for i, g := range local {
				lq[i] = q(g)
			}
			rows = append(rows, "("+q(f.name)+", "+q("os."+callee.Name())+", ["+strings.Join(lq, ", ")+"], ["+strings.Join(callersOf(f), ", ")+"])")
			return true
		})
	}
	sort.Strings(rows)
	body := "/-- (function, call, conditions inside the function, call sites of the function with their conditions) -/\n" +
		"def sites : List (String × String × List String × List (String × List String)) := [\n  " + strings.Join(rows, ",\n  ") + "]\n"
	writeLean("WriteSites", "Every call of the module that creates, changes or removes something in the file system (package os), with the conditions it sits under.", body)
}
