package main

import (
	"go/ast"
	"go/types"
	"sort"
	"strings"

	"golang.org/x/tools/go/packages"
)

// Aliasing facts.  The confinement claims rest on functions that hand out FRESH objects (DeepCopy,
// ReplaceVars, the compiled task): an object that is "per call" is only private if nobody else holds
// the same pointer.  The cheapest way to lose that is a function that returns one of its own
// arguments (`if nothing to do { return x }`).  For every function of the run-phase packages the
// table lists (function, type) when some `return` statement returns, as is, a parameter or the
// receiver whose type is a pointer to / map of / slice of module data (so the caller may go on to
// share it with the callee's caller).  Parameters are named by TYPE, not by name.  Props.C18 pins
// the list.
func genReturnsParam(pkgs []*packages.Package) string {
	seen := map[[2]string]bool{}
	for _, p := range pkgs {
		if skipPkg(p.PkgPath) || !accessScope[shortPkg(p.PkgPath)] {
			continue
		}
		info := p.TypesInfo
		for _, f := range p.Syntax {
			if skipFile(p.Fset.Position(f.Pos()).Filename) {
				continue
			}
			for _, d := range f.Decls {
				fd, ok := d.(*ast.FuncDecl)
				if !ok || fd.Body == nil {
					continue
				}
				fn := shortPkg(p.PkgPath) + ":" + funcName(fd)
				params := map[*types.Var]bool{}
				collect := func(fl *ast.FieldList) {
					if fl == nil {
						return
					}
					for _, fld := range fl.List {
						for _, nm := range fld.Names {
							if v, ok := info.Defs[nm].(*types.Var); ok {
								params[v] = true
							}
						}
					}
				}
				collect(fd.Recv)
				collect(fd.Type.Params)
				var visit func(n ast.Node) bool
				visit = func(n ast.Node) bool {
					switch x := n.(type) {
					case *ast.FuncLit:
						return false // its returns are not the function's
					case *ast.ReturnStmt:
						for _, r := range x.Results {
							id, ok := r.(*ast.Ident)
							if !ok {
								continue
							}
							v, ok := info.Uses[id].(*types.Var)
							if !ok || !params[v] {
								continue
							}
							if sharesData(v.Type()) {
								seen[[2]string{fn, types.TypeString(v.Type(), func(p *types.Package) string { return p.Name() })}] = true
							}
						}
					}
					return true
				}
				ast.Inspect(fd.Body, visit)
			}
		}
	}
	var keys [][2]string
	for k := range seen {
		keys = append(keys, k)
	}
	sort.Slice(keys, func(i, j int) bool {
		if keys[i][0] != keys[j][0] {
			return keys[i][0] < keys[j][0]
		}
		return keys[i][1] < keys[j][1]
	})
	var b strings.Builder
	b.WriteString("\n/-- ALIASING FACTS: functions of the run-phase packages that can return one of their own parameters (or the receiver)\nunchanged, where that parameter points to module data: (function, parameter type).  A copier that starts to do this\nmakes a per-call object an alias of a shared one. -/\n")
	b.WriteString("def returnsParam : List (String × String) := [")
	for i, k := range keys {
		if i > 0 {
			b.WriteString(",")
		}
		b.WriteString("\n  (" + q(k[0]) + ", " + q(k[1]) + ")")
	}
	b.WriteString("]\n")
	return b.String()
}

// sharesData: a pointer to, slice of or map of a struct type of the module (or a map / slice of anything: the
// backing store is shared)
func sharesData(t types.Type) bool {
	switch x := t.Underlying().(type) {
	case *types.Pointer:
		return namedStruct(x.Elem()) != ""
	case *types.Map, *types.Slice:
		_ = x
		return true
	}
	return false
}

// Copy facts.  The classification treats the commands, dependencies and preconditions of the
// task handed to an activation as that activation's own ("runDeferred|‹‹*ast.Task›.Cmds[‹int›]›",
// the DeepCopy bases).  That rests on compiledTask putting only FRESH copies into the compiled
// task.  For every `append(‹compiled task›.F, x)` in compiledTask, with F a slice of pointers to
// module structs, the table records (F, origin of x) — origins as in the access table: a local is
// printed by the right-hand side of its definition, locals inside that by type.  Props.C18 pins
// that every origin is a DeepCopy() result.
func genCopyFacts(pkgs []*packages.Package) string {
	seen := map[[2]string]bool{}
	for _, p := range pkgs {
		if shortPkg(p.PkgPath) != "task" {
			continue
		}
		info := p.TypesInfo
		for _, f := range p.Syntax {
			if skipFile(p.Fset.Position(f.Pos()).Filename) {
				continue
			}
			for _, d := range f.Decls {
				fd, ok := d.(*ast.FuncDecl)
				if !ok || fd.Body == nil || funcName(fd) != "Executor.compiledTask" {
					continue
				}
				ast.Inspect(fd.Body, func(n ast.Node) bool {
					c, ok := n.(*ast.CallExpr)
					if !ok || len(c.Args) < 2 {
						return true
					}
					if id, ok := c.Fun.(*ast.Ident); !ok || id.Name != "append" {
						return true
					}
					se, ok := c.Args[0].(*ast.SelectorExpr)
					if !ok {
						return true
					}
					sel := info.Selections[se]
					if sel == nil || sel.Kind() != types.FieldVal || namedStruct(sel.Recv()) != "taskfile/ast.Task" {
						return true
					}
					sl, ok := sel.Obj().Type().Underlying().(*types.Slice)
					if !ok {
						return true
					}
					if pt, ok := sl.Elem().(*types.Pointer); !ok || namedStruct(pt.Elem()) == "" {
						return true
					}
					for _, a := range c.Args[1:] {
						seen[[2]string{se.Sel.Name, baseOrigin(info, fd, a)}] = true
					}
					return true
				})
			}
		}
	}
	var keys [][2]string
	for k := range seen {
		keys = append(keys, k)
	}
	sort.Slice(keys, func(i, j int) bool {
		if keys[i][0] != keys[j][0] {
			return keys[i][0] < keys[j][0]
		}
		return keys[i][1] < keys[j][1]
	})
	var b strings.Builder
	b.WriteString("\n/-- COPY FACTS: what `compiledTask` appends to the pointer slices of the compiled task: (field, origin of the element) -/\n")
	b.WriteString("def compiledAppends : List (String × String) := [")
	for i, k := range keys {
		if i > 0 {
			b.WriteString(",")
		}
		b.WriteString("\n  (" + q(k[0]) + ", " + q(k[1]) + ")")
	}
	b.WriteString("]\n")
	return b.String()
}
