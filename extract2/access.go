package main

import (
	"fmt"
	"go/ast"
	"go/token"
	"go/types"
	"sort"
	"strings"

	"golang.org/x/tools/go/packages"
)

type access struct {
	fn, loc, base string
	write         bool
	locks         []string
	pos           token.Pos
	baseVar       *types.Var // the variable through which the field is reached, if the base is a plain identifier
	recvType      types.Type // static type of the base
}

// genAccess: every read/write of a field of a struct type of this module, outside tests and
// outside the verification hooks, with the mutexes syntactically held at that point:
// a mutex M counts as held after a statement `M.Lock()` / `M.RLock()` of the same function
// until `M.Unlock()` / `M.RUnlock()` (a deferred unlock keeps it to the end; an unlock inside a
// block that ends with `return` ends it for the rest of that block only).  A mutex also counts
// as held throughout an unexported function or method that is only ever called (never used as a
// value) and whose every call site holds it ("the caller holds M" helpers).
func genAccess(pkgs []*packages.Package) {
	var all []access
	var calls []callSite
	syn := map[string]fnSyntax{}
	decl := map[*types.Func]string{}   // declared function ↦ its name in the table
	valueUse := map[*types.Func]bool{} // referenced other than as the callee of a call
	for _, p := range pkgs {
		if skipPkg(p.PkgPath) {
			continue
		}
		for _, f := range p.Syntax {
			fname := p.Fset.Position(f.Pos()).Filename
			if strings.HasSuffix(fname, "_test.go") || strings.Contains(fname, "checker_mock") {
				continue
			}
			for _, d := range f.Decls {
				fd, ok := d.(*ast.FuncDecl)
				if !ok || fd.Body == nil {
					continue
				}
				fn := shortPkg(p.PkgPath) + ":" + funcName(fd)
				if o, ok := p.TypesInfo.Defs[fd.Name].(*types.Func); ok {
					decl[o] = fn
				}
				syn[fn] = fnSyntax{fd, p.TypesInfo}
				as, cs := accessesOf(p, fn, fd)
				all = append(all, as...)
				calls = append(calls, cs...)
			}
			// function objects used as values (method values, callbacks) can be called from anywhere
			calleeIdent := map[*ast.Ident]bool{}
			ast.Inspect(f, func(n ast.Node) bool {
				if c, ok := n.(*ast.CallExpr); ok {
					switch fx := c.Fun.(type) {
					case *ast.Ident:
						calleeIdent[fx] = true
					case *ast.SelectorExpr:
						calleeIdent[fx.Sel] = true
					}
				}
				return true
			})
			ast.Inspect(f, func(n ast.Node) bool {
				if id, ok := n.(*ast.Ident); ok && !calleeIdent[id] {
					if o, ok := p.TypesInfo.Uses[id].(*types.Func); ok {
						valueUse[o] = true
					}
				}
				return true
			})
		}
	}
	// locks held at every call site of a call-only unexported function are held inside it
	inherited := map[string][]string{}
	{
		sites := map[*types.Func][][]string{}
		for _, c := range calls {
			sites[c.callee] = append(sites[c.callee], c.locks)
		}
		for o, ls := range sites {
			fn, ok := decl[o]
			if !ok || o.Exported() || valueUse[o] {
				continue
			}
			common := append([]string(nil), ls[0]...)
			for _, l := range ls[1:] {
				var keep []string
				for _, m := range common {
					for _, m2 := range l {
						if m == m2 {
							keep = append(keep, m)
						}
					}
				}
				common = keep
			}
			if len(common) > 0 {
				inherited[fn] = common
			}
		}
	}
	for i := range all {
		if extra := inherited[all[i].fn]; len(extra) > 0 {
			set := map[string]bool{}
			for _, m := range all[i].locks {
				set[m] = true
			}
			for _, m := range extra {
				set[m] = true
			}
			var ls []string
			for m := range set {
				ls = append(ls, m)
			}
			sort.Strings(ls)
			all[i].locks = ls
		}
	}
	copies := false
	for _, p := range pkgs {
		if shortPkg(p.PkgPath) != "task" {
			continue
		}
		for _, f := range p.Syntax {
			for _, d := range f.Decls {
				if fd, ok := d.(*ast.FuncDecl); ok && fd.Name.Name == "itemsFromFor" && fd.Body != nil {
					s := src(fd.Body)
					i, j := strings.Index(s, "f = f.DeepCopy()"), strings.Index(s, "resolveMatrixRefs(f.Matrix")
					copies = i >= 0 && j > i
				}
			}
		}
	}
	// … and the rows are really copied: *MatrixRow has a DeepCopy method (deepcopy.OrderedMap shares values without one)
	rowCopy := false
	for _, p := range pkgs {
		if shortPkg(p.PkgPath) != "taskfile/ast" {
			continue
		}
		for _, f := range p.Syntax {
			for _, d := range f.Decls {
				if fd, ok := d.(*ast.FuncDecl); ok && funcName(fd) == "MatrixRow.DeepCopy" {
					rowCopy = true
				}
			}
		}
	}
	// phase claims checked against the call graph: a function classified set-up-only that is reachable
	// from the run roots (other than through a reviewed edge) is treated as run-phase
	cg := buildCallGraph(pkgs)
	// … and the copy reaches the rows: For.DeepCopy copies its matrix, Matrix.DeepCopy goes through the element-wise
	// deepcopy.OrderedMap (orderedmap's own Copy() would share the *MatrixRow values)
	chain := cg.edges["taskfile/ast:For.DeepCopy"]["taskfile/ast:Matrix.DeepCopy"] &&
		cg.edges["taskfile/ast:Matrix.DeepCopy"]["internal/deepcopy:OrderedMap"]
	copies = copies && rowCopy && chain
	matrixCopied = copies
	ph := checkPhases(cg)
	// classification
	total, setup, confined, outside := len(all), 0, 0, 0
	var rel []access
	for _, a := range all {
		if !accessScope[a.fn[:strings.Index(a.fn, ":")]] && !ph.reach[a.fn] {
			outside++ // a package that does not run concurrently (loading, CLI, set-up) and is not reached from the run roots
			continue
		}
		if isSetupFunc(a.fn) && !ph.promoted[a.fn] {
			setup++
			continue
		}
		conf := isConfinedBase(a.fn, a.base)
		for _, pre := range confinedLoc {
			if strings.HasPrefix(a.loc, pre) {
				conf = true
			}
		}
		if conf {
			confined++
			continue
		}
		rel = append(rel, a)
	}
	written := map[string]bool{}
	for _, a := range rel {
		if a.write {
			written[a.loc] = true
		}
	}
	sort.Slice(rel, func(i, j int) bool {
		a, b := rel[i], rel[j]
		if a.loc != b.loc {
			return a.loc < b.loc
		}
		if a.fn != b.fn {
			return a.fn < b.fn
		}
		if a.base != b.base {
			return a.base < b.base
		}
		return !a.write && b.write
	})
	seen := map[string]bool{}
	var rows []string
	for _, a := range rel {
		if !written[a.loc] {
			continue
		}
		k := fmt.Sprintf("(%s, %s, %s, %v, [%s])", q(a.loc), q(a.fn), q(a.base), a.write, joinQ(a.locks))
		if !seen[k] {
			seen[k] = true
			rows = append(rows, k)
		}
	}
	body := "/-- run-phase, non-confined accesses to locations that have a run-phase write:\n(location Type.field, function, base expression, is-write, mutexes held) -/\n" +
		"def accesses : List (String × String × String × Bool × List String) := [\n  " + strings.Join(rows, ",\n  ") + "]\n\n" +
		fmt.Sprintf("def totalAccesses : Nat := %d\ndef setupPhaseAccesses : Nat := %d\ndef confinedAccesses : Nat := %d\ndef outsideAccesses : Nat := %d\n\n/-- itemsFromFor works on a private copy of the loop definition before resolving matrix refs -/\ndef itemsFromForCopiesMatrix : Bool := %v\n", total, setup, confined, outside, copies)
	body += ph.lean()
	body += genConfinement(pkgs)
	body += genChanOrder(all, syn)
	body += genReturnsParam(pkgs)
	body += genCopyFacts(pkgs)
	writeLean("Access", "Shared-state accesses that can happen while tasks run concurrently, with the mutexes syntactically held.", body)
}

// lockName names a mutex by the struct field that holds it ("pkg.Type.field"), so that the
// same mutex reached through different expressions compares equal.
func lockName(info *types.Info, e ast.Expr) string {
	if se, ok := e.(*ast.SelectorExpr); ok {
		if sel := info.Selections[se]; sel != nil && sel.Kind() == types.FieldVal {
			if ty := namedStruct(sel.Recv()); ty != "" {
				return ty + "." + se.Sel.Name
			}
		}
	}
	return src(e)
}

func joinQ(xs []string) string {
	qs := make([]string, len(xs))
	for i, x := range xs {
		qs[i] = q(x)
	}
	return strings.Join(qs, ", ")
}

// baseOrigin prints the expression through which a field is reached.  A LOCAL variable
// (declared inside the function body) is not printed by its name but by where its value
// comes from — ‹rhs of its first definition› (locals inside that rhs printed by type), or
// ‹range X› for a range variable — so that renaming a local changes neither the table nor
// the confinement classification.  Receivers and parameters keep their names.
func baseOrigin(info *types.Info, fd *ast.FuncDecl, e ast.Expr) string {
	origin := map[*types.Var]string{}
	isLocal := func(v *types.Var) bool {
		return v != nil && !v.IsField() && fd.Body != nil && v.Pos() >= fd.Body.Pos() && v.Pos() <= fd.Body.End()
	}
	var pkg *types.Package
	ast.Inspect(fd.Body, func(n ast.Node) bool {
		switch x := n.(type) {
		case *ast.AssignStmt:
			if x.Tok != token.DEFINE {
				return true
			}
			for i, l := range x.Lhs {
				id, ok := l.(*ast.Ident)
				if !ok {
					continue
				}
				v, _ := info.Defs[id].(*types.Var)
				if v == nil || !isLocal(v) {
					continue
				}
				if pkg == nil {
					pkg = v.Pkg()
				}
				rhs := x.Rhs[0]
				if len(x.Rhs) == len(x.Lhs) {
					rhs = x.Rhs[i]
				}
				if _, dup := origin[v]; !dup {
					origin[v] = "‹" + normExpr(info, v.Pkg(), rhs) + "›"
				}
			}
		case *ast.RangeStmt:
			if x.Tok != token.DEFINE {
				return true
			}
			for _, l := range []ast.Expr{x.Key, x.Value} {
				if id, ok := l.(*ast.Ident); ok {
					if v, _ := info.Defs[id].(*types.Var); v != nil && isLocal(v) {
						origin[v] = "‹range " + normExpr(info, v.Pkg(), x.X) + "›"
					}
				}
			}
		}
		return true
	})
	type saved struct {
		id *ast.Ident
		n  string
	}
	var sv []saved
	ast.Inspect(e, func(n ast.Node) bool {
		id, ok := n.(*ast.Ident)
		if !ok {
			return true
		}
		v, _ := info.Uses[id].(*types.Var)
		if v == nil || !isLocal(v) {
			return true
		}
		o, ok := origin[v]
		if !ok {
			o = "‹" + types.TypeString(v.Type(), func(p *types.Package) string { return p.Name() }) + "›"
		}
		sv = append(sv, saved{id, id.Name})
		id.Name = o
		return true
	})
	out := src(e)
	for _, x := range sv {
		x.id.Name = x.n
	}
	return out
}

// a static call of a function of this module, with the mutexes held at the call
type callSite struct {
	callee *types.Func
	locks  []string
}

func accessesOf(p *packages.Package, fn string, fd *ast.FuncDecl) ([]access, []callSite) {
	var out []access
	var calls []callSite
	info := p.TypesInfo
	writes := map[ast.Expr]bool{} // selector / index-of-selector expressions in write position
	markWrite := func(e ast.Expr) {
		for {
			switch x := e.(type) {
			case *ast.IndexExpr:
				e = x.X
				continue
			case *ast.StarExpr:
				e = x.X
				continue
			case *ast.ParenExpr:
				e = x.X
				continue
			}
			break
		}
		if se, ok := e.(*ast.SelectorExpr); ok {
			writes[se] = true
		}
	}
	ast.Inspect(fd.Body, func(n ast.Node) bool {
		switch x := n.(type) {
		case *ast.AssignStmt:
			for _, l := range x.Lhs {
				markWrite(l)
			}
		case *ast.IncDecStmt:
			markWrite(x.X)
		case *ast.CallExpr:
			if id, ok := x.Fun.(*ast.Ident); ok && id.Name == "delete" && len(x.Args) > 0 {
				markWrite(x.Args[0])
			}
		case *ast.UnaryExpr:
			if x.Op == token.AND {
				// &x.f handed out: treat as write unless it is the receiver of a mutex call
				markWrite(x.X)
			}
		}
		return true
	})
	// lock tracking by source position: collect lock/unlock events
	type lev struct {
		pos    token.Pos
		m      string
		lock   bool
		defer_ bool
		// if the event sits in a block that ends with a return statement: the block's extent
		blkFrom, blkTo token.Pos
	}
	// blocks ending in return
	type rng struct{ from, to token.Pos }
	var retBlocks []rng
	ast.Inspect(fd.Body, func(n ast.Node) bool {
		if b, ok := n.(*ast.BlockStmt); ok && b != fd.Body && len(b.List) > 0 {
			if _, isRet := b.List[len(b.List)-1].(*ast.ReturnStmt); isRet {
				retBlocks = append(retBlocks, rng{b.Pos(), b.End()})
			}
		}
		return true
	})
	inRet := func(p token.Pos) (token.Pos, token.Pos) {
		var f, t token.Pos
		for _, r := range retBlocks {
			// the innermost such block: code after it, in an enclosing block, is reached only around it
			if r.from <= p && p < r.to && (f == 0 || r.to-r.from < t-f) {
				f, t = r.from, r.to
			}
		}
		return f, t
	}
	var evs []lev
	ast.Inspect(fd.Body, func(n ast.Node) bool {
		isDefer := false
		var call *ast.CallExpr
		switch x := n.(type) {
		case *ast.DeferStmt:
			call, isDefer = x.Call, true
		case *ast.ExprStmt:
			if c, ok := x.X.(*ast.CallExpr); ok {
				call = c
			}
		}
		if call == nil {
			return true
		}
		se, ok := call.Fun.(*ast.SelectorExpr)
		if !ok {
			return true
		}
		switch se.Sel.Name {
		case "Lock", "RLock":
			if !isDefer {
				evs = append(evs, lev{call.Pos(), lockName(info, se.X), true, false, 0, 0})
			}
		case "Unlock", "RUnlock":
			f, t := inRet(call.Pos())
			evs = append(evs, lev{call.Pos(), lockName(info, se.X), false, isDefer, f, t})
		}
		return true
	})
	held := func(pos token.Pos) []string {
		state := map[string]bool{}
		for _, e := range evs {
			if e.pos >= pos {
				continue
			}
			if e.lock {
				state[e.m] = true
			} else if !e.defer_ {
				if e.blkTo != 0 && !(e.blkFrom <= pos && pos < e.blkTo) {
					continue // unlocked on a path that returns before reaching `pos`
				}
				state[e.m] = false
			}
		}
		var ls []string
		for m, h := range state {
			if h {
				ls = append(ls, m)
			}
		}
		sort.Strings(ls)
		return ls
	}
	ast.Inspect(fd.Body, func(n ast.Node) bool {
		se, ok := n.(*ast.SelectorExpr)
		if !ok {
			return true
		}
		sel := info.Selections[se]
		if sel == nil || sel.Kind() != types.FieldVal {
			return true
		}
		ty := namedStruct(sel.Recv())
		if ty == "" {
			return true
		}
		// mutex fields themselves are not data
		if tn, ok := sel.Obj().Type().(*types.Named); ok && tn.Obj().Pkg() != nil && tn.Obj().Pkg().Path() == "sync" {
			return true
		}
		out = append(out, access{fn: fn, loc: ty + "." + se.Sel.Name, base: baseOrigin(info, fd, se.X), write: writes[se], locks: held(se.Pos()),
			pos: se.Pos(), baseVar: baseVarOf(info, se.X), recvType: sel.Recv()})
		return true
	})
	ast.Inspect(fd.Body, func(n ast.Node) bool {
		c, ok := n.(*ast.CallExpr)
		if !ok {
			return true
		}
		var obj types.Object
		switch fx := c.Fun.(type) {
		case *ast.Ident:
			obj = info.Uses[fx]
		case *ast.SelectorExpr:
			if sel := info.Selections[fx]; sel != nil {
				obj = sel.Obj()
			} else {
				obj = info.Uses[fx.Sel]
			}
		}
		if fo, ok := obj.(*types.Func); ok {
			calls = append(calls, callSite{fo, held(c.Pos())})
		}
		return true
	})
	return out, calls
}
