package main

import (
	"go/ast"
	"go/token"
	"go/types"
	"sort"
	"strings"

	"golang.org/x/tools/go/packages"
)

// Confinement claims checked syntactically.  classify.go says that objects of the `confinedLoc`
// types are created per call / per command and never shared between goroutines.  An object can
// only become shared by being stored somewhere another goroutine can read it, so for every such
// type T the whole module is searched for the places where a value of type T, *T, []T, []*T,
// map[..]T … is
//   - assigned to a field of a struct type of the module that is not itself confined
//     (assignment statement or composite literal),
//   - assigned to a package-level variable,
//   - sent on a channel,
//   - captured by a function literal that is started with `go` or handed to a `.Go(` call.
//
// The result (type, sink, function) is emitted as `confinedEscapes`; Props.C18 pins it to the
// reviewed list (empty on the reference tree).
func confinedTypeSet() map[string]bool {
	m := map[string]bool{}
	for _, pre := range confinedLoc {
		m[strings.TrimSuffix(pre, ".")] = true
	}
	return m
}

func confinedIn(t types.Type, conf map[string]bool, depth int) string {
	if t == nil || depth > 4 {
		return ""
	}
	switch x := t.(type) {
	case *types.Pointer:
		return confinedIn(x.Elem(), conf, depth+1)
	case *types.Slice:
		return confinedIn(x.Elem(), conf, depth+1)
	case *types.Array:
		return confinedIn(x.Elem(), conf, depth+1)
	case *types.Map:
		if s := confinedIn(x.Key(), conf, depth+1); s != "" {
			return s
		}
		return confinedIn(x.Elem(), conf, depth+1)
	case *types.Chan:
		return confinedIn(x.Elem(), conf, depth+1)
	case *types.Named:
		if n := namedStruct(x); n != "" && conf[n] {
			return n
		}
	}
	return ""
}

func genConfinement(pkgs []*packages.Package) string {
	conf := confinedTypeSet()
	seen := map[[3]string]bool{}
	add := func(ty, sink, fn string) { seen[[3]string{ty, sink, fn}] = true }
	for _, p := range pkgs {
		if skipPkg(p.PkgPath) {
			continue
		}
		info := p.TypesInfo
		for _, f := range p.Syntax {
			if skipFile(p.Fset.Position(f.Pos()).Filename) {
				continue
			}
			for _, d := range f.Decls {
				fd, ok := d.(*ast.FuncDecl)
				if !ok || fd.Body == nil {
					continue
				}
				fn := shortPkg(p.PkgPath) + ":" + funcName(fd)
				sink := func(lhs ast.Expr) string {
					for {
						switch x := lhs.(type) {
						case *ast.IndexExpr:
							lhs = x.X
							continue
						case *ast.StarExpr:
							lhs = x.X
							continue
						case *ast.ParenExpr:
							lhs = x.X
							continue
						}
						break
					}
					switch x := lhs.(type) {
					case *ast.SelectorExpr:
						if sel := info.Selections[x]; sel != nil && sel.Kind() == types.FieldVal {
							if s := namedStruct(sel.Recv()); s != "" && !conf[s] {
								return "field " + s + "." + x.Sel.Name
							}
							return ""
						}
						if v, ok := info.Uses[x.Sel].(*types.Var); ok && v.Parent() == v.Pkg().Scope() {
							return "global " + shortPkg(v.Pkg().Path()) + "." + v.Name()
						}
					case *ast.Ident:
						if v, ok := info.ObjectOf(x).(*types.Var); ok && v.Pkg() != nil && v.Parent() == v.Pkg().Scope() {
							return "global " + shortPkg(v.Pkg().Path()) + "." + v.Name()
						}
					}
					return ""
				}
				ast.Inspect(fd.Body, func(n ast.Node) bool {
					switch x := n.(type) {
					case *ast.AssignStmt:
						if len(x.Lhs) != len(x.Rhs) {
							return true
						}
						for i := range x.Lhs {
							if ty := confinedIn(info.TypeOf(x.Rhs[i]), conf, 0); ty != "" {
								if s := sink(x.Lhs[i]); s != "" {
									add(ty, s, fn)
								}
							}
						}
					case *ast.CompositeLit:
						s := namedStruct(info.TypeOf(x))
						st, _ := info.TypeOf(x).Underlying().(*types.Struct)
						if s == "" || st == nil || conf[s] {
							return true
						}
						for i, el := range x.Elts {
							name, val := "", el
							if kv, ok := el.(*ast.KeyValueExpr); ok {
								if id, ok := kv.Key.(*ast.Ident); ok {
									name = id.Name
								}
								val = kv.Value
							} else if i < st.NumFields() {
								name = st.Field(i).Name()
							}
							if ty := confinedIn(info.TypeOf(val), conf, 0); ty != "" {
								add(ty, "field "+s+"."+name, fn)
							}
						}
					case *ast.SendStmt:
						if ty := confinedIn(info.TypeOf(x.Value), conf, 0); ty != "" {
							add(ty, "channel send", fn)
						}
					case *ast.GoStmt:
						captured(info, fd, x.Call, conf, func(ty string) { add(ty, "captured by a go statement", fn) })
					case *ast.CallExpr:
						if se, ok := x.Fun.(*ast.SelectorExpr); ok && se.Sel.Name == "Go" {
							captured(info, fd, x, conf, func(ty string) { add(ty, "captured by a .Go( callback", fn) })
						}
					}
					return true
				})
			}
		}
	}
	var keys [][3]string
	for k := range seen {
		keys = append(keys, k)
	}
	sort.Slice(keys, func(i, j int) bool {
		for c := 0; c < 3; c++ {
			if keys[i][c] != keys[j][c] {
				return keys[i][c] < keys[j][c]
			}
		}
		return false
	})
	var b strings.Builder
	b.WriteString("\n/-- CONFINEMENT CLAIMS CHECKED SYNTACTICALLY: the types whose objects the classification treats as confined to one goroutine -/\n")
	var cts []string
	for t := range conf {
		cts = append(cts, t)
	}
	sort.Strings(cts)
	b.WriteString("def confinedTypes : List String := [" + joinQ(cts) + "]\n\n")
	b.WriteString("/-- every place where a value of a confined type is stored into a field of a non-confined struct of the module or a\npackage-level variable, sent on a channel, or captured by a function literal that is started as a goroutine:\n(type, sink, function) -/\n")
	b.WriteString("def confinedEscapes : List (String × String × String) := [")
	for i, k := range keys {
		if i > 0 {
			b.WriteString(",")
		}
		b.WriteString("\n  (" + q(k[0]) + ", " + q(k[1]) + ", " + q(k[2]) + ")")
	}
	b.WriteString("]\n")
	return b.String()
}

// captured: variables of a confined type declared outside a function literal of `call` (its callee or
// arguments) and used inside it
func captured(info *types.Info, fd *ast.FuncDecl, call *ast.CallExpr, conf map[string]bool, hit func(string)) {
	var lits []*ast.FuncLit
	if fl, ok := call.Fun.(*ast.FuncLit); ok {
		lits = append(lits, fl)
	}
	for _, a := range call.Args {
		if fl, ok := a.(*ast.FuncLit); ok {
			lits = append(lits, fl)
		}
	}
	for _, fl := range lits {
		ast.Inspect(fl.Body, func(n ast.Node) bool {
			id, ok := n.(*ast.Ident)
			if !ok {
				return true
			}
			v, ok := info.Uses[id].(*types.Var)
			if !ok || v.IsField() {
				return true
			}
			if v.Pos() >= fl.Pos() && v.Pos() <= fl.End() {
				return true // declared inside the literal
			}
			if v.Pos() == token.NoPos || v.Pos() < fd.Pos() || v.Pos() > fd.End() {
				return true // package-level
			}
			if ty := confinedIn(v.Type(), conf, 0); ty != "" {
				hit(ty)
			}
			return true
		})
	}
}
