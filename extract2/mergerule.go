package main

import (
	"fmt"
	"go/ast"
	"go/token"
	"go/types"
	"sort"
	"strings"

	"golang.org/x/tools/go/packages"
)

// normExprF is normExpr with the variables of one function told apart: every local
// variable, parameter and receiver of fd is printed as ‹type·k›, k numbering the variables of
// that type in the order of their declaration in fd (·1 omitted when the type occurs once).
// Renaming a variable does not change the text; swapping two arguments of equal type does.
func normExprF(info *types.Info, fd *ast.FuncDecl, e ast.Node) string {
	type decl struct {
		obj *types.Var
		pos token.Pos
	}
	var ds []decl
	seen := map[*types.Var]bool{}
	ast.Inspect(fd, func(n ast.Node) bool {
		id, ok := n.(*ast.Ident)
		if !ok {
			return true
		}
		if v, ok := info.Defs[id].(*types.Var); ok && !v.IsField() && !seen[v] {
			seen[v] = true
			ds = append(ds, decl{v, id.Pos()})
		}
		return true
	})
	sort.Slice(ds, func(i, j int) bool { return ds[i].pos < ds[j].pos })
	tstr := func(v *types.Var) string {
		return types.TypeString(v.Type(), func(p *types.Package) string { return p.Name() })
	}
	count := map[string]int{}
	for _, d := range ds {
		count[tstr(d.obj)]++
	}
	idx := map[string]int{}
	name := map[*types.Var]string{}
	for _, d := range ds {
		t := tstr(d.obj)
		idx[t]++
		if count[t] == 1 {
			name[d.obj] = "‹" + t + "›"
		} else {
			name[d.obj] = fmt.Sprintf("‹%s·%d›", t, idx[t])
		}
	}
	type saved struct {
		id *ast.Ident
		n  string
	}
	var sv []saved
	ast.Inspect(e, func(n ast.Node) bool {
		id, ok := n.(*ast.Ident)
		if !ok {
			return true
		}
		obj := info.Uses[id]
		if obj == nil {
			obj = info.Defs[id]
		}
		if v, ok := obj.(*types.Var); ok {
			if nm, ok := name[v]; ok {
				sv = append(sv, saved{id, id.Name})
				id.Name = nm
			}
		}
		return true
	})
	out := src(e)
	for _, s := range sv {
		s.id.Name = s.n
	}
	return out
}

func findFunc(p *packages.Package, name string) *ast.FuncDecl {
	for _, f := range p.Syntax {
		for _, d := range f.Decls {
			if fd, ok := d.(*ast.FuncDecl); ok && fd.Body != nil && funcName(fd) == name {
				return fd
			}
		}
	}
	return nil
}

// genMergeRule: how Tasks.Merge renames names and references, what taskRefWithNamespace and
// Tasks.ResolveRootRefs do, and what TaskfileGraph.Merge does after its merge loop (C08, root
// references).  Variables are printed by type (normExprF): local names are not facts.
func genMergeRule(pkgs []*packages.Package) {
	var astPkg *packages.Package
	for _, p := range pkgs {
		if p.PkgPath == modPath+"/taskfile/ast" {
			astPkg = p
		}
	}
	var b strings.Builder
	if astPkg == nil {
		writeLean("MergeRule", "taskfile/ast not found", "def tasksMergeRenames : List (String × String × String) := []\n")
		return
	}
	info := astPkg.TypesInfo
	var renames []string
	if fd := findFunc(astPkg, "Tasks.Merge"); fd != nil {
		ast.Inspect(fd.Body, func(n ast.Node) bool {
			as, ok := n.(*ast.AssignStmt)
			if !ok || len(as.Lhs) != 1 || len(as.Rhs) != 1 {
				return true
			}
			ast.Inspect(as.Rhs[0], func(m ast.Node) bool {
				c, ok := m.(*ast.CallExpr)
				if !ok {
					return true
				}
				if id, ok := c.Fun.(*ast.Ident); ok && strings.HasPrefix(id.Name, "task") && strings.HasSuffix(id.Name, "WithNamespace") && len(c.Args) > 0 {
					renames = append(renames, fmt.Sprintf("(%s, %s, %s)", q(normExprF(info, fd, as.Lhs[0])), q(id.Name), q(normExprF(info, fd, c.Args[0]))))
				}
				return true
			})
			return true
		})
	}
	fmt.Fprintf(&b, "def tasksMergeRenames : List (String × String × String) := [%s]\n\n", strings.Join(renames, ",\n  "))
	var body []string
	if fd := findFunc(astPkg, "taskRefWithNamespace"); fd != nil {
		ast.Inspect(fd.Body, func(n ast.Node) bool {
			switch x := n.(type) {
			case *ast.IfStmt:
				body = append(body, q("if "+normExprF(info, fd, x.Cond)))
			case *ast.ReturnStmt:
				body = append(body, q(normExprF(info, fd, x)))
			}
			return true
		})
	}
	fmt.Fprintf(&b, "def taskRefWithNamespaceBody : List String := [%s]\n\n", strings.Join(body, ", "))
	var assigns []string
	if fd := findFunc(astPkg, "Tasks.ResolveRootRefs"); fd != nil {
		ast.Inspect(fd.Body, func(n ast.Node) bool {
			if as, ok := n.(*ast.AssignStmt); ok && as.Tok == token.ASSIGN && len(as.Lhs) == 1 && len(as.Rhs) == 1 {
				assigns = append(assigns, fmt.Sprintf("(%s, %s)", q(normExprF(info, fd, as.Lhs[0])), q(normExprF(info, fd, as.Rhs[0]))))
			}
			return true
		})
	}
	fmt.Fprintf(&b, "def resolveRootRefsAssigns : List (String × String) := [%s]\n\n", strings.Join(assigns, ", "))
	var after []string
	if fd := findFunc(astPkg, "TaskfileGraph.Merge"); fd != nil {
		last := -1
		for i, st := range fd.Body.List {
			if _, ok := st.(*ast.ForStmt); ok {
				last = i
			}
		}
		if last >= 0 {
			for _, st := range fd.Body.List[last+1:] {
				if _, ok := st.(*ast.IfStmt); ok {
					continue // error checks
				}
				after = append(after, q(normExprF(info, fd, st)))
			}
		}
	}
	fmt.Fprintf(&b, "def graphMergeAfterLoop : List String := [%s]\n", strings.Join(after, ", "))
	writeLean("MergeRule", "How Tasks.Merge renames names and references; taskRefWithNamespace; Tasks.ResolveRootRefs; the tail of TaskfileGraph.Merge (variables printed by type).", b.String())
}
