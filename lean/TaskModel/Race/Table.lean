/-
Race.Table — the access table read as a program of the thread model.

Two readings of a row `⟨loc, fn, base, write, locks⟩`:

* abstractly: an access position of SOME body whose static lockset contains `locks`
  (`Covered`) — the bodies are whatever the functions of the tree really are;
* concretely: the critical section `lock locks…; access loc write; unlock …locks`
  (`rowBody`), any number of threads each running the section of any row.

For both, `disciplineOk table` gives "no reachable race state" through
`Threads.no_race_state`.  Core Lean only.
-/
import TaskModel.Race.Model
import TaskModel.Race.Threads

set_option linter.unusedSectionVars false

namespace TaskModel.Race
open Threads

/-- every access position of the program is described by a row of the table: same location,
same kind, and the row's mutexes are statically held there -/
def Covered {C : Type} (t : List Access) (P : Prog String String C) : Prop :=
  ∀ th i l w, opAt P th i = some (.access l w) →
    ∃ r, r ∈ t ∧ r.loc = l ∧ r.write = w ∧ ∀ m, m ∈ r.locks → m ∈ heldAt (body P th) i

/-- **the table corollary**: a program all of whose access positions are rows of a table that
passes `disciplineOk`, and whose channel-exempt locations really are published through a
channel, has no reachable race state — any number of threads, any interleaving. -/
theorem no_race_state_of_table {C : Type} [DecidableEq C] (t : List Access) (ht : disciplineOk t = true)
    (P : Prog String String C) (hwf : ∀ b ∈ P, WF b) (hcov : Covered t P)
    (hchan : ∀ l, l ∈ chanSync → ∃ c t0, ChanSynced P c l t0)
    (s : State String C) (hr : Reach P s) : ¬ RaceState P s := by
  apply chan_ordered_no_race P hwf _ s hr
  intro l
  by_cases hl : l ∈ chanSync
  · left; exact hchan l hl
  · right
    intro t1 t2 i j w1 w2 _ h1 h2 hw
    obtain ⟨r1, hr1, hl1, hw1, hm1⟩ := hcov t1 i l w1 h1
    obtain ⟨r2, hr2, hl2, hw2, hm2⟩ := hcov t2 j l w2 h2
    have := disciplineOk_spec t ht r1 r2 hr1 hr2 (by rw [hl1, hl2]) (by rw [hw1, hw2]; exact hw)
    rcases this with h | ⟨m, ha, hb⟩
    · rw [hl1] at h; exact absurd h hl
    · exact ⟨m, hm1 m ha, hm2 m hb⟩

/-! ## rows as critical sections -/

/-- the critical section a row stands for -/
def rowBody (r : Access) : Body String String Unit :=
  r.locks.map .lock ++ (.access r.loc r.write :: r.locks.reverse.map .unlock)

theorem heldFrom_locks (ls : List String) (H : List String) (rest : Body String String Unit) :
    heldFrom H (ls.map Op.lock ++ rest) ls.length = ls.reverse ++ H := by
  induction ls generalizing H with
  | nil => simp [heldFrom]
  | cons x r ih =>
    simp only [List.map_cons, List.cons_append, List.length_cons, heldFrom, upd]
    rw [ih]; simp

theorem held_rowBody (r : Access) (m : String) (h : m ∈ r.locks) :
    m ∈ heldAt (rowBody r) r.locks.length := by
  unfold heldAt rowBody
  rw [heldFrom_locks]; simpa using h

theorem access_rowBody (r : Access) (i : Nat) (l : String) (w : Bool)
    (h : (rowBody r)[i]? = some (.access l w)) : i = r.locks.length ∧ l = r.loc ∧ w = r.write := by
  unfold rowBody at h
  rw [List.getElem?_append] at h
  split at h
  · rename_i hlt
    rw [List.getElem?_map] at h
    cases hx : r.locks[i]? <;> simp [hx] at h
  · rename_i hge
    have hge' : r.locks.length ≤ i := by simpa using hge
    simp only [List.length_map] at h
    cases hk : i - r.locks.length with
    | zero =>
      rw [hk] at h
      simp at h
      exact ⟨by omega, h.1.symm, h.2.symm⟩
    | succ k =>
      rw [hk] at h
      simp only [List.getElem?_cons_succ, List.getElem?_map] at h
      cases hx : r.locks.reverse[k]? <;> simp [hx] at h

/-- any number of threads, each running the critical section of a row of the table -/
def rowProg (threads : List Access) : Prog String String Unit := threads.map rowBody

theorem body_rowProg (threads : List Access) (th i : Nat) (o : Op String String Unit)
    (h : opAt (rowProg threads) th i = some o) :
    ∃ r, r ∈ threads ∧ body (rowProg threads) th = rowBody r := by
  unfold opAt rowProg at h
  unfold body rowProg
  rw [List.getElem?_map] at h ⊢
  cases hr : threads[th]? with
  | none => simp [hr] at h
  | some r => exact ⟨r, List.mem_of_getElem? hr, by simp⟩

/-- **the table as a program**: any number of threads, each running the critical section of
any row (of a location that is not channel-ordered) of a table that passes `disciplineOk` and
whose sections are well-formed — in no reachable state of any interleaving two threads are at
conflicting accesses. -/
theorem no_race_state_of_rows (t : List Access) (ht : disciplineOk t = true)
    (hwf : t.all (fun r => wfBody (rowBody r)) = true)
    (threads : List Access) (hmem : ∀ r ∈ threads, r ∈ t ∧ r.loc ∉ chanSync)
    (s : State String Unit) (hr : Reach (rowProg threads) s) : ¬ RaceState (rowProg threads) s := by
  apply no_race_state_of_table t ht (rowProg threads) _ _ _ s hr
  · intro b hb
    unfold rowProg at hb
    obtain ⟨r, hrt, rfl⟩ := List.mem_map.mp hb
    exact wfBody_spec _ (by simpa using (List.all_eq_true.mp hwf) r (hmem r hrt).1)
  · intro th i l w h
    obtain ⟨r, hrt, hb⟩ := body_rowProg threads th i _ h
    rw [opAt_body, hb] at h
    obtain ⟨hi, hl, hw⟩ := access_rowBody r i l w h
    refine ⟨r, (hmem r hrt).1, hl.symm, hw.symm, ?_⟩
    intro m hm
    rw [hb, hi]; exact held_rowBody r m hm
  · -- no thread of the program touches a channel-ordered location, so the obligation is about an empty set:
    -- publish it through a channel nobody uses, by a thread that does not exist
    intro l hl
    refine ⟨(), threads.length, ?_, ?_, ?_⟩
    · intro th k hc
      obtain ⟨r, _, hb⟩ := body_rowProg threads th k _ hc
      rw [opAt_body, hb] at hc
      exfalso
      unfold rowBody at hc
      rw [List.getElem?_append] at hc
      split at hc
      · rw [List.getElem?_map] at hc
        cases hx : r.locks[k]? <;> simp [hx] at hc
      · cases hk : k - (List.map Op.lock r.locks).length with
        | zero => rw [hk] at hc; simp at hc
        | succ k' =>
          rw [hk] at hc
          simp only [List.getElem?_cons_succ, List.getElem?_map] at hc
          cases hx : r.locks.reverse[k']? <;> simp [hx] at hc
    · intro i h
      exfalso
      unfold opAt rowProg at h
      simp at h
    · intro th j w _ h
      exfalso
      obtain ⟨r, hrt, hb⟩ := body_rowProg threads th j _ h
      rw [opAt_body, hb] at h
      obtain ⟨_, hl', _⟩ := access_rowBody r j l w h
      exact (hmem r hrt).2 (hl' ▸ hl)

end TaskModel.Race

/-! ## decidable forms of the hypotheses (to apply the corollary to a concrete program) -/
namespace TaskModel.Race
open Threads

section
variable {C : Type} [DecidableEq C]

theorem opAt_bounds (P : Prog String String C) (th i : Nat) (o : Op String String C) (h : opAt P th i = some o) :
    th < P.length ∧ i < (body P th).length := by
  constructor
  · unfold opAt at h
    cases hP : P[th]? with
    | none => simp [hP] at h
    | some b => exact (List.getElem?_eq_some_iff.mp hP).1
  · rw [opAt_body] at h
    exact (List.getElem?_eq_some_iff.mp h).1

/-- all positions of the program satisfy `p` -/
def allPos (P : Prog String String C) (p : Nat → Nat → Op String String C → Bool) : Bool :=
  (List.range P.length).all fun th => (List.range (body P th).length).all fun i =>
    match opAt P th i with
    | some o => p th i o
    | none => true

theorem allPos_spec (P : Prog String String C) (p : Nat → Nat → Op String String C → Bool)
    (h : allPos P p = true) (th i : Nat) (o : Op String String C) (ho : opAt P th i = some o) : p th i o = true := by
  obtain ⟨h1, h2⟩ := opAt_bounds P th i o ho
  simp only [allPos, List.all_eq_true, List.mem_range] at h
  have := h th h1 i h2
  simpa [ho] using this

def coveredB (t : List Access) (P : Prog String String C) : Bool :=
  allPos P fun th i o =>
    match o with
    | .access l w => t.any (fun r => r.loc == l && r.write == w && r.locks.all (fun m => (heldAt (body P th) i).contains m))
    | _ => true

theorem coveredB_sound (t : List Access) (P : Prog String String C) (h : coveredB t P = true) : Covered t P := by
  intro th i l w ho
  have := allPos_spec P _ h th i _ ho
  simp only [List.any_eq_true, Bool.and_eq_true, beq_iff_eq, List.all_eq_true, List.contains_eq_mem,
    decide_eq_true_eq] at this
  obtain ⟨r, hr, ⟨hl, hw⟩, hm⟩ := this
  exact ⟨r, hr, hl, hw, hm⟩

/-- the `ChanSynced` conditions, checked position by position -/
def chanSyncedB (P : Prog String String C) (c : C) (l : String) (t0 : Nat) : Bool :=
  allPos P fun t k o =>
    match o with
    | .close c' => decide (c' ≠ c) || decide (t = t0)
    | .access l' w =>
      decide (l' ≠ l) ||
        (if t = t0 then
          !w || allPos P (fun t2 k2 o2 => match o2 with
            | .close c2 => decide (t2 ≠ t0) || decide (c2 ≠ c) || decide (k < k2)
            | _ => true)
        else !w && (List.range k).any (fun k' => decide (opAt P t k' = some (.recv c))))
    | _ => true

theorem chanSyncedB_sound (P : Prog String String C) (c : C) (l : String) (t0 : Nat)
    (h : chanSyncedB P c l t0 = true) : ChanSynced P c l t0 := by
  refine ⟨?_, ?_, ?_⟩
  · intro t k hc
    have := allPos_spec P _ h t k _ hc
    simpa using this
  · intro i hi k hk
    have := allPos_spec P _ h t0 i _ hi
    simp only [ne_eq, not_true_eq_false, decide_false, if_true, Bool.not_true, Bool.false_or] at this
    have := allPos_spec P _ this t0 k _ hk
    simpa using this
  · intro t j w hne hj
    have := allPos_spec P _ h t j _ hj
    simp only [ne_eq, not_true_eq_false, decide_false, if_neg hne, Bool.false_or, Bool.and_eq_true,
      Bool.not_eq_true', List.any_eq_true, List.mem_range, decide_eq_true_eq] at this
    obtain ⟨hw, k, hk, hrecv⟩ := this
    exact ⟨hw, k, hk, hrecv⟩

end
end TaskModel.Race
