/-
Race.Model — lockset discipline over the table of shared-state accesses extracted from
the source (`Gen.Access`, typed extractor /verif/extract2).

The table lists every access (function, field, read/write, mutexes syntactically held)
to a struct field of the module that (a) happens in a function that can run while tasks
execute concurrently, (b) is not on an object confined to one goroutine (fresh per call /
per command), and (c) touches a field that has such a write at all.  The discipline: any
two accesses to one field of which one is a write hold a common mutex, unless the field
is synchronised by a channel close (the writer writes before `close(done)`, readers read
after `<-done`).  What the discipline buys is `Race.Threads.no_race_state` (every
interleaving of every program keeping it has no race state); `Race.Table` ties the rows to
that model.  The phase classification is no longer an input: extract2 checks it against the
static call graph (`setupReachedFromRun`), the confinement claims against a syntactic
escape search (`confinedEscapes`), and the channel exemption is COMPUTED from the channel
ordering facts (`chanOrdered`).
-/
import TaskModel.Gen.Access
namespace TaskModel.Race

structure Access where
  loc : String
  fn : String
  base : String
  write : Bool
  locks : List String
deriving Repr, DecidableEq

def ofTuple (t : String × String × String × Bool × List String) : Access :=
  ⟨t.1, t.2.1, t.2.2.1, t.2.2.2.1, t.2.2.2.2⟩

/-- one channel-ordering fact: an access without a mutex to a field of a struct that has a closed channel field -/
structure ChanFact where
  loc : String
  fn : String
  write : Bool
  role : String
  chan : String
deriving Repr, DecidableEq

def chanFactOf (t : String × String × Bool × String × String) : ChanFact :=
  ⟨t.1, t.2.1, t.2.2.1, t.2.2.2.1, t.2.2.2.2⟩

/-- the role orders the access: writes only by the creating activation before it closes the
channel, reads there or after a receive -/
def roleOk (f : ChanFact) : Bool :=
  f.role == "before-close" || (!f.write && f.role == "after-recv")

/-- all lock-free accesses of location `l` are ordered through one channel `c`, and somebody writes it -/
def locOrdered (facts : List ChanFact) (l c : String) : Bool :=
  facts.all (fun f => f.loc != l || (roleOk f && f.chan == c)) &&
  facts.any (fun f => f.loc == l && f.write)

def dedup : List String → List String
  | [] => []
  | x :: r => if r.contains x then dedup r else x :: dedup r

/-- the locations exempt from the lockset rule, COMPUTED from the facts: every access to them that
holds no mutex, anywhere in the module, is ordered by the close of one channel -/
def chanSyncOf (facts : List ChanFact) : List String :=
  dedup ((facts.filter (fun f => locOrdered facts f.loc f.chan)).map (·.loc))

/-- fields ordered by a channel close instead of a mutex — on the reference tree `execution.err`:
written by the registered execution before `close(done)` and read by waiters after `<-done`.
No longer a constant: an unordered access to the field anywhere removes the exemption. -/
def chanSync : List String := chanSyncOf (TaskModel.Gen.Access.chanOrdered.map chanFactOf)

def shareLock (a b : Access) : Bool := a.locks.any (fun l => b.locks.contains l)

def conflict (a b : Access) : Bool := a.loc == b.loc && (a.write || b.write)

def pairOk (a b : Access) : Bool := !conflict a b || chanSync.contains a.loc || shareLock a b

def disciplineOk (t : List Access) : Bool := t.all (fun a => t.all (fun b => pairOk a b))

theorem disciplineOk_spec (t : List Access) (h : disciplineOk t = true) (a b : Access)
    (ha : a ∈ t) (hb : b ∈ t) (hl : a.loc = b.loc) (hw : a.write = true ∨ b.write = true) :
    a.loc ∈ chanSync ∨ ∃ l, l ∈ a.locks ∧ l ∈ b.locks := by
  simp only [disciplineOk, List.all_eq_true] at h
  have hp := h a ha b hb
  simp only [pairOk, Bool.or_eq_true, Bool.not_eq_true'] at hp
  rcases hp with (hp | hp) | hp
  · exfalso
    simp only [conflict, Bool.and_eq_false_iff, beq_eq_false_iff_ne, Bool.or_eq_false_iff] at hp
    rcases hp with hp | hp
    · exact hp hl
    · rcases hw with hw | hw
      · rw [hp.1] at hw; cases hw
      · rw [hp.2] at hw; cases hw
  · left; simpa using hp
  · right
    simp only [shareLock, List.any_eq_true] at hp
    obtain ⟨l, hl1, hl2⟩ := hp
    exact ⟨l, hl1, by simpa using hl2⟩

end TaskModel.Race
