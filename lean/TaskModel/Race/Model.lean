/-
Race.Model — lockset discipline over the table of shared-state accesses extracted from
the source (`Gen.Access`, typed extractor /verif/extract2).

The table lists every access (function, field, read/write, mutexes syntactically held)
to a struct field of the module that (a) happens in a function that can run while tasks
execute concurrently, (b) is not on an object confined to one goroutine (fresh per call /
per command), and (c) touches a field that has such a write at all.  The discipline: any
two accesses to one field of which one is a write hold a common mutex, unless the field
is synchronised by a channel close (the writer writes before `close(done)`, readers read
after `<-done`).  This is a proof about the extracted abstraction, not about the Go
memory model; phase and confinement classification are inputs (extract2/classify.go),
validated by race-detector runs of the harness.
-/
namespace TaskModel.Race

structure Access where
  loc : String
  fn : String
  base : String
  write : Bool
  locks : List String
deriving Repr, DecidableEq

def ofTuple (t : String × String × String × Bool × List String) : Access :=
  ⟨t.1, t.2.1, t.2.2.1, t.2.2.2.1, t.2.2.2.2⟩

/-- fields ordered by a channel close instead of a mutex: `execution.err` is written by the
registered execution before `close(done)` and read by waiters after `<-done` (the ordering
itself is `Props.C01.C01_shared`: a waiter wakes only after `execDone`) -/
def chanSync : List String := ["task.execution.err"]

def shareLock (a b : Access) : Bool := a.locks.any (fun l => b.locks.contains l)

def conflict (a b : Access) : Bool := a.loc == b.loc && (a.write || b.write)

def pairOk (a b : Access) : Bool := !conflict a b || chanSync.contains a.loc || shareLock a b

def disciplineOk (t : List Access) : Bool := t.all (fun a => t.all (fun b => pairOk a b))

theorem disciplineOk_spec (t : List Access) (h : disciplineOk t = true) (a b : Access)
    (ha : a ∈ t) (hb : b ∈ t) (hl : a.loc = b.loc) (hw : a.write = true ∨ b.write = true) :
    a.loc ∈ chanSync ∨ ∃ l, l ∈ a.locks ∧ l ∈ b.locks := by
  simp only [disciplineOk, List.all_eq_true] at h
  have hp := h a ha b hb
  simp only [pairOk, Bool.or_eq_true, Bool.not_eq_true'] at hp
  rcases hp with (hp | hp) | hp
  · exfalso
    simp only [conflict, Bool.and_eq_false_iff, beq_eq_false_iff_ne, Bool.or_eq_false_iff] at hp
    rcases hp with hp | hp
    · exact hp hl
    · rcases hw with hw | hw
      · rw [hp.1] at hw; cases hw
      · rw [hp.2] at hw; cases hw
  · left; simpa using hp
  · right
    simp only [shareLock, List.any_eq_true] at hp
    obtain ⟨l, hl1, hl2⟩ := hp
    exact ⟨l, hl1, by simpa using hl2⟩

end TaskModel.Race
