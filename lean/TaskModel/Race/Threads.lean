/-
Race.Threads — what the lockset discipline MEANS: a small model of goroutines running
straight-line sequences of `lock m` / `unlock m` / `access loc w` / `close c` / `recv c`
under mutex and channel semantics, and the theorem that a program whose conflicting
accesses all share a statically held mutex (or are ordered by a channel close) has no
reachable state in which two different threads are both positioned at conflicting
accesses — for any number of threads, any bodies, any interleaving, any number of steps.

The static lockset `heldAt b i` (mutexes locked and not yet unlocked by the first `i`
operations of body `b`) is exactly the rule of the extractor (extract2/access.go: a mutex
counts as held from its `Lock()` to its `Unlock()` in source order), so a row of the
generated access table — location, is-write, `locks` — is an access position whose
`heldAt` is `locks`.

Semantics (Go's): `lock m` is enabled only while `m` is free; `unlock m` frees `m`
whoever holds it (sync.Mutex is not owner-checked: that is why `WF`, "a body only unlocks
what it holds", is a hypothesis and not built into the step relation); `close c` is enabled
once (a second close panics: no step); `recv c` is enabled only after the close (the only
use of the channel that the code makes: a `done` channel that is never sent on).
Core Lean only.
-/
set_option linter.unusedSectionVars false

namespace TaskModel.Race.Threads

inductive Op (M L C : Type) where
  | lock (m : M)
  | unlock (m : M)
  | access (l : L) (w : Bool)
  | close (c : C)
  | recv (c : C)
deriving DecidableEq, Repr

abbrev Body (M L C : Type) := List (Op M L C)

section
variable {M L C : Type} [DecidableEq M] [DecidableEq C]

/-- effect of one operation on the set of held mutexes -/
def upd (H : List M) : Op M L C → List M
  | .lock m => m :: H
  | .unlock m => H.filter (fun x => decide (x ≠ m))
  | _ => H

/-- mutexes held after the first `i` operations of `b`, starting from `H` -/
def heldFrom (H : List M) : Body M L C → Nat → List M
  | _, 0 => H
  | [], _ + 1 => H
  | o :: r, i + 1 => heldFrom (upd H o) r i

/-- **static lockset** at position `i` of body `b`: locked and not yet unlocked before `i` -/
def heldAt (b : Body M L C) (i : Nat) : List M := heldFrom [] b i

theorem heldFrom_succ (H : List M) (b : Body M L C) (i : Nat) (o : Op M L C) (h : b[i]? = some o) :
    heldFrom H b (i + 1) = upd (heldFrom H b i) o := by
  induction b generalizing H i with
  | nil => simp at h
  | cons x r ih =>
    cases i with
    | zero => simp at h; subst h; simp [heldFrom]
    | succ j =>
      simp only [List.getElem?_cons_succ] at h
      simp only [heldFrom]
      exact ih (upd H x) j h

theorem heldAt_succ (b : Body M L C) (i : Nat) (o : Op M L C) (h : b[i]? = some o) :
    heldAt b (i + 1) = upd (heldAt b i) o := heldFrom_succ [] b i o h

/-- a body only unlocks mutexes it holds (decidable check, by one pass) -/
def wfFrom (H : List M) : Body M L C → Bool
  | [] => true
  | .unlock m :: r => H.contains m && wfFrom (upd H (.unlock m : Op M L C)) r
  | o :: r => wfFrom (upd H o) r

def wfBody (b : Body M L C) : Bool := wfFrom [] b

/-- a body only unlocks mutexes it holds -/
def WF (b : Body M L C) : Prop := ∀ i m, b[i]? = some (.unlock m) → m ∈ heldAt b i

theorem wfFrom_spec (H : List M) (b : Body M L C) (h : wfFrom H b = true) :
    ∀ i m, b[i]? = some (.unlock m) → m ∈ heldFrom H b i := by
  induction b generalizing H with
  | nil => intro i m hi; simp at hi
  | cons x r ih =>
    intro i m hi
    cases i with
    | zero =>
      simp at hi; subst hi
      simp only [wfFrom, Bool.and_eq_true] at h
      simpa [heldFrom] using h.1
    | succ j =>
      simp only [List.getElem?_cons_succ] at hi
      simp only [heldFrom]
      apply ih (upd H x) _ j m hi
      cases x <;> simp_all [wfFrom]

theorem wfBody_spec (b : Body M L C) (h : wfBody b = true) : WF b := wfFrom_spec [] b h

/-! ## dynamic semantics -/

structure State (M C : Type) where
  pc : Nat → Nat            -- position of each thread
  owner : M → Option Nat    -- which thread holds the mutex
  closed : C → Bool

def init : State M C := ⟨fun _ => 0, fun _ => none, fun _ => false⟩

/-- a program: thread `t` runs body `P[t]` -/
abbrev Prog (M L C : Type) := List (Body M L C)

def opAt (P : Prog M L C) (t i : Nat) : Option (Op M L C) := (P[t]?).bind (fun b => b[i]?)

def body (P : Prog M L C) (t : Nat) : Body M L C := (P[t]?).getD []

theorem opAt_body (P : Prog M L C) (t i : Nat) : opAt P t i = (body P t)[i]? := by
  unfold opAt body
  cases P[t]? <;> simp

def bump (pc : Nat → Nat) (t : Nat) : Nat → Nat := fun u => if u = t then pc u + 1 else pc u

/-- thread `t` takes its next step, if it is enabled -/
def step (P : Prog M L C) (s : State M C) (t : Nat) : Option (State M C) :=
  match opAt P t (s.pc t) with
  | none => none
  | some (.lock m) =>
    if s.owner m = none then
      some { s with pc := bump s.pc t, owner := fun x => if x = m then some t else s.owner x }
    else none
  | some (.unlock m) => some { s with pc := bump s.pc t, owner := fun x => if x = m then none else s.owner x }
  | some (.access _ _) => some { s with pc := bump s.pc t }
  | some (.close c) =>
    if s.closed c = true then none
    else some { s with pc := bump s.pc t, closed := fun x => if x = c then true else s.closed x }
  | some (.recv c) => if s.closed c = true then some { s with pc := bump s.pc t } else none

/-- run a schedule (a list of thread ids); `none` if some step was not enabled -/
def run (P : Prog M L C) (s : State M C) : List Nat → Option (State M C)
  | [] => some s
  | t :: ts => (step P s t).bind (fun s' => run P s' ts)

/-- reachable by some interleaving, of any length -/
inductive Reach (P : Prog M L C) : State M C → Prop
  | init : Reach P init
  | step {s s' : State M C} {t : Nat} : Reach P s → step P s t = some s' → Reach P s'

theorem reach_run (P : Prog M L C) (s s' : State M C) (sched : List Nat) (hs : Reach P s)
    (h : run P s sched = some s') : Reach P s' := by
  induction sched generalizing s with
  | nil => simp [run] at h; subst h; exact hs
  | cons t ts ih =>
    simp only [run] at h
    cases hst : step P s t with
    | none => simp [hst] at h
    | some s1 => simp [hst] at h; exact ih s1 (Reach.step hs hst) h

/-- two different threads are both positioned at accesses to one location, one of them a write -/
def RaceState (P : Prog M L C) (s : State M C) : Prop :=
  ∃ t1 t2 l w1 w2, t1 ≠ t2 ∧ opAt P t1 (s.pc t1) = some (.access l w1) ∧
    opAt P t2 (s.pc t2) = some (.access l w2) ∧ (w1 = true ∨ w2 = true)

/-- the channel `c` orders position `i` of thread `t1` before position `j` of thread `t2`:
every `close c` of the program is in `t1` after `i`, and `t2` passes a `recv c` before `j` -/
def Ordered (P : Prog M L C) (c : C) (t1 i t2 j : Nat) : Prop :=
  (∀ t k, opAt P t k = some (.close c) → t = t1 ∧ i < k) ∧ ∃ k, k < j ∧ opAt P t2 k = some (.recv c)

/-- **the discipline**: any two conflicting access positions of different threads share a
statically held mutex, or are ordered by a channel -/
def Discipline (P : Prog M L C) : Prop :=
  ∀ t1 t2 i j l w1 w2, t1 ≠ t2 → opAt P t1 i = some (.access l w1) → opAt P t2 j = some (.access l w2) →
    (w1 = true ∨ w2 = true) →
    (∃ m, m ∈ heldAt (body P t1) i ∧ m ∈ heldAt (body P t2) j) ∨
    (∃ c, Ordered P c t1 i t2 j) ∨ (∃ c, Ordered P c t2 j t1 i)

/-- the invariant: the static lockset of every thread is owned by it; a closed channel was
closed by a `close` some thread has passed; a passed `recv` means the channel is closed -/
structure Inv (P : Prog M L C) (s : State M C) : Prop where
  held : ∀ t m, m ∈ heldAt (body P t) (s.pc t) → s.owner m = some t
  closedBy : ∀ c, s.closed c = true → ∃ t k, opAt P t k = some (.close c) ∧ k < s.pc t
  recvd : ∀ t k c, opAt P t k = some (.recv c) → k < s.pc t → s.closed c = true

theorem inv_init (P : Prog M L C) : Inv P (init : State M C) := by
  refine ⟨?_, ?_, ?_⟩
  · intro t m h; simp [init, heldAt, heldFrom] at h
  · intro c h; simp [init] at h
  · intro t k c _ h; simp [init] at h

theorem bump_self (pc : Nat → Nat) (t : Nat) : bump pc t t = pc t + 1 := by simp [bump]
theorem bump_other (pc : Nat → Nat) (t u : Nat) (h : u ≠ t) : bump pc t u = pc u := by simp [bump, h]
theorem le_bump (pc : Nat → Nat) (t u : Nat) : pc u ≤ bump pc t u := by
  unfold bump; split <;> omega

/-- held mutexes of thread `u` after thread `t` moved over operation `o` -/
theorem held_after (P : Prog M L C) (pc : Nat → Nat) (t u : Nat) (o : Op M L C)
    (ho : opAt P t (pc t) = some o) :
    heldAt (body P u) (bump pc t u) =
      if u = t then upd (heldAt (body P t) (pc t)) o else heldAt (body P u) (pc u) := by
  by_cases h : u = t
  · subst h
    rw [bump_self, if_pos rfl]
    exact heldAt_succ _ _ _ (by rw [← opAt_body]; exact ho)
  · rw [bump_other _ _ _ h, if_neg h]

theorem inv_step (P : Prog M L C) (hwf : ∀ b ∈ P, WF b) (s s' : State M C) (t : Nat)
    (hi : Inv P s) (hs : step P s t = some s') : Inv P s' := by
  unfold step at hs
  cases ho : opAt P t (s.pc t) with
  | none => simp [ho] at hs
  | some o =>
    -- facts shared by all cases
    have hheld := fun u => held_after P s.pc t u o ho
    cases o with
    | lock m =>
      simp only [ho] at hs
      split at hs
      · rename_i hfree
        simp only [Option.some.injEq] at hs; subst hs
        refine ⟨?_, ?_, ?_⟩
        · intro u x hx
          simp only at hx ⊢
          rw [hheld u] at hx
          by_cases hut : u = t
          · subst hut
            simp only [if_true, upd, List.mem_cons] at hx
            rcases hx with hx | hx
            · simp [hx]
            · by_cases hxm : x = m
              · simp [hxm]
              · simp [hxm, hi.held u x hx]
          · simp only [if_neg hut] at hx
            have := hi.held u x hx
            by_cases hxm : x = m
            · subst hxm; rw [hfree] at this; cases this
            · simp [hxm, this]
        · intro c hc
          obtain ⟨t0, k, h1, h2⟩ := hi.closedBy c hc
          exact ⟨t0, k, h1, Nat.lt_of_lt_of_le h2 (le_bump _ _ _)⟩
        · intro u k c h1 h2
          simp only at h2 ⊢
          by_cases hut : u = t
          · subst hut
            rw [bump_self] at h2
            by_cases hk : k = s.pc u
            · subst hk; rw [ho] at h1; cases h1
            · exact hi.recvd u k c h1 (by omega)
          · rw [bump_other _ _ _ hut] at h2; exact hi.recvd u k c h1 h2
      · cases hs
    | unlock m =>
      simp only [ho, Option.some.injEq] at hs; subst hs
      -- well-formedness: t holds m
      have hmem : m ∈ heldAt (body P t) (s.pc t) := by
        have hb : body P t ∈ P ∨ body P t = [] := by
          unfold body
          cases hPt : P[t]? with
          | none => right; rfl
          | some b => left; simpa using List.mem_of_getElem? hPt
        rcases hb with hb | hb
        · exact hwf _ hb _ _ (by rw [← opAt_body]; exact ho)
        · rw [opAt_body, hb] at ho; simp at ho
      have hown : s.owner m = some t := hi.held t m hmem
      refine ⟨?_, ?_, ?_⟩
      · intro u x hx
        simp only at hx ⊢
        rw [hheld u] at hx
        by_cases hut : u = t
        · subst hut
          simp only [if_true, upd, List.mem_filter, decide_eq_true_eq] at hx
          simp [hx.2, hi.held u x hx.1]
        · simp only [if_neg hut] at hx
          have := hi.held u x hx
          by_cases hxm : x = m
          · subst hxm; rw [hown] at this; simp at this; exact absurd this.symm hut
          · simp [hxm, this]
      · intro c hc
        obtain ⟨t0, k, h1, h2⟩ := hi.closedBy c hc
        exact ⟨t0, k, h1, Nat.lt_of_lt_of_le h2 (le_bump _ _ _)⟩
      · intro u k c h1 h2
        simp only at h2 ⊢
        by_cases hut : u = t
        · subst hut
          rw [bump_self] at h2
          by_cases hk : k = s.pc u
          · subst hk; rw [ho] at h1; cases h1
          · exact hi.recvd u k c h1 (by omega)
        · rw [bump_other _ _ _ hut] at h2; exact hi.recvd u k c h1 h2
    | access l w =>
      simp only [ho, Option.some.injEq] at hs; subst hs
      refine ⟨?_, ?_, ?_⟩
      · intro u x hx
        simp only at hx ⊢
        rw [hheld u] at hx
        by_cases hut : u = t
        · subst hut; simp only [if_true, upd] at hx; exact hi.held u x hx
        · simp only [if_neg hut] at hx; exact hi.held u x hx
      · intro c hc
        obtain ⟨t0, k, h1, h2⟩ := hi.closedBy c hc
        exact ⟨t0, k, h1, Nat.lt_of_lt_of_le h2 (le_bump _ _ _)⟩
      · intro u k c h1 h2
        simp only at h2 ⊢
        by_cases hut : u = t
        · subst hut
          rw [bump_self] at h2
          by_cases hk : k = s.pc u
          · subst hk; rw [ho] at h1; cases h1
          · exact hi.recvd u k c h1 (by omega)
        · rw [bump_other _ _ _ hut] at h2; exact hi.recvd u k c h1 h2
    | close c0 =>
      simp only [ho] at hs
      split at hs
      · cases hs
      · simp only [Option.some.injEq] at hs; subst hs
        refine ⟨?_, ?_, ?_⟩
        · intro u x hx
          simp only at hx ⊢
          rw [hheld u] at hx
          by_cases hut : u = t
          · subst hut; simp only [if_true, upd] at hx; exact hi.held u x hx
          · simp only [if_neg hut] at hx; exact hi.held u x hx
        · intro c hc
          simp only at hc ⊢
          by_cases hcc : c = c0
          · subst hcc
            exact ⟨t, s.pc t, ho, by rw [bump_self]; omega⟩
          · simp only [if_neg hcc] at hc
            obtain ⟨t0, k, h1, h2⟩ := hi.closedBy c hc
            exact ⟨t0, k, h1, Nat.lt_of_lt_of_le h2 (le_bump _ _ _)⟩
        · intro u k c h1 h2
          simp only at h2 ⊢
          have hold : s.closed c = true → (if c = c0 then true else s.closed c) = true := by
            intro h; split <;> simp [h]
          by_cases hut : u = t
          · subst hut
            rw [bump_self] at h2
            by_cases hk : k = s.pc u
            · subst hk; rw [ho] at h1; cases h1
            · exact hold (hi.recvd u k c h1 (by omega))
          · rw [bump_other _ _ _ hut] at h2; exact hold (hi.recvd u k c h1 h2)
    | recv c0 =>
      simp only [ho] at hs
      split at hs
      · rename_i hcl
        simp only [Option.some.injEq] at hs; subst hs
        refine ⟨?_, ?_, ?_⟩
        · intro u x hx
          simp only at hx ⊢
          rw [hheld u] at hx
          by_cases hut : u = t
          · subst hut; simp only [if_true, upd] at hx; exact hi.held u x hx
          · simp only [if_neg hut] at hx; exact hi.held u x hx
        · intro c hc
          obtain ⟨t0, k, h1, h2⟩ := hi.closedBy c hc
          exact ⟨t0, k, h1, Nat.lt_of_lt_of_le h2 (le_bump _ _ _)⟩
        · intro u k c h1 h2
          simp only at h2 ⊢
          by_cases hut : u = t
          · subst hut
            rw [bump_self] at h2
            by_cases hk : k = s.pc u
            · subst hk; rw [ho] at h1; cases h1; exact hcl
            · exact hi.recvd u k c h1 (by omega)
          · rw [bump_other _ _ _ hut] at h2; exact hi.recvd u k c h1 h2
      · cases hs

theorem inv_reach (P : Prog M L C) (hwf : ∀ b ∈ P, WF b) (s : State M C) (h : Reach P s) : Inv P s := by
  induction h with
  | init => exact inv_init P
  | step _ hs ih => exact inv_step P hwf _ _ _ ih hs

/-- the converse half of the invariant (needs no well-formedness): a mutex owned by thread `t` is in
`t`'s static lockset -/
theorem owner_held (P : Prog M L C) (s : State M C) (hr : Reach P s) :
    ∀ t m, s.owner m = some t → m ∈ heldAt (body P t) (s.pc t) := by
  induction hr with
  | init => intro t m h; simp [init] at h
  | @step s s' t _ hs ih =>
    unfold step at hs
    cases ho : opAt P t (s.pc t) with
    | none => simp [ho] at hs
    | some o =>
      have hheld := fun u => held_after P s.pc t u o ho
      cases o with
      | lock m0 =>
        simp only [ho] at hs
        split at hs
        · simp only [Option.some.injEq] at hs; subst hs
          intro u x hx
          simp only at hx ⊢
          rw [hheld u]
          by_cases hxm : x = m0
          · subst hxm; simp at hx; subst hx; simp [upd]
          · simp only [if_neg hxm] at hx
            have := ih u x hx
            by_cases hut : u = t
            · subst hut; simp [upd, this]
            · simp [hut, this]
        · cases hs
      | unlock m0 =>
        simp only [ho, Option.some.injEq] at hs; subst hs
        intro u x hx
        simp only at hx ⊢
        rw [hheld u]
        by_cases hxm : x = m0
        · subst hxm; simp at hx
        · simp only [if_neg hxm] at hx
          have := ih u x hx
          by_cases hut : u = t
          · subst hut; simp [upd, this, hxm]
          · simp [hut, this]
      | access l w =>
        simp only [ho, Option.some.injEq] at hs; subst hs
        intro u x hx
        simp only at hx ⊢
        rw [hheld u]
        have := ih u x hx
        by_cases hut : u = t
        · subst hut; simpa [upd] using this
        · simpa [hut] using this
      | close c0 =>
        simp only [ho] at hs
        split at hs
        · cases hs
        · simp only [Option.some.injEq] at hs; subst hs
          intro u x hx
          simp only at hx ⊢
          rw [hheld u]
          have := ih u x hx
          by_cases hut : u = t
          · subst hut; simpa [upd] using this
          · simpa [hut] using this
      | recv c0 =>
        simp only [ho] at hs
        split at hs
        · simp only [Option.some.injEq] at hs; subst hs
          intro u x hx
          simp only at hx ⊢
          rw [hheld u]
          have := ih u x hx
          by_cases hut : u = t
          · subst hut; simpa [upd] using this
          · simpa [hut] using this
        · cases hs

/-- **the invariant of the proof**: in every reachable state, a mutex is in a thread's static lockset
exactly when that thread owns it -/
theorem held_iff_owner (P : Prog M L C) (hwf : ∀ b ∈ P, WF b) (s : State M C) (hr : Reach P s) (t : Nat) (m : M) :
    m ∈ heldAt (body P t) (s.pc t) ↔ s.owner m = some t :=
  ⟨(inv_reach P hwf s hr).held t m, owner_held P s hr t m⟩

/-- **No race state** — for every program (any number of threads, any bodies that only
unlock what they hold) that keeps the discipline, in every state reachable by any
interleaving of any length, no two different threads are both at conflicting accesses. -/
theorem no_race_state (P : Prog M L C) (hwf : ∀ b ∈ P, WF b) (hd : Discipline P)
    (s : State M C) (hr : Reach P s) : ¬ RaceState P s := by
  intro ⟨t1, t2, l, w1, w2, hne, h1, h2, hw⟩
  have hi := inv_reach P hwf s hr
  -- a channel ordering between the two positions is impossible while both threads sit on them
  have noOrd : ∀ (c : C) (ta tb : Nat), ¬ Ordered P c ta (s.pc ta) tb (s.pc tb) := by
    intro c ta tb ⟨hcl, k, hk, hrecv⟩
    have hclosed := hi.recvd tb k c hrecv hk
    obtain ⟨t0, k0, hc0, hk0⟩ := hi.closedBy c hclosed
    obtain ⟨ht0, hlt⟩ := hcl t0 k0 hc0
    subst ht0; omega
  rcases hd t1 t2 _ _ l w1 w2 hne h1 h2 hw with ⟨m, hm1, hm2⟩ | ⟨c, hc⟩ | ⟨c, hc⟩
  · have o1 := hi.held t1 m hm1
    have o2 := hi.held t2 m hm2
    rw [o1] at o2; simp at o2; exact hne o2
  · exact noOrd c t1 t2 hc
  · exact noOrd c t2 t1 hc

/-! ## the lockset form: bodies drawn from a set -/

/-- lockset discipline of a SET of bodies: any two conflicting access positions (of two
bodies of the set, or of two copies of the same body) hold a common mutex -/
def LocksetDiscipline (B : Body M L C → Prop) : Prop :=
  ∀ b1 b2, B b1 → B b2 → ∀ i j l w1 w2, b1[i]? = some (.access l w1) → b2[j]? = some (.access l w2) →
    (w1 = true ∨ w2 = true) → ∃ m, m ∈ heldAt b1 i ∧ m ∈ heldAt b2 j

theorem body_mem_of_opAt (P : Prog M L C) (t i : Nat) (o : Op M L C) (h : opAt P t i = some o) :
    body P t ∈ P := by
  unfold opAt at h
  unfold body
  cases hPt : P[t]? with
  | none => simp [hPt] at h
  | some b => simpa using List.mem_of_getElem? hPt

/-- any number of threads, each running any body of the set `B`: no race state is reachable -/
theorem no_race_state_of_bodies (B : Body M L C → Prop) (hB : LocksetDiscipline B)
    (hwfB : ∀ b, B b → WF b) (P : Prog M L C) (hP : ∀ b ∈ P, B b)
    (s : State M C) (hr : Reach P s) : ¬ RaceState P s := by
  apply no_race_state P (fun b hb => hwfB b (hP b hb)) _ s hr
  intro t1 t2 i j l w1 w2 _ h1 h2 hw
  left
  have m1 := body_mem_of_opAt P t1 i _ h1
  have m2 := body_mem_of_opAt P t2 j _ h2
  rw [opAt_body] at h1 h2
  exact hB _ _ (hP _ m1) (hP _ m2) i j l w1 w2 h1 h2 hw

/-! ## the `done`-channel form -/

/-- location `l` is published through channel `c` by thread `t0`: only `t0` closes `c`; `t0`
writes `l` only before every such close; every other thread only READS `l`, and only after a
`recv c` of its own -/
def ChanSynced (P : Prog M L C) [DecidableEq L] (c : C) (l : L) (t0 : Nat) : Prop :=
  (∀ t k, opAt P t k = some (.close c) → t = t0) ∧
  (∀ i, opAt P t0 i = some (.access l true) → ∀ k, opAt P t0 k = some (.close c) → i < k) ∧
  (∀ t j w, t ≠ t0 → opAt P t j = some (.access l w) → w = false ∧ ∃ k, k < j ∧ opAt P t k = some (.recv c))

/-- the mixed discipline used for the table: every location is either lockset-disciplined or
published through a channel -/
def MixedDiscipline (P : Prog M L C) [DecidableEq L] : Prop :=
  ∀ l, (∃ c t0, ChanSynced P c l t0) ∨
    (∀ t1 t2 i j w1 w2, t1 ≠ t2 → opAt P t1 i = some (.access l w1) → opAt P t2 j = some (.access l w2) →
      (w1 = true ∨ w2 = true) → ∃ m, m ∈ heldAt (body P t1) i ∧ m ∈ heldAt (body P t2) j)

theorem discipline_of_mixed [DecidableEq L] (P : Prog M L C) (h : MixedDiscipline P) : Discipline P := by
  intro t1 t2 i j l w1 w2 hne h1 h2 hw
  rcases h l with ⟨c, t0, hcl, hpre, hpost⟩ | hl
  · by_cases ht1 : t1 = t0
    · -- t1 is the publisher, t2 a reader after recv
      subst ht1
      obtain ⟨hw2, k, hk, hrecv⟩ := hpost t2 j w2 (Ne.symm hne) h2
      have hw1 : w1 = true := by rcases hw with h | h; exact h; rw [hw2] at h; cases h
      subst hw1
      right; left
      exact ⟨c, fun t k' hc => ⟨hcl t k' hc, hpre i h1 k' (by rw [← hcl t k' hc]; exact hc)⟩, k, hk, hrecv⟩
    · obtain ⟨hw1, k, hk, hrecv⟩ := hpost t1 i w1 ht1 h1
      by_cases ht2 : t2 = t0
      · subst ht2
        have hw2 : w2 = true := by rcases hw with h | h; rw [hw1] at h; cases h; exact h
        subst hw2
        right; right
        exact ⟨c, fun t k' hc => ⟨hcl t k' hc, hpre j h2 k' (by rw [← hcl t k' hc]; exact hc)⟩, k, hk, hrecv⟩
      · obtain ⟨hw2, _⟩ := hpost t2 j w2 ht2 h2
        rcases hw with h | h
        · rw [hw1] at h; cases h
        · rw [hw2] at h; cases h
  · left; exact hl t1 t2 i j w1 w2 hne h1 h2 hw

/-- **the `done`-channel ordering**: locations written by the closer before `close c` and read
by others only after `recv c` (all other locations under the lockset rule) — no race state -/
theorem chan_ordered_no_race [DecidableEq L] (P : Prog M L C) (hwf : ∀ b ∈ P, WF b)
    (hd : MixedDiscipline P) (s : State M C) (hr : Reach P s) : ¬ RaceState P s :=
  no_race_state P hwf (discipline_of_mixed P hd) s hr

/-! ## executable race check (for exhibiting schedules) -/

def accessAt (P : Prog M L C) (s : State M C) (t : Nat) : Option (L × Bool) :=
  match opAt P t (s.pc t) with
  | some (.access l w) => some (l, w)
  | _ => none

/-- some two different threads sit on conflicting accesses -/
def raceStateB [DecidableEq L] (P : Prog M L C) (s : State M C) : Bool :=
  (List.range P.length).any fun t1 => (List.range P.length).any fun t2 =>
    t1 != t2 && (match accessAt P s t1, accessAt P s t2 with
      | some (l1, w1), some (l2, w2) => decide (l1 = l2) && (w1 || w2)
      | _, _ => false)

/-- the schedule can be run from the initial state and ends in a race state -/
def raceAfter [DecidableEq L] (P : Prog M L C) (sched : List Nat) : Bool :=
  match run P init sched with
  | some s => raceStateB P s
  | none => false

/-- the schedule can be run to the end (every step enabled) -/
def runnable (P : Prog M L C) (sched : List Nat) : Bool := (run P init sched).isSome

theorem raceStateB_sound [DecidableEq L] (P : Prog M L C) (s : State M C) (h : raceStateB P s = true) :
    RaceState P s := by
  simp only [raceStateB, List.any_eq_true, Bool.and_eq_true] at h
  obtain ⟨t1, _, t2, _, hne, hm⟩ := h
  have hne' : t1 ≠ t2 := by simpa using hne
  unfold accessAt at hm
  cases h1 : opAt P t1 (s.pc t1) with
  | none => simp [h1] at hm
  | some o1 =>
    cases h2 : opAt P t2 (s.pc t2) with
    | none => cases o1 <;> simp [h1, h2] at hm
    | some o2 =>
      cases o1 <;> cases o2 <;> simp [h1, h2] at hm
      rename_i l1 w1 l2 w2
      obtain ⟨hl, hw⟩ := hm
      subst hl
      exact ⟨t1, t2, l1, w1, w2, hne', h1, h2, by rcases hw with h | h <;> simp [h]⟩

/-- a schedule that ends in a race state exhibits a reachable race state -/
theorem race_reachable_of_schedule [DecidableEq L] (P : Prog M L C) (sched : List Nat)
    (h : raceAfter P sched = true) : ∃ s, Reach P s ∧ RaceState P s := by
  unfold raceAfter at h
  cases hr : run P init sched with
  | none => simp [hr] at h
  | some s =>
    simp [hr] at h
    exact ⟨s, reach_run P init s sched Reach.init hr, raceStateB_sound P s h⟩

end

/-! ## non-vacuity -/

/-- two threads, each `lock 0; write x; unlock 0` -/
def exLocked : Prog Nat Nat Nat := [[.lock 0, .access 7 true, .unlock 0], [.lock 0, .access 7 true, .unlock 0]]

-- both orders of the critical sections are runnable (the model does not forbid interleaving) …
example : runnable exLocked [0, 0, 0, 1, 1, 1] = true := by decide
example : runnable exLocked [1, 1, 1, 0, 0, 0] = true := by decide
-- … the second thread cannot enter while the first is inside …
example : runnable exLocked [0, 1] = false := by decide
-- … the bodies are well-formed and keep the lockset discipline, so the theorem applies
example : exLocked.all wfBody = true := by decide

/-- the same program without the lock in the second thread violates the discipline … -/
def exUnlocked : Prog Nat Nat Nat := [[.lock 0, .access 7 true, .unlock 0], [.access 7 false]]

/-- … and a race state IS reachable: the schedule "thread 0 takes the lock" leaves thread 0 at
its write and thread 1 at its read -/
theorem exUnlocked_races : ∃ s, Reach exUnlocked s ∧ RaceState exUnlocked s :=
  race_reachable_of_schedule exUnlocked [0] (by decide)

/-- publisher / waiter through a `done` channel: thread 0 writes then closes, thread 1 receives
then reads; no mutex anywhere -/
def exChan : Prog Nat Nat Nat := [[.access 7 true, .close 1, .access 7 false], [.recv 1, .access 7 false]]

example : runnable exChan [0, 0, 1, 1, 0] = true := by decide
example : runnable exChan [1] = false := by decide     -- the receive blocks until the close
/-- without the receive the waiter races with the publisher -/
theorem exChan_without_recv_races :
    ∃ s, Reach ([[.access 7 true, .close 1], [.access 7 false]] : Prog Nat Nat Nat) s ∧
      RaceState ([[.access 7 true, .close 1], [.access 7 false]] : Prog Nat Nat Nat) s :=
  race_reachable_of_schedule _ [] (by decide)

end TaskModel.Race.Threads
