import TaskModel.Load.ReaderLemmas
/-!
Load.OrderLemmas — the ORDER of the merged table: every merge appends.  The tasks a file
had before a merge stay where they are, in their order; what an include contributes comes
after them.  So the root Taskfile's own tasks are a prefix of the loaded table, in file
order — "the parent file first" of name resolution (first matching wildcard in table order).
-/
namespace TaskModel.Load

theorem mergeTaskfile_names_prefix {t1 t2 t1' : Taskfile} {inc : Include} (h : mergeTaskfile t1 t2 inc = .ok t1') :
    t1.tasks.names <+: t1'.tasks.names := by
  obtain ⟨itv, ht⟩ := mergeTaskfile_tasks _ _ _ _ h
  rw [ht, defaultAlias_names]
  simp only [Table.names, List.map_append]
  exact List.prefix_append _ _

/-- every vertex keeps its task names, in order, as a prefix of what it holds afterwards -/
def Store.NamesPrefix (st st' : Store) : Prop :=
  ∀ v tf, st.get v = some tf → ∃ tf', st'.get v = some tf' ∧ tf.tasks.names <+: tf'.tasks.names

theorem Store.NamesPrefix.refl (st : Store) : Store.NamesPrefix st st :=
  fun _ tf h => ⟨tf, h, List.prefix_refl _⟩

theorem Store.NamesPrefix.trans {a b c : Store} (h1 : Store.NamesPrefix a b) (h2 : Store.NamesPrefix b c) :
    Store.NamesPrefix a c := by
  intro v tf h
  obtain ⟨tf', h', p1⟩ := h1 v tf h
  obtain ⟨tf'', h'', p2⟩ := h2 v tf' h'
  exact ⟨tf'', h'', List.IsPrefix.trans p1 p2⟩

theorem mergeIncs_namesPrefix (src dst : Nat) (incs : List Include) (st st' : Store)
    (h : mergeIncs src dst incs st = .ok st') : Store.NamesPrefix st st' := by
  induction incs generalizing st with
  | nil => simp only [mergeIncs] at h; cases h; exact Store.NamesPrefix.refl _
  | cons inc rest ih =>
    simp only [mergeIncs] at h
    split at h
    · rename_i t1 t2 h1 h2
      split at h
      · rename_i t1' hm
        refine Store.NamesPrefix.trans ?_ (ih _ h)
        intro v tf hv
        rw [Store.get_set]
        by_cases hvs : v = src
        · subst hvs
          rw [h1] at hv; cases hv
          exact ⟨t1', by simp [h1], mergeTaskfile_names_prefix hm⟩
        · exact ⟨tf, by simp [hvs, hv], List.prefix_refl _⟩
      · cases h
    · cases h

theorem mergeEdges_namesPrefix (ε : Edge → List Include) (es : List Edge) (st st' : Store)
    (h : mergeEdges ε es st = .ok st') : Store.NamesPrefix st st' := by
  induction es generalizing st with
  | nil => simp only [mergeEdges] at h; cases h; exact Store.NamesPrefix.refl _
  | cons e rest ih =>
    simp only [mergeEdges] at h
    split at h
    · rename_i st1 hm
      exact (mergeIncs_namesPrefix _ _ _ _ _ hm).trans (ih st1 h)
    · cases h

theorem mergeOrder_namesPrefix (g : Graph) (ε : Edge → List Include) (order : List Nat) (st st' : Store)
    (h : mergeOrder g ε order st = .ok st') : Store.NamesPrefix st st' := by
  induction order generalizing st with
  | nil => simp only [mergeOrder] at h; cases h; exact Store.NamesPrefix.refl _
  | cons v r ih =>
    simp only [mergeOrder] at h
    split at h
    · rename_i st1 hm
      exact (mergeEdges_namesPrefix _ _ _ _ hm).trans (ih st1 h)
    · cases h

/-- **the root file's own tasks come first**: for every order of merging, the task names of
the root vertex as read are a prefix — same names, same order — of the loaded table -/
theorem merge_root_prefix (g : Graph) (σ : List Nat) (ε : Edge → List Include) (tf : Taskfile)
    (h : g.merge σ ε = .ok tf) (root : Nat) (hroot : σ.head? = some root) (f : Taskfile)
    (hf : g.verts.get root = some f) : f.tasks.names <+: tf.tasks.names := by
  cases σ with
  | nil => simp [Graph.merge] at h
  | cons r rest =>
    simp only [List.head?_cons, Option.some.injEq] at hroot
    subst hroot
    simp only [Graph.merge] at h
    split at h
    · rename_i stF hm
      split at h
      · rename_i tf' hg
        cases h
        obtain ⟨tf'', h1, h2⟩ := mergeOrder_namesPrefix g ε _ _ _ hm r f hf
        rw [hg] at h1; cases h1
        simpa [resolveRootRefs_names] using h2
      · cases h
    · cases h

/-- … for the load the driver executes: the tasks of the root file of the file map -/
theorem load_root_prefix (fm : FileMap) (root : Nat) (tf : Taskfile) (h : load fm root = .ok tf) :
    ∃ f, Store.get root fm = some f ∧ f.tasks.names <+: tf.tasks.names := by
  simp only [load] at h
  split at h
  · rename_i g hg
    obtain ⟨f, hf, hn⟩ := readGraph_root_normalized fm root g hg
    simp only [Graph.mergeCanonical] at h
    split at h
    · rename_i hc
      simp only [Bool.and_eq_true, beq_iff_eq] at hc
      exact ⟨f, hf, merge_root_prefix _ _ _ tf h root hc.2 f hn⟩
    · cases h
  · cases h

end TaskModel.Load
