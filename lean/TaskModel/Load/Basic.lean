/-!
Load.Basic — names, directories and ordered variable maps of the loader model.

Names are byte strings written as `List Nat` (`58` is the namespace separator `:`),
so `taskNameWithNamespace`, `taskRefWithNamespace` and the `TrimPrefix` of
`ResolveRootRefs` (taskfile/ast/tasks.go) are mirrored character for character.
Directories are segment lists, either anchored at the root of the tree (`abs`) or still
relative; ordered maps (`ast.Vars`, elliotchance/orderedmap) are association lists whose
`set` keeps the position of an existing key.
-/
namespace TaskModel.Load

abbrev Name := List Nat

/-- `ast.NamespaceSeparator` -/
def colon : Nat := 58

/-- the task name `default` -/
def defaultName : Name := [100, 101, 102, 97, 117, 108, 116]

/-- `taskNameWithNamespace(taskName, namespace)`: a leading `:` is stripped (the name is
meant for the including file), anything else is prefixed with `namespace:`. -/
def withNs (n ns : Name) : Name :=
  match n with
  | [] => ns ++ [colon]
  | c :: r => if c = colon then r else ns ++ colon :: c :: r

/-- `taskRefWithNamespace(taskName, namespace)` — the renaming of a dependency or `task:`
target by one merge: a reference to a task of the ROOT Taskfile (leading `:`) is left as
it is, so it survives any number of merges; anything else is renamed like a task name. -/
def refWithNs (n ns : Name) : Name :=
  match n with
  | [] => withNs [] ns
  | c :: r => if c = colon then c :: r else withNs (c :: r) ns

/-- `strings.TrimPrefix(ref, ":")` — what `Tasks.ResolveRootRefs` does to every dependency
and `task:` target of the merged root table, once, after all merges. -/
def resolveRootRef : Name → Name
  | [] => []
  | c :: r => if c = colon then r else c :: r

/-- `fmt.Sprintf("%s:default", ns)` -/
def nsDefault (ns : Name) : Name := ns ++ colon :: defaultName

/-- a directory: `abs` = anchored at the root of the tree (an absolute path in the
implementation), otherwise relative to wherever it will be joined. -/
structure Dir where
  abs : Bool
  segs : List Nat
deriving Repr, DecidableEq

def Dir.unset : Dir := ⟨false, []⟩

/-- `filepathext.SmartJoin a b` -/
def smartJoin (a b : Dir) : Dir := if b.abs then b else ⟨a.abs, a.segs ++ b.segs⟩

/-- `ast.Var` as far as loading is concerned: an opaque value and the `Dir` stamped on
it by `Vars.Merge` for advanced imports. -/
structure Var where
  val : Nat
  dir : Dir
deriving Repr, DecidableEq

abbrev Vars := List (Nat × Var)

/-- `orderedmap.Set`: replace the value of an existing key in place, else append. -/
def Vars.set (k : Nat) (v : Var) : Vars → Vars
  | [] => [(k, v)]
  | (k', v') :: r => if k' = k then (k', v) :: r else (k', v') :: Vars.set k v r

def Vars.get (k : Nat) : Vars → Option Var
  | [] => none
  | (k', v') :: r => if k' = k then some v' else Vars.get k r

def Vars.keys (vs : Vars) : List Nat := vs.map (·.1)

/-- `vars.Merge(other, include)`: every pair of `other`, in order, is `Set` into `vars`;
`stamp` = `some include.Dir` for an advanced import (the value's `Dir` is overwritten). -/
def Vars.merge (vs : Vars) (stamp : Option Dir) : Vars → Vars
  | [] => vs
  | (k, v) :: r =>
    Vars.merge (Vars.set k (match stamp with | some d => { v with dir := d } | none => v) vs) stamp r

/-! ### Insertion sort (structural, so `decide` evaluates it) -/

def insertBy (le : α → α → Bool) (x : α) : List α → List α
  | [] => [x]
  | y :: r => if le x y then x :: y :: r else y :: insertBy le x r

def sortBy (le : α → α → Bool) : List α → List α
  | [] => []
  | x :: r => insertBy le x (sortBy le r)

def sortNat : List Nat → List Nat := sortBy (fun a b => decide (a ≤ b))

end TaskModel.Load
