import TaskModel.Load.Lemmas
/-!
Lemmas about `Taskfile.Merge` and `TaskfileGraph.Merge`: what one merge step adds and
keeps, which store entries a step touches, and the resulting invariant of the whole
bottom-up merge for any topological order.
-/
namespace TaskModel.Load

/-- name under which a task of an included file is inserted by one merge -/
def renName (inc : Include) (n : Name) : Name := if inc.flatten then n else withNs n inc.ns
def renRefs (inc : Include) (d : List Name) : List Name := if inc.flatten then d else d.map (prefixRef inc.ns)
def renCmds (inc : Include) (c : List Cmd) : List Cmd := if inc.flatten then c else c.map (prefixCmd inc.ns)

theorem mergeOne_name (inc : Include) (itv : Vars) (t : Task) : (mergeOne inc itv t).name = renName inc t.name := by
  simp only [mergeOne, renName]; split <;> split <;> rfl

theorem mergeOne_cmds (inc : Include) (itv : Vars) (t : Task) : (mergeOne inc itv t).cmds = renCmds inc t.cmds := by
  simp only [mergeOne, renCmds]; split <;> split <;> rfl

theorem mergeOne_deps (inc : Include) (itv : Vars) (t : Task) : (mergeOne inc itv t).deps = renRefs inc t.deps := by
  simp only [mergeOne, renRefs]; split <;> split <;> rfl

theorem mergeOne_attrs (inc : Include) (itv : Vars) (t : Task) : (mergeOne inc itv t).attrs = t.attrs := by
  simp only [mergeOne]; split <;> split <;> rfl

theorem mergeOne_vars (inc : Include) (itv : Vars) (t : Task) : (mergeOne inc itv t).vars = t.vars := by
  simp only [mergeOne]; split <;> split <;> rfl

theorem mergeOne_loc (inc : Include) (itv : Vars) (t : Task) : (mergeOne inc itv t).loc = t.loc := by
  simp only [mergeOne]; split <;> split <;> rfl

theorem mergeOne_internal (inc : Include) (itv : Vars) (t : Task) :
    (mergeOne inc itv t).internal = (t.internal || inc.internal) := by
  simp only [mergeOne]; split <;> split <;> rfl

theorem mergeOne_dir (inc : Include) (itv : Vars) (t : Task) :
    (mergeOne inc itv t).dir = if inc.advanced then smartJoin inc.dir t.dir else t.dir := by
  simp only [mergeOne]; split <;> split <;> rfl

theorem addAliases_hit (n : Name) (extra : List Name) (tb : Table) (h : n ∈ tb.names) :
    ∃ t' ∈ addAliases n extra tb, t'.name = n ∧ ∀ a ∈ extra, a ∈ t'.aliases := by
  induction tb with
  | nil => simp [Table.names] at h
  | cons t r ih =>
    simp only [addAliases]
    split
    · rename_i hn
      exact ⟨_, List.mem_cons_self, hn, fun a ha => by simp [ha]⟩
    · rename_i hn
      simp only [Table.names, List.map_cons, List.mem_cons] at h
      rcases h with h | h
      · exact absurd h.symm hn
      · obtain ⟨t', h1, h2, h3⟩ := ih h
        exact ⟨t', List.mem_cons_of_mem _ h1, h2, h3⟩

theorem withNs_default (ns : Name) : withNs defaultName ns = nsDefault ns := by
  simp [withNs, defaultName, nsDefault, colon]

theorem has_append_left (n : Name) (a b : Table) (h : a.has n = true) : (a ++ b).has n = true := by
  rw [Table.has_iff] at *
  simp only [Table.names, List.map_append, List.mem_append]
  exact Or.inl h

theorem mergeLoop_conflict (inc : Include) (itv : Vars) (t2 acc : Table)
    (h : ∃ t ∈ t2, t.name ∉ inc.excludes ∧ acc.has (renName inc t.name) = true) :
    mergeLoop inc itv t2 acc = .error .conflict := by
  induction t2 generalizing acc with
  | nil => obtain ⟨t, ht, _⟩ := h; cases ht
  | cons t0 rest ih =>
    obtain ⟨t, ht, hx, hh⟩ := h
    simp only [mergeLoop]
    by_cases hx0 : t0.name ∈ inc.excludes
    · simp only [hx0, if_true]
      simp only [List.mem_cons] at ht
      rcases ht with rfl | ht
      · exact absurd hx0 hx
      · exact ih acc ⟨t, ht, hx, hh⟩
    · simp only [hx0, if_false]
      split
      · rfl
      · rename_i hno
        simp only [List.mem_cons] at ht
        rcases ht with rfl | ht
        · rw [mergeOne_name] at hno; exact absurd hh hno
        · exact ih _ ⟨t, ht, hx, has_append_left _ _ _ hh⟩

/-- the table of `tf` has a task `n` with commands `c` and dependencies `d` -/
def HasDef (tf : Taskfile) (n : Name) (c : List Cmd) (d : List Name) : Prop :=
  ∃ t ∈ tf.tasks, t.name = n ∧ t.cmds = c ∧ t.deps = d

theorem core_fields {a b : Task} (h : a.core = b.core) :
    a.name = b.name ∧ a.cmds = b.cmds ∧ a.deps = b.deps ∧ a.attrs = b.attrs ∧ a.internal = b.internal
      ∧ a.dir = b.dir ∧ a.loc = b.loc ∧ a.vars = b.vars := by
  simp only [Task.core] at h
  injection h with h1 h2 h3 h4 h5 h6 h7 h8 h9 h10 h11 h12
  exact ⟨h1, h2, h3, h7, h5, h6, h10, h8⟩

theorem mergeTaskfile_tasks (t1 t2 t1' : Taskfile) (inc : Include) (h : mergeTaskfile t1 t2 inc = .ok t1') :
    ∃ itv, t1'.tasks = defaultAlias inc t2.tasks (t1.tasks ++ newTasks inc itv t2.tasks) := by
  simp only [mergeTaskfile] at h
  split at h
  · cases h
  · split at h
    · cases h
    · split at h
      · rename_i tb hm
        cases h
        exact ⟨_, mergeTasks_ok _ _ _ _ _ hm⟩
      · cases h

theorem mergeTaskfile_keeps {t1 t2 t1' : Taskfile} {inc : Include} (h : mergeTaskfile t1 t2 inc = .ok t1')
    {n : Name} {c : List Cmd} {d : List Name} (hd : HasDef t1 n c d) : HasDef t1' n c d := by
  obtain ⟨itv, ht⟩ := mergeTaskfile_tasks _ _ _ _ h
  obtain ⟨t, hm, h1, h2, h3⟩ := hd
  obtain ⟨t', hm', hc, _⟩ := defaultAlias_mem inc t2.tasks (t1.tasks ++ newTasks inc itv t2.tasks) t
    (List.mem_append_left _ hm)
  obtain ⟨e1, e2, e3, _⟩ := core_fields hc
  exact ⟨t', ht ▸ hm', e1.trans h1, e2.trans h2, e3.trans h3⟩

theorem mergeTaskfile_adds {t1 t2 t1' : Taskfile} {inc : Include} (h : mergeTaskfile t1 t2 inc = .ok t1')
    {t : Task} (hm : t ∈ t2.tasks) (hx : t.name ∉ inc.excludes) :
    HasDef t1' (renName inc t.name) (renCmds inc t.cmds) (renRefs inc t.deps) := by
  obtain ⟨itv, ht⟩ := mergeTaskfile_tasks _ _ _ _ h
  have hnew : mergeOne inc itv t ∈ newTasks inc itv t2.tasks := by
    simp only [newTasks, List.mem_map, List.mem_filter]
    exact ⟨t, ⟨hm, by simpa using hx⟩, rfl⟩
  obtain ⟨t', hm', hc, _⟩ := defaultAlias_mem inc t2.tasks (t1.tasks ++ newTasks inc itv t2.tasks) _
    (List.mem_append_right _ hnew)
  obtain ⟨e1, e2, e3, _⟩ := core_fields hc
  exact ⟨t', ht ▸ hm', e1.trans (mergeOne_name _ _ _), e2.trans (mergeOne_cmds _ _ _), e3.trans (mergeOne_deps _ _ _)⟩

/-- the same for a child whose file-level defaults have been given to its tasks first
(`Taskfile.bake`): baking touches the attribute record only — names, commands and
dependencies are the definition's -/
theorem mergeTaskfile_adds_baked {t1 t2 t1' : Taskfile} {inc : Include} (h : mergeTaskfile t1 t2.bake inc = .ok t1')
    {t : Task} (hm : t ∈ t2.tasks) (hx : t.name ∉ inc.excludes) :
    HasDef t1' (renName inc t.name) (renCmds inc t.cmds) (renRefs inc t.deps) := by
  have hb : bakeTask t2.defaults t ∈ t2.bake.tasks := List.mem_map.mpr ⟨t, hm, rfl⟩
  exact mergeTaskfile_adds (t := bakeTask t2.defaults t) h hb hx

/-! ### the store -/

theorem Store.get_set (st : Store) (v w : Nat) (tf : Taskfile) :
    (st.set v tf).get w = if w = v then (st.get v).map (fun _ => tf) else st.get w := by
  induction st with
  | nil => simp [Store.set, Store.get]
  | cons p r ih =>
    obtain ⟨k, x⟩ := p
    simp only [Store.set]
    by_cases hk : k = v
    · subst hk
      simp only [if_true, Store.get]
      by_cases hw : k = w
      · subst hw; simp
      · have : ¬ w = k := fun e => hw e.symm
        simp [hw, this]
    · simp only [hk, if_false, Store.get, ih]
      by_cases hw : k = w
      · subst hw
        simp [hk]
      · simp [hw]

/-- every definition present in `st` is still present in `st'` -/
def Store.Mono (st st' : Store) : Prop :=
  ∀ v tf n c d, st.get v = some tf → HasDef tf n c d → ∃ tf', st'.get v = some tf' ∧ HasDef tf' n c d

theorem Store.Mono.refl (st : Store) : Store.Mono st st := fun _ tf _ _ _ h hd => ⟨tf, h, hd⟩

theorem Store.Mono.trans {a b c : Store} (h1 : Store.Mono a b) (h2 : Store.Mono b c) : Store.Mono a c := by
  intro v tf n cc d h hd
  obtain ⟨tf', h', hd'⟩ := h1 v tf n cc d h hd
  exact h2 v tf' n cc d h' hd'

/-- one `mergeIncs`: only the parent's entry changes, nothing is lost, and every
non-excluded task of the child arrives under its new name for every include statement. -/
theorem mergeIncs_spec (src dst : Nat) (hne : src ≠ dst) (incs : List Include) (st st' : Store)
    (h : mergeIncs src dst incs st = .ok st') :
    Store.Mono st st' ∧ (∀ w, w ≠ src → st'.get w = st.get w) ∧
    (∀ inc ∈ incs, ∀ t2, st.get dst = some t2 → ∀ t ∈ t2.tasks, t.name ∉ inc.excludes →
      ∃ tf', st'.get src = some tf' ∧ HasDef tf' (renName inc t.name) (renCmds inc t.cmds) (renRefs inc t.deps)) := by
  induction incs generalizing st with
  | nil =>
    simp only [mergeIncs] at h; cases h
    exact ⟨Store.Mono.refl _, fun _ _ => rfl, by intro inc hi; cases hi⟩
  | cons inc rest ih =>
    simp only [mergeIncs] at h
    split at h
    · rename_i t1 t2 h1 h2
      split at h
      · rename_i t1' hm
        obtain ⟨ihm, ihf, ihs⟩ := ih _ h
        have hget : ∀ w, (st.set src t1').get w = if w = src then some t1' else st.get w := by
          intro w; rw [Store.get_set]; by_cases hw : w = src <;> simp [hw, h1]
        have hmono1 : Store.Mono st (st.set src t1') := by
          intro v tf n c d hv hd
          rw [hget]
          by_cases hv' : v = src
          · subst hv'
            rw [h1] at hv; cases hv
            exact ⟨t1', by simp, mergeTaskfile_keeps hm hd⟩
          · exact ⟨tf, by simp [hv', hv], hd⟩
        refine ⟨hmono1.trans ihm, ?_, ?_⟩
        · intro w hw
          rw [ihf w hw, hget]; simp [hw]
        · intro i hi t2' hd t ht hx
          have hds : ¬ dst = src := fun e => hne e.symm
          have hdst : (st.set src t1').get dst = some t2 := by
            rw [hget]; simp [hds, h2]
          rw [h2] at hd; cases hd
          simp only [List.mem_cons] at hi
          rcases hi with rfl | hi
          · have : HasDef t1' (renName i t.name) (renCmds i t.cmds) (renRefs i t.deps) := mergeTaskfile_adds_baked hm ht hx
            exact ihm src t1' _ _ _ (by rw [hget]; simp) this
          · exact ihs i hi t2 hdst t ht hx
      · cases h
    · cases h

theorem mergeEdges_spec (ε : Edge → List Include) (v : Nat) (es : List Edge) (st st' : Store)
    (hes : ∀ e ∈ es, e.dst = v ∧ e.src ≠ v)
    (h : mergeEdges ε es st = .ok st') :
    Store.Mono st st' ∧ (∀ w, (∀ e ∈ es, e.src ≠ w) → st'.get w = st.get w) ∧
    (∀ e ∈ es, ∀ inc ∈ ε e, ∀ t2, st.get v = some t2 → ∀ t ∈ t2.tasks, t.name ∉ inc.excludes →
      ∃ tf', st'.get e.src = some tf' ∧ HasDef tf' (renName inc t.name) (renCmds inc t.cmds) (renRefs inc t.deps)) := by
  induction es generalizing st with
  | nil =>
    simp only [mergeEdges] at h; cases h
    exact ⟨Store.Mono.refl _, fun _ _ => rfl, by intro e he; cases he⟩
  | cons e rest ih =>
    simp only [mergeEdges] at h
    split at h
    · rename_i st1 hm
      obtain ⟨hdv, hsv⟩ := hes e List.mem_cons_self
      have hes' : ∀ e ∈ rest, e.dst = v ∧ e.src ≠ v := fun e he => hes e (List.mem_cons_of_mem _ he)
      obtain ⟨m1, f1, s1⟩ := mergeIncs_spec e.src e.dst (by rw [hdv]; exact hsv) (ε e) st st1 hm
      obtain ⟨m2, f2, s2⟩ := ih st1 hes' h
      have hv1 : st1.get v = st.get v := f1 v (fun e' => hsv e'.symm)
      refine ⟨m1.trans m2, ?_, ?_⟩
      · intro w hw
        rw [f2 w (fun e' he' => hw e' (List.mem_cons_of_mem _ he')), f1 w (fun e' => hw e List.mem_cons_self e'.symm)]
      · intro e' he' inc hi t2 hd t ht hx
        simp only [List.mem_cons] at he'
        rcases he' with rfl | he'
        · obtain ⟨tf', g1, g2⟩ := s1 inc hi t2 (by rw [hdv]; exact hd) t ht hx
          exact m2 _ tf' _ _ _ g1 g2
        · exact s2 e' he' inc hi t2 (by rw [hv1]; exact hd) t ht hx
    · cases h

end TaskModel.Load
