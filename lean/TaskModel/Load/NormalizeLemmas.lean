import TaskModel.Load.Reader
import TaskModel.Load.SortLemmas
/-!
The canonical representation of the include graph (`Graph.normalize`) does not depend on
the order in which vertices and edges are enumerated.
-/
namespace TaskModel.Load

theorem eq_of_key_eq {α β : Type} (key : α → β) (l : List α) (h : (l.map key).Nodup) (a b : α)
    (ha : a ∈ l) (hb : b ∈ l) (hk : key a = key b) : a = b := by
  induction l with
  | nil => cases ha
  | cons x r ih =>
    simp only [List.map_cons, List.nodup_cons, List.mem_map, not_exists, not_and] at h
    simp only [List.mem_cons] at ha hb
    rcases ha with rfl | ha <;> rcases hb with rfl | hb
    · rfl
    · exact absurd hk.symm (h.1 b hb)
    · exact absurd hk (h.1 a ha)
    · exact ih h.2 ha hb

theorem vertLe_total (a b : Nat × Taskfile) : vertLe a b = true ∨ vertLe b a = true := by
  simp only [vertLe, decide_eq_true_eq]; omega

theorem vertLe_trans (a b c : Nat × Taskfile) (h1 : vertLe a b = true) (h2 : vertLe b c = true) : vertLe a c = true := by
  simp only [vertLe, decide_eq_true_eq] at *; omega

theorem edgeLe_total (a b : Edge) : edgeLe a b = true ∨ edgeLe b a = true := by
  simp only [edgeLe, decide_eq_true_eq]; omega

theorem edgeLe_trans (a b c : Edge) (h1 : edgeLe a b = true) (h2 : edgeLe b c = true) : edgeLe a c = true := by
  simp only [edgeLe, decide_eq_true_eq] at *; omega

/-- the canonical representation does not depend on the order in which vertices and edges
are enumerated -/
theorem normalize_perm (g₁ g₂ : Graph) (hv : g₁.verts.Perm g₂.verts) (he : g₁.edges.Perm g₂.edges)
    (hkv : (g₁.verts.map (·.1)).Nodup) (hke : (g₁.edges.map (fun e => (e.src, e.dst))).Nodup) :
    g₁.normalize = g₂.normalize := by
  simp only [Graph.normalize, sortVerts, sortEdges]
  congr 1
  · apply sortBy_eq_of_perm vertLe vertLe_total vertLe_trans hv
    intro a b ha hb h1 h2
    simp only [vertLe, decide_eq_true_eq] at h1 h2
    exact eq_of_key_eq (·.1) _ hkv a b ha hb (by omega)
  · apply sortBy_eq_of_perm edgeLe edgeLe_total edgeLe_trans he
    intro a b ha hb h1 h2
    simp only [edgeLe, decide_eq_true_eq] at h1 h2
    apply eq_of_key_eq (fun e : Edge => (e.src, e.dst)) _ hke a b ha hb
    have : a.src = b.src ∧ a.dst = b.dst := by omega
    simp [this.1, this.2]

end TaskModel.Load
