import TaskModel.Load.Taskfile
/-!
Load.Graph — `ast.TaskfileGraph` and `TaskfileGraph.Merge` (taskfile/ast/graph.go).

`Graph.merge σ ε g` is the merge parameterised by the two things the implementation
does not fix by itself: the topological order `σ` that was used and, per edge, the
order `ε e` of the include statements attached to it.
-/
namespace TaskModel.Load

/-- edge parent → child carrying the include statements between the two files -/
structure Edge where
  src : Nat
  dst : Nat
  incs : List Include
deriving Repr, DecidableEq

abbrev Store := List (Nat × Taskfile)

def Store.get (v : Nat) : Store → Option Taskfile
  | [] => none
  | (k, tf) :: r => if k = v then some tf else Store.get v r

def Store.set (v : Nat) (tf : Taskfile) : Store → Store
  | [] => []
  | (k, x) :: r => if k = v then (k, tf) :: r else (k, x) :: Store.set v tf r

structure Graph where
  verts : Store
  edges : List Edge
deriving Repr, DecidableEq

def Graph.ids (g : Graph) : List Nat := g.verts.map (·.1)

/-- predecessor edges of `v` (`predecessorMap[v]`), in the order of `g.edges` -/
def Graph.preds (g : Graph) (v : Nat) : List Edge := g.edges.filter (fun e => e.dst = v)

/-- merge the child of edge `e` into its parent once per include statement; the child's
file-level defaults are given to its tasks first (`Taskfile.bake`: `setDefaults`) -/
def mergeIncs (src dst : Nat) : List Include → Store → Except Err Store
  | [], st => .ok st
  | inc :: r, st =>
    match st.get src, st.get dst with
    | some t1, some t2 =>
      match mergeTaskfile t1 t2.bake inc with
      | .ok t1' => mergeIncs src dst r (st.set src t1')
      | .error e => .error e
    | _, _ => .error .internal

/-- merge vertex `v` into each of its parents -/
def mergeEdges (ε : Edge → List Include) : List Edge → Store → Except Err Store
  | [], st => .ok st
  | e :: r, st =>
    match mergeIncs e.src e.dst (ε e) st with
    | .ok st' => mergeEdges ε r st'
    | .error err => .error err

/-- the loop `for i := len(hashes)-1; i > 0; i--` over `order = reverse (tail σ)` -/
def mergeOrder (g : Graph) (ε : Edge → List Include) : List Nat → Store → Except Err Store
  | [], st => .ok st
  | v :: r, st =>
    match mergeEdges ε (g.preds v) st with
    | .ok st' => mergeOrder g ε r st'
    | .error err => .error err

/-- `TaskfileGraph.Merge` with topological order `σ` and per-edge include order `ε`; after
the loop `ResolveRootRefs` is applied to the root vertex's table -/
def Graph.merge (σ : List Nat) (ε : Edge → List Include) (g : Graph) : Except Err Taskfile :=
  match σ with
  | [] => .error .internal
  | root :: rest =>
    match mergeOrder g ε rest.reverse g.verts with
    | .ok st => match st.get root with
      | some tf => .ok { tf with tasks := resolveRootRefs tf.tasks }
      | none => .error .internal
    | .error e => .error e

/-! ### Topological orders -/

/-- no edge goes from a later element of the list to an earlier one -/
def noBackEdge (g : Graph) : List Nat → Bool
  | [] => true
  | a :: r => r.all (fun b => g.edges.all (fun e => !(e.src == b && e.dst == a))) && noBackEdge g r

def nodupB : List Nat → Bool
  | [] => true
  | a :: r => !r.contains a && nodupB r

/-- `σ` lists every vertex exactly once, every edge joins two different listed vertices
and goes forward -/
def isTopoB (g : Graph) (σ : List Nat) : Bool :=
  nodupB σ && g.ids.all (fun v => σ.contains v) && σ.all (fun v => g.ids.contains v)
    && g.edges.all (fun e => σ.contains e.src && σ.contains e.dst && e.src != e.dst)
    && noBackEdge g σ

/-- topological order as a proposition (what the theorems assume of `σ`) -/
structure IsTopo (g : Graph) (σ : List Nat) : Prop where
  nodup : σ.Nodup
  ends : ∀ e ∈ g.edges, e.src ∈ σ ∧ e.dst ∈ σ ∧ e.src ≠ e.dst
  forward : σ.Pairwise (fun a b => ∀ e ∈ g.edges, ¬ (e.src = b ∧ e.dst = a))

/-! ### The canonical order: `graph.StableTopologicalSort(g, a < b)`

Kahn's algorithm with a FIFO queue; the initial queue and every frontier (vertices whose
last predecessor was just removed) are sorted by the vertex key.  File ids are numbered
in the order of their locations, so `<` on ids is `<` on the keys. -/

/-- predecessor sets: vertex ↦ sources of its incoming edges -/
def predSets (g : Graph) : List (Nat × List Nat) :=
  g.ids.map (fun v => (v, (g.preds v).map (·.src)))

def kahn : Nat → List Nat → List Nat → List Nat → List (Nat × List Nat) → List Nat
  | 0, _, _, order, _ => order
  | _ + 1, [], _, order, _ => order
  | fuel + 1, cur :: queue, queued, order, preds =>
    if order.contains cur then kahn fuel queue queued order preds
    else
      let preds' := preds.map (fun p => (p.1, p.2.filter (· ≠ cur)))
      let frontier := sortNat ((preds'.filter (fun p => p.2.isEmpty && !queued.contains p.1)).map (·.1))
      kahn fuel (queue ++ frontier) (queued ++ frontier) (order ++ [cur]) preds'

def canonicalOrder (g : Graph) : List Nat :=
  let ps := predSets g
  let q0 := sortNat ((ps.filter (fun p => p.2.isEmpty)).map (·.1))
  kahn (2 * g.verts.length + 1) q0 q0 [] ps

/-- the canonical per-edge order: the include statements as the reader attached them
(declaration order) -/
def canonicalEps : Edge → List Include := fun e => e.incs

/-- canonical order of edges: by (source, target) key -/
def edgeLe (e f : Edge) : Bool := decide (e.src < f.src ∨ (e.src = f.src ∧ e.dst ≤ f.dst))

def sortEdges : List Edge → List Edge := sortBy edgeLe

end TaskModel.Load
