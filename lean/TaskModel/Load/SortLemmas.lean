import TaskModel.Load.Basic
/-!
Insertion sort is canonical: the result is a sorted permutation of the input, so two
lists that are permutations of each other (with pairwise distinct keys) sort to the
same list.  Used to show that the canonical merge schedule does not depend on the order
in which Go's maps hand out vertices and edges.
-/
namespace TaskModel.Load

theorem insertBy_perm (le : α → α → Bool) (x : α) (l : List α) : (insertBy le x l).Perm (x :: l) := by
  induction l with
  | nil => simp [insertBy]
  | cons y r ih =>
    simp only [insertBy]
    split
    · exact List.Perm.refl _
    · exact (List.Perm.cons y ih).trans (List.Perm.swap x y r)

theorem sortBy_perm (le : α → α → Bool) (l : List α) : (sortBy le l).Perm l := by
  induction l with
  | nil => simp [sortBy]
  | cons x r ih => exact (insertBy_perm le x _).trans (List.Perm.cons x ih)

theorem insertBy_pairwise (le : α → α → Bool)
    (total : ∀ a b, le a b = true ∨ le b a = true)
    (trans : ∀ a b c, le a b = true → le b c = true → le a c = true)
    (x : α) (l : List α) (h : l.Pairwise (fun a b => le a b = true)) :
    (insertBy le x l).Pairwise (fun a b => le a b = true) := by
  induction l with
  | nil => simp [insertBy]
  | cons y r ih =>
    simp only [insertBy]
    have hy : ∀ {z}, z ∈ r → le y z = true := fun hz => List.rel_of_pairwise_cons h hz
    split
    · rename_i hxy
      refine List.Pairwise.cons ?_ h
      intro z hz
      simp only [List.mem_cons] at hz
      rcases hz with rfl | hz
      · exact hxy
      · exact trans _ _ _ hxy (hy hz)
    · rename_i hxy
      have hyx : le y x = true := by
        rcases total x y with h1 | h1
        · exact absurd h1 hxy
        · exact h1
      refine List.Pairwise.cons ?_ (ih h.tail)
      intro z hz
      have := (insertBy_perm le x r).subset hz
      simp only [List.mem_cons] at this
      rcases this with rfl | hz
      · exact hyx
      · exact hy hz

theorem sortBy_pairwise (le : α → α → Bool)
    (total : ∀ a b, le a b = true ∨ le b a = true)
    (trans : ∀ a b c, le a b = true → le b c = true → le a c = true) (l : List α) :
    (sortBy le l).Pairwise (fun a b => le a b = true) := by
  induction l with
  | nil => simp [sortBy]
  | cons x r ih => exact insertBy_pairwise le total trans x _ ih

/-- **Sorting is canonical**: permutations whose elements are pairwise distinguishable by
the order sort to the same list. -/
theorem sortBy_eq_of_perm (le : α → α → Bool)
    (total : ∀ a b, le a b = true ∨ le b a = true)
    (trans : ∀ a b c, le a b = true → le b c = true → le a c = true)
    {l₁ l₂ : List α} (hp : l₁.Perm l₂)
    (anti : ∀ a b, a ∈ l₁ → b ∈ l₁ → le a b = true → le b a = true → a = b) :
    sortBy le l₁ = sortBy le l₂ := by
  apply List.Perm.eq_of_pairwise (le := fun a b => le a b = true)
  · intro a b ha hb h1 h2
    have ha' : a ∈ l₁ := (sortBy_perm le l₁).subset ha
    have hb' : b ∈ l₁ := hp.symm.subset ((sortBy_perm le l₂).subset hb)
    exact anti a b ha' hb' h1 h2
  · exact sortBy_pairwise le total trans l₁
  · exact sortBy_pairwise le total trans l₂
  · exact (sortBy_perm le l₁).trans (hp.trans (sortBy_perm le l₂).symm)

end TaskModel.Load
