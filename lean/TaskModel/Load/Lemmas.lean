import TaskModel.Load.Reader
/-!
Helper lemmas about the loader model: ordered maps, `Tasks.Merge`, `Taskfile.Merge`.
-/
namespace TaskModel.Load

/-! ### ordered maps -/

theorem Vars.get_set (k k' : Nat) (v : Var) (m : Vars) :
    Vars.get k (Vars.set k' v m) = if k' = k then some v else Vars.get k m := by
  induction m with
  | nil => simp [Vars.set, Vars.get]
  | cons p r ih =>
    obtain ⟨a, b⟩ := p
    simp only [Vars.set]
    by_cases h : a = k'
    · subst h
      simp only [if_true, Vars.get]
      by_cases h2 : a = k <;> simp [h2]
    · simp only [h, if_false, Vars.get, ih]
      by_cases h2 : a = k
      · subst h2
        have : ¬ k' = a := fun e => h e.symm
        simp [this]
      · simp [h2]

/-! ### task tables -/

theorem Table.has_iff (n : Name) (tb : Table) : tb.has n = true ↔ n ∈ tb.names := by
  induction tb with
  | nil => simp [Table.has, Table.names]
  | cons t r ih =>
    simp only [Table.has, Table.names, List.map_cons, List.mem_cons]
    by_cases h : t.name = n
    · simp [h]
    · simp only [h, if_false]
      constructor
      · intro hh; exact Or.inr (ih.mp hh)
      · rintro (hh | hh)
        · exact absurd hh.symm h
        · exact ih.mpr hh

theorem Table.has_false_iff (n : Name) (tb : Table) : tb.has n = false ↔ n ∉ tb.names := by
  rw [← Table.has_iff]; cases tb.has n <;> simp

/-- the tasks `Tasks.Merge` adds: the non-excluded tasks of the included table, copied -/
def newTasks (inc : Include) (itv : Vars) (t2 : Table) : Table :=
  (t2.filter (fun t => decide (t.name ∉ inc.excludes))).map (mergeOne inc itv)

theorem mergeLoop_ok (inc : Include) (itv : Vars) (t2 acc r : Table)
    (h : mergeLoop inc itv t2 acc = .ok r) : r = acc ++ newTasks inc itv t2 := by
  induction t2 generalizing acc with
  | nil => simp [mergeLoop] at h; simp [newTasks, h]
  | cons t rest ih =>
    simp only [mergeLoop] at h
    by_cases hx : t.name ∈ inc.excludes
    · simp only [hx, if_true] at h
      have := ih acc h
      simpa [newTasks, hx] using this
    · simp only [hx, if_false] at h
      split at h
      · cases h
      · have := ih _ h
        simp [newTasks, hx, this, List.append_assoc] at *

theorem mergeLoop_error (inc : Include) (itv : Vars) (t2 acc : Table) (e : Err)
    (h : mergeLoop inc itv t2 acc = .error e) : e = .conflict := by
  induction t2 generalizing acc with
  | nil => simp [mergeLoop] at h
  | cons t rest ih =>
    simp only [mergeLoop] at h
    by_cases hx : t.name ∈ inc.excludes
    · simp only [hx, if_true] at h; exact ih acc h
    · simp only [hx, if_false] at h
      split at h
      · cases h; rfl
      · exact ih _ h

/-- no silent overwrite: after a successful loop all names are still pairwise distinct -/
theorem mergeLoop_nodup (inc : Include) (itv : Vars) (t2 acc r : Table)
    (h : mergeLoop inc itv t2 acc = .ok r) (hn : acc.names.Nodup) : r.names.Nodup := by
  induction t2 generalizing acc with
  | nil => simp [mergeLoop] at h; simpa [← h] using hn
  | cons t rest ih =>
    simp only [mergeLoop] at h
    by_cases hx : t.name ∈ inc.excludes
    · simp only [hx, if_true] at h; exact ih acc h hn
    · simp only [hx, if_false] at h
      split at h
      · cases h
      · rename_i hh
        apply ih _ h
        have hh' : (mergeOne inc itv t).name ∉ acc.names := by
          rw [← Table.has_iff]; simpa using hh
        simp only [Table.names, List.map_append, List.map_cons, List.map_nil]
        rw [List.nodup_append]
        refine ⟨hn, by simp, ?_⟩
        intro a ha b hb
        simp only [List.mem_singleton] at hb
        subst hb
        intro hab; subst hab
        exact hh' ha

/-- everything but the alias list -/
def Task.core (t : Task) : Task := { t with aliases := [] }

theorem addAliases_core (n : Name) (extra : List Name) (tb : Table) :
    (addAliases n extra tb).map Task.core = tb.map Task.core := by
  induction tb with
  | nil => simp [addAliases]
  | cons t r ih =>
    simp only [addAliases]
    split
    · simp [Task.core]
    · simp [ih]

theorem addAliases_names (n : Name) (extra : List Name) (tb : Table) :
    (addAliases n extra tb).names = tb.names := by
  have := congrArg (List.map (·.name)) (addAliases_core n extra tb)
  simpa [Table.names, Task.core, List.map_map, Function.comp_def] using this

/-- aliases only grow -/
theorem addAliases_mem (n : Name) (extra : List Name) (tb : Table) (t : Task) (ht : t ∈ tb) :
    ∃ t' ∈ addAliases n extra tb, t'.core = t.core ∧ ∀ a ∈ t.aliases, a ∈ t'.aliases := by
  induction tb with
  | nil => cases ht
  | cons x r ih =>
    simp only [addAliases]
    simp only [List.mem_cons] at ht
    split
    · rcases ht with rfl | ht
      · exact ⟨_, List.mem_cons_self, by simp [Task.core], fun a ha => by simp [ha]⟩
      · exact ⟨t, List.mem_cons_of_mem _ ht, rfl, fun a ha => ha⟩
    · rcases ht with rfl | ht
      · exact ⟨t, List.mem_cons_self, rfl, fun a ha => ha⟩
      · obtain ⟨t', h1, h2, h3⟩ := ih ht
        exact ⟨t', List.mem_cons_of_mem _ h1, h2, h3⟩

theorem defaultAlias_core (inc : Include) (t2 m : Table) :
    (defaultAlias inc t2 m).map Task.core = m.map Task.core := by
  simp only [defaultAlias]; split
  · exact addAliases_core _ _ _
  · rfl

theorem defaultAlias_names (inc : Include) (t2 m : Table) : (defaultAlias inc t2 m).names = m.names := by
  simp only [defaultAlias]; split
  · exact addAliases_names _ _ _
  · rfl

theorem defaultAlias_mem (inc : Include) (t2 m : Table) (t : Task) (ht : t ∈ m) :
    ∃ t' ∈ defaultAlias inc t2 m, t'.core = t.core ∧ ∀ a ∈ t.aliases, a ∈ t'.aliases := by
  simp only [defaultAlias]; split
  · exact addAliases_mem _ _ _ _ ht
  · exact ⟨t, ht, rfl, fun a ha => ha⟩

/-- shape of a successful `Tasks.Merge` -/
theorem mergeTasks_ok (t1 t2 r : Table) (inc : Include) (itv : Vars)
    (h : mergeTasks t1 t2 inc itv = .ok r) :
    r = defaultAlias inc t2 (t1 ++ newTasks inc itv t2) := by
  simp only [mergeTasks] at h
  split at h
  · rename_i m hm
    cases h
    rw [mergeLoop_ok _ _ _ _ _ hm]
  · cases h

theorem mergeTasks_error (t1 t2 : Table) (inc : Include) (itv : Vars) (e : Err)
    (h : mergeTasks t1 t2 inc itv = .error e) : e = .conflict := by
  simp only [mergeTasks] at h
  split at h
  · cases h
  · rename_i e' hm
    cases h
    exact mergeLoop_error _ _ _ _ _ hm

theorem mergeTasks_nodup (t1 t2 r : Table) (inc : Include) (itv : Vars)
    (h : mergeTasks t1 t2 inc itv = .ok r) (hn : t1.names.Nodup) : r.names.Nodup := by
  simp only [mergeTasks] at h
  split at h
  · rename_i m hm
    cases h
    rw [defaultAlias_names]
    exact mergeLoop_nodup _ _ _ _ _ hm hn
  · cases h

end TaskModel.Load
