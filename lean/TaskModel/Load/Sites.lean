import TaskModel.Gen.NondetSites
/-!
Load.Sites — hand-written classification of the sites on the load/compile path whose
iteration order the language does not fix (`Gen.NondetSites`, regenerated on every run).
A new map range or topological sort on that path appears in the generated list without
an entry here and breaks `Props.C09.all_sites_classified`.
-/
namespace TaskModel.Load

inductive SiteClass
  | benign          -- the result does not depend on the iteration order
  | permitted       -- order is observable but the documentation leaves it unspecified
  | orderSensitive  -- the result depends on the order: must be sorted / stable
deriving Repr, DecidableEq

structure SiteEntry where
  fn : String
  expr : String
  cls : SiteClass
  why : String

def classification : List SiteEntry := [
  ⟨"internal/deepcopy.Map", "range orig", .benign,
    "copies key by key into a fresh Go map: distinct keys, the resulting map is the same for every order"⟩,
  ⟨"internal/env.GetFromVars", "range env.ToCacheMap()", .benign,
    "appends K=V for distinct keys after os.Environ(): the environment denoted is the same (Vars.setAll_perm)"⟩,
  ⟨"internal/fingerprint.collectKeys", "range m", .benign,
    "collects the keys of a set and sorts them before returning"⟩,
  ⟨"task.Compiler.getVariables", "range specialVars", .benign,
    "Sets distinct special-variable names into a map that is only consulted by key (Vars.setAll_perm)"⟩,
  ⟨"taskfile.Dotenv", "range envs", .orderSensitive,
    "entries of one dotenv file in Go map order: the result is an ORDERED map whose values getVariables templates one after the other, each seeing the ones before it (B={{.A}}x) — the values differed from run to run (this entry was wrongly `benign` until a reviewer ran such a file; repaired by 6952eb7)"⟩,
  ⟨"taskfile.Dotenv", "range slices.Sorted(maps.Keys(envs))", .orderSensitive,
    "same site after 6952eb7: entries in key order"⟩,
  ⟨"task.Executor.compiledTask", "range envs", .orderSensitive,
    "task-level dotenv entries in Go map order: they end up, in that order, in the compiled task's ordered env map"⟩,
  ⟨"task.Executor.compiledTask", "range slices.Sorted(maps.Keys(envs))", .orderSensitive,
    "same site after 6952eb7: entries in key order"⟩,
  ⟨"task.itemsFromFor", "range value", .permitted,
    "for-loop over a map variable: documented as unordered, the variation the property allows"⟩,
  ⟨"taskfile/ast.TaskfileGraph.Merge", "graph.TopologicalSort", .orderSensitive,
    "the order in which sibling includes are merged decides variable winners and task order (C09_sigma_counterexample)"⟩,
  ⟨"taskfile/ast.TaskfileGraph.Merge", "graph.StableTopologicalSort", .orderSensitive,
    "same site after F14: the order is fixed by the vertex key"⟩,
  ⟨"taskfile/ast.TaskfileGraph.Merge", "range predecessorMap[hash]", .orderSensitive,
    "parents of one file in map order: decides which of several failing merges is reported (exit code 1 vs 203)"⟩,
  ⟨"taskfile/ast.TaskfileGraph.Merge", "range slices.Sorted(maps.Keys(predecessors))", .orderSensitive,
    "same site after F14: parents in key order"⟩
]

def classify (fn expr : String) : Option SiteClass :=
  (classification.find? (fun s => s.fn == fn && s.expr == expr)).map (·.cls)

/-- a generated site (function, expression, kind) is discharged: it is classified, and if
it is order-sensitive it iterates in a sorted / stable order -/
def siteOk (s : String × String × String) : Bool :=
  match classify s.1 s.2.1 with
  | none => false
  | some .benign => true
  | some .permitted => true
  | some .orderSensitive => s.2.2 == "sortedkeys" || s.2.2 == "stabletoposort"

end TaskModel.Load
