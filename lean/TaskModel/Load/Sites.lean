import TaskModel.Gen.NondetSites
import TaskModel.Gen.Load
/-!
Load.Sites — hand-written classification of the sites on the load/compile path whose
iteration order the language does not fix (`Gen.NondetSites`, regenerated on every run).
A new map range or topological sort on that path appears in the generated list without
an entry here and breaks `Props.C09.all_sites_classified`.  So does a function on that path that
starts goroutines with an `errgroup` and uses the group's error — the FIRST error IN TIME — unless
the group waits for each goroutine before it starts the next (kind `errgroup-sequential`) or, for
`Reader.include`, the error is replaced by the schedule-free walk `Reader.firstError`.
-/
namespace TaskModel.Load

inductive SiteClass
  | benign          -- the result does not depend on the iteration order
  | permitted       -- order is observable but the documentation leaves it unspecified
  | orderSensitive  -- the result depends on the order: must be sorted / stable
deriving Repr, DecidableEq

structure SiteEntry where
  fn : String
  expr : String
  cls : SiteClass
  why : String

def classification : List SiteEntry := [
  ⟨"internal/deepcopy.Map", "range orig", .benign,
    "copies key by key into a fresh Go map: distinct keys, the resulting map is the same for every order"⟩,
  ⟨"internal/env.GetFromVars", "range env.ToCacheMap()", .benign,
    "appends K=V for distinct keys after os.Environ(): the environment denoted is the same (Vars.setAll_perm)"⟩,
  ⟨"internal/fingerprint.collectKeys", "range m", .benign,
    "collects the keys of a set and sorts them before returning"⟩,
  ⟨"task.Compiler.getVariables", "range specialVars", .benign,
    "Sets distinct special-variable names into a map that is only consulted by key (Vars.setAll_perm)"⟩,
  ⟨"taskfile.Dotenv", "range envs", .orderSensitive,
    "entries of one dotenv file in Go map order: the result is an ORDERED map whose values getVariables templates one after the other, each seeing the ones before it (B={{.A}}x) — the values differed from run to run (this entry was wrongly `benign` until a reviewer ran such a file; repaired by 6952eb7)"⟩,
  ⟨"taskfile.Dotenv", "range slices.Sorted(maps.Keys(envs))", .orderSensitive,
    "same site after 6952eb7: entries in key order"⟩,
  ⟨"task.Executor.compiledTask", "range envs", .orderSensitive,
    "task-level dotenv entries in Go map order: they end up, in that order, in the compiled task's ordered env map"⟩,
  ⟨"task.Executor.compiledTask", "range slices.Sorted(maps.Keys(envs))", .orderSensitive,
    "same site after 6952eb7: entries in key order"⟩,
  ⟨"task.itemsFromFor", "range value", .permitted,
    "for-loop over a map variable: documented as unordered, the variation the property allows"⟩,
  ⟨"taskfile/ast.TaskfileGraph.Merge", "graph.TopologicalSort", .orderSensitive,
    "the order in which sibling includes are merged decides variable winners and task order (C09_sigma_counterexample)"⟩,
  ⟨"taskfile/ast.TaskfileGraph.Merge", "graph.StableTopologicalSort", .orderSensitive,
    "same site after F14: the order is fixed by the vertex key"⟩,
  ⟨"taskfile/ast.TaskfileGraph.Merge", "range predecessorMap[hash]", .orderSensitive,
    "parents of one file in map order: decides which of several failing merges is reported (exit code 1 vs 203)"⟩,
  ⟨"taskfile/ast.TaskfileGraph.Merge", "range slices.Sorted(maps.Keys(predecessors))", .orderSensitive,
    "same site after F14: parents in key order"⟩,
  ⟨"taskfile/ast.TaskfileGraph.Merge", "errgroup.Go/Wait", .orderSensitive,
    "merges of one file into its parents run in goroutines of an errgroup: harmless only because g.Wait() follows every g.Go (one at a time, in the sorted order of the parents)"⟩,
  ⟨"taskfile.Reader.include", "errgroup.Go/Wait", .orderSensitive,
    "the includes of a file are read concurrently and g.Wait() yields the first error in time: with two failing includes the exit code changed from run to run (1 / 102 / 107); Reader.Read replaces that error by Reader.firstError, a walk over the recorded results in declaration order"⟩
]

/-- `Reader.Read` returns the result of `Reader.firstError` whenever the concurrent read failed
and the walk finds an error; `Reader.include` records the error of reading a file right after
`readNode`, every error of resolving an include through `fail` (no error return before the
recursion bypasses it), and the location included before it recurses (`Gen.Load`, regenerated) -/
def readErrorIsCanonical : Bool :=
  TaskModel.Gen.Load.readErrorBranch ==
      ["if ‹1› := r.firstError(node.Location(), nil, map[string]bool{}); ‹1› != nil", "  return nil, ‹1›", "return nil, ‹0›"]
    && TaskModel.Gen.Load.includeRecords ==
      ["file-error-recorded-after:readNode", "location-recorded-before-recursion:Location()", "goroutine:fail-returns=4",
       "goroutine:unrecorded-error-returns-before-recursion=0", "goroutine:error-returns-from-recursion-on=1"]

def classify (fn expr : String) : Option SiteClass :=
  (classification.find? (fun s => s.fn == fn && s.expr == expr)).map (·.cls)

/-- a generated site (function, expression, kind) is discharged: it is classified, and if
it is order-sensitive it iterates in a sorted / stable order -/
def siteOk (s : String × String × String) : Bool :=
  match classify s.1 s.2.1 with
  | none => false
  | some .benign => true
  | some .permitted => true
  | some .orderSensitive =>
    s.2.2 == "sortedkeys" || s.2.2 == "stabletoposort" || s.2.2 == "errgroup-sequential"
      || (s.2.2 == "errgroup-wait" && s.1 == "taskfile.Reader.include" && readErrorIsCanonical)

end TaskModel.Load
