import TaskModel.Load.Graph
/-!
Load.Reader — `Reader.include` (taskfile/reader.go) as a function from an abstract file
map, and the whole load `Reader.Read` + `TaskfileGraph.Merge`.

The implementation explores the includes of a file concurrently and creates the edge
parent → child after the child's subtree has been read; an edge that would close a cycle
is refused by the graph (`PreventCycles`).  Every include statement of a cycle is
attempted, so a cycle among the reachable files is always refused at one of its edges;
the model finds the same cycles as "the target is on the current include stack".
The edge data is built in declaration order (what the reader does after F14; before it
the order was the completion order of the goroutines).
-/
namespace TaskModel.Load

abbrev FileMap := List (Nat × Taskfile)

/-- `&ast.Include{…}` + `ResolveEntrypoint` / `ResolveDir`: the include as stored on the
edge; `dir` is resolved against the directory of the including file. -/
def resolveInclude (parent : Taskfile) (d : IncludeDecl) : Include :=
  { ns := d.ns, file := d.file, dir := ⟨true, parent.fdir ++ d.dir⟩, optional := d.optional,
    internal := d.internal, flatten := d.flatten, advanced := d.advanced, aliases := d.aliases,
    excludes := d.excludes, vars := d.vars }

/-- append `inc` to the data of edge `src → dst`, creating the edge if needed -/
def addEdge (src dst : Nat) (inc : Include) : List Edge → List Edge
  | [] => [⟨src, dst, [inc]⟩]
  | e :: r => if e.src = src ∧ e.dst = dst then { e with incs := e.incs ++ [inc] } :: r else e :: addEdge src dst inc r

/-- the include statements of one file, in declaration order; `visit` is the recursive
call for a file not yet seen -/
def visitIncs (fm : FileMap) (visit : Nat → Graph → Except Err Graph) (stack : List Nat)
    (parent : Nat) (ptf : Taskfile) : List IncludeDecl → Graph → Except Err Graph
  | [], g => .ok g
  | d :: r, g =>
    match Store.get d.file fm with
    | none => if d.optional then visitIncs fm visit stack parent ptf r g else .error .missing
    | some _ =>
      if d.file = parent ∨ d.file ∈ stack then .error .cycle
      else
        let sub := if (g.ids).contains d.file then .ok g else visit d.file g
        match sub with
        | .error e => .error e
        | .ok g' =>
          visitIncs fm visit stack parent ptf r
            { g' with edges := addEdge parent d.file (resolveInclude ptf d) g'.edges }

/-! ### What the decoder guarantees: no key is used twice

`Tasks.UnmarshalYAML`, `Includes.UnmarshalYAML` and `Vars.UnmarshalYAML` walk their mapping
node by hand; each refuses a key that an earlier pair of the same mapping already used
(`duplicateKeyError`, a `TaskfileDecodeError`).  A file is a list of pairs here, exactly
what the YAML mapping is, so the check is part of reading a file. -/

def nodupNames : List Name → Bool
  | [] => true
  | a :: r => !r.contains a && nodupNames r

/-- no duplicate key in `tasks:`, `includes:`, the file's `vars:` / `env:`, the `vars:` of
any task and the `vars:` of any include statement -/
def Taskfile.wellKeyed (tf : Taskfile) : Bool :=
  nodupNames tf.tasks.names && nodupNames (tf.includes.map (·.ns))
    && nodupB tf.vars.keys && nodupB tf.env.keys
    && tf.tasks.all (fun t => nodupB t.vars.keys) && tf.includes.all (fun d => nodupB d.vars.keys)

/-- `Reader.include`: add the vertex, read the file (a duplicate key is a decode error,
before the version is looked at), explore its includes -/
def visit (fm : FileMap) : Nat → List Nat → Nat → Graph → Except Err Graph
  | 0, _, _, _ => .error .internal
  | fuel + 1, stack, f, g =>
    match Store.get f fm with
    | none => .error .missing
    | some tf =>
      if !tf.wellKeyed then .error .decode
      else if tf.version = 0 then .error .versionCheck
      else
        visitIncs fm (fun c g' => visit fm fuel (f :: stack) c g') stack f tf tf.includes
          { g with verts := g.verts ++ [(f, tf)] }

/-! ### `Reader.firstError`: which error is reported

The includes are read concurrently; when that fails, `Reader.Read` does not return the error
the concurrent read met first in time but walks over what was recorded for every file read
— the error of reading it, per include the error of resolving it or the file included —
depth first, includes in declaration order, and returns the first error.  The records are a
function of the files (every file is read exactly once, by whichever goroutine reaches it
first), so the walk is a function of the file map: no schedule appears in it.  `walk` is that
function; `walk_eq_visit` (ReaderLemmas) proves it reports exactly the error of `visit`. -/

def walkIncs (fm : FileMap) (walk : Nat → List Nat → Except Err (List Nat)) (stack : List Nat)
    (parent : Nat) : List IncludeDecl → List Nat → Except Err (List Nat)
  | [], seen => .ok seen
  | d :: r, seen =>
    match Store.get d.file fm with
    | none => if d.optional then walkIncs fm walk stack parent r seen else .error .missing
    | some _ =>
      if d.file = parent ∨ d.file ∈ stack then .error .cycle
      else
        match (if seen.contains d.file then .ok seen else walk d.file seen) with
        | .error e => .error e
        | .ok seen' => walkIncs fm walk stack parent r seen'

def walk (fm : FileMap) : Nat → List Nat → Nat → List Nat → Except Err (List Nat)
  | 0, _, _, _ => .error .internal
  | fuel + 1, stack, f, seen =>
    match Store.get f fm with
    | none => .error .missing
    | some tf =>
      if !tf.wellKeyed then .error .decode
      else if tf.version = 0 then .error .versionCheck
      else walkIncs fm (fun c s => walk fm fuel (f :: stack) c s) stack f tf.includes (seen ++ [f])

/-- the error `Reader.Read` reports (none: the tree reads) -/
def firstError (fm : FileMap) (root : Nat) : Option Err :=
  match walk fm (fm.length + 1) [] root [] with
  | .ok _ => none
  | .error e => some e

/-- `Reader.Read` -/
def readGraph (fm : FileMap) (root : Nat) : Except Err Graph :=
  visit fm (fm.length + 1) [] root ⟨[], []⟩

/-- canonical representation of what the reader built: vertices and edges in key order
(the implementation keeps them in Go maps) -/
def vertLe (x y : Nat × Taskfile) : Bool := decide (x.1 ≤ y.1)

def sortVerts : Store → Store := sortBy vertLe

def Graph.normalize (g : Graph) : Graph := ⟨sortVerts g.verts, sortEdges g.edges⟩

/-- merge with the canonical schedule; the order is validated before it is used
(topological, starting at the root) -/
def Graph.mergeCanonical (g : Graph) (root : Nat) : Except Err Taskfile :=
  let g := g.normalize
  let σ := canonicalOrder g
  if isTopoB g σ && σ.head? == some root then g.merge σ canonicalEps else .error .internal

/-- `Executor.readTaskfile`: read, then merge -/
def load (fm : FileMap) (root : Nat) : Except Err Taskfile :=
  match readGraph fm root with
  | .ok g => g.mergeCanonical root
  | .error e => .error e

end TaskModel.Load
