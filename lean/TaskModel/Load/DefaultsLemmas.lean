import TaskModel.Load.GraphLemmas
/-!
Load.DefaultsLemmas — file-level defaults (`method`, `run`, `silent`, `set`, `shopt`) of an
included Taskfile: `Tasks.setDefaults` is idempotent, touches nothing but the five attribute
positions, and what a task ends up with is decided by the NEAREST file that declares the
default (its own file before the files that include it, the root last).
-/
namespace TaskModel.Load

/-- every attribute other than the five is untouched -/
theorem defaultAt_other (d : Defaults) (i a : Nat) (h0 : i ≠ posSilent) (h1 : i ≠ posMethod) (h2 : i ≠ posRun)
    (h3 : i ≠ posSet) (h4 : i ≠ posShopt) : defaultAt d i a = a := by
  unfold defaultAt
  split <;> first | rfl | (exfalso; simp_all)

theorem defaultAt_idem (d : Defaults) (i a : Nat) : defaultAt d i (defaultAt d i a) = defaultAt d i a := by
  by_cases h0 : i = posSilent
  · subst h0; simp only [defaultAt]; omega
  by_cases h1 : i = posMethod
  · subst h1; simp only [defaultAt]
    by_cases ha : a = 0
    · subst ha; simp only [if_true]; split <;> rfl
    · simp [ha]
  by_cases h2 : i = posRun
  · subst h2; simp only [defaultAt]
    by_cases ha : a = 0
    · subst ha; simp only [if_true]; split <;> rfl
    · simp [ha]
  by_cases h3 : i = posSet
  · subst h3; simp only [defaultAt, Nat.or_assoc, Nat.or_self]
  by_cases h4 : i = posShopt
  · subst h4; simp only [defaultAt, Nat.or_assoc, Nat.or_self]
  rw [defaultAt_other d i a h0 h1 h2 h3 h4, defaultAt_other d i a h0 h1 h2 h3 h4]

theorem applyDefaultsFrom_idem (d : Defaults) (i : Nat) (l : List Nat) :
    applyDefaultsFrom d i (applyDefaultsFrom d i l) = applyDefaultsFrom d i l := by
  induction l generalizing i with
  | nil => rfl
  | cons a r ih => simp only [applyDefaultsFrom, defaultAt_idem, ih]

/-- **`setDefaults` twice = once** (the implementation applies it in place every time the file
is merged — once per include statement naming it; the model applies it to a fresh copy) -/
theorem applyDefaults_idem (d : Defaults) (l : List Nat) : applyDefaults d (applyDefaults d l) = applyDefaults d l :=
  applyDefaultsFrom_idem d 0 l

theorem bake_idem (tf : Taskfile) : tf.bake.bake = tf.bake := by
  simp only [Taskfile.bake, List.map_map]
  congr 1
  apply List.map_congr_left
  intro t _
  simp [bakeTask, applyDefaults_idem]

theorem applyDefaultsFrom_length (d : Defaults) (i : Nat) (l : List Nat) : (applyDefaultsFrom d i l).length = l.length := by
  induction l generalizing i with
  | nil => rfl
  | cons a r ih => simp [applyDefaultsFrom, ih]

theorem applyDefaultsFrom_get (d : Defaults) (i : Nat) (l : List Nat) (k : Nat) :
    (applyDefaultsFrom d i l)[k]? = (l[k]?).map (defaultAt d (i + k)) := by
  induction l generalizing i k with
  | nil => simp [applyDefaultsFrom]
  | cons a r ih =>
    cases k with
    | zero => simp [applyDefaultsFrom]
    | succ k =>
      simp only [applyDefaultsFrom, List.getElem?_cons_succ, ih]
      congr 2; omega

/-- the attribute at position `k` after `setDefaults` -/
theorem applyDefaults_get (d : Defaults) (l : List Nat) (k : Nat) :
    (applyDefaults d l)[k]? = (l[k]?).map (defaultAt d k) := by
  simp [applyDefaults, applyDefaultsFrom_get]

/-- no declared default: nothing changes -/
theorem defaultAt_none (i a : Nat) : defaultAt {} i a = a := by
  by_cases h0 : i = posSilent
  · subst h0; simp [defaultAt]
  by_cases h1 : i = posMethod
  · subst h1; simp only [defaultAt]; split <;> simp_all
  by_cases h2 : i = posRun
  · subst h2; simp only [defaultAt]; split <;> simp_all
  by_cases h3 : i = posSet
  · subst h3; simp [defaultAt]
  by_cases h4 : i = posShopt
  · subst h4; simp [defaultAt]
  exact defaultAt_other _ i a h0 h1 h2 h3 h4

theorem applyDefaults_none (l : List Nat) : applyDefaults {} l = l := by
  have : ∀ i (l : List Nat), applyDefaultsFrom {} i l = l := by
    intro i l
    induction l generalizing i with
    | nil => rfl
    | cons a r ih => simp only [applyDefaultsFrom, ih, defaultAt_none]
  exact this 0 l

theorem bakeTask_name (d : Defaults) (t : Task) : (bakeTask d t).name = t.name := rfl
theorem bakeTask_cmds (d : Defaults) (t : Task) : (bakeTask d t).cmds = t.cmds := rfl
theorem bakeTask_deps (d : Defaults) (t : Task) : (bakeTask d t).deps = t.deps := rfl
theorem bakeTask_attrs (d : Defaults) (t : Task) : (bakeTask d t).attrs = applyDefaults d t.attrs := rfl

/-! ### What a task runs with: the executor's own lookups

`!t.Silent && !e.Taskfile.Silent`, `cmp.Or(t.Method, e.Taskfile.Method)`, `cmp.Or(t.Run,
e.Taskfile.Run)`, `UniqueJoin(e.Taskfile.Set, t.Set, …)` with `e.Taskfile` the ROOT Taskfile,
whose empty `method` / `run` `setupDefaults` replaces by `checksum` / `always`. -/

/-- `setupDefaults` -/
def finalDefaults (d : Defaults) : Defaults :=
  { d with method := if d.method = 0 then 1 else d.method, run := if d.run = 0 then 1 else d.run }

/-- effective value of attribute `i` of a task of the loaded table, `root` = the root file's defaults -/
def effectiveAt (root : Defaults) (i a : Nat) : Nat := defaultAt (finalDefaults root) i a

/-- (silent, method, run, set, shopt) a task executes with -/
def effective (root : Defaults) (attrs : List Nat) : List Nat :=
  [posSilent, posMethod, posRun, posSet, posShopt].map (fun i => effectiveAt root i (attrs.getD i 0))

/-- **as in its own file, where the file (or the task) says something**: for `method` and
`run`, if the task or its own file `c` declares the option, then the value it runs with after
being merged into a tree whose root has the defaults `root` is the value it runs with when
its own file is the root. -/
theorem effective_declared (root c : Defaults) (i a : Nat) (hi : i = posMethod ∨ i = posRun)
    (hdecl : a ≠ 0 ∨ (i = posMethod ∧ c.method ≠ 0) ∨ (i = posRun ∧ c.run ≠ 0)) :
    effectiveAt root i (defaultAt c i a) = effectiveAt c i a := by
  rcases hi with rfl | rfl
  · simp only [effectiveAt, defaultAt, finalDefaults]
    by_cases ha : a = 0
    · subst ha
      rcases hdecl with h | h | h
      · exact absurd rfl h
      · have := h.2; simp [this]
      · exact absurd h.1 (by decide)
    · simp [ha]
  · simp only [effectiveAt, defaultAt, finalDefaults]
    by_cases ha : a = 0
    · subst ha
      rcases hdecl with h | h | h
      · exact absurd rfl h
      · exact absurd h.1 (by decide)
      · have := h.2; simp [this]
    · simp [ha]

/-- `silent`: silent in its own file ⇒ silent wherever it is included -/
theorem effective_silent (root c : Defaults) (a : Nat) (h : effectiveAt c posSilent a ≠ 0) :
    effectiveAt root posSilent (defaultAt c posSilent a) ≠ 0 := by
  simp only [effectiveAt, defaultAt, finalDefaults] at *
  omega

/-- `set` / `shopt`: every shell option the task has in its own file it has wherever it is
included (the including files can only add options) -/
theorem effective_set (root c : Defaults) (a bit : Nat) (h : (effectiveAt c posSet a).testBit bit = true) :
    (effectiveAt root posSet (defaultAt c posSet a)).testBit bit = true := by
  simp only [effectiveAt, defaultAt, finalDefaults, Nat.testBit_or, Bool.or_eq_true] at *
  exact Or.inl h

theorem effective_shopt (root c : Defaults) (a bit : Nat) (h : (effectiveAt c posShopt a).testBit bit = true) :
    (effectiveAt root posShopt (defaultAt c posShopt a)).testBit bit = true := by
  simp only [effectiveAt, defaultAt, finalDefaults, Nat.testBit_or, Bool.or_eq_true] at *
  exact Or.inl h

end TaskModel.Load
