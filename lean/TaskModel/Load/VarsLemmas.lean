import TaskModel.Load.Lemmas
/-!
Ordered maps consulted by key: the lookup after a sequence of `Set`s / `Merge`s.
-/
namespace TaskModel.Load

/-- two maps that answer every lookup alike -/
def VEq (a b : Vars) : Prop := ∀ k, Vars.get k a = Vars.get k b

theorem VEq.refl (a : Vars) : VEq a a := fun _ => rfl
theorem VEq.symm {a b : Vars} (h : VEq a b) : VEq b a := fun k => (h k).symm
theorem VEq.trans {a b c : Vars} (h1 : VEq a b) (h2 : VEq b c) : VEq a c := fun k => (h1 k).trans (h2 k)

theorem VEq.set {a b : Vars} (h : VEq a b) (k : Nat) (v : Var) : VEq (Vars.set k v a) (Vars.set k v b) := by
  intro k'; rw [Vars.get_set, Vars.get_set, h k']

theorem set_comm (a : Vars) (k1 k2 : Nat) (v1 v2 : Var) (h : k1 ≠ k2) :
    VEq (Vars.set k1 v1 (Vars.set k2 v2 a)) (Vars.set k2 v2 (Vars.set k1 v1 a)) := by
  intro k
  simp only [Vars.get_set]
  by_cases h1 : k1 = k <;> by_cases h2 : k2 = k <;> simp [h1, h2]
  exact absurd (h1.trans h2.symm) h

/-- `Set` every pair of a list, in order (what a `range` over a Go map does, in an order
the runtime chooses) -/
def Vars.setAll (l : List (Nat × Var)) (m : Vars) : Vars := l.foldl (fun m p => Vars.set p.1 p.2 m) m

theorem setAll_congr (l : List (Nat × Var)) {a b : Vars} (h : VEq a b) : VEq (Vars.setAll l a) (Vars.setAll l b) := by
  induction l generalizing a b with
  | nil => exact h
  | cons p r ih => exact ih (h.set p.1 p.2)

/-- **permutation invariance of the benign map-range sites**: setting pairs with pairwise
distinct keys into a map gives, for every iteration order, a map with the same lookups. -/
theorem Vars.setAll_perm {l₁ l₂ : List (Nat × Var)} (hp : l₁.Perm l₂) (hk : (l₁.map (·.1)).Nodup) (m : Vars) :
    VEq (Vars.setAll l₁ m) (Vars.setAll l₂ m) := by
  induction hp generalizing m with
  | nil => exact VEq.refl _
  | cons x _ ih =>
    simp only [List.map_cons, List.nodup_cons] at hk
    exact ih hk.2 _
  | swap x y l =>
    simp only [List.map_cons, List.nodup_cons, List.mem_cons, not_or] at hk
    simp only [Vars.setAll, List.foldl_cons]
    exact setAll_congr l (set_comm m x.1 y.1 x.2 y.2 (fun e => hk.1.1 e.symm))
  | trans h1 _ ih1 ih2 =>
    exact (ih1 hk m).trans (ih2 ((h1.map _).nodup_iff.mp hk) m)

/-! ### `Vars.Merge` -/

def stampOf (stamp : Option Dir) (v : Var) : Var := match stamp with | some d => { v with dir := d } | none => v

theorem merge_cons (vs : Vars) (stamp : Option Dir) (k : Nat) (v : Var) (r : Vars) :
    Vars.merge vs stamp ((k, v) :: r) = Vars.merge (Vars.set k (stampOf stamp v) vs) stamp r := by
  cases stamp <;> simp [Vars.merge, stampOf]

/-- lookup after a merge: a key of `other` is answered from `other` alone, any other key
from the receiving map -/
theorem get_merge (vs : Vars) (stamp : Option Dir) (other : Vars) (k : Nat) :
    Vars.get k (Vars.merge vs stamp other) =
      if k ∈ other.keys then Vars.get k (Vars.merge [] stamp other) else Vars.get k vs := by
  induction other generalizing vs with
  | nil => simp [Vars.merge, Vars.keys]
  | cons p r ih =>
    obtain ⟨k0, v0⟩ := p
    rw [merge_cons, merge_cons, ih, ih (Vars.set k0 (stampOf stamp v0) [])]
    simp only [Vars.keys, List.map_cons, List.mem_cons, Vars.get_set]
    by_cases h1 : k ∈ r.map (·.1)
    · simp [h1]
    · by_cases h2 : k0 = k
      · subst h2; simp [h1]
      · have : ¬ k = k0 := fun e => h2 e.symm
        simp [h1, h2, this]

theorem merge_congr {a b : Vars} (h : VEq a b) (stamp : Option Dir) (other : Vars) :
    VEq (Vars.merge a stamp other) (Vars.merge b stamp other) := by
  intro k; rw [get_merge, get_merge b, h k]

/-- merging two maps with disjoint key sets commutes (as far as lookups go) -/
theorem merge_comm (a : Vars) (s1 s2 : Option Dir) (o1 o2 : Vars) (hd : ∀ k, k ∈ o1.keys → k ∉ o2.keys) :
    VEq (Vars.merge (Vars.merge a s1 o1) s2 o2) (Vars.merge (Vars.merge a s2 o2) s1 o1) := by
  intro k
  rw [get_merge, get_merge a, get_merge (Vars.merge a s2 o2), get_merge a]
  by_cases h1 : k ∈ o1.keys <;> by_cases h2 : k ∈ o2.keys <;> simp [h1, h2]
  exact absurd h2 (hd k h1)

end TaskModel.Load
