import TaskModel.Load.Reader
/-!
Load.RootRef — what property C08 demands of `:`-prefixed references: a dependency or
`task:` target written `:x` in any file of the tree (the root file included) denotes the
task `x` of the ROOT Taskfile, whatever the include path; every other reference denotes a
task of the file it is written in, under that file's full namespace path.

`specRefs` computes the demanded targets independently of the rule the loader applies to
`:`-references: `:x` is replaced by a sentinel-marked name before loading (so it is
carried through every level like any local name) and everything up to the sentinel is
dropped afterwards.  It is the monitor of the correspondence op `load.refs`; since F32
(`taskRefWithNamespace` + `ResolveRootRefs`) the loader's own answer coincides with it.
-/
namespace TaskModel.Load

def sentinel : Nat := 0

def protectName : Name → Name
  | [] => []
  | c :: r => if c = colon then sentinel :: r else c :: r

def protectTask (t : Task) : Task :=
  { t with deps := t.deps.map protectName, cmds := t.cmds.map (fun c => { c with task := protectName c.task }) }

/-- every file is concerned, the root file too -/
def protectFiles (fm : FileMap) : FileMap :=
  fm.map (fun f => (f.1, { f.2 with tasks := f.2.tasks.map protectTask }))

/-- the part after the last sentinel (the whole name if there is none) -/
def afterSentinel : Name → Name
  | [] => []
  | c :: r => if sentinel ∈ r then afterSentinel r else if c = sentinel then r else c :: r

/-- references of a merged task: dependencies, then `task:` targets -/
def Task.refs (t : Task) : List Name := t.deps ++ (t.cmds.map (·.task)).filter (· ≠ [])

/-- demanded reference targets of every merged task: (key, defining file, targets) -/
def specRefs (fm : FileMap) (root : Nat) : Except Err (List (Name × Nat × List Name)) :=
  match load (protectFiles fm) root with
  | .ok tf => .ok (tf.tasks.map (fun t => (t.name, t.loc, t.refs.map afterSentinel)))
  | .error e => .error e

end TaskModel.Load
