import TaskModel.Load.MergeInvariant
import TaskModel.Load.SortLemmas
/-!
Load.ReaderLemmas — what `Reader.Read` guarantees of every file it put into the graph.

Since the duplicate-key check of the decoder (`Taskfile.wellKeyed`, refused with a decode
error before anything else is looked at), every vertex of a graph the reader returned has
pairwise distinct task names: the hypothesis `Store.AllNodup` of the "no silent overwrite"
theorems is a consequence of reading, not an assumption about the files.
-/
namespace TaskModel.Load

theorem nodupNames_sound : ∀ (l : List Name), nodupNames l = true → l.Nodup
  | [], _ => List.nodup_nil
  | a :: r, h => by
    simp only [nodupNames, Bool.and_eq_true, Bool.not_eq_true', List.contains_eq_mem,
      decide_eq_false_iff_not] at h
    exact List.nodup_cons.mpr ⟨h.1, nodupNames_sound r h.2⟩

theorem nodupNames_complete : ∀ (l : List Name), l.Nodup → nodupNames l = true
  | [], _ => rfl
  | a :: r, h => by
    have h' := List.nodup_cons.mp h
    simp only [nodupNames, Bool.and_eq_true, Bool.not_eq_true', List.contains_eq_mem,
      decide_eq_false_iff_not]
    exact ⟨h'.1, nodupNames_complete r h'.2⟩

/-- every vertex of the graph is a file of the file map that passed the decoder's
duplicate-key check -/
def Graph.FromFiles (fm : FileMap) (g : Graph) : Prop :=
  ∀ p ∈ g.verts, p.2.wellKeyed = true ∧ Store.get p.1 fm = some p.2

/-- every file of the graph passed the decoder's duplicate-key check -/
def Graph.WellKeyed (g : Graph) : Prop := ∀ p ∈ g.verts, p.2.wellKeyed = true

theorem visitIncs_inv (fm : FileMap) (visit : Nat → Graph → Except Err Graph)
    (hv : ∀ c g g', g.FromFiles fm → visit c g = .ok g' → g'.FromFiles fm ∧ g.verts <+: g'.verts)
    (stack : List Nat) (parent : Nat) (ptf : Taskfile) (ds : List IncludeDecl) (g g' : Graph)
    (hg : g.FromFiles fm) (h : visitIncs fm visit stack parent ptf ds g = .ok g') :
    g'.FromFiles fm ∧ g.verts <+: g'.verts := by
  induction ds generalizing g with
  | nil => simp only [visitIncs] at h; cases h; exact ⟨hg, List.prefix_refl _⟩
  | cons d r ih =>
    simp only [visitIncs] at h
    split at h
    · split at h
      · exact ih g hg h
      · cases h
    · split at h
      · cases h
      · split at h
        · cases h
        · rename_i g1 hsub
          have hg1 : g1.FromFiles fm ∧ g.verts <+: g1.verts := by
            split at hsub
            · cases hsub; exact ⟨hg, List.prefix_refl _⟩
            · exact hv _ _ _ hg hsub
          obtain ⟨h1, h2⟩ := ih { g1 with edges := addEdge parent d.file (resolveInclude ptf d) g1.edges }
            (fun p hp => hg1.1 p hp) h
          exact ⟨h1, List.IsPrefix.trans hg1.2 h2⟩

theorem visit_inv (fm : FileMap) (fuel : Nat) (stack : List Nat) (f : Nat) (g g' : Graph)
    (hg : g.FromFiles fm) (h : visit fm fuel stack f g = .ok g') :
    (g'.FromFiles fm ∧ g.verts <+: g'.verts) ∧ ∃ tf, Store.get f fm = some tf ∧ g.verts ++ [(f, tf)] <+: g'.verts := by
  induction fuel generalizing stack f g g' with
  | zero => simp [visit] at h
  | succ n ih =>
    simp only [visit] at h
    split at h
    · cases h
    · rename_i tf hf
      split at h
      · cases h
      · rename_i hk
        split at h
        · cases h
        · have h0 : Graph.FromFiles fm { g with verts := g.verts ++ [(f, tf)] } := by
            intro p hp
            simp only [List.mem_append, List.mem_singleton] at hp
            rcases hp with hp | rfl
            · exact hg p hp
            · exact ⟨by simpa using hk, hf⟩
          obtain ⟨h1, h2⟩ := visitIncs_inv fm _ (fun c g1 g2 hg1 hc => (ih _ _ _ _ hg1 hc).1) _ _ _ _ _ _ h0 h
          exact ⟨⟨h1, List.IsPrefix.trans (List.prefix_append _ _) h2⟩, tf, hf, h2⟩

/-- **every file the reader accepted has pairwise distinct keys** (and is a file of the map) -/
theorem readGraph_fromFiles (fm : FileMap) (root : Nat) (g : Graph) (h : readGraph fm root = .ok g) :
    g.FromFiles fm :=
  (visit_inv fm _ [] root ⟨[], []⟩ g (fun _ hp => by cases hp) h).1.1

theorem readGraph_wellKeyed (fm : FileMap) (root : Nat) (g : Graph) (h : readGraph fm root = .ok g) :
    g.WellKeyed := fun p hp => (readGraph_fromFiles fm root g h p hp).1

/-- the root file is a vertex of the graph, and it is the root file of the map -/
theorem readGraph_root (fm : FileMap) (root : Nat) (g : Graph) (h : readGraph fm root = .ok g) :
    ∃ tf, Store.get root fm = some tf ∧ (root, tf) ∈ g.verts := by
  obtain ⟨_, tf, hf, hp⟩ := visit_inv fm _ [] root ⟨[], []⟩ g (fun _ hp => by cases hp) h
  exact ⟨tf, hf, hp.subset (by simp)⟩

theorem Store.get_mem : ∀ (st : Store) (v : Nat) (tf : Taskfile), st.get v = some tf → (v, tf) ∈ st
  | [], _, _, h => by simp [Store.get] at h
  | (k, x) :: r, v, tf, h => by
    simp only [Store.get] at h
    split at h
    · rename_i hk; cases h; subst hk; exact List.mem_cons_self
    · exact List.mem_cons_of_mem _ (Store.get_mem r v tf h)

theorem wellKeyed_tasks_nodup (tf : Taskfile) (h : tf.wellKeyed = true) : tf.tasks.names.Nodup := by
  simp only [Taskfile.wellKeyed, Bool.and_eq_true] at h
  exact nodupNames_sound _ h.1.1.1.1.1

/-- the hypothesis of `merge_nodup` holds of the canonical form of every graph the reader
returned -/
theorem readGraph_allNodup (fm : FileMap) (root : Nat) (g : Graph) (h : readGraph fm root = .ok g) :
    Store.AllNodup g.normalize.verts := by
  intro v tf hv
  have hm := Store.get_mem _ _ _ hv
  have hm' : (v, tf) ∈ g.verts := (sortBy_perm vertLe g.verts).mem_iff.mp hm
  exact wellKeyed_tasks_nodup tf (readGraph_wellKeyed fm root g h (v, tf) hm')

/-! ### the walk over the records reports the error of the sequential read -/

theorem ids_append (g : Graph) (f : Nat) (tf : Taskfile) :
    Graph.ids { g with verts := g.verts ++ [(f, tf)] } = g.ids ++ [f] := by simp [Graph.ids]

/-- outcome of a read as far as the walk is concerned: the files seen, or the error -/
def idsOf : Except Err Graph → Except Err (List Nat)
  | .ok g => .ok g.ids
  | .error e => .error e

theorem walkIncs_eq (fm : FileMap) (visit : Nat → Graph → Except Err Graph) (wk : Nat → List Nat → Except Err (List Nat))
    (hv : ∀ c g, wk c g.ids = idsOf (visit c g))
    (stack : List Nat) (parent : Nat) (ptf : Taskfile) (ds : List IncludeDecl) (g : Graph) :
    walkIncs fm wk stack parent ds g.ids = idsOf (visitIncs fm visit stack parent ptf ds g) := by
  induction ds generalizing g with
  | nil => simp [walkIncs, visitIncs, idsOf]
  | cons d r ih =>
    simp only [walkIncs, visitIncs]
    split
    · split
      · exact ih g
      · rfl
    · split
      · rfl
      · by_cases hc : g.ids.contains d.file = true
        · simp only [hc, if_true]
          exact ih { g with edges := addEdge parent d.file (resolveInclude ptf d) g.edges }
        · simp only [hc, Bool.false_eq_true, if_false]
          rw [hv d.file g]
          cases hvis : visit d.file g with
          | error e => simp [idsOf]
          | ok g' =>
            simp only [idsOf]
            exact ih { g' with edges := addEdge parent d.file (resolveInclude ptf d) g'.edges }

theorem walk_eq_visit (fm : FileMap) (fuel : Nat) (stack : List Nat) (f : Nat) (g : Graph) :
    walk fm fuel stack f g.ids = idsOf (visit fm fuel stack f g) := by
  induction fuel generalizing stack f g with
  | zero => simp [walk, visit, idsOf]
  | succ n ih =>
    simp only [walk, visit]
    split
    · rfl
    · rename_i tf _
      split
      · rfl
      · split
        · rfl
        · rw [← ids_append g f tf]
          exact walkIncs_eq fm _ _ (fun c g' => ih (f :: stack) c g') stack f tf tf.includes _

/-- **the error reported is the error of the sequential read, and there is one exactly when
the sequential read fails** — whatever the concurrent read did (the walk takes no schedule) -/
theorem firstError_eq (fm : FileMap) (root : Nat) :
    firstError fm root = (match readGraph fm root with | .ok _ => none | .error e => some e) := by
  have := walk_eq_visit fm (fm.length + 1) [] root ⟨[], []⟩
  simp only [Graph.ids, List.map_nil] at this
  simp only [firstError, readGraph, this]
  cases visit fm (fm.length + 1) [] root ⟨[], []⟩ <;> rfl

theorem Store.get_of_mem : ∀ (st : Store) (v : Nat) (tf : Taskfile), (v, tf) ∈ st → ∃ tf', st.get v = some tf'
  | [], _, _, h => by cases h
  | (k, x) :: r, v, tf, h => by
    simp only [Store.get]
    split
    · exact ⟨x, rfl⟩
    · rcases List.mem_cons.mp h with h | h
      · cases h; rename_i hk; exact absurd rfl hk
      · exact Store.get_of_mem r v tf h

/-- in the canonical form of the graph the reader returned, the root vertex holds the root
file of the file map -/
theorem readGraph_root_normalized (fm : FileMap) (root : Nat) (g : Graph) (h : readGraph fm root = .ok g) :
    ∃ tf, Store.get root fm = some tf ∧ g.normalize.verts.get root = some tf := by
  obtain ⟨tf, hf, hm⟩ := readGraph_root fm root g h
  have hm' : (root, tf) ∈ g.normalize.verts := (sortBy_perm vertLe g.verts).mem_iff.mpr hm
  obtain ⟨tf', hg⟩ := Store.get_of_mem _ _ _ hm'
  have hm2 : (root, tf') ∈ g.verts := (sortBy_perm vertLe g.verts).mem_iff.mp (Store.get_mem _ _ _ hg)
  have := (readGraph_fromFiles fm root g h _ hm2).2
  simp only at this
  rw [hf] at this; cases this
  exact ⟨tf, hf, hg⟩

/-- a file with a key used twice is refused with the decode error as soon as it is read,
whatever else is wrong with it or with the files it includes -/
theorem visit_duplicate_key (fm : FileMap) (fuel : Nat) (stack : List Nat) (f : Nat) (g : Graph) (tf : Taskfile)
    (hf : Store.get f fm = some tf) (hd : tf.wellKeyed = false) :
    visit fm (fuel + 1) stack f g = .error .decode := by
  simp [visit, hf, hd]

end TaskModel.Load
