import TaskModel.Load.Tasks
import TaskModel.Gen.Load
/-!
Load.Taskfile — `ast.Taskfile` and `Taskfile.Merge` (taskfile/ast/taskfile.go).
-/
namespace TaskModel.Load

/-- an `includes:` entry as written in a file: the target is a file id, `dir` is still
relative to the including file's directory (`none` = no `dir:` key). -/
structure IncludeDecl where
  ns : Name
  file : Nat
  dir : List Nat
  optional : Bool
  internal : Bool
  flatten : Bool
  advanced : Bool
  aliases : List Name
  excludes : List Name
  vars : Vars
deriving Repr, DecidableEq

structure Taskfile where
  version : Nat          -- schema version (0 = the key is absent)
  dotenv : Bool          -- `dotenv:` is non-empty
  fdir : List Nat        -- directory of the file, relative to the root of the tree
  vars : Vars
  env : Vars
  tasks : Table
  includes : List IncludeDecl
deriving Repr, DecidableEq

/-- which variable map `Taskfile.Merge` hands to `Tasks.Merge` as
`includedTaskfileVars`: read from the source by the extractor
(`t1.Tasks.Merge(t2.Tasks, include, <arg>)`). -/
def itvOf (t1merged t2 : Taskfile) : Vars :=
  if TaskModel.Gen.Load.mergePassesIncludedVars then t2.vars else t1merged.vars

/-- the `Dir` that `Vars.Merge` stamps on merged variables: the include's directory for an
advanced import, nothing otherwise -/
def stampFor (inc : Include) : Option Dir := if inc.advanced then some inc.dir else none

/-- `t1.Merge(t2, include)` -/
def mergeTaskfile (t1 t2 : Taskfile) (inc : Include) : Except Err Taskfile :=
  if t1.version ≠ t2.version then .error .version
  else if t2.dotenv then .error .dotenv
  else
    let t1' : Taskfile := { t1 with vars := Vars.merge t1.vars (stampFor inc) t2.vars, env := Vars.merge t1.env (stampFor inc) t2.env }
    match mergeTasks t1'.tasks t2.tasks inc (itvOf t1' t2) with
    | .ok tb => .ok { t1' with tasks := tb }
    | .error e => .error e

end TaskModel.Load
