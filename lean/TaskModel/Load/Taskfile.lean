import TaskModel.Load.Tasks
import TaskModel.Gen.Load
/-!
Load.Taskfile — `ast.Taskfile` and `Taskfile.Merge` (taskfile/ast/taskfile.go).
-/
namespace TaskModel.Load

/-- an `includes:` entry as written in a file: the target is a file id, `dir` is still
relative to the including file's directory (`none` = no `dir:` key). -/
structure IncludeDecl where
  ns : Name
  file : Nat
  dir : List Nat
  optional : Bool
  internal : Bool
  flatten : Bool
  advanced : Bool
  aliases : List Name
  excludes : List Name
  vars : Vars
deriving Repr, DecidableEq

/-- the file-level keys that are DEFAULTS FOR THE TASKS of the file ("Default method in this
Taskfile", "Default 'silent' options for this Taskfile", …): `silent` 0/1, `method`
(0 = not declared, 1 checksum, 2 timestamp, 3 none), `run` (0 = not declared, 1 always,
2 once, 3 when_changed), `set` / `shopt` as bit sets over the option pools of the generator
(`slicesext.UniqueJoin` sorts and removes duplicates: a set). -/
structure Defaults where
  silent : Nat := 0
  method : Nat := 0
  run : Nat := 0
  set : Nat := 0
  shopt : Nat := 0
deriving Repr, DecidableEq

structure Taskfile where
  version : Nat          -- schema version (0 = the key is absent)
  dotenv : Bool          -- `dotenv:` is non-empty
  fdir : List Nat        -- directory of the file, relative to the root of the tree
  vars : Vars
  env : Vars
  tasks : Table
  includes : List IncludeDecl
  defaults : Defaults := {}
  output : Nat := 0      -- `output:` style (0 = not set, 1 interleaved, 2 group, 3 prefixed)
deriving Repr, DecidableEq

/-! ### File-level defaults go with the tasks (`Tasks.setDefaults`)

Positions in the attribute record of a task (`Task.attrs`, harness `attrNames`): -/

abbrev posSilent : Nat := 0
abbrev posMethod : Nat := 4
abbrev posRun : Nat := 5
abbrev posSet : Nat := 15
abbrev posShopt : Nat := 16

/-- one attribute under the defaults `d`: `silent` is or-ed, `method` / `run` are taken when
the task declares none, `set` / `shopt` are united; every other attribute is untouched -/
def defaultAt (d : Defaults) (i a : Nat) : Nat :=
  match i with
  | 0 => max a d.silent
  | 4 => if a = 0 then d.method else a
  | 5 => if a = 0 then d.run else a
  | 15 => a ||| d.set
  | 16 => a ||| d.shopt
  | _ => a

def applyDefaultsFrom (d : Defaults) : Nat → List Nat → List Nat
  | _, [] => []
  | i, a :: r => defaultAt d i a :: applyDefaultsFrom d (i + 1) r

/-- `Tasks.setDefaults` on one task's attributes -/
def applyDefaults (d : Defaults) (attrs : List Nat) : List Nat := applyDefaultsFrom d 0 attrs

def bakeTask (d : Defaults) (t : Task) : Task := { t with attrs := applyDefaults d t.attrs }

/-- `t2.Tasks.setDefaults(t2.Method, t2.Run, t2.Silent, t2.Set, t2.Shopt)`: the first thing
`Taskfile.Merge` does to the tasks of the included file (in place; doing it again changes
nothing: `bake_idem`) -/
def Taskfile.bake (tf : Taskfile) : Taskfile := { tf with tasks := tf.tasks.map (bakeTask tf.defaults) }

/-- which variable map `Taskfile.Merge` hands to `Tasks.Merge` as
`includedTaskfileVars`: read from the source by the extractor
(`t1.Tasks.Merge(t2.Tasks, include, <arg>)`). -/
def itvOf (t1merged t2 : Taskfile) : Vars :=
  if TaskModel.Gen.Load.mergePassesIncludedVars then t2.vars else t1merged.vars

/-- the `Dir` that `Vars.Merge` stamps on merged variables: the include's directory for an
advanced import, nothing otherwise -/
def stampFor (inc : Include) : Option Dir := if inc.advanced then some inc.dir else none

/-- `t1.Merge(t2, include)` once `setDefaults` has been applied to `t2` (`Graph.mergeIncs`
hands it `t2.bake`).  The output style of the included file is taken only when the including
file sets none (it is a setting of the whole run, not a default for tasks). -/
def mergeTaskfile (t1 t2 : Taskfile) (inc : Include) : Except Err Taskfile :=
  if t1.version ≠ t2.version then .error .version
  else if t2.dotenv then .error .dotenv
  else
    let t1' : Taskfile := { t1 with vars := Vars.merge t1.vars (stampFor inc) t2.vars, env := Vars.merge t1.env (stampFor inc) t2.env,
                                    output := if t1.output = 0 then t2.output else t1.output }
    match mergeTasks t1'.tasks t2.tasks inc (itvOf t1' t2) with
    | .ok tb => .ok { t1' with tasks := tb }
    | .error e => .error e

end TaskModel.Load
