import TaskModel.Load.GraphLemmas
import TaskModel.Load.VarsLemmas
/-!
Sibling includes of one parent merged in an arbitrary order (`mergeAll p cs` merges the
children `cs` into `p` one after the other — what `TaskfileGraph.Merge` does for a parent
whose children are leaves, in the order given by the topological sort and the edge data).
Under pairwise disjoint variable / environment names the result does not depend on the
order, up to the order of the task table.
-/
namespace TaskModel.Load

def mergeAll : Taskfile → List (Taskfile × Include) → Except Err Taskfile
  | p, [] => .ok p
  | p, (c, i) :: r =>
    match mergeTaskfile p c i with
    | .ok p' => mergeAll p' r
    | .error e => .error e

/-- what is compared of a task: everything except the alias list (the default-task
shortcut depends on what was merged before) and the `IncludedTaskfileVars` snapshot -/
def Task.key (t : Task) : Task := { t with aliases := [], incTfVars := [] }

/-- same Taskfile up to: order of the task table, position of the variables inside the
ordered maps, and the two history-dependent task fields dropped by `Task.key` -/
structure TfEquiv (a b : Taskfile) : Prop where
  version : a.version = b.version
  dotenv : a.dotenv = b.dotenv
  fdir : a.fdir = b.fdir
  includes : a.includes = b.includes
  vars : VEq a.vars b.vars
  env : VEq a.env b.env
  tasks : (a.tasks.map Task.key).Perm (b.tasks.map Task.key)

theorem TfEquiv.refl (a : Taskfile) : TfEquiv a a :=
  ⟨rfl, rfl, rfl, rfl, VEq.refl _, VEq.refl _, List.Perm.refl _⟩

theorem TfEquiv.trans {a b c : Taskfile} (h1 : TfEquiv a b) (h2 : TfEquiv b c) : TfEquiv a c :=
  ⟨h1.version.trans h2.version, h1.dotenv.trans h2.dotenv, h1.fdir.trans h2.fdir, h1.includes.trans h2.includes,
   h1.vars.trans h2.vars, h1.env.trans h2.env, h1.tasks.trans h2.tasks⟩

/-- names the loop of `Tasks.Merge` will insert -/
def newNames (inc : Include) (t2 : Table) : List Name :=
  (t2.filter (fun t => decide (t.name ∉ inc.excludes))).map (fun t => renName inc t.name)

theorem newTasks_names (inc : Include) (itv : Vars) (t2 : Table) : (newTasks inc itv t2).names = newNames inc t2 := by
  simp [newTasks, newNames, Table.names, List.map_map, Function.comp_def, mergeOne_name]

theorem names_append (a b : Table) : (a ++ b).names = a.names ++ b.names := by simp [Table.names]

theorem mergeLoop_ok_iff (inc : Include) (itv : Vars) (t2 acc : Table) :
    (∃ r, mergeLoop inc itv t2 acc = .ok r) ↔
      (∀ n ∈ newNames inc t2, n ∉ acc.names) ∧ (newNames inc t2).Nodup := by
  induction t2 generalizing acc with
  | nil => simp [mergeLoop, newNames]
  | cons t rest ih =>
    simp only [mergeLoop]
    by_cases hx : t.name ∈ inc.excludes
    · simp only [hx, if_true]
      rw [ih]
      simp [newNames, hx]
    · simp only [hx, if_false]
      have hnn : newNames inc (t :: rest) = renName inc t.name :: newNames inc rest := by simp [newNames, hx]
      rw [hnn]
      by_cases hh : acc.has (mergeOne inc itv t).name = true
      · simp only [hh, if_true]
        constructor
        · rintro ⟨r, hr⟩; cases hr
        · rintro ⟨h1, _⟩
          have := (Table.has_iff _ _).mp hh
          rw [mergeOne_name] at this
          exact absurd this (h1 _ List.mem_cons_self)
      · have hh' : acc.has (mergeOne inc itv t).name = false := by simpa using hh
        simp only [hh', Bool.false_eq_true, if_false]
        rw [ih]
        have hn0 : renName inc t.name ∉ acc.names := by
          rw [← mergeOne_name inc itv t, ← Table.has_iff]; exact hh
        have hnames : (acc ++ [mergeOne inc itv t]).names = acc.names ++ [renName inc t.name] := by
          simp [Table.names, mergeOne_name]
        rw [hnames]
        constructor
        · rintro ⟨h1, h2⟩
          refine ⟨?_, ?_⟩
          · intro n hn
            simp only [List.mem_cons] at hn
            rcases hn with rfl | hn
            · exact hn0
            · exact fun hm => h1 n hn (List.mem_append_left _ hm)
          · exact List.nodup_cons.mpr ⟨fun hm => h1 _ hm (List.mem_append_right _ (by simp)), h2⟩
        · rintro ⟨h1, h2⟩
          have h2' := List.nodup_cons.mp h2
          refine ⟨?_, h2'.2⟩
          intro n hn hm
          simp only [List.mem_append, List.mem_singleton] at hm
          rcases hm with hm | rfl
          · exact h1 n (List.mem_cons_of_mem _ hn) hm
          · exact h2'.1 hn

theorem mergeTasks_ok_iff (t1 t2 : Table) (inc : Include) (itv : Vars) :
    (∃ r, mergeTasks t1 t2 inc itv = .ok r) ↔
      (∀ n ∈ newNames inc t2, n ∉ t1.names) ∧ (newNames inc t2).Nodup := by
  rw [← mergeLoop_ok_iff inc itv t2 t1]
  simp only [mergeTasks]
  constructor
  · rintro ⟨r, hr⟩
    split at hr
    · rename_i m hm; exact ⟨m, hm⟩
    · cases hr
  · rintro ⟨m, hm⟩
    exact ⟨_, by rw [hm]⟩

/-- the result of a successful `Taskfile.Merge` -/
def mergedTf (t1 t2 : Taskfile) (inc : Include) : Taskfile :=
  let t1' : Taskfile := { t1 with vars := Vars.merge t1.vars (stampFor inc) t2.vars, env := Vars.merge t1.env (stampFor inc) t2.env,
                                  output := if t1.output = 0 then t2.output else t1.output }
  { t1' with tasks := defaultAlias inc t2.tasks (t1.tasks ++ newTasks inc (itvOf t1' t2) t2.tasks) }

/-- when `Taskfile.Merge` succeeds -/
def mergeable (t1 t2 : Taskfile) (inc : Include) : Prop :=
  t1.version = t2.version ∧ t2.dotenv = false ∧
    (∀ n ∈ newNames inc t2.tasks, n ∉ t1.tasks.names) ∧ (newNames inc t2.tasks).Nodup

/-- complete description of `Taskfile.Merge` -/
theorem mergeTaskfile_iff (t1 t2 q : Taskfile) (inc : Include) :
    mergeTaskfile t1 t2 inc = .ok q ↔ mergeable t1 t2 inc ∧ q = mergedTf t1 t2 inc := by
  unfold mergeTaskfile mergeable
  split
  · rename_i hv
    constructor
    · intro h; cases h
    · rintro ⟨⟨h1, _⟩, _⟩; exact absurd h1 hv
  · rename_i hv
    have hv' : t1.version = t2.version := Decidable.not_not.mp hv
    split
    · rename_i hd
      constructor
      · intro h; cases h
      · rintro ⟨⟨_, h2, _⟩, _⟩; rw [hd] at h2; cases h2
    · rename_i hd
      have hd' : t2.dotenv = false := by simpa using hd
      constructor
      · intro h
        dsimp only at h
        split at h
        · rename_i tb hm
          cases h
          refine ⟨⟨hv', hd', (mergeTasks_ok_iff _ _ _ _).mp ⟨tb, hm⟩⟩, ?_⟩
          rw [mergeTasks_ok _ _ _ _ _ hm]
          rfl
        · cases h
      · rintro ⟨⟨_, _, hok⟩, rfl⟩
        obtain ⟨tb, hm⟩ := (mergeTasks_ok_iff t1.tasks t2.tasks inc
          (itvOf { t1 with vars := Vars.merge t1.vars (stampFor inc) t2.vars,
                           env := Vars.merge t1.env (stampFor inc) t2.env,
                           output := if t1.output = 0 then t2.output else t1.output } t2)).mpr hok
        have htb := mergeTasks_ok _ _ _ _ _ hm
        dsimp only
        simp only [hm]
        rw [htb]
        rfl

/-! ### congruence and commutation of `Taskfile.Merge` -/

theorem key_mergeOne (inc : Include) (itv itv' : Vars) (t : Task) :
    (mergeOne inc itv t).key = (mergeOne inc itv' t).key := by
  simp only [mergeOne, Task.key]; split <;> split <;> rfl

theorem key_newTasks (inc : Include) (itv itv' : Vars) (t2 : Table) :
    (newTasks inc itv t2).map Task.key = (newTasks inc itv' t2).map Task.key := by
  simp only [newTasks, List.map_map]
  apply List.map_congr_left
  intro t _
  exact key_mergeOne inc itv itv' t

theorem key_addAliases (n : Name) (extra : List Name) (tb : Table) :
    (addAliases n extra tb).map Task.key = tb.map Task.key := by
  induction tb with
  | nil => simp [addAliases]
  | cons t r ih =>
    simp only [addAliases]
    split
    · simp [Task.key]
    · simp [ih]

theorem key_defaultAlias (inc : Include) (t2 m : Table) : (defaultAlias inc t2 m).map Task.key = m.map Task.key := by
  simp only [defaultAlias]; split
  · exact key_addAliases _ _ _
  · rfl

theorem names_of_keys (tb : Table) : (tb.map Task.key).map (·.name) = tb.names := by
  simp [Table.names, List.map_map, Function.comp_def, Task.key]

theorem names_perm_of_keys {a b : Table} (h : (a.map Task.key).Perm (b.map Task.key)) : a.names.Perm b.names := by
  have := h.map (·.name)
  rwa [names_of_keys, names_of_keys] at this

theorem mergedTf_names (p c : Taskfile) (i : Include) :
    (mergedTf p c i).tasks.names = p.tasks.names ++ newNames i c.tasks := by
  simp only [mergedTf, defaultAlias_names, names_append, newTasks_names]

theorem mergedTf_keys (p c : Taskfile) (i : Include) (itv : Vars) :
    (mergedTf p c i).tasks.map Task.key = p.tasks.map Task.key ++ (newTasks i itv c.tasks).map Task.key := by
  simp only [mergedTf, key_defaultAlias, List.map_append]
  rw [key_newTasks i _ itv]

theorem mergeTaskfile_congr {p p' c q : Taskfile} {i : Include} (he : TfEquiv p p')
    (h : mergeTaskfile p c i = .ok q) : ∃ q', mergeTaskfile p' c i = .ok q' ∧ TfEquiv q q' := by
  obtain ⟨⟨hv, hd, hn, hnd⟩, rfl⟩ := (mergeTaskfile_iff _ _ _ _).mp h
  refine ⟨mergedTf p' c i, (mergeTaskfile_iff _ _ _ _).mpr ⟨⟨he.version ▸ hv, hd, ?_, hnd⟩, rfl⟩, ?_⟩
  · intro n hn' hm
    exact hn n hn' ((names_perm_of_keys he.tasks).symm.subset hm)
  · refine ⟨he.version, he.dotenv, he.fdir, he.includes, ?_, ?_, ?_⟩
    · exact merge_congr he.vars _ _
    · exact merge_congr he.env _ _
    · rw [mergedTf_keys p c i [], mergedTf_keys p' c i []]
      exact List.Perm.append_right _ he.tasks

/-- two children of the same parent: disjoint variable and environment names -/
def Disj (a b : Taskfile × Include) : Prop :=
  (∀ k, k ∈ a.1.vars.keys → k ∉ b.1.vars.keys) ∧ (∀ k, k ∈ a.1.env.keys → k ∉ b.1.env.keys)

theorem Disj.symm {a b : Taskfile × Include} (h : Disj a b) : Disj b a :=
  ⟨fun k hb ha => h.1 k ha hb, fun k hb ha => h.2 k ha hb⟩

theorem mergeTaskfile_swap {p c1 c2 q1 q2 : Taskfile} {i1 i2 : Include} (hd : Disj (c1, i1) (c2, i2))
    (h1 : mergeTaskfile p c1 i1 = .ok q1) (h2 : mergeTaskfile q1 c2 i2 = .ok q2) :
    ∃ q1' q2', mergeTaskfile p c2 i2 = .ok q1' ∧ mergeTaskfile q1' c1 i1 = .ok q2' ∧ TfEquiv q2 q2' := by
  obtain ⟨⟨hv1, hd1, hn1, hnd1⟩, rfl⟩ := (mergeTaskfile_iff _ _ _ _).mp h1
  obtain ⟨⟨hv2, hd2, hn2, hnd2⟩, rfl⟩ := (mergeTaskfile_iff _ _ _ _).mp h2
  rw [mergedTf_names] at hn2
  have hv2' : p.version = c2.version := hv2
  refine ⟨mergedTf p c2 i2, mergedTf (mergedTf p c2 i2) c1 i1, ?_, ?_, ?_⟩
  · refine (mergeTaskfile_iff _ _ _ _).mpr ⟨⟨hv2', hd2, ?_, hnd2⟩, rfl⟩
    intro n hn hm
    exact hn2 n hn (List.mem_append_left _ hm)
  · refine (mergeTaskfile_iff _ _ _ _).mpr ⟨⟨hv1, hd1, ?_, hnd1⟩, rfl⟩
    rw [mergedTf_names]
    intro n hn hm
    simp only [List.mem_append] at hm
    rcases hm with hm | hm
    · exact hn1 n hn hm
    · exact hn2 n hm (List.mem_append_right _ hn)
  · refine ⟨rfl, rfl, rfl, rfl, ?_, ?_, ?_⟩
    · exact merge_comm p.vars (stampFor i1) (stampFor i2) c1.vars c2.vars hd.1
    · exact merge_comm p.env (stampFor i1) (stampFor i2) c1.env c2.env hd.2
    · rw [mergedTf_keys _ c2 i2 [], mergedTf_keys p c1 i1 [], mergedTf_keys _ c1 i1 [], mergedTf_keys p c2 i2 []]
      rw [List.append_assoc, List.append_assoc]
      exact List.Perm.append_left _ List.perm_append_comm

theorem mergeAll_cons_ok {p r : Taskfile} {c : Taskfile} {i : Include} {l : List (Taskfile × Include)}
    (h : mergeAll p ((c, i) :: l) = .ok r) : ∃ q, mergeTaskfile p c i = .ok q ∧ mergeAll q l = .ok r := by
  simp only [mergeAll] at h
  split at h
  · rename_i q hq; exact ⟨q, hq, h⟩
  · cases h

theorem mergeAll_cons_of {p q r : Taskfile} {c : Taskfile} {i : Include} {l : List (Taskfile × Include)}
    (h1 : mergeTaskfile p c i = .ok q) (h2 : mergeAll q l = .ok r) : mergeAll p ((c, i) :: l) = .ok r := by
  simp only [mergeAll, h1, h2]

theorem mergeAll_congr (l : List (Taskfile × Include)) (p p' r : Taskfile) (he : TfEquiv p p')
    (h : mergeAll p l = .ok r) : ∃ r', mergeAll p' l = .ok r' ∧ TfEquiv r r' := by
  induction l generalizing p p' with
  | nil => simp only [mergeAll] at h; cases h; exact ⟨p', rfl, he⟩
  | cons x l ih =>
    obtain ⟨c, i⟩ := x
    obtain ⟨q, hq, hr⟩ := mergeAll_cons_ok h
    obtain ⟨q', hq', heq⟩ := mergeTaskfile_congr he hq
    obtain ⟨r', hr', her⟩ := ih q q' heq hr
    exact ⟨r', mergeAll_cons_of hq' hr', her⟩

/-- merging sibling includes with pairwise disjoint variable / environment names in any
order: if one order succeeds, every order succeeds, with an equivalent result -/
theorem mergeAll_perm {l₁ l₂ : List (Taskfile × Include)} (hp : l₁.Perm l₂) (hd : l₁.Pairwise Disj)
    (p p' r : Taskfile) (he : TfEquiv p p') (h : mergeAll p l₁ = .ok r) :
    ∃ r', mergeAll p' l₂ = .ok r' ∧ TfEquiv r r' := by
  induction hp generalizing p p' r with
  | nil => exact mergeAll_congr [] p p' r he h
  | cons x _ ih =>
    obtain ⟨c, i⟩ := x
    obtain ⟨q, hq, hr⟩ := mergeAll_cons_ok h
    obtain ⟨q', hq', heq⟩ := mergeTaskfile_congr he hq
    obtain ⟨r', hr', her⟩ := ih (List.pairwise_cons.mp hd).2 q q' r heq hr
    exact ⟨r', mergeAll_cons_of hq' hr', her⟩
  | swap x y l =>
    obtain ⟨cx, ix⟩ := x
    obtain ⟨cy, iy⟩ := y
    obtain ⟨q1, hq1, h'⟩ := mergeAll_cons_ok h
    obtain ⟨q2, hq2, hr⟩ := mergeAll_cons_ok h'
    have hdyx : Disj (cy, iy) (cx, ix) := (List.pairwise_cons.mp hd).1 _ List.mem_cons_self
    obtain ⟨q1', hq1', he1⟩ := mergeTaskfile_congr he hq1
    obtain ⟨q2', hq2', he2⟩ := mergeTaskfile_congr he1 hq2
    obtain ⟨s1, s2, hs1, hs2, hes⟩ := mergeTaskfile_swap hdyx hq1' hq2'
    obtain ⟨r', hr', her⟩ := mergeAll_congr l q2 s2 r (he2.trans hes) hr
    exact ⟨r', mergeAll_cons_of hs1 (mergeAll_cons_of hs2 hr'), her⟩
  | trans h1 _ ih1 ih2 =>
    obtain ⟨r₂, hr₂, he₂⟩ := ih1 hd p p r (TfEquiv.refl p) h
    have hd₂ := (h1.pairwise_iff (fun {a b} (h : Disj a b) => h.symm)).mp hd
    obtain ⟨r₃, hr₃, he₃⟩ := ih2 hd₂ p p' r₂ he hr₂
    exact ⟨r₃, hr₃, he₂.trans he₃⟩

end TaskModel.Load
