import TaskModel.Load.GraphLemmas
/-!
The invariant of `TaskfileGraph.Merge` for an arbitrary topological order: every task
reachable along an include path arrives in the root table under its full namespace
path with its commands and dependencies renamed level by level.
-/
namespace TaskModel.Load

theorem nodupB_sound (l : List Nat) (h : nodupB l = true) : l.Nodup := by
  induction l with
  | nil => exact List.nodup_nil
  | cons a r ih =>
    simp only [nodupB, Bool.and_eq_true, Bool.not_eq_true', List.contains_eq_mem, decide_eq_false_iff_not] at h
    exact List.nodup_cons.mpr ⟨h.1, ih h.2⟩

theorem noBackEdge_sound (g : Graph) (l : List Nat) (h : noBackEdge g l = true) :
    l.Pairwise (fun a b => ∀ e ∈ g.edges, ¬ (e.src = b ∧ e.dst = a)) := by
  induction l with
  | nil => exact List.Pairwise.nil
  | cons a r ih =>
    simp only [noBackEdge, Bool.and_eq_true] at h
    refine List.Pairwise.cons ?_ (ih h.2)
    intro b hb e he hh
    have := List.all_eq_true.mp (List.all_eq_true.mp h.1 b hb) e he
    simp [hh.1, hh.2] at this

theorem isTopoB_sound (g : Graph) (σ : List Nat) (h : isTopoB g σ = true) : IsTopo g σ := by
  simp only [isTopoB, Bool.and_eq_true] at h
  obtain ⟨⟨⟨⟨h1, _⟩, _⟩, h4⟩, h5⟩ := h
  refine ⟨nodupB_sound σ h1, ?_, noBackEdge_sound g σ h5⟩
  intro e he
  have := List.all_eq_true.mp h4 e he
  simp only [Bool.and_eq_true, List.contains_eq_mem, decide_eq_true_eq, bne_iff_ne, ne_eq] at this
  exact ⟨this.1.1, this.1.2, this.2⟩

theorem mergeOrder_split (g : Graph) (ε : Edge → List Include) (pre post : List Nat) (v : Nat) (st stF : Store)
    (h : mergeOrder g ε (pre ++ v :: post) st = .ok stF) :
    ∃ st1 st2, mergeOrder g ε pre st = .ok st1 ∧ mergeEdges ε (g.preds v) st1 = .ok st2 ∧
      mergeOrder g ε post st2 = .ok stF := by
  induction pre generalizing st with
  | nil =>
    simp only [List.nil_append, mergeOrder] at h
    split at h
    · rename_i st2 h2
      exact ⟨st, st2, rfl, h2, h⟩
    · cases h
  | cons a r ih =>
    simp only [List.cons_append, mergeOrder] at h
    split at h
    · rename_i sta ha
      obtain ⟨st1, st2, h1, h2, h3⟩ := ih sta h
      exact ⟨st1, st2, by simp [mergeOrder, ha, h1], h2, h3⟩
    · cases h

theorem preds_spec (g : Graph) (v : Nat) (e : Edge) : e ∈ g.preds v ↔ e ∈ g.edges ∧ e.dst = v := by
  simp [Graph.preds, List.mem_filter]

/-- a whole run loses nothing and touches only parents of the processed vertices -/
theorem mergeOrder_spec (g : Graph) (ε : Edge → List Include) (hloop : ∀ e ∈ g.edges, e.src ≠ e.dst)
    (order : List Nat) (st st' : Store) (h : mergeOrder g ε order st = .ok st') :
    Store.Mono st st' ∧ (∀ w, (∀ v ∈ order, ∀ e ∈ g.edges, e.dst = v → e.src ≠ w) → st'.get w = st.get w) := by
  induction order generalizing st with
  | nil => simp only [mergeOrder] at h; cases h; exact ⟨Store.Mono.refl _, fun _ _ => rfl⟩
  | cons v r ih =>
    simp only [mergeOrder] at h
    split at h
    · rename_i st1 h1
      have hes : ∀ e ∈ g.preds v, e.dst = v ∧ e.src ≠ v := by
        intro e he
        obtain ⟨he1, he2⟩ := (preds_spec g v e).mp he
        exact ⟨he2, by rw [← he2]; exact hloop e he1⟩
      obtain ⟨m1, f1, _⟩ := mergeEdges_spec ε v (g.preds v) st st1 hes h1
      obtain ⟨m2, f2⟩ := ih st1 h
      refine ⟨m1.trans m2, ?_⟩
      intro w hw
      rw [f2 w (fun v' hv' => hw v' (List.mem_cons_of_mem _ hv'))]
      apply f1
      intro e he
      obtain ⟨he1, he2⟩ := (preds_spec g v e).mp he
      exact hw v List.mem_cons_self e he1 he2
    · cases h

/-- **callable tree**: the definitions reachable from vertex `v` along include paths, with
the name, commands and dependencies they must have in `v`'s merged table. -/
inductive Reach (g : Graph) (ε : Edge → List Include) : Nat → Name → List Cmd → List Name → Prop
  | own (v : Nat) (tf : Taskfile) (t : Task) : g.verts.get v = some tf → t ∈ tf.tasks →
      Reach g ε v t.name t.cmds t.deps
  | inc (e : Edge) (i : Include) (n : Name) (c : List Cmd) (d : List Name) : e ∈ g.edges → i ∈ ε e →
      Reach g ε e.dst n c d → n ∉ i.excludes →
      Reach g ε e.src (renName i n) (renCmds i c) (renRefs i d)

/-- conditions on the processing order `order` (children first) used by the invariant -/
structure ChildrenFirst (g : Graph) (order : List Nat) : Prop where
  noloop : ∀ e ∈ g.edges, e.src ≠ e.dst
  dsts : ∀ e ∈ g.edges, e.dst ∈ order
  later : order.Pairwise (fun a b => ∀ e ∈ g.edges, ¬ (e.src = a ∧ e.dst = b))

theorem mergeOrder_reach (g : Graph) (ε : Edge → List Include) (order : List Nat) (hc : ChildrenFirst g order)
    (stF : Store) (h : mergeOrder g ε order g.verts = .ok stF)
    (v : Nat) (n : Name) (c : List Cmd) (d : List Name) (hr : Reach g ε v n c d) :
    ∃ tf, stF.get v = some tf ∧ HasDef tf n c d := by
  induction hr with
  | own v tf t hv ht =>
    exact (mergeOrder_spec g ε hc.noloop order _ _ h).1 v tf _ _ _ hv ⟨t, ht, rfl, rfl, rfl⟩
  | inc e i n c d he hi _ hx ih =>
    obtain ⟨tfv, hget, t, ht, rfl, rfl, rfl⟩ := ih
    obtain ⟨pre, post, hsplit⟩ := List.append_of_mem (hc.dsts e he)
    rw [hsplit] at h
    obtain ⟨st1, st2, h1, h2, h3⟩ := mergeOrder_split g ε pre post e.dst _ _ h
    have hes : ∀ e' ∈ g.preds e.dst, e'.dst = e.dst ∧ e'.src ≠ e.dst := by
      intro e' he'
      obtain ⟨he1, he2⟩ := (preds_spec g _ e').mp he'
      exact ⟨he2, by rw [← he2]; exact hc.noloop e' he1⟩
    obtain ⟨_, f2, s2⟩ := mergeEdges_spec ε e.dst (g.preds e.dst) st1 st2 hes h2
    obtain ⟨m3, f3⟩ := mergeOrder_spec g ε hc.noloop post st2 stF h3
    -- the child's entry is final once the child is processed
    have hlater := hc.later
    rw [hsplit, List.pairwise_append] at hlater
    have hpost : ∀ w ∈ post, ∀ e' ∈ g.edges, e'.dst = w → e'.src ≠ e.dst := by
      intro w hw e' he' hd hs
      exact (List.rel_of_pairwise_cons hlater.2.1 hw) e' he' ⟨hs, hd⟩
    have hself : ∀ e' ∈ g.preds e.dst, e'.src ≠ e.dst := fun e' he' => (hes e' he').2
    have hv1 : st1.get e.dst = some tfv := by
      rw [← f2 e.dst hself, ← f3 e.dst hpost]; exact hget
    obtain ⟨tf', g1, g2⟩ := s2 e ((preds_spec g _ e).mpr ⟨he, rfl⟩) i hi tfv hv1 t ht hx
    exact m3 _ tf' _ _ _ g1 g2

theorem childrenFirst_of_topo (g : Graph) (root : Nat) (rest : List Nat) (h : IsTopo g (root :: rest)) :
    ChildrenFirst g rest.reverse := by
  have hnd := List.nodup_cons.mp h.nodup
  have hfw := List.pairwise_cons.mp h.forward
  refine ⟨fun e he => (h.ends e he).2.2, ?_, ?_⟩
  · intro e he
    obtain ⟨hs, hd, hne⟩ := h.ends e he
    simp only [List.mem_reverse]
    simp only [List.mem_cons] at hs hd
    rcases hd with hd | hd
    · rcases hs with hs | hs
      · exact absurd (hs.trans hd.symm) hne
      · exact absurd ⟨rfl, hd⟩ (hfw.1 e.src hs e he)
    · exact hd
  · rw [List.pairwise_reverse]
    exact hfw.2.imp (fun {a b} hab e he hh => hab e he ⟨hh.1, hh.2⟩)

/-! ### the final `ResolveRootRefs` pass over the root table -/

theorem resolveRootRefs_names (tb : Table) : (resolveRootRefs tb).names = tb.names := by
  simp [resolveRootRefs, Table.names, List.map_map, Function.comp_def, resolveTask]

theorem hasDef_resolve {tf : Taskfile} {n : Name} {c : List Cmd} {d : List Name} (h : HasDef tf n c d) :
    HasDef { tf with tasks := resolveRootRefs tf.tasks } n (c.map resolveCmd) (d.map resolveRootRef) := by
  obtain ⟨t, ht, h1, h2, h3⟩ := h
  refine ⟨resolveTask t, List.mem_map.mpr ⟨t, ht, rfl⟩, h1, ?_, ?_⟩
  · simp [resolveTask, h2]
  · simp [resolveTask, h3]

/-- **C08, presence at graph level.**  For every topological order `σ` and every per-edge
order `ε` (a function giving for each edge the include statements merged, e.g. any
permutation of the edge data), if the merge succeeds then every definition of the
callable tree of the root is in the merged table under its full name, its references
renamed level by level and then resolved once (`ResolveRootRefs`). -/
theorem merge_reach (g : Graph) (σ : List Nat) (ε : Edge → List Include) (hσ : IsTopo g σ)
    (tf : Taskfile) (h : g.merge σ ε = .ok tf)
    (n : Name) (c : List Cmd) (d : List Name) (root : Nat) (hroot : σ.head? = some root)
    (hr : Reach g ε root n c d) : HasDef tf n (c.map resolveCmd) (d.map resolveRootRef) := by
  cases σ with
  | nil => simp at hroot
  | cons r rest =>
    simp only [List.head?_cons, Option.some.injEq] at hroot
    subst hroot
    simp only [Graph.merge] at h
    split at h
    · rename_i stF hm
      split at h
      · rename_i tf' hg
        cases h
        obtain ⟨tf'', h1, h2⟩ := mergeOrder_reach g ε _ (childrenFirst_of_topo g r rest hσ) stF hm r n c d hr
        rw [hg] at h1; cases h1
        exact hasDef_resolve h2
      · cases h
    · cases h

/-! ### no silent overwrite: keys stay pairwise distinct -/

def Store.AllNodup (st : Store) : Prop := ∀ v tf, st.get v = some tf → tf.tasks.names.Nodup

theorem mergeTaskfile_nodup {t1 t2 t1' : Taskfile} {inc : Include} (h : mergeTaskfile t1 t2 inc = .ok t1')
    (hn : t1.tasks.names.Nodup) : t1'.tasks.names.Nodup := by
  simp only [mergeTaskfile] at h
  split at h
  · cases h
  · split at h
    · cases h
    · split at h
      · rename_i tb hm
        cases h
        exact mergeTasks_nodup _ _ _ _ _ hm hn
      · cases h

theorem mergeIncs_nodup (src dst : Nat) (incs : List Include) (st st' : Store)
    (h : mergeIncs src dst incs st = .ok st') (hn : st.AllNodup) : st'.AllNodup := by
  induction incs generalizing st with
  | nil => simp only [mergeIncs] at h; cases h; exact hn
  | cons inc rest ih =>
    simp only [mergeIncs] at h
    split at h
    · rename_i t1 t2 h1 h2
      split at h
      · rename_i t1' hm
        apply ih _ h
        intro v tf hv
        rw [Store.get_set] at hv
        by_cases hvs : v = src
        · subst hvs
          simp only [if_true, h1, Option.map_some, Option.some.injEq] at hv
          subst hv
          exact mergeTaskfile_nodup hm (hn _ _ h1)
        · simp only [hvs, if_false] at hv
          exact hn v tf hv
      · cases h
    · cases h

theorem mergeEdges_nodup (ε : Edge → List Include) (es : List Edge) (st st' : Store)
    (h : mergeEdges ε es st = .ok st') (hn : st.AllNodup) : st'.AllNodup := by
  induction es generalizing st with
  | nil => simp only [mergeEdges] at h; cases h; exact hn
  | cons e rest ih =>
    simp only [mergeEdges] at h
    split at h
    · rename_i st1 hm
      exact ih st1 h (mergeIncs_nodup _ _ _ _ _ hm hn)
    · cases h

theorem mergeOrder_nodup (g : Graph) (ε : Edge → List Include) (order : List Nat) (st st' : Store)
    (h : mergeOrder g ε order st = .ok st') (hn : st.AllNodup) : st'.AllNodup := by
  induction order generalizing st with
  | nil => simp only [mergeOrder] at h; cases h; exact hn
  | cons v r ih =>
    simp only [mergeOrder] at h
    split at h
    · rename_i st1 hm
      exact ih st1 h (mergeEdges_nodup _ _ _ _ hm hn)
    · cases h

/-- if every file's own task names are pairwise distinct, so are the keys of the merged
table, for any order of merging: a clash never overwrites, it aborts the load. -/
theorem merge_nodup (g : Graph) (σ : List Nat) (ε : Edge → List Include) (tf : Taskfile)
    (h : g.merge σ ε = .ok tf) (hn : Store.AllNodup g.verts) : tf.tasks.names.Nodup := by
  cases σ with
  | nil => simp [Graph.merge] at h
  | cons r rest =>
    simp only [Graph.merge] at h
    split at h
    · rename_i stF hm
      split at h
      · rename_i tf' hg
        cases h
        rw [resolveRootRefs_names]
        exact mergeOrder_nodup g ε _ _ _ hm hn _ _ hg
      · cases h
    · cases h

end TaskModel.Load
