import TaskModel.Load.Basic
/-!
Load.Tasks — `ast.Task`, `ast.Include` and `Tasks.Merge` (taskfile/ast/tasks.go).

A task table is a `List Task` in insertion order, keyed by `Task.name` (the ordered map
key and the `Task` field always coincide in the implementation: `UnmarshalYAML` sets both
from the YAML key, `Tasks.Merge` renames both).
-/
namespace TaskModel.Load

/-- one entry of `cmds:` — a `task:` call (`task ≠ []`) or a shell command identified by
an opaque text id. -/
structure Cmd where
  task : Name
  sh : Nat
deriving Repr, DecidableEq

/-- `ast.Task`.  `attrs` is the record of attributes the loader must carry unchanged
(silent, interactive, ignore_error, watch, method, run, prefix, label, desc, summary,
platforms, sources, generates, status, preconditions, set, shopt, env, dotenv, prompt,
requires), one opaque value per attribute in a fixed order. -/
structure Task where
  name : Name
  cmds : List Cmd
  deps : List Name
  aliases : List Name
  internal : Bool
  dir : Dir
  attrs : List Nat
  vars : Vars
  ns : Name            -- Namespace
  loc : Nat            -- Location.Taskfile (file id)
  incVars : Vars       -- IncludeVars
  incTfVars : Vars     -- IncludedTaskfileVars
deriving Repr, DecidableEq

/-- `ast.Include` after `Reader.include` resolved it (`file` = resolved location,
`dir` = `ResolveDir` result). -/
structure Include where
  ns : Name
  file : Nat
  dir : Dir
  optional : Bool
  internal : Bool
  flatten : Bool
  advanced : Bool      -- AdvancedImport: the mapping syntax was used
  aliases : List Name
  excludes : List Name
  vars : Vars
deriving Repr, DecidableEq

inductive Err
  | conflict       -- TaskNameFlattenConflictError (203)
  | cycle          -- TaskfileCycleError (110)
  | missing        -- included file not found, not optional
  | version        -- "Taskfiles versions should match"
  | dotenv         -- ErrIncludedTaskfilesCantHaveDotenvs
  | versionCheck   -- TaskfileVersionCheckError (107): no schema version
  | decode         -- TaskfileDecodeError (102): a key used twice in `tasks:`, `includes:`, `vars:` or `env:`
  | internal       -- the model's own fuel / malformed input (never expected)
deriving Repr, DecidableEq

abbrev Table := List Task

def Table.has (n : Name) : Table → Bool
  | [] => false
  | t :: r => if t.name = n then true else Table.has n r

def Table.names (tb : Table) : List Name := tb.map (·.name)

/-- rename a dependency / call target unless it is empty (`dep.Task != ""`):
`taskRefWithNamespace`, which leaves a `:`-prefixed reference (root Taskfile) untouched -/
def prefixRef (ns : Name) (n : Name) : Name := if n = [] then n else refWithNs n ns

def prefixCmd (ns : Name) (c : Cmd) : Cmd := { c with task := prefixRef ns c.task }

/-- aliases contributed by one namespace alias `a`: `a:name` and `a:alias` for every
original alias -/
def nsAliasNames (orig : Task) (a : Name) : List Name :=
  withNs orig.name a :: orig.aliases.map (fun al => withNs al a)

/-- the copy of `t` that `Tasks.Merge` inserts (everything except the key check) -/
def mergeOne (inc : Include) (itv : Vars) (t : Task) : Task :=
  let t1 : Task := { t with internal := t.internal || inc.internal }
  let t2 : Task :=
    if inc.flatten then t1 else
      { t1 with
        deps := t1.deps.map (prefixRef inc.ns)
        cmds := t1.cmds.map (prefixCmd inc.ns)
        aliases := t1.aliases.map (fun a => withNs a inc.ns) ++ inc.aliases.flatMap (nsAliasNames t)
        name := withNs t.name inc.ns
        ns := inc.ns }
  if inc.advanced then
    { t2 with
      dir := smartJoin inc.dir t2.dir
      incVars := Vars.merge t2.incVars none inc.vars
      incTfVars := itv }
  else t2

/-- the loop of `Tasks.Merge` over the included table -/
def mergeLoop (inc : Include) (itv : Vars) : Table → Table → Except Err Table
  | [], acc => .ok acc
  | t :: r, acc =>
    if t.name ∈ inc.excludes then mergeLoop inc itv r acc
    else
      let t' := mergeOne inc itv t
      if acc.has t'.name then .error .conflict
      else mergeLoop inc itv r (acc ++ [t'])

/-- append `extra` to the aliases of the task named `n` -/
def addAliases (n : Name) (extra : List Name) : Table → Table
  | [] => []
  | t :: r => if t.name = n then { t with aliases := t.aliases ++ extra } :: r else t :: addAliases n extra r

/-- the default-task shortcut applied after the loop: `ns:default` gains the aliases `ns`
and the namespace aliases when the included table has `default`, the merged table has no
task `ns`, and the include is not flattened. -/
def defaultAlias (inc : Include) (t2 : Table) (merged : Table) : Table :=
  if t2.has defaultName && !merged.has inc.ns && !inc.flatten then
    addAliases (nsDefault inc.ns) (inc.ns :: inc.aliases) merged
  else merged

/-- `t1.Merge(t2, include, includedTaskfileVars)` -/
def mergeTasks (t1 t2 : Table) (inc : Include) (itv : Vars) : Except Err Table :=
  match mergeLoop inc itv t2 t1 with
  | .ok m => .ok (defaultAlias inc t2 m)
  | .error e => .error e

/-! ### `Tasks.ResolveRootRefs`: called once on the root table after the whole merge -/

def resolveCmd (c : Cmd) : Cmd := { c with task := resolveRootRef c.task }

def resolveTask (t : Task) : Task :=
  { t with deps := t.deps.map resolveRootRef, cmds := t.cmds.map resolveCmd }

/-- every dependency and `task:` target of every task loses one leading `:` -/
def resolveRootRefs (tb : Table) : Table := tb.map resolveTask

end TaskModel.Load
