import TaskModel.Load.MergeInvariant
/-!
Load.PathLemmas — names and references carried up an include path.

`Reach` (MergeInvariant) renames a definition level by level; here the levels are
collected into the include path (innermost include first), so that statements about
"a reference written at any depth" can be made by induction over the path:
`renNamePath` for task names, `renRefPath` for dependencies and `task:` targets (one
`prefixRef` per non-flattened level), `finalRef` = `renRefPath` followed by the single
`resolveRootRef` that `TaskfileGraph.Merge` applies to the merged root table.
-/
namespace TaskModel.Load

/-- a task name carried up an include path (innermost include first) -/
def renNamePath (p : List Include) (n : Name) : Name := p.foldl (fun acc i => renName i acc) n

/-- a reference carried up an include path: untouched by a flattened level, `prefixRef`
(`taskRefWithNamespace`) at every other level -/
def renRefPath (p : List Include) (n : Name) : Name :=
  p.foldl (fun acc i => if i.flatten then acc else prefixRef i.ns acc) n

def renCmdPath (p : List Include) (c : Cmd) : Cmd := { c with task := renRefPath p c.task }

/-- what a reference written in a file reached through `p` is in the loaded Taskfile -/
def finalRef (p : List Include) (n : Name) : Name := resolveRootRef (renRefPath p n)

def finalCmd (p : List Include) (c : Cmd) : Cmd := resolveCmd (renCmdPath p c)

theorem renNamePath_snoc (p : List Include) (i : Include) (n : Name) :
    renNamePath (p ++ [i]) n = renName i (renNamePath p n) := by
  simp [renNamePath, List.foldl_append]

theorem renRefPath_snoc (p : List Include) (i : Include) (n : Name) :
    renRefPath (p ++ [i]) n = if i.flatten then renRefPath p n else prefixRef i.ns (renRefPath p n) := by
  simp [renRefPath, List.foldl_append]

theorem renRefs_path (p : List Include) (i : Include) (d : List Name) :
    renRefs i (d.map (renRefPath p)) = d.map (renRefPath (p ++ [i])) := by
  simp only [renRefs]
  split
  · rename_i hf
    apply List.map_congr_left
    intro n _
    rw [renRefPath_snoc, if_pos hf]
  · rename_i hf
    rw [List.map_map]
    apply List.map_congr_left
    intro n _
    rw [renRefPath_snoc, if_neg hf]; rfl

theorem renCmds_path (p : List Include) (i : Include) (c : List Cmd) :
    renCmds i (c.map (renCmdPath p)) = c.map (renCmdPath (p ++ [i])) := by
  simp only [renCmds]
  split
  · rename_i hf
    apply List.map_congr_left
    intro k _
    simp only [renCmdPath, renRefPath_snoc, if_pos hf]
  · rename_i hf
    rw [List.map_map]
    apply List.map_congr_left
    intro k _
    simp only [Function.comp, renCmdPath, prefixCmd, renRefPath_snoc, if_neg hf]

/-- a reachable definition is a task `t` of some file `w`, carried up a path `p` of include
statements of the graph: name, commands and dependencies are `t`'s, renamed along `p`. -/
theorem reach_path {g : Graph} {ε : Edge → List Include} {v : Nat} {n : Name} {c : List Cmd} {d : List Name}
    (hr : Reach g ε v n c d) :
    ∃ (p : List Include) (w : Nat) (tf : Taskfile) (t : Task), g.verts.get w = some tf ∧ t ∈ tf.tasks ∧
      (∀ i ∈ p, ∃ e ∈ g.edges, i ∈ ε e) ∧
      n = renNamePath p t.name ∧ c = t.cmds.map (renCmdPath p) ∧ d = t.deps.map (renRefPath p) := by
  induction hr with
  | own v tf t hv ht =>
    refine ⟨[], v, tf, t, hv, ht, (by intro i hi; cases hi), rfl, ?_, ?_⟩
    · have h : renCmdPath [] = id := by funext k; rfl
      rw [h, List.map_id]
    · have h : renRefPath [] = id := by funext k; rfl
      rw [h, List.map_id]
  | inc e i n c d he hi _ _ ih =>
    obtain ⟨p, w, tf, t, hv, ht, hp, rfl, rfl, rfl⟩ := ih
    refine ⟨p ++ [i], w, tf, t, hv, ht, ?_, (renNamePath_snoc p i _).symm, renCmds_path p i _, renRefs_path p i _⟩
    intro j hj
    simp only [List.mem_append, List.mem_singleton] at hj
    rcases hj with hj | rfl
    · exact hp j hj
    · exact ⟨e, he, hi⟩

/-! ### `:`-prefixed references -/

/-- one merge leaves a root reference as it is -/
theorem prefixRef_root (ns x : Name) : prefixRef ns (colon :: x) = colon :: x := by
  simp [prefixRef, refWithNs]

/-- … hence so does every include path, whatever its length and flatten flags
(induction over the path) -/
theorem renRefPath_root (p : List Include) (x : Name) : renRefPath p (colon :: x) = colon :: x := by
  induction p with
  | nil => rfl
  | cons i r ih =>
    have hstep : (if i.flatten then colon :: x else prefixRef i.ns (colon :: x)) = colon :: x := by
      split
      · rfl
      · exact prefixRef_root _ _
    simp only [renRefPath, List.foldl_cons] at ih ⊢
    rw [hstep]; exact ih

/-- … and the single final pass strips the marker -/
theorem finalRef_root (p : List Include) (x : Name) : finalRef p (colon :: x) = x := by
  simp [finalRef, renRefPath_root, resolveRootRef]

theorem finalCmd_root (p : List Include) (x : Name) (sh : Nat) : finalCmd p ⟨colon :: x, sh⟩ = ⟨x, sh⟩ := by
  simp [finalCmd, resolveCmd, renCmdPath, renRefPath_root, resolveRootRef]

end TaskModel.Load
