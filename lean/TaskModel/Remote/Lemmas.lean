import TaskModel.Remote.Model
/-!
Remote.Lemmas — what one pass through `readRemoteNodeContent` can do to the cache entry
of its URL, for either fallback rule.
-/
namespace TaskModel.Remote

/-- the entry after the three writes (checksum, timestamp, content — in this order) -/
def written (sha : Content → Sum) (now : Nat) (e : Entry) (c : Content) : Entry :=
  ((e.writeSum (sha c)).writeTs now).writeContent c

@[simp] theorem written_content (sha now e c) : (written sha now e c).content = some c := rfl
@[simp] theorem written_sum (sha now e c) : (written sha now e c).sum = some (sha c) := rfl
@[simp] theorem written_ts (sha now e c) : (written sha now e c).ts = some now := rfl

/-- the decision table in front of the fetch: does this invocation go to the network? -/
def wantsFetch (now : Nat) (e : Entry) (f : RFlags) : Bool :=
  match e.content with
  | none => !f.offline
  | some _ => if !cacheValid now e f.expiry then !f.offline else f.download

theorem needsPrompt_false_iff (e : Entry) (x : Sum) : needsPrompt e x = false ↔ e.sum = some x := by
  unfold needsPrompt
  cases h : e.sum with
  | none => simp
  | some y => simp

/-- `fetch` either leaves the entry alone, or — only on downloaded content whose checksum was
already the stored one or is approved in this very call — performs the three writes. -/
theorem fetch_spec (legacy : Bool) (sha : Content → Sum) (now : Nat) (e : Entry) (f : RFlags)
    (n : Net) (a : Answer) (cached : Option Content) :
    ((fetch legacy sha now e f n a cached).2 = e ∧
        (∀ c, (fetch legacy sha now e f n a cached).1 = .run c → cached = some c)) ∨
    (∃ c, n = .content c ∧ (fetch legacy sha now e f n a cached).1 = .run c ∧
        (fetch legacy sha now e f n a cached).2 = written sha now e c ∧
        (e.sum = some (sha c) ∨ approves f a = true)) := by
  unfold fetch
  cases n with
  | timedOut => cases cached <;> simp
  | failed k => cases cached <;> cases legacy <;> simp
  | content c =>
    by_cases hp : needsPrompt e (sha c) = true
    · by_cases ha : approves f a = true
      · right; exact ⟨c, rfl, by simp [hp, ha], by simp [hp, ha, written], Or.inr ha⟩
      · left; simp [hp, ha]
    · have hp' : needsPrompt e (sha c) = false := by simpa using hp
      right
      exact ⟨c, rfl, by simp [hp'], by simp [hp', written], Or.inl ((needsPrompt_false_iff _ _).mp hp')⟩

theorem readRemote_of_wantsFetch (legacy sha now e f n a) (h : wantsFetch now e f = true) :
    readRemote legacy sha now e f n a = fetch legacy sha now e f n a e.content := by
  unfold wantsFetch at h
  unfold readRemote
  cases hc : e.content with
  | none => simp [hc] at h; simp [h]
  | some c =>
    simp only [hc] at h ⊢
    by_cases hv : cacheValid now e f.expiry = true
    · simp [hv] at h; simp [hv, h]
    · simp [hv] at h; simp [hv, h]

theorem readRemote_of_not_wantsFetch (legacy sha now e f n a) (h : wantsFetch now e f = false) :
    readRemote legacy sha now e f n a =
      (match e.content with | some c => .run c | none => .error 106, e) := by
  unfold wantsFetch at h
  unfold readRemote
  cases hc : e.content with
  | none => simp [hc] at h; simp [h]
  | some c =>
    simp only [hc] at h ⊢
    by_cases hv : cacheValid now e f.expiry = true
    · simp [hv] at h; simp [hv, h]
    · simp [hv] at h; simp [hv, h]

/-- `readRemote`: entry untouched and anything returned is the cached copy, or the three
writes of downloaded content that was already approved or is approved now. -/
theorem readRemote_spec (legacy : Bool) (sha : Content → Sum) (now : Nat) (e : Entry) (f : RFlags)
    (n : Net) (a : Answer) :
    ((readRemote legacy sha now e f n a).2 = e ∧
        (∀ c, (readRemote legacy sha now e f n a).1 = .run c → e.content = some c)) ∨
    (wantsFetch now e f = true ∧ ∃ c, n = .content c ∧ (readRemote legacy sha now e f n a).1 = .run c ∧
        (readRemote legacy sha now e f n a).2 = written sha now e c ∧
        (e.sum = some (sha c) ∨ approves f a = true)) := by
  cases hw : wantsFetch now e f with
  | true =>
    rw [readRemote_of_wantsFetch _ _ _ _ _ _ _ hw]
    rcases fetch_spec legacy sha now e f n a e.content with h | h
    · exact Or.inl h
    · exact Or.inr ⟨rfl, h⟩
  | false =>
    rw [readRemote_of_not_wantsFetch _ _ _ _ _ _ _ hw]
    left
    cases hc : e.content <;> simp

/-- errors never touch the entry -/
theorem readRemote_error_unchanged (legacy sha now e f n a code)
    (h : (readRemote legacy sha now e f n a).1 = .error code) :
    (readRemote legacy sha now e f n a).2 = e := by
  rcases readRemote_spec legacy sha now e f n a with ⟨h1, _⟩ | ⟨_, c, _, h2, _⟩
  · exact h1
  · rw [h2] at h; cases h

theorem readRemote_never_cleared (legacy sha now e f n a) :
    (readRemote legacy sha now e f n a).1 ≠ .cleared := by
  unfold readRemote fetch
  intro h
  repeat' split at h
  all_goals first | cases h | skip

/-- the only error codes `readRemoteNodeContent` produces -/
theorem readRemote_error_codes (legacy sha now e f n a code)
    (h : (readRemote legacy sha now e f n a).1 = .error code) :
    code = 106 ∨ code = 108 ∨ code = 104 ∨ code = 100 ∨ code = 103 := by
  have hf : ∀ cached, (fetch legacy sha now e f n a cached).1 = .error code →
      code = 106 ∨ code = 108 ∨ code = 104 ∨ code = 100 ∨ code = 103 := by
    intro cached h
    unfold fetch at h
    cases n with
    | timedOut => cases cached <;> simp at h <;> omega
    | failed k => cases cached <;> cases legacy <;> cases k <;> simp [Fail.code] at h <;> omega
    | content c =>
      by_cases hp : (needsPrompt e (sha c) && !approves f a) = true
      · simp [hp] at h; omega
      · simp [hp] at h
  unfold readRemote at h
  split at h
  · split at h
    · simp at h; omega
    · exact hf _ h
  · split at h
    · split at h
      · cases h
      · exact hf _ h
    · split at h
      · cases h
      · exact hf _ h

/-- entry-level invariant: a cached copy is always one whose checksum is the stored one -/
def EInv (sha : Content → Sum) (e : Entry) : Prop :=
  ∀ c, e.content = some c → e.sum = some (sha c)

theorem EInv_empty (sha) : EInv sha Entry.empty := by intro c h; cases h

theorem EInv_written (sha now e c) : EInv sha (written sha now e c) := by
  intro c' h; simp at h; subst h; rfl

theorem readRemote_EInv (legacy sha now e f n a) (h : EInv sha e) :
    EInv sha (readRemote legacy sha now e f n a).2 := by
  rcases readRemote_spec legacy sha now e f n a with ⟨h1, _⟩ | ⟨_, c, _, _, h2, _⟩
  · rw [h1]; exact h
  · rw [h2]; exact EInv_written sha now e c

/-! ## One invocation at the level of the whole state -/

@[simp] theorem tick_ent (s : RState) (dt v) : (s.tick dt).ent v = s.ent v := rfl
@[simp] theorem tick_now (s : RState) (dt) : (s.tick dt).now = s.now + dt := rfl
@[simp] theorem set_ent_same (s : RState) (u e) : (s.set u e).ent u = e := by simp [RState.set]
theorem set_ent_other (s : RState) (u v e) (h : v ≠ u) : (s.set u e).ent v = s.ent v := by
  simp [RState.set, h]

/-- what `readRemoteNodeContent` returns for the step's URL in state `s` -/
def stepRead (legacy : Bool) (sha : Content → Sum) (s : RState) (st : Step) : RResult × Entry :=
  readRemote legacy sha (s.now + st.dt) (s.ent st.url.id) st.flags (net st.flags st.server) st.answer

theorem invokeWith_gate (legacy sha s st code) (h : gate st = some code) :
    invokeWith legacy sha s st = (.error code, s.tick st.dt) := by
  simp [invokeWith, h]

theorem invokeWith_open (legacy sha s st) (h : gate st = none) (hc : st.flags.clearCache = false) :
    invokeWith legacy sha s st =
      ((stepRead legacy sha s st).1, (s.tick st.dt).set st.url.id (stepRead legacy sha s st).2) := by
  simp only [invokeWith, h, stepRead, tick_now, tick_ent]
  split
  · rename_i c e' heq; simp [hc, heq]
  · rename_i r e' hne heq; simp [heq]

theorem invokeWith_clear (legacy sha s st) (h : gate st = none) (hc : st.flags.clearCache = true) :
    (∃ c, (stepRead legacy sha s st).1 = .run c ∧
      invokeWith legacy sha s st = (.cleared, { s.tick st.dt with ent := fun _ => Entry.empty })) ∨
    ((∀ c, (stepRead legacy sha s st).1 ≠ .run c) ∧
      invokeWith legacy sha s st =
        ((stepRead legacy sha s st).1, (s.tick st.dt).set st.url.id (stepRead legacy sha s st).2)) := by
  simp only [invokeWith, h, stepRead, tick_now, tick_ent]
  split
  · rename_i c e' heq; left; exact ⟨c, by simp [heq], by simp [hc]⟩
  · rename_i r e' hne heq
    right
    refine ⟨?_, by simp [heq]⟩
    intro c hcc
    rw [heq] at hcc
    exact hne c hcc

theorem gate_none_iff (st : Step) :
    gate st = none ↔ flagsOk st.flags = true ∧ (st.url.https = true ∨ st.flags.insecure = true) ∧
      st.flags.experiment = true := by
  unfold gate
  cases flagsOk st.flags <;> cases st.url.https <;> cases st.flags.insecure <;>
    cases st.flags.experiment <;> simp

/-- a stored timestamp is never in the future of the logical clock -/
def TsOk (s : RState) : Prop := ∀ u t, (s.ent u).ts = some t → t ≤ s.now

theorem tsOk_init : TsOk RState.init := by intro u t h; cases h

theorem tsOk_invokeWith (legacy sha s st) (h : TsOk s) : TsOk (invokeWith legacy sha s st).2 := by
  have hw : TsOk ((s.tick st.dt).set st.url.id (stepRead legacy sha s st).2) := by
    intro v t ht
    by_cases hv : v = st.url.id
    · subst hv
      rw [set_ent_same] at ht
      rcases readRemote_spec legacy sha (s.now + st.dt) (s.ent st.url.id) st.flags
          (net st.flags st.server) st.answer with ⟨h1, _⟩ | ⟨_, c', _, _, h3, _⟩
      · unfold stepRead at ht; rw [h1] at ht
        have := h _ t ht
        show t ≤ s.now + st.dt
        omega
      · unfold stepRead at ht; rw [h3] at ht
        simp at ht
        show t ≤ s.now + st.dt
        omega
    · rw [set_ent_other _ _ _ _ hv] at ht
      have := h v t ht
      show t ≤ s.now + st.dt
      omega
  cases hg : gate st with
  | some code =>
    rw [invokeWith_gate _ _ _ _ _ hg]
    intro v t ht
    have := h v t ht
    show t ≤ s.now + st.dt
    omega
  | none =>
    cases hc : st.flags.clearCache with
    | false => rw [invokeWith_open _ _ _ _ hg hc]; exact hw
    | true =>
      rcases invokeWith_clear legacy sha s st hg hc with ⟨c, _, he⟩ | ⟨_, he⟩
      · rw [he]; intro v t ht; cases ht
      · rw [he]; exact hw

theorem tsOk_runWith (legacy sha) (h : List Step) : ∀ s, TsOk s → TsOk (runWith legacy sha s h).2 := by
  induction h with
  | nil => intro s hs; exact hs
  | cons st rest ih => intro s hs; simp only [runWith]; exact ih _ (tsOk_invokeWith legacy sha s st hs)

theorem unavailable_of_failed (f : RFlags) (sv : Server) (k : Fail) (h : net f sv = .failed k) :
    ∀ c, net f sv ≠ .content c := by intro c hc; rw [h] at hc; cases hc

theorem unavailable_of_timedOut (f : RFlags) (sv : Server) (h : net f sv = .timedOut) :
    ∀ c, net f sv ≠ .content c := by intro c hc; rw [h] at hc; cases hc

end TaskModel.Remote
