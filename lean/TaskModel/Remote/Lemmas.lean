import TaskModel.Remote.Model
/-!
Remote.Lemmas — what one pass through `readRemoteNodeContent` can do to the cache entry
of its URL, for either fallback rule.
-/
namespace TaskModel.Remote

/-- the entry after the four writes (checksum, timestamp, location, content — in this order) -/
def written (sha : Content → Sum) (now : Nat) (e : Entry) (c : Content) (r : Url) : Entry :=
  (((e.writeSum (sha c)).writeTs now).writeLoc r).writeContent c

@[simp] theorem written_content (sha now e c r) : (written sha now e c r).content = some c := rfl
@[simp] theorem written_sum (sha now e c r) : (written sha now e c r).sum = some (sha c) := rfl
@[simp] theorem written_ts (sha now e c r) : (written sha now e c r).ts = some now := rfl
@[simp] theorem written_loc (sha now e c r) : (written sha now e c r).loc = some r := rfl

theorem usable_some_iff (sha : Content → Sum) (e : Entry) (c : Content) :
    usable sha e = some c ↔ e.content = some c ∧ e.sum = some (sha c) := by
  unfold usable
  cases hc : e.content with
  | none => simp
  | some c' =>
    by_cases hs : e.sum = some (sha c')
    · simp [hs]; intro h; subst h; rfl
    · simp [hs]; intro h; subst h; exact hs

/-- **the recheck**: whatever counts as the cached copy has the stored checksum -/
theorem usable_sum (sha : Content → Sum) (e : Entry) (c : Content) (h : usable sha e = some c) :
    e.sum = some (sha c) := ((usable_some_iff sha e c).mp h).2

theorem usable_content (sha : Content → Sum) (e : Entry) (c : Content) (h : usable sha e = some c) :
    e.content = some c := ((usable_some_iff sha e c).mp h).1

@[simp] theorem usable_written (sha now e c r) : usable sha (written sha now e c r) = some c := by
  simp [usable]

@[simp] theorem usable_empty (sha) : usable sha Entry.empty = none := rfl

theorem needsPrompt_false_iff (e : Entry) (x : Sum) : needsPrompt e x = false ↔ e.sum = some x := by
  unfold needsPrompt
  cases h : e.sum with
  | none => simp
  | some y => simp

/-- `fetch` either leaves the entry alone, or — only on downloaded content whose checksum was
already the stored one or is approved in this very call — performs the three writes. -/
theorem fetch_spec (legacy : Bool) (sha : Content → Sum) (now : Nat) (e : Entry) (f : RFlags)
    (n : Net) (a : Answer) (cached : Option Content) (r : Url) :
    ((fetch legacy sha now e f n a cached r).2 = e ∧
        (∀ c, (fetch legacy sha now e f n a cached r).1 = .run c → cached = some c)) ∨
    (∃ c, n = .content c ∧ (fetch legacy sha now e f n a cached r).1 = .run c ∧
        (fetch legacy sha now e f n a cached r).2 = written sha now e c r ∧
        (e.sum = some (sha c) ∨ (needsPrompt e (sha c) = true ∧ approves f a = true))) := by
  unfold fetch
  cases n with
  | timedOut => cases cached <;> simp
  | failed k => cases cached <;> cases legacy <;> simp
  | content c =>
    by_cases hp : needsPrompt e (sha c) = true
    · by_cases ha : approves f a = true
      · right; exact ⟨c, rfl, by simp [hp, ha], by simp [hp, ha, written], Or.inr ⟨hp, ha⟩⟩
      · left; simp [hp, ha]
    · have hp' : needsPrompt e (sha c) = false := by simpa using hp
      right
      exact ⟨c, rfl, by simp [hp'], by simp [hp', written], Or.inl ((needsPrompt_false_iff _ _).mp hp')⟩

theorem readRemote_of_wantsFetch (legacy sha now e f n a r) (h : wantsFetch sha now e f = true) :
    readRemote legacy sha now e f n a r = fetch legacy sha now e f n a (usable sha e) r := by
  unfold wantsFetch at h
  unfold readRemote readRemoteWith
  cases hc : usable sha e with
  | none => simp [hc] at h; simp [h]
  | some c =>
    simp only [hc] at h ⊢
    by_cases hv : cacheValid now e f.expiry = true
    · simp [hv] at h; simp [hv, h]
    · simp [hv] at h; simp [hv, h]

theorem readRemote_of_not_wantsFetch (legacy sha now e f n a r) (h : wantsFetch sha now e f = false) :
    readRemote legacy sha now e f n a r =
      (match usable sha e with | some c => .run c | none => .error 106, e) := by
  unfold wantsFetch at h
  unfold readRemote readRemoteWith
  cases hc : usable sha e with
  | none => simp [hc] at h; simp [h]
  | some c =>
    simp only [hc] at h ⊢
    by_cases hv : cacheValid now e f.expiry = true
    · simp [hv] at h; simp [hv, h]
    · simp [hv] at h; simp [hv, h]

/-- `readRemote`: entry untouched and anything returned is the cached copy — one that has the
stored checksum —, or the four writes of downloaded content whose checksum was the stored one
already or for which a prompt was due and is approved now. -/
theorem readRemote_spec (legacy : Bool) (sha : Content → Sum) (now : Nat) (e : Entry) (f : RFlags)
    (n : Net) (a : Answer) (r : Url) :
    ((readRemote legacy sha now e f n a r).2 = e ∧
        (∀ c, (readRemote legacy sha now e f n a r).1 = .run c → usable sha e = some c)) ∨
    (wantsFetch sha now e f = true ∧ ∃ c, n = .content c ∧ (readRemote legacy sha now e f n a r).1 = .run c ∧
        (readRemote legacy sha now e f n a r).2 = written sha now e c r ∧
        (e.sum = some (sha c) ∨ (needsPrompt e (sha c) = true ∧ approves f a = true))) := by
  cases hw : wantsFetch sha now e f with
  | true =>
    rw [readRemote_of_wantsFetch _ _ _ _ _ _ _ _ hw]
    rcases fetch_spec legacy sha now e f n a (usable sha e) r with h | h
    · exact Or.inl h
    · exact Or.inr ⟨rfl, h⟩
  | false =>
    rw [readRemote_of_not_wantsFetch _ _ _ _ _ _ _ _ hw]
    left
    cases hc : usable sha e <;> simp

/-- errors never touch the entry -/
theorem readRemote_error_unchanged (legacy sha now e f n a r code)
    (h : (readRemote legacy sha now e f n a r).1 = .error code) :
    (readRemote legacy sha now e f n a r).2 = e := by
  rcases readRemote_spec legacy sha now e f n a r with ⟨h1, _⟩ | ⟨_, c, _, h2, _⟩
  · exact h1
  · rw [h2] at h; cases h

theorem readRemote_never_cleared (legacy sha now e f n a r) :
    (readRemote legacy sha now e f n a r).1 ≠ .cleared := by
  unfold readRemote readRemoteWith fetch
  intro h
  repeat' split at h
  all_goals first | cases h | skip

/-- the only error codes `readRemoteNodeContent` produces -/
theorem readRemote_error_codes (legacy sha now e f n a r code)
    (h : (readRemote legacy sha now e f n a r).1 = .error code) :
    code = 106 ∨ code = 108 ∨ code = 104 ∨ code = 100 ∨ code = 103 ∨ code = 105 := by
  have hf : ∀ cached, (fetch legacy sha now e f n a cached r).1 = .error code →
      code = 106 ∨ code = 108 ∨ code = 104 ∨ code = 100 ∨ code = 103 ∨ code = 105 := by
    intro cached h
    unfold fetch at h
    cases n with
    | timedOut => cases cached <;> simp at h <;> omega
    | failed k => cases cached <;> cases legacy <;> cases k <;> simp [Fail.code] at h <;> omega
    | content c =>
      by_cases hp : (needsPrompt e (sha c) && !approves f a) = true
      · simp [hp] at h; omega
      · simp [hp] at h
  unfold readRemote readRemoteWith at h
  split at h
  · split at h
    · simp at h; omega
    · exact hf _ h
  · split at h
    · split at h
      · cases h
      · exact hf _ h
    · split at h
      · cases h
      · exact hf _ h

/-- 105 out of `readRemoteNodeContent` is a refused redirect -/
theorem readRemote_105 (legacy sha now e f n a r)
    (h : (readRemote legacy sha now e f n a r).1 = .error 105) : n = .failed .insecureHop := by
  have hf : ∀ cached, (fetch legacy sha now e f n a cached r).1 = .error 105 → n = .failed .insecureHop := by
    intro cached h
    unfold fetch at h
    cases n with
    | timedOut => cases cached <;> simp at h
    | failed k => cases cached <;> cases legacy <;> cases k <;> simp [Fail.code] at h <;> rfl
    | content c =>
      by_cases hp : (needsPrompt e (sha c) && !approves f a) = true
      · simp [hp] at h
      · simp [hp] at h
  unfold readRemote readRemoteWith at h
  split at h
  · split at h
    · simp at h
    · exact hf _ h
  · split at h
    · split at h
      · cases h
      · exact hf _ h
    · split at h
      · cases h
      · exact hf _ h

/-- what a node hands on is, afterwards, the usable cached copy of its entry: it can be handed on
again from the cache -/
theorem readRemote_run_usable (legacy sha now e f n a r c)
    (h : (readRemote legacy sha now e f n a r).1 = .run c) :
    usable sha (readRemote legacy sha now e f n a r).2 = some c := by
  rcases readRemote_spec legacy sha now e f n a r with ⟨h1, h2⟩ | ⟨_, c', _, h2, h3, _⟩
  · rw [h1]; exact h2 c h
  · rw [h2] at h; cases h; rw [h3]; simp

/-- entry-level invariant of histories without crashes and damage: a cached copy is always one whose
checksum is the stored one.  (No theorem about trust needs it any more: the recheck establishes at
every read what the invariant promised.) -/
def EInv (sha : Content → Sum) (e : Entry) : Prop :=
  ∀ c, e.content = some c → e.sum = some (sha c)

theorem EInv_empty (sha) : EInv sha Entry.empty := by intro c h; cases h

theorem EInv_written (sha now e c r) : EInv sha (written sha now e c r) := by
  intro c' h; simp at h; subst h; rfl

theorem usable_of_EInv (sha) (e : Entry) (h : EInv sha e) : usable sha e = e.content := by
  unfold usable
  cases hc : e.content with
  | none => rfl
  | some c => simp [h c hc]

theorem readRemote_EInv (legacy sha now e f n a r) (h : EInv sha e) :
    EInv sha (readRemote legacy sha now e f n a r).2 := by
  rcases readRemote_spec legacy sha now e f n a r with ⟨h1, _⟩ | ⟨_, c, _, _, h2, _⟩
  · rw [h1]; exact h
  · rw [h2]; exact EInv_written sha now e c r

/-! ## One invocation at the level of the whole state -/

@[simp] theorem tick_ent (s : RState) (dt v) : (s.tick dt).ent v = s.ent v := rfl
@[simp] theorem tick_now (s : RState) (dt) : (s.tick dt).now = s.now + dt := rfl
@[simp] theorem set_ent_same (s : RState) (u e) : (s.set u e).ent u = e := by simp [RState.set]
theorem set_ent_other (s : RState) (u v e) (h : v ≠ u) : (s.set u e).ent v = s.ent v := by
  simp [RState.set, h]

/-- what `readRemoteNodeContent` returns for the step's URL in state `s` -/
def stepRead (legacy : Bool) (sha : Content → Sum) (s : RState) (st : Step) : RResult × Entry :=
  readRemote legacy sha (s.now + st.dt) (s.ent st.url.id) st.flags (net st.flags st.server) st.answer
    (landing st.url st.server)

theorem invokeWith_gate (legacy sha s st code) (h : gate st = some code) :
    invokeWith legacy sha s st = (.error code, s.tick st.dt) := by
  simp [invokeWith, h]

theorem invokeWith_open (legacy sha s st) (h : gate st = none) (hc : st.flags.clearCache = false) :
    invokeWith legacy sha s st =
      ((stepRead legacy sha s st).1, (s.tick st.dt).set st.url.id (stepRead legacy sha s st).2) := by
  simp only [invokeWith, h, stepRead, tick_now, tick_ent]
  split
  · rename_i c e' heq; simp [hc, heq]
  · rename_i r e' hne heq; simp [heq]

theorem invokeWith_clear (legacy sha s st) (h : gate st = none) (hc : st.flags.clearCache = true) :
    (∃ c, (stepRead legacy sha s st).1 = .run c ∧
      invokeWith legacy sha s st = (.cleared, { s.tick st.dt with ent := fun _ => Entry.empty })) ∨
    ((∀ c, (stepRead legacy sha s st).1 ≠ .run c) ∧
      invokeWith legacy sha s st =
        ((stepRead legacy sha s st).1, (s.tick st.dt).set st.url.id (stepRead legacy sha s st).2)) := by
  simp only [invokeWith, h, stepRead, tick_now, tick_ent]
  split
  · rename_i c e' heq; left; exact ⟨c, by simp [heq], by simp [hc]⟩
  · rename_i r e' hne heq
    right
    refine ⟨?_, by simp [heq]⟩
    intro c hcc
    rw [heq] at hcc
    exact hne c hcc

theorem gate_none_iff (st : Step) :
    gate st = none ↔ flagsOk st.flags = true ∧ (st.url.https = true ∨ st.flags.insecure = true) ∧
      st.flags.experiment = true := by
  unfold gate
  cases flagsOk st.flags <;> cases st.url.https <;> cases st.flags.insecure <;>
    cases st.flags.experiment <;> simp

/-- a stored timestamp is never in the future of the logical clock -/
def TsOk (s : RState) : Prop := ∀ u t, (s.ent u).ts = some t → t ≤ s.now

theorem tsOk_init : TsOk RState.init := by intro u t h; cases h

theorem tsOk_invokeWith (legacy sha s st) (h : TsOk s) : TsOk (invokeWith legacy sha s st).2 := by
  have hw : TsOk ((s.tick st.dt).set st.url.id (stepRead legacy sha s st).2) := by
    intro v t ht
    by_cases hv : v = st.url.id
    · subst hv
      rw [set_ent_same] at ht
      rcases readRemote_spec legacy sha (s.now + st.dt) (s.ent st.url.id) st.flags
          (net st.flags st.server) st.answer (landing st.url st.server) with ⟨h1, _⟩ | ⟨_, c', _, _, h3, _⟩
      · unfold stepRead at ht; rw [h1] at ht
        have := h _ t ht
        show t ≤ s.now + st.dt
        omega
      · unfold stepRead at ht; rw [h3] at ht
        simp at ht
        show t ≤ s.now + st.dt
        omega
    · rw [set_ent_other _ _ _ _ hv] at ht
      have := h v t ht
      show t ≤ s.now + st.dt
      omega
  cases hg : gate st with
  | some code =>
    rw [invokeWith_gate _ _ _ _ _ hg]
    intro v t ht
    have := h v t ht
    show t ≤ s.now + st.dt
    omega
  | none =>
    cases hc : st.flags.clearCache with
    | false => rw [invokeWith_open _ _ _ _ hg hc]; exact hw
    | true =>
      rcases invokeWith_clear legacy sha s st hg hc with ⟨c, _, he⟩ | ⟨_, he⟩
      · rw [he]; intro v t ht; cases ht
      · rw [he]; exact hw

theorem tsOk_runWith (legacy sha) (h : List Step) : ∀ s, TsOk s → TsOk (runWith legacy sha s h).2 := by
  induction h with
  | nil => intro s hs; exact hs
  | cons st rest ih => intro s hs; simp only [runWith]; exact ih _ (tsOk_invokeWith legacy sha s st hs)

theorem unavailable_of_failed (f : RFlags) (sv : Server) (k : Fail) (h : net f sv = .failed k) :
    ∀ c, net f sv ≠ .content c := by intro c hc; rw [h] at hc; cases hc

theorem unavailable_of_timedOut (f : RFlags) (sv : Server) (h : net f sv = .timedOut) :
    ∀ c, net f sv ≠ .content c := by intro c hc; rw [h] at hc; cases hc

end TaskModel.Remote
