import TaskModel.Remote.Lemmas
/-!
Remote.Chain — one invocation that reads a CHAIN of remote Taskfiles: node 1 (the root
entrypoint, or the single remote include of a local root — as in `Remote.Model`) and, when
the content node 1 yields includes a remote Taskfile, node 2 = that Taskfile.  Each node
has its own cache entry (the three files keyed by its URL), its own trust state (the stored
checksum), its own server behaviour and its own prompt answer; both are read by the same
per-node function `readRemote` (`readRemoteNodeContent`).

Mirrors
* `taskfile/reader.go` `(*Reader).Read` → `include(ctx, node)`: `readNode(ctx, node)` first
  (an error ends the load: the includes of a node that gave no content are never looked at),
  then for each include `NewNode(entrypoint, dir, r.insecure, …)` (plain http without
  `--insecure`: 105) and `r.include(ctx, includeNode)` **with the same `ctx`**; an include that
  points back at its parent is the cycle error 110 (`AddVertex` finds the vertex, the edge
  parent→parent closes a cycle),
* `setup.go` `readTaskfile`: `ctx, cf := context.WithTimeout(context.Background(), e.Timeout)`
  is made ONCE, in front of `reader.Read(ctx, node)`; a `DeadlineExceeded` coming out of the
  load — of whichever node — is exit code 108,
* `taskfile/node_http.go` `ReadContext(ctx)` / `taskfile.go` `RemoteExists(ctx, …)`: every
  request carries `ctx`; a request made with a context whose deadline has passed fails at once
  with the context's error (`net/http` tests `ctx.Done()` before it dials).

## The shared deadline

`--timeout` is one time budget for the whole load.  The model keeps the one bit of it that the
outcome depends on: `spent` — has the deadline passed when node 2's read starts?  It has iff
node 1's read went to the network (`wantsFetch`) and that fetch came back `timedOut` (the
server was slower than `--timeout`: the fetch returns exactly when the deadline fires).
Everything else node 1 can do (use the cache without asking, be refused, get an HTTP error,
download, prompt — the answer is typed ahead) takes no time on the model's scale; a `patient`
`--timeout` exceeds the summed delays of the slow servers of one invocation.  With the
deadline spent, node 2's `ReadContext` is `timedOut` whatever its server would do (`net2`);
its cache is consulted before that, exactly as for node 1 — `readRemote` is applied unchanged.
-/
namespace TaskModel.Remote

/-- what belongs to node 2 alone: the behaviour of the server for the included URL and the
answer given to *its* prompt (flags, clock and `--timeout` are those of the invocation) -/
structure Hop where
  server : Server
  answer : Answer
deriving Repr, DecidableEq

/-- one invocation: node 1 as in `Step`, plus what node 2 would meet -/
structure CStep where
  base : Step
  hop : Hop
deriving Repr, DecidableEq

inductive CResult
  | run (c1 : Content) (c2 : Option Content)   -- contents handed on for execution: node 1's, node 2's
  | cleared
  | error (code : Nat)
deriving Repr, DecidableEq

/-- has the shared deadline passed once node 1 has been read?  Only a fetch that was made and
timed out uses up the budget. -/
def spent (sha : Content → Sum) (now : Nat) (e : Entry) (f : RFlags) (n : Net) : Bool :=
  match n with
  | .timedOut => wantsFetch sha now e f
  | _ => false

/-- what node 2's `node.ReadContext(ctx)` comes back with -/
def net2 (sp : Bool) (f : RFlags) (sv : Server) : Net :=
  if sp then .timedOut else net f sv

/-- `NewNode(entrypoint, dir, r.insecure, …)` for an include of a remote node (the experiment
switch was passed by node 1) -/
def gate2 (f : RFlags) (u : Url) : Option Nat :=
  if !u.https && !f.insecure then some 105 else none

/-- the process exit status -/
def CResult.exit : CResult → Nat
  | .run _ _ => 0
  | .cleared => 0
  | .error code => code

/-- what the invocation executed: node 1's `probe`, which calls node 2's -/
def CResult.trace : CResult → List Content
  | .run c1 none => [c1]
  | .run c1 (some c2) => [c1, c2]
  | _ => []

/-- a non-`run` outcome of a node ends the load with that error -/
def liftErr : RResult → CResult
  | .run c => .run c none
  | .cleared => .cleared
  | .error code => .error code

/-- `cmd/task` `run`: `--clear-cache` after a successful `Setup` -/
def finish (f : RFlags) (r : CResult) (s : RState) : CResult × RState :=
  if f.clearCache then (.cleared, { s with ent := fun _ => Entry.empty }) else (r, s)

/-- node 2 of the chain, read in the state `s1` node 1 left (`s1.now` is the invocation's clock);
`sp` = the shared deadline has passed -/
def hopRead (legacy : Bool) (sha : Content → Sum) (s1 : RState) (f : RFlags) (sp : Bool) (h : Hop)
    (u2 : Url) : RResult × Entry :=
  readRemote legacy sha s1.now (s1.ent u2.id) f (net2 sp f h.server) h.answer (landing u2 h.server)

/-- one invocation of `task` reading a chain of at most two remote Taskfiles;
`inc c b` = the remote Taskfile that content `c`, found at the URL `b`, includes, if any (a parameter,
like `sha`: a relative reference is resolved against `b`, an absolute one does not look at it).  `b` is
`baseOf` of node 1's cache entry after its read: the location stored with the cached copy — the same
whether the copy was downloaded in this invocation or comes out of the cache. -/
def invokeChainWith (legacy : Bool) (sha : Content → Sum) (inc : Content → Url → Option Url)
    (s : RState) (st : CStep) : CResult × RState :=
  let s0 := s.tick st.base.dt
  match gate st.base with
  | some code => (.error code, s0)
  | none =>
    let f := st.base.flags
    let n1 := net f st.base.server
    match readRemote legacy sha s0.now (s0.ent st.base.url.id) f n1 st.base.answer
        (landing st.base.url st.base.server) with
    | (.run c1, e1) =>
      let s1 := s0.set st.base.url.id e1
      match inc c1 (baseOf st.base.url e1) with
      | none => finish f (.run c1 none) s1
      | some u2 =>
        if u2.id = st.base.url.id then (.error 110, s1) else
        match gate2 f u2 with
        | some code => (.error code, s1)
        | none =>
          let sp := spent sha s0.now (s0.ent st.base.url.id) f n1
          match hopRead legacy sha s1 f sp st.hop u2 with
          | (.run c2, e2) => finish f (.run c1 (some c2)) (s1.set u2.id e2)
          | (r, e2) => (liftErr r, s1.set u2.id e2)
    | (r, e1) => (liftErr r, s0.set st.base.url.id e1)

/-- the model of the repaired code -/
def invokeChain (sha : Content → Sum) (inc : Content → Url → Option Url) (s : RState) (st : CStep) :
    CResult × RState :=
  invokeChainWith false sha inc s st

def runChainWith (legacy : Bool) (sha : Content → Sum) (inc : Content → Url → Option Url) :
    RState → List CStep → List CResult × RState
  | s, [] => ([], s)
  | s, st :: rest =>
    let (r, s') := invokeChainWith legacy sha inc s st
    let (rs, s'') := runChainWith legacy sha inc s' rest
    (r :: rs, s'')

def runChain (sha : Content → Sum) (inc : Content → Url → Option Url) (s : RState) (h : List CStep) :
    List CResult × RState :=
  runChainWith false sha inc s h

/-- state reached from the empty cache by a history of chain invocations -/
def reachChain (sha : Content → Sum) (inc : Content → Url → Option Url) (h : List CStep) : RState :=
  (runChain sha inc RState.init h).2

inductive CEv
  | step (st : CStep)
  | pre (p : Pre)
deriving Repr, DecidableEq

/-- results of the complete invocations of a history of chain invocations, crashes and damage -/
def runChainEvWith (legacy : Bool) (sha : Content → Sum) (inc : Content → Url → Option Url) :
    RState → List CEv → List CResult × RState
  | s, [] => ([], s)
  | s, .step st :: rest =>
    let (r, s') := invokeChainWith legacy sha inc s st
    let (rs, s'') := runChainEvWith legacy sha inc s' rest
    (r :: rs, s'')
  | s, .pre p :: rest => runChainEvWith legacy sha inc (applyPre sha s p) rest

/-- state reached from the empty cache by such a history -/
def reachChainEv (sha : Content → Sum) (inc : Content → Url → Option Url) (h : List CEv) : RState :=
  (runChainEvWith false sha inc RState.init h).2

/-- per-step observation used by the driver -/
def observeChain (legacy : Bool) (sha : Content → Sum) (inc : Content → Url → Option Url) (k : Nat) :
    RState → List CEv → List (CResult × List Entry)
  | _, [] => []
  | s, .step st :: rest =>
    let (r, s') := invokeChainWith legacy sha inc s st
    (r, (List.range k).map s'.ent) :: observeChain legacy sha inc k s' rest
  | s, .pre p :: rest => observeChain legacy sha inc k (applyPre sha s p) rest

/-! ## What one chain invocation is, case by case -/

/-- node 1's read, as `Lemmas.stepRead` -/
abbrev read1 (legacy : Bool) (sha : Content → Sum) (s : RState) (st : CStep) : RResult × Entry :=
  stepRead legacy sha s st.base

/-- the state node 1 leaves -/
def after1 (legacy : Bool) (sha : Content → Sum) (s : RState) (st : CStep) : RState :=
  (s.tick st.base.dt).set st.base.url.id (read1 legacy sha s st).2

/-- the deadline bit after node 1 -/
def spent1 (sha : Content → Sum) (s : RState) (st : CStep) : Bool :=
  spent sha (s.now + st.base.dt) (s.ent st.base.url.id) st.base.flags (net st.base.flags st.base.server)

/-- the URL node 1's includes are resolved against -/
def base1 (legacy : Bool) (sha : Content → Sum) (s : RState) (st : CStep) : Url :=
  baseOf st.base.url (read1 legacy sha s st).2

/-- node 2's read -/
def read2 (legacy : Bool) (sha : Content → Sum) (s : RState) (st : CStep) (u2 : Url) : RResult × Entry :=
  hopRead legacy sha (after1 legacy sha s st) st.base.flags (spent1 sha s st) st.hop u2

/-- the state both nodes leave -/
def after2 (legacy : Bool) (sha : Content → Sum) (s : RState) (st : CStep) (u2 : Url) : RState :=
  (after1 legacy sha s st).set u2.id (read2 legacy sha s st u2).2

@[simp] theorem after1_now (legacy sha s st) : (after1 legacy sha s st).now = s.now + st.base.dt := rfl

theorem after1_ent_same (legacy sha s st) :
    (after1 legacy sha s st).ent st.base.url.id = (read1 legacy sha s st).2 := by
  simp [after1]

theorem after1_ent_other (legacy sha s st v) (hv : v ≠ st.base.url.id) :
    (after1 legacy sha s st).ent v = s.ent v := by
  simp [after1, set_ent_other _ _ _ _ hv]

/-- node 2 reads the entry of *its* URL as it was before the invocation -/
theorem read2_eq (legacy sha s st) (u2 : Url) (hne : u2.id ≠ st.base.url.id) :
    read2 legacy sha s st u2 =
      readRemote legacy sha (s.now + st.base.dt) (s.ent u2.id) st.base.flags
        (net2 (spent1 sha s st) st.base.flags st.hop.server) st.hop.answer (landing u2 st.hop.server) := by
  simp [read2, hopRead, after1_ent_other _ _ _ _ _ hne]

theorem finish_keep (f : RFlags) (r s) (h : f.clearCache = false) : finish f r s = (r, s) := by
  simp [finish, h]

theorem finish_clear (f : RFlags) (r s) (h : f.clearCache = true) :
    finish f r s = (.cleared, { s with ent := fun _ => Entry.empty }) := by
  simp [finish, h]

theorem invokeChainWith_gate (legacy sha inc s st code) (h : gate st.base = some code) :
    invokeChainWith legacy sha inc s st = (.error code, s.tick st.base.dt) := by
  simp [invokeChainWith, h]

/-- node 1 gives no content: its error ends the load, node 2 is not read -/
theorem invokeChainWith_err1 (legacy sha inc s st) (hg : gate st.base = none)
    (h1 : ∀ c, (read1 legacy sha s st).1 ≠ .run c) :
    invokeChainWith legacy sha inc s st = (liftErr (read1 legacy sha s st).1, after1 legacy sha s st) := by
  simp only [invokeChainWith, hg, tick_now, tick_ent]
  split
  · rename_i c1 e1 heq
    exact absurd (show (read1 legacy sha s st).1 = .run c1 by simp [read1, stepRead, heq]) (h1 c1)
  · rename_i r e1 hne heq
    simp [after1, read1, stepRead, heq]

/-- node 1 yields `c1`, which includes nothing remote -/
theorem invokeChainWith_single (legacy sha inc s st c1) (hg : gate st.base = none)
    (h1 : (read1 legacy sha s st).1 = .run c1) (hi : inc c1 (base1 legacy sha s st) = none) :
    invokeChainWith legacy sha inc s st = finish st.base.flags (.run c1 none) (after1 legacy sha s st) := by
  simp only [invokeChainWith, hg, tick_now, tick_ent]
  split
  · rename_i c1' e1 heq
    have : c1' = c1 := by
      have h := h1; simp only [read1, stepRead, heq] at h; exact RResult.run.inj h
    subst this
    have hb : base1 legacy sha s st = baseOf st.base.url e1 := by simp [base1, read1, stepRead, heq]
    rw [hb] at hi
    simp [hi, after1, read1, stepRead, heq]
  · rename_i r e1 hne heq
    exact absurd (show r = .run c1 by simpa [read1, stepRead, heq] using h1) (hne c1)

/-- node 1 yields `c1`, which includes itself -/
theorem invokeChainWith_cycle (legacy sha inc s st c1 u2) (hg : gate st.base = none)
    (h1 : (read1 legacy sha s st).1 = .run c1) (hi : inc c1 (base1 legacy sha s st) = some u2) (hu : u2.id = st.base.url.id) :
    invokeChainWith legacy sha inc s st = (.error 110, after1 legacy sha s st) := by
  simp only [invokeChainWith, hg, tick_now, tick_ent]
  split
  · rename_i c1' e1 heq
    have : c1' = c1 := by
      have h := h1; simp only [read1, stepRead, heq] at h; exact RResult.run.inj h
    subst this
    have hb : base1 legacy sha s st = baseOf st.base.url e1 := by simp [base1, read1, stepRead, heq]
    rw [hb] at hi
    simp [hi, hu, after1, read1, stepRead, heq]
  · rename_i r e1 hne heq
    exact absurd (show r = .run c1 by simpa [read1, stepRead, heq] using h1) (hne c1)

/-- node 1 yields `c1`, which includes a plain-http URL, without `--insecure` -/
theorem invokeChainWith_gate2 (legacy sha inc s st c1 u2 code) (hg : gate st.base = none)
    (h1 : (read1 legacy sha s st).1 = .run c1) (hi : inc c1 (base1 legacy sha s st) = some u2) (hu : u2.id ≠ st.base.url.id)
    (hg2 : gate2 st.base.flags u2 = some code) :
    invokeChainWith legacy sha inc s st = (.error code, after1 legacy sha s st) := by
  simp only [invokeChainWith, hg, tick_now, tick_ent]
  split
  · rename_i c1' e1 heq
    have : c1' = c1 := by
      have h := h1; simp only [read1, stepRead, heq] at h; exact RResult.run.inj h
    subst this
    have hb : base1 legacy sha s st = baseOf st.base.url e1 := by simp [base1, read1, stepRead, heq]
    rw [hb] at hi
    simp [hi, hu, hg2, after1, read1, stepRead, heq]
  · rename_i r e1 hne heq
    exact absurd (show r = .run c1 by simpa [read1, stepRead, heq] using h1) (hne c1)

/-- node 1 yields `c1`, which includes `u2`; node 2 yields `c2` -/
theorem invokeChainWith_both (legacy sha inc s st c1 u2 c2) (hg : gate st.base = none)
    (h1 : (read1 legacy sha s st).1 = .run c1) (hi : inc c1 (base1 legacy sha s st) = some u2) (hu : u2.id ≠ st.base.url.id)
    (hg2 : gate2 st.base.flags u2 = none) (h2 : (read2 legacy sha s st u2).1 = .run c2) :
    invokeChainWith legacy sha inc s st =
      finish st.base.flags (.run c1 (some c2)) (after2 legacy sha s st u2) := by
  simp only [invokeChainWith, hg, tick_now, tick_ent]
  split
  · rename_i c1' e1 heq
    have : c1' = c1 := by
      have h := h1; simp only [read1, stepRead, heq] at h; exact RResult.run.inj h
    subst this
    have hb : base1 legacy sha s st = baseOf st.base.url e1 := by simp [base1, read1, stepRead, heq]
    rw [hb] at hi
    have he1 : (read1 legacy sha s st).2 = e1 := by simp [read1, stepRead, heq]
    simp only [hi, hu, hg2, if_false]
    have hr : hopRead legacy sha ((s.tick st.base.dt).set st.base.url.id e1) st.base.flags
        (spent sha (s.now + st.base.dt) (s.ent st.base.url.id) st.base.flags (net st.base.flags st.base.server))
        st.hop u2 = read2 legacy sha s st u2 := by
      simp [read2, after1, he1, spent1]
    rw [hr]
    split
    · rename_i c2' e2 heq2
      have : c2' = c2 := by
        have h := h2; simp only [heq2] at h; exact RResult.run.inj h
      subst this
      simp [after2, after1, he1, heq2]
    · rename_i r e2 hne2 heq2
      exact absurd (show r = .run c2 by simpa [heq2] using h2) (hne2 c2)
  · rename_i r e1 hne heq
    exact absurd (show r = .run c1 by simpa [read1, stepRead, heq] using h1) (hne c1)

/-- node 1 yields `c1`, which includes `u2`; node 2 gives no content: its error ends the load
(node 1's cache writes stay) -/
theorem invokeChainWith_err2 (legacy sha inc s st c1 u2) (hg : gate st.base = none)
    (h1 : (read1 legacy sha s st).1 = .run c1) (hi : inc c1 (base1 legacy sha s st) = some u2) (hu : u2.id ≠ st.base.url.id)
    (hg2 : gate2 st.base.flags u2 = none) (h2 : ∀ c, (read2 legacy sha s st u2).1 ≠ .run c) :
    invokeChainWith legacy sha inc s st =
      (liftErr (read2 legacy sha s st u2).1, after2 legacy sha s st u2) := by
  simp only [invokeChainWith, hg, tick_now, tick_ent]
  split
  · rename_i c1' e1 heq
    have : c1' = c1 := by
      have h := h1; simp only [read1, stepRead, heq] at h; exact RResult.run.inj h
    subst this
    have hb : base1 legacy sha s st = baseOf st.base.url e1 := by simp [base1, read1, stepRead, heq]
    rw [hb] at hi
    have he1 : (read1 legacy sha s st).2 = e1 := by simp [read1, stepRead, heq]
    simp only [hi, hu, hg2, if_false]
    have hr : hopRead legacy sha ((s.tick st.base.dt).set st.base.url.id e1) st.base.flags
        (spent sha (s.now + st.base.dt) (s.ent st.base.url.id) st.base.flags (net st.base.flags st.base.server))
        st.hop u2 = read2 legacy sha s st u2 := by
      simp [read2, after1, he1, spent1]
    rw [hr]
    split
    · rename_i c2 e2 heq2
      exact absurd (show (read2 legacy sha s st u2).1 = .run c2 by simp [heq2]) (h2 c2)
    · rename_i r e2 hne2 heq2
      simp [after2, after1, he1, heq2]
  · rename_i r e1 hne heq
    exact absurd (show r = .run c1 by simpa [read1, stepRead, heq] using h1) (hne c1)

/-- The shape of every chain invocation: which nodes were read, what each gave. -/
inductive Shape (legacy : Bool) (sha : Content → Sum) (inc : Content → Url → Option Url)
    (s : RState) (st : CStep) : Prop
  | gated (code : Nat) (hg : gate st.base = some code)
      (he : invokeChainWith legacy sha inc s st = (.error code, s.tick st.base.dt))
  | err1 (hg : gate st.base = none) (h1 : ∀ c, (read1 legacy sha s st).1 ≠ .run c)
      (he : invokeChainWith legacy sha inc s st = (liftErr (read1 legacy sha s st).1, after1 legacy sha s st))
  | single (c1 : Content) (hg : gate st.base = none) (h1 : (read1 legacy sha s st).1 = .run c1)
      (hi : inc c1 (base1 legacy sha s st) = none)
      (he : invokeChainWith legacy sha inc s st = finish st.base.flags (.run c1 none) (after1 legacy sha s st))
  | cycle (c1 : Content) (u2 : Url) (hg : gate st.base = none) (h1 : (read1 legacy sha s st).1 = .run c1)
      (hi : inc c1 (base1 legacy sha s st) = some u2) (hu : u2.id = st.base.url.id)
      (he : invokeChainWith legacy sha inc s st = (.error 110, after1 legacy sha s st))
  | gated2 (c1 : Content) (u2 : Url) (code : Nat) (hg : gate st.base = none)
      (h1 : (read1 legacy sha s st).1 = .run c1) (hi : inc c1 (base1 legacy sha s st) = some u2) (hu : u2.id ≠ st.base.url.id)
      (hg2 : gate2 st.base.flags u2 = some code)
      (he : invokeChainWith legacy sha inc s st = (.error code, after1 legacy sha s st))
  | err2 (c1 : Content) (u2 : Url) (hg : gate st.base = none)
      (h1 : (read1 legacy sha s st).1 = .run c1) (hi : inc c1 (base1 legacy sha s st) = some u2) (hu : u2.id ≠ st.base.url.id)
      (hg2 : gate2 st.base.flags u2 = none) (h2 : ∀ c, (read2 legacy sha s st u2).1 ≠ .run c)
      (he : invokeChainWith legacy sha inc s st =
        (liftErr (read2 legacy sha s st u2).1, after2 legacy sha s st u2))
  | both (c1 : Content) (u2 : Url) (c2 : Content) (hg : gate st.base = none)
      (h1 : (read1 legacy sha s st).1 = .run c1) (hi : inc c1 (base1 legacy sha s st) = some u2) (hu : u2.id ≠ st.base.url.id)
      (hg2 : gate2 st.base.flags u2 = none) (h2 : (read2 legacy sha s st u2).1 = .run c2)
      (he : invokeChainWith legacy sha inc s st =
        finish st.base.flags (.run c1 (some c2)) (after2 legacy sha s st u2))

theorem shape (legacy sha inc s st) : Shape legacy sha inc s st := by
  cases hg : gate st.base with
  | some code => exact .gated code hg (invokeChainWith_gate _ _ _ _ _ _ hg)
  | none =>
    cases h1 : (read1 legacy sha s st).1 with
    | cleared => exact absurd h1 (readRemote_never_cleared _ _ _ _ _ _ _ _)
    | error code =>
      have hn : ∀ c, (read1 legacy sha s st).1 ≠ .run c := by intro c hc; rw [h1] at hc; cases hc
      exact .err1 hg hn (invokeChainWith_err1 _ _ _ _ _ hg hn)
    | run c1 =>
      cases hi : inc c1 (base1 legacy sha s st) with
      | none => exact .single c1 hg h1 hi (invokeChainWith_single _ _ _ _ _ _ hg h1 hi)
      | some u2 =>
        by_cases hu : u2.id = st.base.url.id
        · exact .cycle c1 u2 hg h1 hi hu (invokeChainWith_cycle _ _ _ _ _ _ _ hg h1 hi hu)
        · cases hg2 : gate2 st.base.flags u2 with
          | some code =>
            exact .gated2 c1 u2 code hg h1 hi hu hg2 (invokeChainWith_gate2 _ _ _ _ _ _ _ _ hg h1 hi hu hg2)
          | none =>
            cases h2 : (read2 legacy sha s st u2).1 with
            | cleared => exact absurd h2 (readRemote_never_cleared _ _ _ _ _ _ _ _)
            | error code =>
              have hn : ∀ c, (read2 legacy sha s st u2).1 ≠ .run c := by
                intro c hc; rw [h2] at hc; cases hc
              exact .err2 c1 u2 hg h1 hi hu hg2 hn (invokeChainWith_err2 _ _ _ _ _ _ _ hg h1 hi hu hg2 hn)
            | run c2 =>
              exact .both c1 u2 c2 hg h1 hi hu hg2 h2 (invokeChainWith_both _ _ _ _ _ _ _ _ hg h1 hi hu hg2 h2)

/-! ## A chain whose contents include nothing remote is the single-node invocation -/

def liftResult : RResult → CResult
  | .run c => .run c none
  | .cleared => .cleared
  | .error code => .error code

theorem invokeChainWith_noinc (legacy sha s st) :
    invokeChainWith legacy sha (fun _ _ => none) s st =
      (liftResult (invokeWith legacy sha s st.base).1, (invokeWith legacy sha s st.base).2) := by
  cases hg : gate st.base with
  | some code => rw [invokeChainWith_gate _ _ _ _ _ _ hg, invokeWith_gate _ _ _ _ _ hg]; rfl
  | none =>
    cases h1 : (read1 legacy sha s st).1 with
    | cleared => exact absurd h1 (readRemote_never_cleared _ _ _ _ _ _ _ _)
    | error code =>
      have hn : ∀ c, (read1 legacy sha s st).1 ≠ .run c := by intro c hc; rw [h1] at hc; cases hc
      rw [invokeChainWith_err1 _ _ _ _ _ hg hn]
      cases hc : st.base.flags.clearCache with
      | false => rw [invokeWith_open _ _ _ _ hg hc]; simp [read1, after1, liftErr, liftResult] at h1 ⊢
      | true =>
        rcases invokeWith_clear legacy sha s st.base hg hc with ⟨c, hc1, _⟩ | ⟨_, he⟩
        · exact absurd hc1 (hn c)
        · rw [he]; simp [read1, after1, liftErr, liftResult] at h1 ⊢
    | run c1 =>
      rw [invokeChainWith_single _ _ _ _ _ c1 hg h1 rfl]
      cases hc : st.base.flags.clearCache with
      | false =>
        rw [invokeWith_open _ _ _ _ hg hc, finish_keep _ _ _ hc]
        simp [read1, after1, liftResult] at h1 ⊢; rw [h1]
      | true =>
        rcases invokeWith_clear legacy sha s st.base hg hc with ⟨c, _, he⟩ | ⟨hne, _⟩
        · rw [he, finish_clear _ _ _ hc]; simp [liftResult, after1, RState.set]
        · exact absurd h1 (hne c1)

end TaskModel.Remote
