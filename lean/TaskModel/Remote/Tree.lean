import TaskModel.Remote.Lemmas
import TaskModel.Remote.Chain
/-!
Remote.Tree — one invocation that reads a TREE of remote Taskfiles: the root entrypoint, every
remote Taskfile its content includes (siblings), every remote Taskfile those include, and so on.
Every node is read by the same per-node function `readRemote` (`readRemoteNodeContent`) against
its own cache entry, its own server behaviour and its own prompt answer (`TStep.world`).

Mirrors `taskfile/reader.go` `(*Reader).include`:
* `readNode(ctx, node)` first; a node that gives no content has no children;
* then one goroutine per include statement (`errgroup.Group`, no shared cancellation): each makes the
  node (`NewNode`: 105 for plain http without `--insecure`) and recurses with the SAME `ctx`;
  `g.Wait()` waits for ALL of them — a failing sibling does not stop the others, whose cache writes
  therefore happen whether or not the load as a whole fails — and returns the error of the sibling that
  failed first *in real time*: which one is the environment's choice (`TStep.pick`; since fix 83913b5 of
  the load domain `Reader.Read` reports the first error of a depth-first walk in declaration order —
  the model accepts any failing node's code, so it holds for both rules);
* prompts of concurrently read siblings are serialised by `promptMutex`; each prompt names its URL and
  is answered on its own (`world u`);
* an include that points back at one of its ancestors is the cycle error 110.

## Order and time
Siblings touch different cache entries (entries are per URL), so the order in which the model threads
the state through them (declaration order) does not matter for the state it ends in
(`Props.C20.tree_frame`).  The shared `--timeout` deadline is inherited along the ANCESTOR path only:
a node's read starts when its parent's read has ended, and only a fetch that stalls takes time
(`Chain.spent`); a stalling sibling does not delay the others, which run concurrently.

## Limits (stated, not modelled)
* a Taskfile reachable along two paths (a diamond) is read once by the code (`AddVertex` finds the
  vertex); the model would read it once per path — the harness generates trees;
* what runs is taken to be the preorder of the tree (`probe` of a node calls `probe` of each include).
-/
namespace TaskModel.Remote

structure TStep where
  dt : Nat
  url : Url
  flags : RFlags
  /-- per URL id: how its server behaves and how its prompt is answered -/
  world : List (Nat × Hop)
  /-- the error `errgroup` reports when several nodes fail: the code of the one that failed first in
  real time, if it is among the failing ones -/
  pick : Nat
deriving Repr, DecidableEq

def hopOf (w : List (Nat × Hop)) (u : Nat) : Hop :=
  match w.lookup u with
  | some h => h
  | none => ⟨.fail .refused, .noTerminal⟩

/-- what reading a subtree comes to -/
structure TOut where
  state : RState
  /-- the nodes of the subtree that yielded content, in execution order (preorder): URL id, content -/
  trace : List (Nat × Content)
  /-- error codes of the nodes that failed, in declaration order -/
  errs : List Nat
  /-- URL ids of all nodes whose cache entry was looked at (`readRemote` was applied), in order -/
  touched : List Nat

/-- read the children one after the other (state threaded in declaration order) -/
def foldKids (rd : Url → RState → TOut) : List Url → RState → TOut
  | [], s => ⟨s, [], [], []⟩
  | k :: ks, s =>
    let a := rd k s
    let b := foldKids rd ks a.state
    ⟨b.state, a.trace ++ b.trace, a.errs ++ b.errs, a.touched ++ b.touched⟩

/-- `Reader.include` for the node `u` with ancestors `anc`; `sp` = the shared deadline has passed -/
def readTree (legacy : Bool) (sha : Content → Sum) (inc : Content → Url → List Url) (f : RFlags)
    (now : Nat) (w : List (Nat × Hop)) : Nat → List Nat → Bool → Url → RState → TOut
  | 0, _, _, _, s => ⟨s, [], [1], []⟩
  | fuel + 1, anc, sp, u, s =>
    if u.id ∈ anc then ⟨s, [], [110], []⟩ else
    match gate2 f u with
    | some code => ⟨s, [], [code], []⟩
    | none =>
      let h := hopOf w u.id
      let n := net2 sp f h.server
      match readRemote legacy sha now (s.ent u.id) f n h.answer (landing u h.server) with
      | (.run c, e') =>
        let sp' := sp || spent sha now (s.ent u.id) f n
        let r := foldKids (readTree legacy sha inc f now w fuel (u.id :: anc) sp') (inc c (baseOf u e'))
          (s.set u.id e')
        ⟨r.state, (u.id, c) :: r.trace, r.errs, u.id :: r.touched⟩
      | (.error code, e') => ⟨s.set u.id e', [], [code], [u.id]⟩
      | (.cleared, e') => ⟨s.set u.id e', [], [1], [u.id]⟩

inductive TResult
  | run (trace : List (Nat × Content))
  | cleared
  | error (code : Nat)
deriving Repr, DecidableEq

def TResult.exit : TResult → Nat
  | .run _ => 0
  | .cleared => 0
  | .error code => code

/-- what the invocation executed: URL id and content of every `probe` that ran, in order -/
def TResult.trace : TResult → List (Nat × Content)
  | .run t => t
  | _ => []

/-- which error the load ends with -/
def choose (pick : Nat) : List Nat → Nat
  | [] => 1
  | e :: es => if pick ∈ e :: es then pick else e

/-- trees deeper than this are not read (far beyond what the harness builds) -/
def treeFuel : Nat := 16

/-- what the load of an invocation that got past the gate comes to -/
def readOf (legacy : Bool) (sha : Content → Sum) (inc : Content → Url → List Url) (s : RState) (st : TStep) : TOut :=
  readTree legacy sha inc st.flags (s.now + st.dt) st.world treeFuel [] false st.url (s.tick st.dt)

/-- the gate of the root node (`Model.gate`) -/
def gateT (st : TStep) : Option Nat :=
  gate ⟨st.dt, st.url, st.flags, (hopOf st.world st.url.id).server, (hopOf st.world st.url.id).answer⟩

/-- one invocation of `task` reading a tree of remote Taskfiles -/
def invokeTreeWith (legacy : Bool) (sha : Content → Sum) (inc : Content → Url → List Url)
    (s : RState) (st : TStep) : TResult × RState :=
  match gateT st with
  | some code => (.error code, s.tick st.dt)
  | none =>
    let out := readOf legacy sha inc s st
    match out.errs with
    | [] =>
      if st.flags.clearCache then (.cleared, { out.state with ent := fun _ => Entry.empty })
      else (.run out.trace, out.state)
    | e :: es => (.error (choose st.pick (e :: es)), out.state)

def invokeTree (sha : Content → Sum) (inc : Content → Url → List Url) (s : RState) (st : TStep) :
    TResult × RState :=
  invokeTreeWith false sha inc s st

inductive TEv
  | step (st : TStep)
  | pre (p : Pre)
deriving Repr, DecidableEq

/-- per-step observation used by the driver -/
def observeTree (legacy : Bool) (sha : Content → Sum) (inc : Content → Url → List Url) (k : Nat) :
    RState → List TEv → List (TResult × List Entry)
  | _, [] => []
  | s, .step st :: rest =>
    let (r, s') := invokeTreeWith legacy sha inc s st
    (r, (List.range k).map s'.ent) :: observeTree legacy sha inc k s' rest
  | s, .pre p :: rest => observeTree legacy sha inc k (applyPre sha s p) rest

end TaskModel.Remote
