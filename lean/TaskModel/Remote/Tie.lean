namespace TaskModel.Remote
end TaskModel.Remote
