import TaskModel.Gen.Remote
/-!
Remote.Tie — the source text the Remote model was written from, as the fact extractor
(extract/remote.go → `TaskModel.Gen.Remote`) reports it for the tree under test.  Each
theorem compares a regenerated skeleton (normalised statement text, nesting as `| `, no line
numbers, long statements wrapped with `\\ ` continuations) with the one the model mirrors; a
change of a guard, of an order or of a returned error breaks the build of `Props.C20` until the model has been looked at again.

**Local variables are placeholders.**  Every identifier that resolves (by scope, go/parser's
object resolution) to something declared inside the function's body — `:=`, `var`, `range`,
parameters of function literals — is printed as `‹k›`, `k` = order of first appearance in the
fact; receivers, parameters (`ctx`, `node`, `r`, …), fields, methods, callees and package-level
names keep their names.  Renaming a local (`cachedBytes` → `fromCache`) therefore leaves every
fact as it is, while moving, adding, dropping or changing a statement does not.  Reading aid for
`skeleton`: ‹0› cache node, ‹1› now, ‹2› timestamp, ‹3› expiry, ‹4› cacheValid, ‹5› cacheFound,
‹6› cached bytes, ‹7› err, ‹8› the closure that hands on the cached bytes, ‹12› downloaded bytes,
‹13› checksum, ‹14› prompt.

The comparisons are closed by `rfl` (kernel comparison of string literals, 0.3 s) rather than
`decide` (same statement, 15 s through `String.decEq`).

`remote_skeleton_ok` expects the **repaired** fallback (`if cacheFound`, fix F16; the tree as it was
had `if ctx.Err() != nil && cacheFound` there), the recheck of the cached copy (R8-3) and the stored
location (R8-2); `remote_httpClient_ok`, `remote_httpDoers_ok`, `remote_httpDefaultClientUses_ok` the
redirect policy (R8-1); `remote_readContextUses_ok`, `remote_gitReadContext_ok`, `remote_newGitNode_ok`
the git node (R8-4, R8-5); `remote_remoteExists_ok` the default-name probe (R8-6).
-/
namespace TaskModel.Remote
open TaskModel

/-- `(*Reader).readRemoteNodeContent` — the recheck of the cached copy (`usable`: a copy whose checksum
is not the stored one is turned into "no cache" before anything looks at it), the decision table in
front of the fetch (`readRemote`), the fallback after a failed fetch (`fetch`, repaired rule:
`cacheFound` alone), the prompt, the four cache writes in the order checksum, timestamp, location,
content (`written`); every return of the cached bytes goes through ‹8›, which first hands the stored
location back to the node (`baseOf`). -/
theorem remote_skeleton_ok : Gen.Remote.skeleton = [
    "‹0› := NewCacheNode(node, r.tempDir)",
    "‹1› := time.Now().UTC()",
    "‹2› := ‹0›.ReadTimestamp()",
    "‹3› := ‹2›.Add(r.cacheExpiryDuration)",
    "‹4› := ‹1›.Before(‹3›)",
    "var ‹5› bool",
    "‹6›, ‹7› := ‹0›.Read()",
    "if ‹7› == nil && checksum(‹6›) != ‹0›.ReadChecksum()",
    "| ‹6›, ‹7› = nil, os.ErrNotExist",
    "‹8› := func() ([]byte, error) { if ‹9›, ‹10› := node.(resolvingNode); ‹10› { if",
    "\\ ‹11› := ‹0›.ReadResolvedLocation(); ‹11› != \"\" {",
    "\\ ‹9›.setResolvedLocation(‹11›) } } return ‹6›, nil }",
    "switch",
    "case errors.Is(‹7›, os.ErrNotExist):",
    "| if r.offline",
    "| | return nil, &errors.TaskfileCacheNotFoundError{ URI: node.Location(), }",
    "case !‹4›:",
    "| ‹5› = true",
    "| if r.offline",
    "| | return ‹8›()",
    "case ‹7› != nil:",
    "| return nil, ‹7›",
    "default:",
    "| if !r.download",
    "| | return ‹8›()",
    "| ‹5› = true",
    "‹12›, ‹7› := node.ReadContext(ctx)",
    "if ‹7› != nil",
    "| if ‹5›",
    "| | if ‹4›",
    "| | else",
    "| | return ‹8›()",
    "| return nil, ‹7›",
    "‹13› := checksum(‹12›)",
    "‹14› := ‹0›.ChecksumPrompt(‹13›)",
    "if ‹14› != \"\"",
    "| if ‹15› := func() error { r.promptMutex.Lock() defer r.promptMutex.Unlock() return",
    "\\ r.promptf(‹14›, node.Location()) }(); ‹15› != nil",
    "| | return nil, &errors.TaskfileNotTrustedError{URI: node.Location()}",
    "if ‹16› := ‹0›.WriteChecksum(‹13›); ‹16› != nil",
    "| return nil, ‹16›",
    "if ‹17› := ‹0›.WriteTimestamp(‹1›); ‹17› != nil",
    "| return nil, ‹17›",
    "if ‹18›, ‹19› := node.(resolvingNode); ‹19›",
    "| if ‹20› := ‹0›.WriteResolvedLocation(‹18›.resolvedLocation()); ‹20› != nil",
    "| | return nil, ‹20›",
    "if ‹7› = ‹0›.Write(‹12›); ‹7› != nil",
    "| return nil, ‹7›",
    "return ‹12›, nil"] := by rfl

/-- every `RemoteNode` goes through `readRemoteNodeContent` -/
theorem remote_readNodeContent_ok : Gen.Remote.readNodeContent = [
    "if ‹0›, ‹1› := node.(RemoteNode); ‹1›",
    "| return r.readRemoteNodeContent(ctx, ‹0›)",
    "return node.Read()"] := by rfl

/-- `needsPrompt`: no stored checksum, or a different one -/
theorem remote_checksumPrompt_ok : Gen.Remote.checksumPrompt = [
    "‹0› := node.ReadChecksum()",
    "switch",
    "case ‹0› == \"\":",
    "| return taskfileUntrustedPrompt",
    "case ‹0› != checksum:",
    "| return taskfileChangedPrompt",
    "default:",
    "| return \"\""] := by rfl

/-- a missing checksum file reads as the empty string (`Entry.sum = none`) -/
theorem remote_readChecksum_ok : Gen.Remote.readChecksum = [
    "‹0›, _ := os.ReadFile(node.checksumPath())",
    "return string(‹0›)"] := by rfl

/-- a missing or unparsable timestamp is the zero time (`cacheValid … = false`) -/
theorem remote_readTimestamp_ok : Gen.Remote.readTimestamp = [
    "‹0›, ‹1› := os.ReadFile(node.timestampPath())",
    "if ‹1› != nil",
    "| return time.Time{}.UTC()",
    "‹2›, ‹1› := time.Parse(time.RFC3339, string(‹0›))",
    "if ‹1› != nil",
    "| return time.Time{}.UTC()",
    "return ‹2›.UTC()"] := by rfl

/-- `gate`: 105 when the node is created; the node remembers `insecure` for its redirect policy -/
theorem remote_newHTTPNode_ok : Gen.Remote.newHTTPNode = [
    "‹0› := NewBaseNode(dir, opts...)",
    "‹1›, ‹2› := url.Parse(entrypoint)",
    "if ‹2› != nil",
    "| return nil, ‹2›",
    "if ‹1›.Scheme == \"http\" && !insecure",
    "| return nil, &errors.TaskfileNotSecureError{URI: entrypoint}",
    "return &HTTPNode{ BaseNode: ‹0›, URL: ‹1›, entrypoint: entrypoint, insecure: insecure,",
    "\\ }, nil"] := by rfl

/-- `Fail.code`: which failure of the fetch carries which error; a dead context passes through
unwrapped, a refused redirect as `TaskfileNotSecureError` (105); ‹0› — the client both the probe and
the GET are made with — is `node.client()` -/
theorem remote_httpReadContext_ok : Gen.Remote.httpReadContext = [
    "‹0› := node.client()",
    "‹1›, ‹2› := RemoteExists(ctx, ‹0›, node.URL)",
    "if ‹2› != nil",
    "| return nil, ‹2›",
    "node.URL = ‹1›",
    "‹3›, ‹2› := http.NewRequest(\"GET\", node.URL.String(), nil)",
    "if ‹2› != nil",
    "| return nil, errors.TaskfileFetchFailedError{URI: node.URL.String()}",
    "‹4›, ‹2› := ‹0›.Do(‹3›.WithContext(ctx))",
    "if ‹2› != nil",
    "| if ctx.Err() != nil",
    "| | return nil, ‹2›",
    "| if ‹5› := (&errors.TaskfileNotSecureError{}); errors.As(‹2›, &‹5›)",
    "| | return nil, ‹5›",
    "| return nil, errors.TaskfileFetchFailedError{URI: node.URL.String()}",
    "defer ‹4›.Body.Close()",
    "if ‹4›.StatusCode != http.StatusOK",
    "| return nil, errors.TaskfileFetchFailedError{ URI: node.URL.String(), HTTPStatusCode:",
    "\\ ‹4›.StatusCode, }",
    "‹6›, ‹2› := io.ReadAll(‹4›.Body)",
    "if ‹2› != nil",
    "| return nil, ‹2›",
    "return ‹6›, nil"] := by rfl

/-- `gate`: the experiment switch is tested after the node was made and *replaces* the
constructor's error (a failed `NewHTTPNode` leaves a typed-nil `*HTTPNode` in `node`, which passes
`node.(RemoteNode)`): without the experiment the exit code is 1, not 105 -/
theorem remote_newNode_ok : Gen.Remote.newNode = [
    "var ‹0› Node",
    "var ‹1› error",
    "‹2›, ‹1› := getScheme(entrypoint)",
    "if ‹1› != nil",
    "| return nil, ‹1›",
    "switch ‹2›",
    "case \"git\":",
    "| ‹0›, ‹1› = NewGitNode(entrypoint, dir, insecure, opts...)",
    "case \"http\", \"https\":",
    "| ‹0›, ‹1› = NewHTTPNode(entrypoint, dir, insecure, opts...)",
    "default:",
    "| ‹0›, ‹1› = NewFileNode(entrypoint, dir, opts...)",
    "if _, ‹3› := ‹0›.(RemoteNode); ‹3› && !experiments.RemoteTaskfiles.Enabled()",
    "| return nil, errors.New(\"task: Remote taskfiles are not enabled. You can read more about this",
    "\\ experiment and how to enable it at https://taskfile.dev/experiments/remote-taskfiles\")",
    "return ‹0›, ‹1›"] := by rfl

/-- which flag reaches which reader option; one context with `--timeout` around the whole read; 108 -/
theorem remote_readTaskfile_ok : Gen.Remote.readTaskfile = [
    "‹0›, ‹1› := context.WithTimeout(context.Background(), e.Timeout)",
    "defer ‹1›()",
    "‹2› := func(‹3› string) { e.Logger.VerboseOutf(logger.Magenta, ‹3›) }",
    "‹4› := func(‹5› string) error { return e.Logger.Prompt(logger.Yellow, ‹5›, \"n\", \"y\",",
    "\\ \"yes\") }",
    "‹6› := taskfile.NewReader( taskfile.WithInsecure(e.Insecure),",
    "\\ taskfile.WithDownload(e.Download), taskfile.WithOffline(e.Offline),",
    "\\ taskfile.WithTempDir(e.TempDir.Remote), taskfi",
    "\\ le.WithCacheExpiryDuration(e.CacheExpiryDuration), taskfile.WithDebugFunc(‹2›),",
    "\\ taskfile.WithPromptFunc(‹4›), )",
    "‹7›, ‹8› := ‹6›.Read(‹0›, node)",
    "if ‹8› != nil",
    "| if errors.Is(‹8›, context.DeadlineExceeded)",
    "| | return &errors.TaskfileNetworkTimeoutError{URI: node.Location(), Timeout: e.Timeout}",
    "| return ‹8›",
    "if e.Taskfile, ‹8› = ‹7›.Merge(); ‹8› != nil",
    "| return ‹8›",
    "return nil"] := by rfl

/-- `approves`: `--yes` first, then the terminal test, then the answer (`y`/`yes`) -/
theorem remote_prompt_ok : Gen.Remote.prompt = [
    "if l.AssumeYes",
    "| l.Outf(color, \"%s [assuming yes]\\n\", prompt)",
    "| return nil",
    "if !l.AssumeTerm && !term.IsTerminal()",
    "| return ErrNoTerminal",
    "if len(continueValues) == 0",
    "| return errors.New(\"no continue values provided\")",
    "l.Outf(color, \"%s [%s/%s]: \", prompt, strings.ToLower(continueValues[0]),",
    "\\ strings.ToUpper(defaultValue))",
    "‹0› := bufio.NewReader(l.Stdin)",
    "‹1›, ‹2› := ‹0›.ReadString('\\n')",
    "if ‹2› != nil",
    "| return ‹2›",
    "‹1› = strings.TrimSpace(strings.ToLower(‹1›))",
    "if !slices.Contains(continueValues, ‹1›)",
    "| return ErrPromptCancelled",
    "return nil"] := by rfl

/-- `flagsOk` -/
theorem remote_validateRemote_ok : Gen.Remote.validateRemote = [
    "if Download && Offline",
    "if Download && ClearCache"] := by rfl

/-- `--clear-cache` acts after `Setup` (which reads the remote Taskfile) succeeded -/
theorem remote_runClearCache_ok : Gen.Remote.runClearCache = [
    "if ‹0› := ‹1›.Setup(); ‹0› != nil",
    "if flags.ClearCache",
    "| ‹2› := filepath.Join(‹1›.TempDir.Remote, \"remote\")",
    "| return os.RemoveAll(‹2›)"] := by rfl

/-! ## Chains (`Remote.Chain`): the cache comes before the context, and the deadline is shared -/

/-- inside `readRemoteNodeContent`, the statements that mention the parameter `ctx`, call
`NewCacheNode`, call `Read` on the variable its result went to (‹0›), or return the variable
*that* call's result went to (‹1›, the cached bytes) or call the local function that returns it (‹3›) —
selected by these data-flow facts, not by variable names — in source order: the cache is read and — where no network is needed
(`--offline`, unexpired cache without `--download`) — returned **before `ctx` is looked at for the
first time**, and the only use of `ctx` is handing it to `node.ReadContext`, whose failure falls
back to the cached bytes.  A node whose read starts after the shared deadline therefore behaves
like one whose fetch timed out (`Chain.net2`); an early `ctx.Err()` return would not. -/
theorem remote_cacheBeforeCtx_ok : Gen.Remote.cacheBeforeCtx = [
    "‹0› := NewCacheNode(node, r.tempDir)",
    "‹1›, ‹2› := ‹0›.Read()",
    "‹3› := func() ([]byte, error) { if ‹4›, ‹5› := node.(resolvingNode); ‹5› { if",
    "\\ ‹6› := ‹0›.ReadResolvedLocation(); ‹6› != \"\" {",
    "\\ ‹4›.setResolvedLocation(‹6›) } } return ‹1›, nil }",
    "| | return ‹3›()",
    "| | return ‹3›()",
    "‹7›, ‹2› := node.ReadContext(ctx)",
    "| | return ‹3›()"] := by rfl

/-- every use of `ctx` on the way from `Reader.Read` to the HTTP requests: the context `Read` was
given is handed down unchanged — never re-assigned, never wrapped — through `include` (to
`readNode` for the node itself and to the recursive `include` for each included node), `readNode`,
`readNodeContent`, `readRemoteNodeContent`, `ReadContext`, `RemoteExists` (`Chain.spent`: node 2
reads under node 1's deadline); `RemoteExists` looks at `ctx.Err()` after the first request AND after
every request for a default name (fix R8-6: a deadline that expires there is 108, not 103) -/
theorem remote_ctxFlow_ok : Gen.Remote.ctxFlow = [
    "Reader.Read: r.include(ctx, node)",
    "Reader.include: r.readNode(ctx, node)",
    "Reader.include: r.include(ctx, ‹0›)",
    "Reader.readNode: r.readNodeContent(ctx, node)",
    "Reader.readNodeContent: r.readRemoteNodeContent(ctx, ‹0›)",
    "Reader.readRemoteNodeContent: node.ReadContext(ctx)",
    "HTTPNode.ReadContext: RemoteExists(ctx, ‹0›, node.URL)",
    "HTTPNode.ReadContext: ‹1›.WithContext(ctx)",
    "HTTPNode.ReadContext: ctx.Err()",
    "RemoteExists: http.NewRequestWithContext(ctx, \"HEAD\", u.String(), nil)",
    "RemoteExists: ctx.Err()",
    "RemoteExists: ctx.Err()",
    "RemoteExists: ctx.Err()",
    "RemoteExists: ctx.Err()"] := by rfl

/-- every `context.…` call in `setup.go` and in package `taskfile`: the one deadline is made in
`readTaskfile`, in front of `reader.Read` (`remote_readTaskfile_ok`); nothing below it derives a
fresh context or timeout per node (the two `context.Background()` are the context-free `Read`
methods of the git and http nodes, which the reader does not use for remote nodes —
`remote_readNodeContent_ok`) -/
theorem remote_ctxMakers_ok : Gen.Remote.ctxMakers = [
    "setup.go Executor.readTaskfile: context.WithTimeout(context.Background(), e.Timeout)",
    "setup.go Executor.readTaskfile: context.Background()",
    "taskfile/node_git.go GitNode.Read: context.Background()",
    "taskfile/node_http.go HTTPNode.Read: context.Background()"] := by rfl

/-! ## The cache key: injective in the URL (`RState.ent` is indexed by `Url.id`) -/

/-- `HTTPNode.CacheKey`: ‹0› = the SHA-256 (`remote_checksumFn_ok`) of **the whole location string**
— `node.Location()` is the entrypoint exactly as it was given to `NewHTTPNode`
(`remote_httpLocation_ok`, `remote_newHTTPNode_ok`, `remote_newNode_ok`): scheme, host, path *and
query*, no lower-casing, no path cleaning, nothing cut off — and the key ends in it; the part in
front (‹4›: last directory and file name of the entrypoint) is only a readable prefix.  Two URLs
that differ anywhere therefore get different keys (up to SHA-256 collisions), which is what the
model's per-URL cache entries assume. -/
theorem remote_cacheKey_ok : Gen.Remote.cacheKey = [
    "‹0› := strings.TrimRight(checksum([]byte(node.Location())), \"=\")",
    "‹1›, ‹2› := filepath.Split(node.entrypoint)",
    "‹3› := filepath.Base(‹1›)",
    "‹4› := ‹2›",
    "if len(‹3›) > 1",
    "| ‹4› = fmt.Sprintf(\"%s-%s\", ‹3›, ‹2›)",
    "return fmt.Sprintf(\"%s.%s\", ‹4›, ‹0›)"] := by rfl

theorem remote_httpLocation_ok : Gen.Remote.httpLocation = [
    "return node.entrypoint"] := by rfl

/-- the three cache files of a node are `<dir>/<CacheKey()>.yaml|.checksum|.timestamp` -/
theorem remote_cacheFilePath_ok : Gen.Remote.cacheFilePath = [
    "return filepath.Join(node.dir, fmt.Sprintf(\"%s.%s\", node.source.CacheKey(), suffix))"] := by rfl

theorem remote_checksumFn_ok : Gen.Remote.checksumFn = [
    "‹0› := sha256.New()",
    "‹0›.Write(b)",
    "return fmt.Sprintf(\"%x\", ‹0›.Sum(nil))"] := by rfl

/-- the entrypoint of an included remote Taskfile is the resolved reference as a string: its query
is that of the reference, nothing is normalised away -/
theorem remote_httpResolveEntrypoint_ok : Gen.Remote.httpResolveEntrypoint = [
    "‹0›, ‹1› := url.Parse(entrypoint)",
    "if ‹1› != nil",
    "| return \"\", ‹1›",
    "return node.URL.ResolveReference(‹0›).String(), nil"] := by rfl

/-! ## Redirects, the default-name probe, the stored location, the git node -/

/-- `HTTPNode.client`: the one client of an http node.  Its `CheckRedirect` refuses a hop to a URL
whose scheme is `http` unless the node was created with `insecure` (`net … (.redirect to next)`,
`Fail.insecureHop`), and otherwise keeps the default limit of ten redirects. -/
theorem remote_httpClient_ok : Gen.Remote.httpClient = [
    "return &http.Client{ CheckRedirect: func(‹0› *http.Request, ‹1› []*http.Request) error {",
    "\\ if ‹0›.URL.Scheme == \"http\" && !node.insecure { return &errors.TaskfileNotSecureError{URI:",
    "\\ ‹0›.URL.String()} } if len(‹1›) >= 10 { return errors.New(\"stopped after 10",
    "\\ redirects\") } return nil }, }"] := by rfl

/-- every place in package `taskfile` where an HTTP request is sent: the GET of `ReadContext` on ‹0›
(= `node.client()`, `remote_httpReadContext_ok`) and the two HEAD requests of `RemoteExists` on the
client it is handed (the same ‹0›) -/
theorem remote_httpDoers_ok : Gen.Remote.httpDoers = [
    "HTTPNode.ReadContext: ‹0›.Do(‹1›.WithContext(ctx))",
    "RemoteExists: client.Do(‹0›)",
    "RemoteExists: client.Do(‹0›)"] := by rfl

/-- … and nothing in the package mentions `http.DefaultClient`, `http.DefaultTransport` or the
convenience functions `http.Get/Head/Post`, which follow redirects unconditionally -/
theorem remote_httpDefaultClientUses_ok : Gen.Remote.httpDefaultClientUses = [] := by rfl

/-- `RemoteExists` (`Server.dir`, `landing`, `Fail.notFound`): HEAD on the URL; a transport error is
the context's error if the context is dead, 105 for a refused redirect, else 103; status 200 with an
allowed content type (a substring test: `text/yaml; charset=utf-8` passes) ⇒ the URL itself; otherwise
the default names in order, each by the same request with the path joined — **only the status is
looked at there, not the content type** (the model's `dir … (serve c)` covers a default name served
with any type) —, the first 200 wins (`landing`), an error ends the probe the same way as above (the
`ctx.Err()` test included: fix R8-6); none ⇒ 100. -/
theorem remote_remoteExists_ok : Gen.Remote.remoteExists = [
    "‹0›, ‹1› := http.NewRequestWithContext(ctx, \"HEAD\", u.String(), nil)",
    "if ‹1› != nil",
    "| return nil, errors.TaskfileFetchFailedError{URI: u.String()}",
    "‹2›, ‹1› := client.Do(‹0›)",
    "if ‹1› != nil",
    "| if ctx.Err() != nil",
    "| | return nil, fmt.Errorf(\"checking remote file: %w\", ctx.Err())",
    "| if ‹3› := (&errors.TaskfileNotSecureError{}); errors.As(‹1›, &‹3›)",
    "| | return nil, ‹3›",
    "| return nil, errors.TaskfileFetchFailedError{URI: u.String()}",
    "defer ‹2›.Body.Close()",
    "‹4› := ‹2›.Header.Get(\"Content-Type\")",
    "if ‹2›.StatusCode == http.StatusOK && slices.ContainsFunc(allowedContentTypes, func(‹5›",
    "\\ string) bool { return strings.Contains(‹4›, ‹5›) })",
    "| return u, nil",
    "for range defaultTaskfiles",
    "| if u.Path == \"\"",
    "| | u.Path = \"/\"",
    "| ‹6› := u.JoinPath(‹7›)",
    "| ‹0›.URL = ‹6›",
    "| ‹2›, ‹1› = client.Do(‹0›)",
    "| if ‹1› != nil",
    "| | if ctx.Err() != nil",
    "| | | return nil, fmt.Errorf(\"checking remote file: %w\", ctx.Err())",
    "| | if ‹8› := (&errors.TaskfileNotSecureError{}); errors.As(‹1›, &‹8›)",
    "| | | return nil, ‹8›",
    "| | return nil, errors.TaskfileFetchFailedError{URI: u.String()}",
    "| defer ‹2›.Body.Close()",
    "| if ‹2›.StatusCode == http.StatusOK",
    "| | return ‹6›, nil",
    "return nil, errors.TaskfileNotFoundError{URI: u.String(), Walk: false}"] := by rfl

/-- the location stored with a cached copy is the node's URL after the fetch — `RemoteExists`' result
(`remote_httpReadContext_ok`: `node.URL = ‹1›`) — and taking it back is `node.URL = …` again -/
theorem remote_httpResolvedLocation_ok : Gen.Remote.httpResolvedLocation = [
    "return node.URL.String()"] := by rfl

theorem remote_httpSetResolvedLocation_ok : Gen.Remote.httpSetResolvedLocation = [
    "if ‹0›, ‹1› := url.Parse(location); ‹1› == nil",
    "| node.URL = ‹0›"] := by rfl

/-- a missing `.location` file reads as the empty string (`Entry.loc = none`), which the reader
ignores (`baseOf`: the node's own URL) -/
theorem remote_readResolvedLocation_ok : Gen.Remote.readResolvedLocation = [
    "‹0›, _ := os.ReadFile(node.resolvedLocationPath())",
    "return string(‹0›)"] := by rfl

theorem remote_writeResolvedLocation_ok : Gen.Remote.writeResolvedLocation = [
    "if ‹0› := node.CreateCacheDir(); ‹0› != nil",
    "| return ‹0›",
    "return os.WriteFile(node.resolvedLocationPath(), []byte(location), 0o644)"] := by rfl

/-- **every node's `ReadContext` uses its context**: the git node hands it to `git.CloneContext`
(before fix R8-4 the parameter was `_` and the clone could not be interrupted by `--timeout`), the
http node to the probe, to the GET and to the test that tells a timeout from another failure -/
theorem remote_readContextUses_ok : Gen.Remote.readContextUses = [
    "GitNode.ReadContext: git.CloneContext(ctx, ‹0›, ‹1›, &git.CloneOptions{ URL:",
    "\\ node.URL.String(), ReferenceName: plumbing.ReferenceName(node.ref), SingleBranch: true, Depth:",
    "\\ 1, })",
    "HTTPNode.ReadContext: RemoteExists(ctx, ‹0›, node.URL)",
    "HTTPNode.ReadContext: ‹1›.WithContext(ctx)",
    "HTTPNode.ReadContext: ctx.Err()"] := by rfl

theorem remote_gitReadContext_ok : Gen.Remote.gitReadContext = [
    "‹0› := memfs.New()",
    "‹1› := memory.NewStorage()",
    "_, ‹2› := git.CloneContext(ctx, ‹1›, ‹0›, &git.CloneOptions{ URL: node.URL.String(),",
    "\\ ReferenceName: plumbing.ReferenceName(node.ref), SingleBranch: true, Depth: 1, })",
    "if ‹2› != nil",
    "| return nil, ‹2›",
    "‹3›, ‹2› := ‹0›.Open(node.path)",
    "if ‹2› != nil",
    "| return nil, ‹2›",
    "‹4›, ‹2› := io.ReadAll(‹3›)",
    "if ‹2› != nil",
    "| return nil, ‹2›",
    "return ‹4›, nil"] := by rfl

/-- `NewGitNode`: both plaintext schemes — `http` and the git protocol — are refused without
`--insecure` (`gate`, 105; before fix R8-5 only `http` was) -/
theorem remote_newGitNode_ok : Gen.Remote.newGitNode = [
    "‹0› := NewBaseNode(dir, opts...)",
    "‹1›, ‹2› := giturls.Parse(entrypoint)",
    "if ‹2› != nil",
    "| return nil, ‹2›",
    "‹3›, ‹4›, ‹5› := strings.Cut(‹1›.Path, \"//\")",
    "if !‹5›",
    "| return nil, &errors.TaskfileInvalidError{URI: entrypoint, Err: errors.New(\"git URL has no '//'",
    "\\ separating the repository from the path of the Taskfile\")}",
    "‹6› := ‹1›.Query().Get(\"ref\")",
    "‹7› := ‹1›.String()",
    "‹1›.RawQuery = \"\"",
    "‹1›.Path = ‹3›",
    "if (‹1›.Scheme == \"http\" || ‹1›.Scheme == \"git\") && !insecure",
    "| return nil, &errors.TaskfileNotSecureError{URI: entrypoint}",
    "return &GitNode{ BaseNode: ‹0›, URL: ‹1›, ‹7›: ‹7›, ‹6›: ‹6›, ‹4›:",
    "\\ ‹4›, }, nil"] := by rfl

end TaskModel.Remote
