import TaskModel.Gen.Remote
/-!
Remote.Tie — the source text the Remote model was written from, as the fact extractor
(extract/remote.go → `TaskModel.Gen.Remote`) reports it for the tree under test.  Each
theorem compares a regenerated skeleton (normalised statement text, nesting as `| `, no line
numbers, long statements wrapped with `\\ ` continuations) with the one the model mirrors; a
change of a guard, of an order or of a returned error breaks the build of `Props.C20` until the model has been looked at again.

The comparisons are closed by `rfl` (kernel comparison of string literals, 0.3 s) rather than
`decide` (same statement, 15 s through `String.decEq`).

`remote_skeleton_ok` expects the **repaired** fallback (`if cacheFound`, fix F16); the tree
as it was had `if ctx.Err() != nil && cacheFound` there.
-/
namespace TaskModel.Remote
open TaskModel

/-- `(*Reader).readRemoteNodeContent` — the decision table in front of the fetch (`readRemote`),
the fallback after a failed fetch (`fetch`, repaired rule: `cacheFound` alone), the prompt, the
three cache writes in the order checksum, timestamp, content (`written`). -/
theorem remote_skeleton_ok : Gen.Remote.skeleton = [
    "cache := NewCacheNode(node, r.tempDir)",
    "now := time.Now().UTC()",
    "timestamp := cache.ReadTimestamp()",
    "expiry := timestamp.Add(r.cacheExpiryDuration)",
    "cacheValid := now.Before(expiry)",
    "var cacheFound bool",
    "cachedBytes, err := cache.Read()",
    "switch",
    "case errors.Is(err, os.ErrNotExist):",
    "| if r.offline",
    "| | return nil, &errors.TaskfileCacheNotFoundError{ URI: node.Location(), }",
    "case !cacheValid:",
    "| cacheFound = true",
    "| if r.offline",
    "| | return cachedBytes, nil",
    "case err != nil:",
    "| return nil, err",
    "default:",
    "| if !r.download",
    "| | return cachedBytes, nil",
    "| cacheFound = true",
    "downloadedBytes, err := node.ReadContext(ctx)",
    "if err != nil",
    "| if cacheFound",
    "| | if cacheValid",
    "| | else",
    "| | return cachedBytes, nil",
    "| return nil, err",
    "checksum := checksum(downloadedBytes)",
    "prompt := cache.ChecksumPrompt(checksum)",
    "if prompt != \"\"",
    "| if err := func() error { r.promptMutex.Lock() defer r.promptMutex.Unlock() return",
    "\\ r.promptf(prompt, node.Location()) }(); err != nil",
    "| | return nil, &errors.TaskfileNotTrustedError{URI: node.Location()}",
    "if err := cache.WriteChecksum(checksum); err != nil",
    "| return nil, err",
    "if err := cache.WriteTimestamp(now); err != nil",
    "| return nil, err",
    "if err = cache.Write(downloadedBytes); err != nil",
    "| return nil, err",
    "return downloadedBytes, nil"] := by rfl

/-- every `RemoteNode` goes through `readRemoteNodeContent` -/
theorem remote_readNodeContent_ok : Gen.Remote.readNodeContent = [
    "if node, isRemote := node.(RemoteNode); isRemote",
    "| return r.readRemoteNodeContent(ctx, node)",
    "return node.Read()"] := by rfl

/-- `needsPrompt`: no stored checksum, or a different one -/
theorem remote_checksumPrompt_ok : Gen.Remote.checksumPrompt = [
    "cachedChecksum := node.ReadChecksum()",
    "switch",
    "case cachedChecksum == \"\":",
    "| return taskfileUntrustedPrompt",
    "case cachedChecksum != checksum:",
    "| return taskfileChangedPrompt",
    "default:",
    "| return \"\""] := by rfl

/-- a missing checksum file reads as the empty string (`Entry.sum = none`) -/
theorem remote_readChecksum_ok : Gen.Remote.readChecksum = [
    "b, _ := os.ReadFile(node.checksumPath())",
    "return string(b)"] := by rfl

/-- a missing or unparsable timestamp is the zero time (`cacheValid … = false`) -/
theorem remote_readTimestamp_ok : Gen.Remote.readTimestamp = [
    "b, err := os.ReadFile(node.timestampPath())",
    "if err != nil",
    "| return time.Time{}.UTC()",
    "timestamp, err := time.Parse(time.RFC3339, string(b))",
    "if err != nil",
    "| return time.Time{}.UTC()",
    "return timestamp.UTC()"] := by rfl

/-- `gate`: 105 when the node is created -/
theorem remote_newHTTPNode_ok : Gen.Remote.newHTTPNode = [
    "base := NewBaseNode(dir, opts...)",
    "url, err := url.Parse(entrypoint)",
    "if err != nil",
    "| return nil, err",
    "if url.Scheme == \"http\" && !insecure",
    "| return nil, &errors.TaskfileNotSecureError{URI: entrypoint}",
    "return &HTTPNode{ BaseNode: base, URL: url, entrypoint: entrypoint, }, nil"] := by rfl

/-- `Fail.code`: which failure of the fetch carries which error; a dead context passes through unwrapped -/
theorem remote_httpReadContext_ok : Gen.Remote.httpReadContext = [
    "url, err := RemoteExists(ctx, node.URL)",
    "if err != nil",
    "| return nil, err",
    "node.URL = url",
    "req, err := http.NewRequest(\"GET\", node.URL.String(), nil)",
    "if err != nil",
    "| return nil, errors.TaskfileFetchFailedError{URI: node.URL.String()}",
    "resp, err := http.DefaultClient.Do(req.WithContext(ctx))",
    "if err != nil",
    "| if ctx.Err() != nil",
    "| | return nil, err",
    "| return nil, errors.TaskfileFetchFailedError{URI: node.URL.String()}",
    "defer resp.Body.Close()",
    "if resp.StatusCode != http.StatusOK",
    "| return nil, errors.TaskfileFetchFailedError{ URI: node.URL.String(), HTTPStatusCode:",
    "\\ resp.StatusCode, }",
    "b, err := io.ReadAll(resp.Body)",
    "if err != nil",
    "| return nil, err",
    "return b, nil"] := by rfl

/-- `gate`: the experiment switch is tested after the node was made and *replaces* the
constructor's error (a failed `NewHTTPNode` leaves a typed-nil `*HTTPNode` in `node`, which passes
`node.(RemoteNode)`): without the experiment the exit code is 1, not 105 -/
theorem remote_newNode_ok : Gen.Remote.newNode = [
    "var node Node",
    "var err error",
    "scheme, err := getScheme(entrypoint)",
    "if err != nil",
    "| return nil, err",
    "switch scheme",
    "case \"git\":",
    "| node, err = NewGitNode(entrypoint, dir, insecure, opts...)",
    "case \"http\", \"https\":",
    "| node, err = NewHTTPNode(entrypoint, dir, insecure, opts...)",
    "default:",
    "| node, err = NewFileNode(entrypoint, dir, opts...)",
    "if _, isRemote := node.(RemoteNode); isRemote && !experiments.RemoteTaskfiles.Enabled()",
    "| return nil, errors.New(\"task: Remote taskfiles are not enabled. You can read more about this",
    "\\ experiment and how to enable it at https://taskfile.dev/experiments/remote-taskfiles\")",
    "return node, err"] := by rfl

/-- which flag reaches which reader option; one context with `--timeout` around the whole read; 108 -/
theorem remote_readTaskfile_ok : Gen.Remote.readTaskfile = [
    "ctx, cf := context.WithTimeout(context.Background(), e.Timeout)",
    "defer cf()",
    "debugFunc := func(s string) { e.Logger.VerboseOutf(logger.Magenta, s) }",
    "promptFunc := func(s string) error { return e.Logger.Prompt(logger.Yellow, s, \"n\", \"y\", \"yes\") }",
    "reader := taskfile.NewReader( taskfile.WithInsecure(e.Insecure),",
    "\\ taskfile.WithDownload(e.Download), taskfile.WithOffline(e.Offline),",
    "\\ taskfile.WithTempDir(e.TempDir.Remote), taskfi",
    "\\ le.WithCacheExpiryDuration(e.CacheExpiryDuration), taskfile.WithDebugFunc(debugFunc),",
    "\\ taskfile.WithPromptFunc(promptFunc), )",
    "graph, err := reader.Read(ctx, node)",
    "if err != nil",
    "| if errors.Is(err, context.DeadlineExceeded)",
    "| | return &errors.TaskfileNetworkTimeoutError{URI: node.Location(), Timeout: e.Timeout}",
    "| return err",
    "if e.Taskfile, err = graph.Merge(); err != nil",
    "| return err",
    "return nil"] := by rfl

/-- `approves`: `--yes` first, then the terminal test, then the answer (`y`/`yes`) -/
theorem remote_prompt_ok : Gen.Remote.prompt = [
    "if l.AssumeYes",
    "| l.Outf(color, \"%s [assuming yes]\\n\", prompt)",
    "| return nil",
    "if !l.AssumeTerm && !term.IsTerminal()",
    "| return ErrNoTerminal",
    "if len(continueValues) == 0",
    "| return errors.New(\"no continue values provided\")",
    "l.Outf(color, \"%s [%s/%s]: \", prompt, strings.ToLower(continueValues[0]),",
    "\\ strings.ToUpper(defaultValue))",
    "reader := bufio.NewReader(l.Stdin)",
    "input, err := reader.ReadString('\\n')",
    "if err != nil",
    "| return err",
    "input = strings.TrimSpace(strings.ToLower(input))",
    "if !slices.Contains(continueValues, input)",
    "| return ErrPromptCancelled",
    "return nil"] := by rfl

/-- `flagsOk` -/
theorem remote_validateRemote_ok : Gen.Remote.validateRemote = [
    "if Download && Offline",
    "if Download && ClearCache"] := by rfl

/-- `--clear-cache` acts after `Setup` (which reads the remote Taskfile) succeeded -/
theorem remote_runClearCache_ok : Gen.Remote.runClearCache = [
    "if err := e.Setup(); err != nil",
    "if flags.ClearCache",
    "| cachePath := filepath.Join(e.TempDir.Remote, \"remote\")",
    "| return os.RemoveAll(cachePath)"] := by rfl

/-! ## Chains (`Remote.Chain`): the cache comes before the context, and the deadline is shared -/

/-- inside `readRemoteNodeContent`, the statements that mention `ctx`, make or read the cache node,
or return the cached bytes, in source order: the cache is read and — where no network is needed
(`--offline`, unexpired cache without `--download`) — returned **before `ctx` is looked at for the
first time**, and the only use of `ctx` is handing it to `node.ReadContext`, whose failure falls
back to the cached bytes.  A node whose read starts after the shared deadline therefore behaves
like one whose fetch timed out (`Chain.net2`); an early `ctx.Err()` return would not. -/
theorem remote_cacheBeforeCtx_ok : Gen.Remote.cacheBeforeCtx = [
    "cache := NewCacheNode(node, r.tempDir)",
    "cachedBytes, err := cache.Read()",
    "| | return cachedBytes, nil",
    "| | return cachedBytes, nil",
    "downloadedBytes, err := node.ReadContext(ctx)",
    "| | return cachedBytes, nil"] := by rfl

/-- every use of `ctx` on the way from `Reader.Read` to the HTTP requests: the context `Read` was
given is handed down unchanged — never re-assigned, never wrapped — through `include` (to
`readNode` for the node itself and to the recursive `include` for each included node), `readNode`,
`readNodeContent`, `readRemoteNodeContent`, `ReadContext`, `RemoteExists` (`Chain.spent`: node 2
reads under node 1's deadline) -/
theorem remote_ctxFlow_ok : Gen.Remote.ctxFlow = [
    "Reader.Read: r.include(ctx, node)",
    "Reader.include: r.readNode(ctx, node)",
    "Reader.include: r.include(ctx, includeNode)",
    "Reader.readNode: r.readNodeContent(ctx, node)",
    "Reader.readNodeContent: r.readRemoteNodeContent(ctx, node)",
    "Reader.readRemoteNodeContent: node.ReadContext(ctx)",
    "HTTPNode.ReadContext: RemoteExists(ctx, node.URL)",
    "HTTPNode.ReadContext: req.WithContext(ctx)",
    "HTTPNode.ReadContext: ctx.Err()",
    "RemoteExists: http.NewRequestWithContext(ctx, \"HEAD\", u.String(), nil)",
    "RemoteExists: ctx.Err()",
    "RemoteExists: ctx.Err()"] := by rfl

/-- every `context.…` call in `setup.go` and in package `taskfile`: the one deadline is made in
`readTaskfile`, in front of `reader.Read` (`remote_readTaskfile_ok`); nothing below it derives a
fresh context or timeout per node (the two `context.Background()` are the context-free `Read`
methods of the git and http nodes, which the reader does not use for remote nodes —
`remote_readNodeContent_ok`) -/
theorem remote_ctxMakers_ok : Gen.Remote.ctxMakers = [
    "setup.go Executor.readTaskfile: context.WithTimeout(context.Background(), e.Timeout)",
    "setup.go Executor.readTaskfile: context.Background()",
    "taskfile/node_git.go GitNode.Read: context.Background()",
    "taskfile/node_http.go HTTPNode.Read: context.Background()"] := by rfl

end TaskModel.Remote
