/-!
Remote.Model — remote Taskfiles: trust prompt, download cache, `--offline`, `--download`,
`--expiry`, `--insecure`, `--timeout`, `--clear-cache`.

Mirrors, statement by statement,
* `taskfile/reader.go` `(*Reader).readRemoteNodeContent` (decision table, the fallback
  after a failed fetch, the prompt, the three cache writes in their order),
* `taskfile/node_cache.go` `(*CacheNode).ChecksumPrompt`, `ReadTimestamp`, `Write*`,
* `taskfile/node_http.go` `NewHTTPNode` (105) and `ReadContext`, `taskfile/taskfile.go`
  `RemoteExists` (which failure carries which code),
* `taskfile/node.go` `NewNode` (experiment switch), `setup.go` `readTaskfile` (108),
* `internal/logger` `Prompt` (`--yes`, terminal test, accepted answers),
* `internal/flags` `Validate` (`--download` excludes `--offline` and `--clear-cache`),
* `cmd/task/task.go` `run` (`--clear-cache` removes the cache directory after Setup).

The fallback after a failed fetch is the **repaired** rule (fix F16: any failure of the
fetch falls back to an existing cached copy); `legacy := true` gives the rule as it was
written (`ctx.Err() != nil && cacheFound`), kept for the documented counterexample.

One invocation reads one remote node here; `Remote.Chain` adds the remote Taskfile that node's
content includes (second node, same `readRemote`, one shared `--timeout` deadline).

**The cache is keyed injectively by URL.**  `RState.ent : Nat → Entry` gives every URL (`Url.id`)
its own three files: two URLs that differ in anything — scheme, host, path, letter case, a doubled
slash, the query string — are different keys and never see each other's content, checksum or
timestamp (`C20_frame`).  The code's key is `HTTPNode.CacheKey`: the SHA-256 of the *whole* URL
string (`Tie.remote_cacheKey_ok`); the harness reads URLs that differ only in the query / case /
slashes in successive steps over one cache directory.

Contents and checksums are abstract numbers; `sha : Content → Sum` is a parameter about
which nothing is assumed.  Time is a logical clock (`now`), advanced by `Step.dt`.
-/
namespace TaskModel.Remote

abbrev Content := Nat
abbrev Sum := Nat

/-- the three cache files of one remote URL (`<key>.yaml`, `.checksum`, `.timestamp`) -/
structure Entry where
  content : Option Content
  sum : Option Sum
  ts : Option Nat
deriving Repr, DecidableEq

def Entry.empty : Entry := ⟨none, none, none⟩

/-- `cache.WriteChecksum`, `cache.WriteTimestamp`, `cache.Write` -/
def Entry.writeSum (e : Entry) (x : Sum) : Entry := { e with sum := some x }
def Entry.writeTs (e : Entry) (t : Nat) : Entry := { e with ts := some t }
def Entry.writeContent (e : Entry) (c : Content) : Entry := { e with content := some c }

structure RState where
  now : Nat
  ent : Nat → Entry

def RState.init : RState := ⟨0, fun _ => Entry.empty⟩

def RState.set (s : RState) (u : Nat) (e : Entry) : RState :=
  { s with ent := fun v => if v = u then e else s.ent v }

structure RFlags where
  yes : Bool
  download : Bool
  offline : Bool
  insecure : Bool
  expiry : Nat          -- `--expiry`, default 0
  patient : Bool        -- the timeout-relevant bit: `--timeout` exceeds the delay of a slow server
  clearCache : Bool
  experiment : Bool     -- TASK_X_REMOTE_TASKFILES=1
deriving Repr, DecidableEq

structure Url where
  id : Nat
  https : Bool
deriving Repr, DecidableEq

/-- why a fetch failed without the context having expired -/
inductive Fail
  | refused      -- no connection / connection reset: `TaskfileFetchFailedError`
  | notFound     -- HEAD answers non-200 (or a foreign content type) on the URL and on every default name
  | getError     -- HEAD fine, GET answers non-200: `TaskfileFetchFailedError{HTTPStatusCode}`
deriving Repr, DecidableEq

def Fail.code : Fail → Nat
  | .refused => 103
  | .notFound => 100
  | .getError => 103

inductive Server
  | serve (c : Content)
  | fail (k : Fail)
  | slow (c : Content)   -- answers `c`, but only after a delay longer than a short `--timeout`
deriving Repr, DecidableEq

inductive Answer
  | accept | decline | noTerminal
deriving Repr, DecidableEq

/-- what `node.ReadContext(ctx)` comes back with -/
inductive Net
  | content (c : Content)
  | failed (k : Fail)
  | timedOut
deriving Repr, DecidableEq

def net (f : RFlags) : Server → Net
  | .serve c => .content c
  | .fail k => .failed k
  | .slow c => if f.patient then .content c else .timedOut

inductive RResult
  | run (c : Content)      -- content handed on for execution
  | cleared                -- `--clear-cache`: exit 0, nothing executed
  | error (code : Nat)
deriving Repr, DecidableEq

/-- `Logger.Prompt`: `--yes` first, then the terminal test, then the answer -/
def approves (f : RFlags) (a : Answer) : Bool :=
  f.yes || a == .accept

/-- `cacheValid := now.Before(timestamp.Add(expiry))`; an unreadable timestamp is the zero time -/
def cacheValid (now : Nat) (e : Entry) (expiry : Nat) : Bool :=
  match e.ts with
  | some t => decide (now < t + expiry)
  | none => false

/-- `ChecksumPrompt(checksum) != ""`: no stored checksum (untrusted) or a different one (changed) -/
def needsPrompt (e : Entry) (x : Sum) : Bool :=
  match e.sum with
  | none => true
  | some y => y != x

/-- the part of `readRemoteNodeContent` after "Try to read the remote file";
`cached` is `some` iff `cacheFound` -/
def fetch (legacy : Bool) (sha : Content → Sum) (now : Nat) (e : Entry) (f : RFlags)
    (n : Net) (a : Answer) (cached : Option Content) : RResult × Entry :=
  match n with
  | .timedOut =>
    match cached with
    | some c => (.run c, e)
    | none => (.error 108, e)
  | .failed k =>
    match cached with
    | some c => if legacy then (.error k.code, e) else (.run c, e)
    | none => (.error k.code, e)
  | .content c =>
    if needsPrompt e (sha c) && !approves f a then (.error 104, e)
    else (.run c, ((e.writeSum (sha c)).writeTs now).writeContent c)

/-- `readRemoteNodeContent` -/
def readRemote (legacy : Bool) (sha : Content → Sum) (now : Nat) (e : Entry) (f : RFlags)
    (n : Net) (a : Answer) : RResult × Entry :=
  match e.content with
  | none =>
    if f.offline then (.error 106, e) else fetch legacy sha now e f n a none
  | some cached =>
    if !cacheValid now e f.expiry then
      if f.offline then (.run cached, e) else fetch legacy sha now e f n a (some cached)
    else
      if !f.download then (.run cached, e) else fetch legacy sha now e f n a (some cached)

structure Step where
  dt : Nat
  url : Url
  flags : RFlags
  server : Server
  answer : Answer
deriving Repr, DecidableEq

/-- `flags.Validate` -/
def flagsOk (f : RFlags) : Bool :=
  !(f.download && f.offline) && !(f.download && f.clearCache)

def RState.tick (s : RState) (dt : Nat) : RState := { s with now := s.now + dt }

/-- everything that is decided before the cache or the network is touched: `flags.Validate`
(exit 1), then `NewNode`: `NewHTTPNode` refuses plain http without `--insecure` (105), but
its error is *replaced* by "Remote taskfiles are not enabled" (exit 1) when the experiment
is off — the failed constructor leaves a typed-nil `*HTTPNode` in the `Node` interface,
which still passes the `node.(RemoteNode)` test -/
def gate (st : Step) : Option Nat :=
  if !flagsOk st.flags then some 1
  else if !st.flags.experiment then some 1
  else if !st.url.https && !st.flags.insecure then some 105
  else none

/-- one invocation of `task` on a remote Taskfile -/
def invokeWith (legacy : Bool) (sha : Content → Sum) (s : RState) (st : Step) : RResult × RState :=
  let s := s.tick st.dt
  match gate st with
  | some code => (.error code, s)
  | none =>
    match readRemote legacy sha s.now (s.ent st.url.id) st.flags (net st.flags st.server) st.answer with
    | (.run c, e') =>
      if st.flags.clearCache then (.cleared, { s with ent := fun _ => Entry.empty })
      else (.run c, s.set st.url.id e')
    | (r, e') => (r, s.set st.url.id e')

/-- the model of the repaired code -/
def invoke (sha : Content → Sum) (s : RState) (st : Step) : RResult × RState :=
  invokeWith false sha s st

/-- results of a whole history, and the state it ends in -/
def runWith (legacy : Bool) (sha : Content → Sum) : RState → List Step → List RResult × RState
  | s, [] => ([], s)
  | s, st :: rest =>
    let (r, s') := invokeWith legacy sha s st
    let (rs, s'') := runWith legacy sha s' rest
    (r :: rs, s'')

def run (sha : Content → Sum) (s : RState) (h : List Step) : List RResult × RState :=
  runWith false sha s h

/-- state reached from the empty cache by a history -/
def reach (sha : Content → Sum) (h : List Step) : RState := (run sha RState.init h).2

/-- per-step observation used by the driver: result and the entries of the urls `0..k-1` after the step -/
def observe (legacy : Bool) (sha : Content → Sum) (k : Nat) : RState → List Step → List (RResult × List Entry)
  | _, [] => []
  | s, st :: rest =>
    let (r, s') := invokeWith legacy sha s st
    (r, (List.range k).map s'.ent) :: observe legacy sha k s' rest

end TaskModel.Remote
