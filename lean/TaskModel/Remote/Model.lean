/-!
Remote.Model — remote Taskfiles: trust prompt, download cache, `--offline`, `--download`,
`--expiry`, `--insecure`, `--timeout`, `--clear-cache`.

Mirrors, statement by statement,
* `taskfile/reader.go` `(*Reader).readRemoteNodeContent` (decision table, the fallback
  after a failed fetch, the prompt, the three cache writes in their order),
* `taskfile/node_cache.go` `(*CacheNode).ChecksumPrompt`, `ReadTimestamp`, `Write*`,
* `taskfile/node_http.go` `NewHTTPNode` (105) and `ReadContext`, `taskfile/taskfile.go`
  `RemoteExists` (which failure carries which code),
* `taskfile/node.go` `NewNode` (experiment switch), `setup.go` `readTaskfile` (108),
* `internal/logger` `Prompt` (`--yes`, terminal test, accepted answers),
* `internal/flags` `Validate` (`--download` excludes `--offline` and `--clear-cache`),
* `cmd/task/task.go` `run` (`--clear-cache` removes the cache directory after Setup).

The fallback after a failed fetch is the **repaired** rule (fix F16: any failure of the
fetch falls back to an existing cached copy); `legacy := true` gives the rule as it was
written (`ctx.Err() != nil && cacheFound`), kept for the documented counterexample.

One invocation reads one remote node here; `Remote.Chain` adds the remote Taskfile that node's
content includes (second node, same `readRemote`, one shared `--timeout` deadline).

**The cache is keyed injectively by URL.**  `RState.ent : Nat → Entry` gives every URL (`Url.id`)
its own three files: two URLs that differ in anything — scheme, host, path, letter case, a doubled
slash, the query string — are different keys and never see each other's content, checksum or
timestamp (`C20_frame`).  The code's key is `HTTPNode.CacheKey`: the SHA-256 of the *whole* URL
string (`Tie.remote_cacheKey_ok`); the harness reads URLs that differ only in the query / case /
slashes in successive steps over one cache directory.

**A cached copy is only used if it has the stored checksum** (fix R8-3): `usable sha e` is the
cached content when `sha` of it equals the stored checksum, nothing otherwise; `readRemote` looks at
`usable`, never at `Entry.content` directly.  The cached content and the stored checksum are
therefore *independent* components of the state — the three (four) cache files are written one after
the other, a crash between the writes (`Pre.crash`) or anything else that replaces, truncates or
removes the `.yaml` (`Pre.damage`) leaves them inconsistent — and trust does not rest on an
invariant between them.

**Redirects** (`Server.redirect`, fix R8-1): every request of an http node is made by a client that
refuses a redirect to a plain-http URL unless `--insecure` was given (`Fail.insecureHop`, 105).
**Directory-style URLs** (`Server.dir`, fix R8-2): the URL itself is not a Taskfile, `RemoteExists`
finds it under a default name; the URL it was found at (`landing`) is what relative includes are
resolved against, and it is stored with the cached copy (`Entry.loc`, the file `<key>.location`)
so that the copy read from the cache includes the same files as the downloaded one.

Contents and checksums are abstract numbers; `sha : Content → Sum` is a parameter about
which nothing is assumed.  Time is a logical clock (`now`), advanced by `Step.dt`.
-/
namespace TaskModel.Remote

abbrev Content := Nat
abbrev Sum := Nat

structure Url where
  id : Nat
  https : Bool
deriving Repr, DecidableEq

/-- the cache files of one remote URL (`<key>.yaml`, `.checksum`, `.timestamp`, `.location`) -/
structure Entry where
  content : Option Content
  sum : Option Sum
  ts : Option Nat
  /-- where the cached copy was downloaded from: the URL itself, or the URL completed by a default
  Taskfile name (`CacheNode.WriteResolvedLocation`); includes are resolved against it -/
  loc : Option Url
deriving Repr, DecidableEq

def Entry.empty : Entry := ⟨none, none, none, none⟩

/-- `cache.WriteChecksum`, `cache.WriteTimestamp`, `cache.Write` -/
def Entry.writeSum (e : Entry) (x : Sum) : Entry := { e with sum := some x }
def Entry.writeTs (e : Entry) (t : Nat) : Entry := { e with ts := some t }
def Entry.writeLoc (e : Entry) (r : Url) : Entry := { e with loc := some r }
def Entry.writeContent (e : Entry) (c : Content) : Entry := { e with content := some c }

/-- the cached copy as `readRemoteNodeContent` sees it: the content of `<key>.yaml`, provided its
checksum is the stored one (`checksum(cachedBytes) != cache.ReadChecksum()` ⇒ no cache) -/
def usable (sha : Content → Sum) (e : Entry) : Option Content :=
  match e.content with
  | some c => if e.sum = some (sha c) then some c else none
  | none => none

structure RState where
  now : Nat
  ent : Nat → Entry

def RState.init : RState := ⟨0, fun _ => Entry.empty⟩

def RState.set (s : RState) (u : Nat) (e : Entry) : RState :=
  { s with ent := fun v => if v = u then e else s.ent v }

structure RFlags where
  yes : Bool
  download : Bool
  offline : Bool
  insecure : Bool
  expiry : Nat          -- `--expiry`, default 0
  patient : Bool        -- the timeout-relevant bit: `--timeout` exceeds the delay of a slow server
  clearCache : Bool
  experiment : Bool     -- TASK_X_REMOTE_TASKFILES=1
deriving Repr, DecidableEq

/-- why a fetch failed without the context having expired -/
inductive Fail
  | refused      -- no connection / connection reset: `TaskfileFetchFailedError`
  | notFound     -- HEAD answers non-200 (or a foreign content type) on the URL and on every default name
  | getError     -- HEAD fine, GET answers non-200: `TaskfileFetchFailedError{HTTPStatusCode}`
  | insecureHop  -- a redirect to plain http without `--insecure`, refused by the node's `CheckRedirect`
deriving Repr, DecidableEq

def Fail.code : Fail → Nat
  | .refused => 103
  | .notFound => 100
  | .getError => 103
  | .insecureHop => 105

inductive Server
  | serve (c : Content)
  | fail (k : Fail)
  | slow (c : Content)   -- answers `c`, but only after a delay longer than a short `--timeout`
  /-- answers every request with a redirect to `to`, where the server behaves as `next` -/
  | redirect (to : Url) (next : Server)
  /-- a directory-style URL: the URL itself is not a Taskfile (HEAD: not 200, or a foreign content
  type); among the default Taskfile names the first that answers is the URL `to`, which behaves as
  `file` (`fail .notFound`: none of the names answers 200) -/
  | dir (to : Url) (file : Server)
deriving Repr, DecidableEq

inductive Answer
  | accept | decline | noTerminal
deriving Repr, DecidableEq

/-- what `node.ReadContext(ctx)` comes back with -/
inductive Net
  | content (c : Content)
  | failed (k : Fail)
  | timedOut
deriving Repr, DecidableEq

def net (f : RFlags) : Server → Net
  | .serve c => .content c
  | .fail k => .failed k
  | .slow c => if f.patient then .content c else .timedOut
  | .redirect to next => if !to.https && !f.insecure then .failed .insecureHop else net f next
  | .dir _ file => net f file

/-- the URL `RemoteExists` returns (`node.URL` after a fetch): the node's own URL, or — for a
directory-style URL — the default name that answered.  (A redirect does not change it: the
request's URL is returned, not the response's.) -/
def landing (u : Url) : Server → Url
  | .dir to _ => to
  | _ => u

/-- the URLs a fetch sends requests to: the node's own URL (for a directory-style URL: and the
default names under it, on the same host and scheme) and the target of every redirect it follows -/
def requested (f : RFlags) (u : Url) : Server → List Url
  | .redirect to next => u :: (if !to.https && !f.insecure then [] else requested f to next)
  | .dir _ file => requested f u file
  | _ => [u]

/-- the fetch comes to a redirect it refuses -/
def refusedHop (f : RFlags) : Server → Bool
  | .redirect to next => (!to.https && !f.insecure) || refusedHop f next
  | .dir _ file => refusedHop f file
  | _ => false

inductive RResult
  | run (c : Content)      -- content handed on for execution
  | cleared                -- `--clear-cache`: exit 0, nothing executed
  | error (code : Nat)
deriving Repr, DecidableEq

/-- the process exit status -/
def RResult.exit : RResult → Nat
  | .run _ => 0
  | .cleared => 0
  | .error code => code

/-- what the invocation executed: the contents whose `probe` task ran, in order (the trace file the
harness hands to the binary as `$VERIF_TRACE`) -/
def RResult.trace : RResult → List Content
  | .run c => [c]
  | _ => []

/-- `Logger.Prompt`: `--yes` first, then the terminal test, then the answer -/
def approves (f : RFlags) (a : Answer) : Bool :=
  f.yes || a == .accept

/-- `cacheValid := now.Before(timestamp.Add(expiry))`; an unreadable timestamp is the zero time -/
def cacheValid (now : Nat) (e : Entry) (expiry : Nat) : Bool :=
  match e.ts with
  | some t => decide (now < t + expiry)
  | none => false

/-- `ChecksumPrompt(checksum) != ""`: no stored checksum (untrusted) or a different one (changed) -/
def needsPrompt (e : Entry) (x : Sum) : Bool :=
  match e.sum with
  | none => true
  | some y => y != x

/-- the part of `readRemoteNodeContent` after "Try to read the remote file";
`cached` is `some` iff `cacheFound` -/
def fetch (legacy : Bool) (sha : Content → Sum) (now : Nat) (e : Entry) (f : RFlags)
    (n : Net) (a : Answer) (cached : Option Content) (r : Url) : RResult × Entry :=
  match n with
  | .timedOut =>
    match cached with
    | some c => (.run c, e)
    | none => (.error 108, e)
  | .failed k =>
    match cached with
    | some c => if legacy then (.error k.code, e) else (.run c, e)
    | none => (.error k.code, e)
  | .content c =>
    if needsPrompt e (sha c) && !approves f a then (.error 104, e)
    else (.run c, (((e.writeSum (sha c)).writeTs now).writeLoc r).writeContent c)

/-- `readRemoteNodeContent`, over what it takes for the cached copy (`cachedOf e`); `r` = the URL a
successful fetch finds the file at (`landing`) -/
def readRemoteWith (cachedOf : Entry → Option Content) (legacy : Bool) (sha : Content → Sum) (now : Nat)
    (e : Entry) (f : RFlags) (n : Net) (a : Answer) (r : Url) : RResult × Entry :=
  match cachedOf e with
  | none =>
    if f.offline then (.error 106, e) else fetch legacy sha now e f n a none r
  | some cached =>
    if !cacheValid now e f.expiry then
      if f.offline then (.run cached, e) else fetch legacy sha now e f n a (some cached) r
    else
      if !f.download then (.run cached, e) else fetch legacy sha now e f n a (some cached) r

/-- `readRemoteNodeContent` (repaired: the cached copy counts only with the stored checksum) -/
def readRemote (legacy : Bool) (sha : Content → Sum) (now : Nat) (e : Entry) (f : RFlags)
    (n : Net) (a : Answer) (r : Url) : RResult × Entry :=
  readRemoteWith (usable sha) legacy sha now e f n a r

/-- the decision table in front of the fetch: does this invocation go to the network? -/
def wantsFetch (sha : Content → Sum) (now : Nat) (e : Entry) (f : RFlags) : Bool :=
  match usable sha e with
  | none => !f.offline
  | some _ => if !cacheValid now e f.expiry then !f.offline else f.download

/-- the rule before fix R8-3: whatever is in `<key>.yaml` is the cached copy -/
def readRemoteNoRecheck (legacy : Bool) (sha : Content → Sum) (now : Nat) (e : Entry) (f : RFlags)
    (n : Net) (a : Answer) (r : Url) : RResult × Entry :=
  readRemoteWith (·.content) legacy sha now e f n a r

/-- the URL the includes of a node are resolved against once it has been read (`e'` = its cache entry
after the read): the stored location, for a copy from before `.location` existed the node's own URL -/
def baseOf (u : Url) (e' : Entry) : Url := e'.loc.getD u

structure Step where
  dt : Nat
  url : Url
  flags : RFlags
  server : Server
  answer : Answer
deriving Repr, DecidableEq

/-- `flags.Validate` -/
def flagsOk (f : RFlags) : Bool :=
  !(f.download && f.offline) && !(f.download && f.clearCache)

def RState.tick (s : RState) (dt : Nat) : RState := { s with now := s.now + dt }

/-- everything that is decided before the cache or the network is touched: `flags.Validate`
(exit 1), then `NewNode`: `NewHTTPNode` refuses plain http without `--insecure` (105), but
its error is *replaced* by "Remote taskfiles are not enabled" (exit 1) when the experiment
is off — the failed constructor leaves a typed-nil `*HTTPNode` in the `Node` interface,
which still passes the `node.(RemoteNode)` test -/
def gate (st : Step) : Option Nat :=
  if !flagsOk st.flags then some 1
  else if !st.flags.experiment then some 1
  else if !st.url.https && !st.flags.insecure then some 105
  else none

/-- one invocation of `task` on a remote Taskfile -/
def invokeWith (legacy : Bool) (sha : Content → Sum) (s : RState) (st : Step) : RResult × RState :=
  let s := s.tick st.dt
  match gate st with
  | some code => (.error code, s)
  | none =>
    match readRemote legacy sha s.now (s.ent st.url.id) st.flags (net st.flags st.server) st.answer
        (landing st.url st.server) with
    | (.run c, e') =>
      if st.flags.clearCache then (.cleared, { s with ent := fun _ => Entry.empty })
      else (.run c, s.set st.url.id e')
    | (r, e') => (r, s.set st.url.id e')

/-- the model of the repaired code -/
def invoke (sha : Content → Sum) (s : RState) (st : Step) : RResult × RState :=
  invokeWith false sha s st

/-- results of a whole history, and the state it ends in -/
def runWith (legacy : Bool) (sha : Content → Sum) : RState → List Step → List RResult × RState
  | s, [] => ([], s)
  | s, st :: rest =>
    let (r, s') := invokeWith legacy sha s st
    let (rs, s'') := runWith legacy sha s' rest
    (r :: rs, s'')

def run (sha : Content → Sum) (s : RState) (h : List Step) : List RResult × RState :=
  runWith false sha s h

/-- state reached from the empty cache by a history -/
def reach (sha : Content → Sum) (h : List Step) : RState := (run sha RState.init h).2

/-! ## Histories with torn cache states

Besides complete invocations a history may contain
* `Pre.crash st k` — the invocation `st`, killed (power loss, full disk, SIGKILL) after `k` of the
  four cache writes of its node (`WriteChecksum`, `WriteTimestamp`, `WriteResolvedLocation`, `Write`);
  `k = 0`: before the first write, `k ≥ 4`: after the last.  Only an invocation that gets as far as
  the writes (downloaded content, already approved or approved now) leaves anything;
* `Pre.damage u c` — the file `<key>.yaml` of URL `u` is replaced by other content, truncated
  (`some c`) or removed (`none`) by something that is not Task.  The checksum file — the trust
  anchor — is written by Task only. -/

inductive Pre
  | crash (st : Step) (k : Nat)
  | damage (u : Nat) (c : Option Content)
deriving Repr, DecidableEq

/-- the first `k` of the writes `written` consists of -/
def partialWrite (sha : Content → Sum) (now : Nat) (e : Entry) (c : Content) (r : Url) : Nat → Entry
  | 0 => e
  | 1 => e.writeSum (sha c)
  | 2 => (e.writeSum (sha c)).writeTs now
  | 3 => ((e.writeSum (sha c)).writeTs now).writeLoc r
  | _ + 4 => (((e.writeSum (sha c)).writeTs now).writeLoc r).writeContent c

/-- does `readRemote` get to the cache writes, and with which content? -/
def writes (sha : Content → Sum) (now : Nat) (e : Entry) (f : RFlags) (n : Net) (a : Answer) : Option Content :=
  match n with
  | .content c => if wantsFetch sha now e f && !(needsPrompt e (sha c) && !approves f a) then some c else none
  | _ => none

def applyPre (sha : Content → Sum) (s : RState) : Pre → RState
  | .damage u c => s.set u { s.ent u with content := c }
  | .crash st k =>
    let s := s.tick st.dt
    match gate st with
    | some _ => s
    | none =>
      match writes sha s.now (s.ent st.url.id) st.flags (net st.flags st.server) st.answer with
      | some c => s.set st.url.id (partialWrite sha s.now (s.ent st.url.id) c (landing st.url st.server) k)
      | none => s

inductive Ev
  | step (st : Step)
  | pre (p : Pre)
deriving Repr, DecidableEq

/-- results of the complete invocations of a history with crashes and damage, and the state it ends in -/
def runEvWith (legacy : Bool) (sha : Content → Sum) : RState → List Ev → List RResult × RState
  | s, [] => ([], s)
  | s, .step st :: rest =>
    let (r, s') := invokeWith legacy sha s st
    let (rs, s'') := runEvWith legacy sha s' rest
    (r :: rs, s'')
  | s, .pre p :: rest => runEvWith legacy sha (applyPre sha s p) rest

/-- state reached from the empty cache by a history with crashes and damage -/
def reachEv (sha : Content → Sum) (h : List Ev) : RState := (runEvWith false sha RState.init h).2

/-- per-step observation used by the driver: result and the entries of the urls `0..k-1` after each
complete invocation -/
def observe (legacy : Bool) (sha : Content → Sum) (k : Nat) : RState → List Ev → List (RResult × List Entry)
  | _, [] => []
  | s, .step st :: rest =>
    let (r, s') := invokeWith legacy sha s st
    (r, (List.range k).map s'.ent) :: observe legacy sha k s' rest
  | s, .pre p :: rest => observe legacy sha k (applyPre sha s p) rest

/-! ## An invocation whose last cache write fails

The real binary can be made to fail exactly between the cache writes without being killed: under a
file-size limit (`ulimit -f 1`: 512 bytes) `WriteChecksum`, `WriteTimestamp` and
`WriteResolvedLocation` succeed and `Write` — the Taskfile is longer — fails with "file too large"
(as with a full disk), leaving the first 512 bytes in `<key>.yaml`; the load ends with that error
(exit code 1), nothing runs.  In the model's terms such an invocation *is* `Pre.crash st 3` followed
by `Pre.damage u (some garbage)` whenever it gets as far as the writes (`limitedPre`), and an
ordinary invocation otherwise (nothing else it writes is that long). -/

/-- the content number that stands for "not a Taskfile the harness ever serves" (a truncated file) -/
def garbage : Content := 0

/-- the events a size-limited invocation amounts to, if it gets to the cache writes -/
def limitedPre (sha : Content → Sum) (s : RState) (st : Step) : Option (List Pre) :=
  match gate st with
  | some _ => none
  | none =>
    match writes sha (s.now + st.dt) (s.ent st.url.id) st.flags (net st.flags st.server) st.answer with
    | some _ => some [.crash st 3, .damage st.url.id (some garbage)]
    | none => none

inductive LEv
  | ev (e : Ev)
  | limited (st : Step)
deriving Repr, DecidableEq

/-- the history of invocations, crashes and damage that a history with size-limited invocations amounts to -/
def expandL (legacy : Bool) (sha : Content → Sum) : RState → List LEv → List Ev
  | _, [] => []
  | s, .ev (.step st) :: rest => .step st :: expandL legacy sha (invokeWith legacy sha s st).2 rest
  | s, .ev (.pre p) :: rest => .pre p :: expandL legacy sha (applyPre sha s p) rest
  | s, .limited st :: rest =>
    match limitedPre sha s st with
    | some ps => ps.map .pre ++ expandL legacy sha (ps.foldl (applyPre sha) s) rest
    | none => .step st :: expandL legacy sha (invokeWith legacy sha s st).2 rest

/-- per-step observation used by the driver; a size-limited invocation that gets to the writes ends
with exit code 1 and has run nothing -/
def observeL (legacy : Bool) (sha : Content → Sum) (k : Nat) : RState → List LEv → List (RResult × List Entry)
  | _, [] => []
  | s, .ev (.step st) :: rest =>
    let (r, s') := invokeWith legacy sha s st
    (r, (List.range k).map s'.ent) :: observeL legacy sha k s' rest
  | s, .ev (.pre p) :: rest => observeL legacy sha k (applyPre sha s p) rest
  | s, .limited st :: rest =>
    match limitedPre sha s st with
    | some ps =>
      let s' := ps.foldl (applyPre sha) s
      (.error 1, (List.range k).map s'.ent) :: observeL legacy sha k s' rest
    | none =>
      let (r, s') := invokeWith legacy sha s st
      (r, (List.range k).map s'.ent) :: observeL legacy sha k s' rest

/-- the state a history with size-limited invocations ends in -/
def stateL (legacy : Bool) (sha : Content → Sum) : RState → List LEv → RState
  | s, [] => s
  | s, .ev (.step st) :: rest => stateL legacy sha (invokeWith legacy sha s st).2 rest
  | s, .ev (.pre p) :: rest => stateL legacy sha (applyPre sha s p) rest
  | s, .limited st :: rest =>
    match limitedPre sha s st with
    | some ps => stateL legacy sha (ps.foldl (applyPre sha) s) rest
    | none => stateL legacy sha (invokeWith legacy sha s st).2 rest

end TaskModel.Remote
