import TaskModel.Remote.Tree
/-!
Remote.TreeLemmas — the traversal of `Remote.Tree` node by node: what a read of a subtree leaves
alone (`frame`), that whatever it hands on was read (`sub`), and that every node it hands on is
trusted (`trust`), proved together by induction on the depth (`readTree_good`).
-/
namespace TaskModel.Remote

/-- what C20 demands of one node `v` that an invocation (cache before: `s`, after: `s'`) handed on as `c`:
the stored checksum of `v` is that of `c`, the cached copy of `v` is `c` (it can be handed on again
from the cache), and the checksum was the stored one before or a prompt for it was due and passed
with the answer given for `v` (or `--yes`) -/
def NodeOk (sha : Content → Sum) (f : RFlags) (w : List (Nat × Hop)) (s s' : RState) (v : Nat) (c : Content) : Prop :=
  (s'.ent v).sum = some (sha c) ∧ usable sha (s'.ent v) = some c ∧
  ((s.ent v).sum = some (sha c) ∨
    (needsPrompt (s.ent v) (sha c) = true ∧ approves f (hopOf w v).answer = true))

theorem readRemote_nodeOk (legacy sha now e f n a r c)
    (h : (readRemote legacy sha now e f n a r).1 = .run c) :
    (readRemote legacy sha now e f n a r).2.sum = some (sha c) ∧
    usable sha (readRemote legacy sha now e f n a r).2 = some c ∧
    (e.sum = some (sha c) ∨ (needsPrompt e (sha c) = true ∧ approves f a = true)) := by
  refine ⟨?_, readRemote_run_usable _ _ _ _ _ _ _ _ _ h, ?_⟩
  · exact usable_sum sha _ c (readRemote_run_usable _ _ _ _ _ _ _ _ _ h)
  · rcases readRemote_spec legacy sha now e f n a r with ⟨_, h2⟩ | ⟨_, c', _, h2, _, h4⟩
    · exact Or.inl (usable_sum sha _ c (h2 c h))
    · rw [h2] at h; cases h; exact h4

/-- the three facts about a reader of subtrees that the induction carries -/
structure Good (sha : Content → Sum) (f : RFlags) (w : List (Nat × Hop)) (rd : Url → RState → TOut) : Prop where
  /-- entries of URLs that were not looked at are as before -/
  frame : ∀ k s v, v ∉ (rd k s).touched → (rd k s).state.ent v = s.ent v
  /-- what is handed on was looked at -/
  sub : ∀ k s v c, (v, c) ∈ (rd k s).trace → v ∈ (rd k s).touched
  /-- in a tree (no URL looked at twice) every node handed on is trusted -/
  trust : ∀ k s, (rd k s).touched.Nodup → ∀ v c, (v, c) ∈ (rd k s).trace →
    NodeOk sha f w s (rd k s).state v c

theorem foldKids_frame (sha f w rd) (h : Good sha f w rd) : ∀ ks s v,
    v ∉ (foldKids rd ks s).touched → (foldKids rd ks s).state.ent v = s.ent v := by
  intro ks
  induction ks with
  | nil => intro s v _; rfl
  | cons k ks ih =>
    intro s v hv
    simp only [foldKids, List.mem_append, not_or] at hv ⊢
    rw [ih _ v hv.2, h.frame k s v hv.1]

theorem foldKids_sub (sha f w rd) (h : Good sha f w rd) : ∀ ks s v c,
    (v, c) ∈ (foldKids rd ks s).trace → v ∈ (foldKids rd ks s).touched := by
  intro ks
  induction ks with
  | nil => intro s v c hm; simp [foldKids] at hm
  | cons k ks ih =>
    intro s v c hm
    simp only [foldKids, List.mem_append] at hm ⊢
    rcases hm with hm | hm
    · exact Or.inl (h.sub k s v c hm)
    · exact Or.inr (ih _ v c hm)

theorem foldKids_trust (sha f w rd) (h : Good sha f w rd) : ∀ ks s,
    (foldKids rd ks s).touched.Nodup → ∀ v c, (v, c) ∈ (foldKids rd ks s).trace →
    NodeOk sha f w s (foldKids rd ks s).state v c := by
  intro ks
  induction ks with
  | nil => intro s _ v c hm; simp [foldKids] at hm
  | cons k ks ih =>
    intro s hnd v c hm
    simp only [foldKids, List.mem_append] at hnd hm ⊢
    obtain ⟨hna, hnb, hdisj⟩ := List.nodup_append.mp hnd
    rcases hm with hm | hm
    · -- a node of the first child: the later children do not look at it
      have hva := h.sub k s v c hm
      have hvb : v ∉ (foldKids rd ks (rd k s).state).touched := fun hb => hdisj v hva v hb rfl
      have hfr := foldKids_frame sha f w rd h ks (rd k s).state v hvb
      obtain ⟨h1, h2, h3⟩ := h.trust k s hna v c hm
      exact ⟨by rw [hfr]; exact h1, by rw [hfr]; exact h2, h3⟩
    · -- a node of a later child: the first child did not look at it
      have hvb := foldKids_sub sha f w rd h ks _ v c hm
      have hva : v ∉ (rd k s).touched := fun ha => hdisj v ha v hvb rfl
      have hfr := h.frame k s v hva
      obtain ⟨h1, h2, h3⟩ := ih _ hnb v c hm
      exact ⟨h1, h2, by rw [hfr] at h3; exact h3⟩

/-- the reader of a subtree, at every depth -/
theorem readTree_good (legacy sha inc f now w) : ∀ fuel anc sp,
    Good sha f w (readTree legacy sha inc f now w fuel anc sp) := by
  intro fuel
  induction fuel with
  | zero =>
    intro anc sp
    refine ⟨?_, ?_, ?_⟩
    · intro k s v _; simp [readTree]
    · intro k s v c hm; simp [readTree] at hm
    · intro k s _ v c hm; simp [readTree] at hm
  | succ fuel ih =>
    intro anc sp
    -- one node: the cases of `readTree`
    have key : ∀ (u : Url) (s : RState),
        (∀ v, v ∉ (readTree legacy sha inc f now w (fuel + 1) anc sp u s).touched →
          (readTree legacy sha inc f now w (fuel + 1) anc sp u s).state.ent v = s.ent v) ∧
        (∀ v c, (v, c) ∈ (readTree legacy sha inc f now w (fuel + 1) anc sp u s).trace →
          v ∈ (readTree legacy sha inc f now w (fuel + 1) anc sp u s).touched) ∧
        ((readTree legacy sha inc f now w (fuel + 1) anc sp u s).touched.Nodup →
          ∀ v c, (v, c) ∈ (readTree legacy sha inc f now w (fuel + 1) anc sp u s).trace →
          NodeOk sha f w s (readTree legacy sha inc f now w (fuel + 1) anc sp u s).state v c) := by
      intro u s
      unfold readTree
      by_cases hanc : u.id ∈ anc
      · rw [if_pos hanc]
        exact ⟨fun _ _ => rfl, fun _ _ hm => by simp at hm, fun _ _ _ hm => by simp at hm⟩
      · rw [if_neg hanc]
        cases hg : gate2 f u with
        | some code =>
          exact ⟨fun _ _ => rfl, fun _ _ hm => by simp at hm, fun _ _ _ hm => by simp at hm⟩
        | none =>
          simp only
          cases hr : readRemote legacy sha now (s.ent u.id) f (net2 sp f (hopOf w u.id).server)
              (hopOf w u.id).answer (landing u (hopOf w u.id).server) with
          | mk res e' =>
            cases res with
            | error code =>
              refine ⟨fun v hv => ?_, fun _ _ hm => by simp at hm, fun _ _ _ hm => by simp at hm⟩
              simp only [List.mem_singleton] at hv
              exact set_ent_other _ _ _ _ hv
            | cleared =>
              refine ⟨fun v hv => ?_, fun _ _ hm => by simp at hm, fun _ _ _ hm => by simp at hm⟩
              simp only [List.mem_singleton] at hv
              exact set_ent_other _ _ _ _ hv
            | run c =>
              simp only
              have hgood := ih (u.id :: anc)
                (sp || spent sha now (s.ent u.id) f (net2 sp f (hopOf w u.id).server))
              refine ⟨fun v hv => ?_, fun v c' hm => ?_, fun hnd v c' hm => ?_⟩
              · simp only [List.mem_cons, not_or] at hv
                rw [foldKids_frame sha f w _ hgood _ _ v hv.2]
                exact set_ent_other _ _ _ _ hv.1
              · simp only [List.mem_cons, Prod.mk.injEq] at hm ⊢
                rcases hm with ⟨hv, _⟩ | hm
                · exact Or.inl hv
                · exact Or.inr (foldKids_sub sha f w _ hgood _ _ v c' hm)
              · obtain ⟨hu, hnd'⟩ := List.nodup_cons.mp hnd
                simp only [List.mem_cons, Prod.mk.injEq] at hm
                rcases hm with ⟨hv, hc⟩ | hm
                · subst hv; subst hc
                  have hfr := foldKids_frame sha f w _ hgood (inc c' (baseOf u e')) (s.set u.id e') u.id hu
                  have hres : (readRemote legacy sha now (s.ent u.id) f (net2 sp f (hopOf w u.id).server)
                      (hopOf w u.id).answer (landing u (hopOf w u.id).server)).1 = .run c' := by rw [hr]
                  obtain ⟨h1, h2, h3⟩ := readRemote_nodeOk _ _ _ _ _ _ _ _ _ hres
                  rw [hr] at h1 h2
                  refine ⟨?_, ?_, h3⟩
                  · rw [hfr, set_ent_same]; exact h1
                  · rw [hfr, set_ent_same]; exact h2
                · have hvt := foldKids_sub sha f w _ hgood _ _ v c' hm
                  have hvu : v ≠ u.id := fun h => hu (h ▸ hvt)
                  obtain ⟨h1, h2, h3⟩ := foldKids_trust sha f w _ hgood _ _ hnd' v c' hm
                  exact ⟨h1, h2, by rw [set_ent_other _ _ _ _ hvu] at h3; exact h3⟩
    exact ⟨fun k s => (key k s).1, fun k s => (key k s).2.1, fun k s => (key k s).2.2⟩

end TaskModel.Remote
