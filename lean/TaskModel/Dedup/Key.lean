/-!
Dedup.Key — which references of a deduplicated task share one execution.

`GetHash` (hash.go) picks the key function from the run mode: `always` → no key, `once` →
taskfile location + local name, `when_changed` → task name + structural hash of the
*compiled* task (`hashstructure.Hash`, internal/hash/hash.go).  hashstructure walks exported
fields only and calls `Hash()` on types that implement `Hashable`; which fields of the
compiled task it reaches is regenerated from the source into `Gen.HashFields` and turned
into a `HashCfg` by `Props.C06`.

The compiled task is modelled as far as call variables can reach it: the resolved variable
set (`t.Vars`: every variable passed in the call is in it), the rendered command texts, the
rendered `env:` values, and the variables handed on to sub-calls and dependencies.  Values
are `Option Nat` (`none`: the call did not pass the variable).
-/
namespace TaskModel.Dedup

/-- variables passed in a call: variable index ↦ value (first binding wins) -/
abbrev Asg := List (Nat × Nat)

/-- canonical form of an assignment over the variable pool `0 … nv-1`: the *set* of
variable values the task is called with (order and repetition of bindings do not matter) -/
def norm (nv : Nat) (σ : Asg) : List (Option Nat) := (List.range nv).map (fun v => σ.lookup v)

/-- where the callee uses variables -/
structure Callee where
  cmdVars : List Nat := []   -- shown in the command text
  envVars : List Nat := []   -- exported through `env:`
  subVars : List Nat := []   -- passed on in `vars:` of a `task:` command
  depVars : List Nat := []   -- passed on in `vars:` of a dependency
deriving Repr, DecidableEq

abbrev Vals := List (Option Nat)

structure Compiled where
  vars : Vals
  cmd  : Vals
  env  : Vals
  sub  : Vals
  dep  : Vals
deriving Repr, DecidableEq

def compile (nv : Nat) (W : Callee) (σ : Asg) : Compiled :=
  let n := norm nv σ
  let get (v : Nat) : Option Nat := (n[v]?).join
  { vars := n, cmd := W.cmdVars.map get, env := W.envVars.map get, sub := W.subVars.map get, dep := W.depVars.map get }

/-- which parts of the compiled task the structural hash reaches -/
structure HashCfg where
  vars : Bool
  cmd  : Bool
  env  : Bool
  sub  : Bool
  dep  : Bool
deriving Repr, DecidableEq

def HashCfg.full : HashCfg := ⟨true, true, true, true, true⟩

inductive RunMode | always | once | whenChanged
deriving Repr, DecidableEq

/-- the key; the hash function is idealised as injective on what it reaches (a collision of
the 64-bit FNV hash is outside the model) -/
def key (h : HashCfg) (c : Compiled) : List (Option Vals) :=
  [if h.vars then some c.vars else none, if h.cmd then some c.cmd else none, if h.env then some c.env else none,
   if h.sub then some c.sub else none, if h.dep then some c.dep else none]

/-- the executions a list of references (in arrival order at the dedup table) produces:
a reference executes iff its key is not yet in the table -/
def execs (m : RunMode) (h : HashCfg) (nv : Nat) (W : Callee) : List Asg → List (List (Option Vals)) → List Compiled
  | [], _ => []
  | σ :: rest, tbl =>
    let c := compile nv W σ
    match m with
    | .always => c :: execs m h nv W rest tbl
    | .once => if tbl.isEmpty then c :: execs m h nv W rest [[]] else execs m h nv W rest tbl
    | .whenChanged =>
      let k := key h c
      if tbl.contains k then execs m h nv W rest tbl else c :: execs m h nv W rest (k :: tbl)

end TaskModel.Dedup
