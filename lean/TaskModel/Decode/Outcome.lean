import TaskModel.Gen.Codes
/-! Outcome classes of one run of the load / list / compile / resolve path and what C16 allows. -/
namespace TaskModel.Decode

inductive Outcome | ok | error (code : Nat) | panic | timeout
deriving DecidableEq, Repr

/-- a documented exit code: a constant of errors/errors.go other than `CodeOk` -/
def documented (c : Nat) : Bool := c != 0 && TaskModel.Gen.Codes.consts.any (fun k => k.2 == c)

/-- what the property allows: success or a diagnosed error with a documented exit code -/
def acceptable : Outcome → Bool
  | .ok => true
  | .error c => documented c
  | .panic | .timeout => false

end TaskModel.Decode
