/-! Outcome classes of one run of the load / list / compile / resolve path and what C16 allows. -/
namespace TaskModel.Decode

inductive Outcome | ok | error (code : Nat) | panic | timeout
deriving DecidableEq, Repr

/-- what the property allows: success or a diagnosed error with an exit code -/
def acceptable : Outcome → Bool
  | .ok | .error _ => true
  | .panic | .timeout => false

end TaskModel.Decode
