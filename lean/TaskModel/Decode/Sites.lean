import TaskModel.Gen.PanicSites
/-
Decode.Sites — every expression on the load / compile / resolve / list / watch path and in the command-line
front end (cmd/task, internal/flags, internal/logger, taskrc) that can
panic by itself (index, slice, unchecked type assertion, Must*, explicit panic, a field read through
the element of a list of pointers without a nil guard), as
extracted from the current source (local variables printed as ‹their type›, so renaming them does not
change a site), with the reason it cannot fire.  A site that is not
in this table (a new unchecked index, say) breaks `all_panic_sites_discharged`.
Reasons: `guard` = the enclosing code checks the bound first (quoted); `loop` = loop
index below the length of the indexed slice; `split` = result of Split/SplitN/Cut on a
string known to contain the separator, or element 0; `yaml` = yaml.v3 mapping nodes have
an even number of children and the loop steps by two (`mapping_pairs_in_range`);
`const` = non-empty package-level table; `lib` = documented library invariant;
`init` = only at program start with a constant argument.
-/
namespace TaskModel.Decode

/-- (function, kind, normalised expression, number of occurrences covered, class of the reason, reason).  A row covers
occurrences `0 … n-1` of that expression in that function (in source order) — the reason was checked for each of them;
one more occurrence of the same shape is a new, undischarged site. -/
def discharged : List (String × String × String × Nat × String × String) := [
  ("args:Get", "slice", "‹[]string›[‹int›:]", 1, "guard", "guard: doubleDashPos = pflag.ArgsLenAtDash() is -1 (returned before) or ≤ len(args)"),
  ("args:Get", "slice", "‹[]string›[:‹int›]", 1, "guard", "guard: doubleDashPos = pflag.ArgsLenAtDash() is -1 (returned before) or ≤ len(args)"),
  ("args:splitVar", "index", "‹[]string›[0]", 1, "split", "split: SplitN always returns at least one element"),
  ("args:splitVar", "index", "‹[]string›[1]", 1, "guard", "guard: only called for arguments that contain '=' (Parse checks strings.Contains(arg, \"=\")), SplitN(s, \"=\", 2) then has two elements"),
  ("errors:TaskfileDecodeError.Error", "index", "‹*yaml.TypeError›.Errors[0]", 1, "guard", "guard: len(te.Errors) > 1 is handled before, yaml.TypeError has at least one entry"),
  ("errors:extractTypeErrorMessage", "index", "‹[]string›[1]", 1, "guard", "guard: len(matches) == 2 checked"),
  ("internal/deepcopy:Slice", "index", "‹[]T›[‹int›]", 2, "loop", "loop: c has the length of the ranged slice"),
  ("internal/deepcopy:TraverseStringsFunc", "assert", "‹reflect.Value›.Interface().(T)", 1, "lib", "lib: copy is reflect.New of T's type, Elem has dynamic type T"),
  ("internal/env:GetEnviron", "index", "‹[]string›[0]", 1, "split", "split: SplitN returns at least one element"),
  ("internal/env:GetEnviron", "index", "‹[]string›[1]", 1, "lib", "lib: os.Environ entries have the form key=value"),
  ("internal/execext:ExpandLiteral", "index", "‹[]*syntax.Word›[0]", 1, "guard", "guard: len(words) == 0 returns before"),
  ("internal/output:prefixWriter.writeLine", "index", "PrefixColorSequence[‹uint›%uint(len(PrefixColorSequence))]", 1, "const", "const: modulo the length of a non-empty table"),
  ("internal/sort:AlphaNumericWithRootTasksFirst", "index", "‹[]string›[‹int›]", 4, "loop", "loop: indices handed to sort.Slice's less function"),
  ("internal/version:getCommit", "slice", "‹debug.BuildSetting›.Value[:7]", 1, "guard", "guard: len(setting.Value) > 7 branch; vcs.revision is a full hash"),
  ("task:Compiler.getSpecialVars", "index", "os.‹[]string›[0]", 1, "lib", "lib: a process has a program name"),
  ("task:Executor.GetTask", "index", "‹[]*task.MatchingTask›[0]", 2, "guard", "guard: len(matchingTasks) > 0"),
  ("task:Executor.GetTaskList", "index", "‹[]*ast.Task›[‹int›]", 2, "loop", "loop"),
  ("task:Executor.RunTask", "index", "‹*ast.Task›.Cmds[‹int›]", 1, "loop", "loop: i ranges over t.Cmds"),
  ("task:Executor.ToEditorOutput", "index", "‹*editors.Taskfile›.Tasks[‹int›]", 2, "loop", "loop: o.Tasks has len(tasks) elements"),
  ("task:Executor.ToEditorOutput", "index", "‹[]*ast.Task›[‹int›]", 11, "loop", "loop"),
  ("task:Executor.compiledTask", "index", "‹[]string›[‹int›]", 2, "guard", "guard: len(keys) > 0 only when keys was filled in step with list (map loop variable)"),
  ("task:Executor.runCommand", "index", "‹*ast.Task›.Cmds[‹int›]", 1, "loop", "loop: called with an index of t.Cmds"),
  ("task:Executor.runDeferred", "index", "‹*ast.Task›.Cmds[‹int›]", 1, "loop", "loop: same"),
  ("task:asAnySlice", "index", "‹[]any›[‹int›]", 1, "loop", "loop"),
  ("task:itemsFromFor", "index", "‹[]string›[‹int›]", 2, "loop", "loop"),
  ("taskfile/ast:Includes.UnmarshalYAML", "index", "‹*yaml.Node›.Content[‹int›+1]", 1, "yaml", "yaml"),
  ("taskfile/ast:Includes.UnmarshalYAML", "index", "‹*yaml.Node›.Content[‹int›]", 1, "yaml", "yaml"),
  ("taskfile/ast:Matrix.UnmarshalYAML", "index", "‹*yaml.Node›.Content[‹int›+1]", 1, "yaml", "yaml"),
  ("taskfile/ast:Matrix.UnmarshalYAML", "index", "‹*yaml.Node›.Content[‹int›]", 1, "yaml", "yaml"),
  ("taskfile/ast:Platform.parsePlatform", "index", "‹[]string›[0]", 1, "guard", "guard: switch on len(splitValues)"),
  ("taskfile/ast:Platform.parsePlatform", "index", "‹[]string›[1]", 1, "guard", "guard: case 2"),
  ("taskfile/ast:Task.WildcardMatch", "must", "regexp.MustCompile(‹string›)", 1, "lib", "lib: the pattern is ^ + QuoteMeta(name) with \\\\* replaced by (.*) + $ — always a valid expression"),
  ("taskfile/ast:Task.WildcardMatch", "slice", "‹[]string›[1:]", 1, "guard", "guard: len(wildcards) == 0 returns before"),
  ("taskfile/ast:TaskfileGraph.Merge", "index", "‹[]string›[0]", 1, "lib", "lib: a graph with a root vertex sorts to a non-empty list"),
  ("taskfile/ast:TaskfileGraph.Merge", "index", "‹[]string›[‹int›]", 1, "loop", "loop: i from len-1 down to 1"),
  ("taskfile/ast:Tasks.Merge", "index", "‹*ast.Task›.Aliases[‹int›]", 1, "loop", "loop"),
  ("taskfile/ast:Tasks.UnmarshalYAML", "index", "‹*yaml.Node›.Content[‹int›+1]", 1, "yaml", "yaml"),
  ("taskfile/ast:Tasks.UnmarshalYAML", "index", "‹*yaml.Node›.Content[‹int›]", 1, "yaml", "yaml"),
  ("taskfile/ast:Var.UnmarshalYAML", "index", "‹*yaml.Node›.Content[0]", 1, "guard", "guard: len(node.Content) == 0 returns a decode error before"),
  ("taskfile/ast:Vars.UnmarshalYAML", "index", "‹*yaml.Node›.Content[‹int›+1]", 1, "yaml", "yaml"),
  ("taskfile/ast:Vars.UnmarshalYAML", "index", "‹*yaml.Node›.Content[‹int›]", 1, "yaml", "yaml"),
  ("taskfile/ast:duplicateKeyError", "index", "‹*yaml.Node›.Content[‹int›]", 2, "loop", "loop: called from the hand-written mapping loops with their own index i (a key position, i < len(Content)); the inner index j runs from 0 below i"),
  ("taskfile:Reader.include", "index", "‹*taskfile.readResult›.includes[‹int›]", 2, "loop", "loop: includes has Includes.Len() slots (made right after readNode succeeded), i counts the includes (both assignments sit in that loop)"),
  ("taskfile:NewSnippet", "slice", "‹[]string›[‹*taskfile.Snippet›.start-1 : ‹*taskfile.Snippet›.end]", 2, "guard", "guard: start and end are clamped to both line lists (snippet_bounds)"),
  ("taskfile:Reader.include", "assert", "‹graph.Edge[*ast.TaskfileVertex]›.Properties.Data.([]*ast.Include)", 1, "lib", "lib: the only writer of edge data stores []*ast.Include"),
  ("taskfile:Reader.include", "index", "‹[]*taskfile.includeEdge›[‹int›]", 1, "loop", "loop: edges has Includes.Len() slots, i counts the includes"),
  ("taskfile:Snippet.String", "index", "‹*taskfile.Snippet›.linesRaw[‹int›]", 1, "loop", "loop: i ranges over linesHighlighted, which has the same length (both sliced with the same bounds)"),
  ("taskfile:getScheme", "index", "strings.Split(‹*url.URL›.Path, \"//\")[0]", 1, "split", "split: element 0 always exists"),
  ("taskfile:getScheme", "slice", "‹string›[:‹int›]", 1, "guard", "guard: i := strings.Index(uri, \"://\"); i != -1"),
  ("taskfile:init", "panic", "panic(‹error›)", 2, "init", "init: chroma style registration with a constant definition"),
  -- the command-line front end, flags / environment / .taskrc readers, logger, watch mode (scope added after audit C)
  ("cmd/task:run", "index", "‹[]string›[0]", 1, "guard", "guard: len(args) > 0 checked on the line before"),
  ("internal/experiments:Parse", "unchecked", "taskrc.NewNode(\"\", ‹string›)", 1, "guard", "guard: the nil node of a failed search is handed to Reader.Read, which returns os.ErrInvalid for a nil node before touching it"),
  ("internal/experiments:Parse", "unchecked", "‹*taskrc.Reader›.Read(‹*taskrc.Node›)", 1, "guard", "guard: the nil config of a failed read is handed to experiments.New, which checks config != nil before reading the map"),
  ("internal/flags:init", "slice", "os.‹[]string›[1:]", 1, "lib", "lib: a process has a program name (len(os.Args) ≥ 1)"),
  ("internal/logger:Logger.Prompt", "index", "‹[]string›[0]", 1, "guard", "guard: len(continueValues) == 0 returns an error before"),
  ("internal/logger:envColor", "index", "‹[]color.Attribute›[‹int›]", 1, "loop", "loop: attributes has len(attributeStrs) elements, i ranges over attributeStrs"),
  ("internal/slicesext:Convert", "index", "‹[]U›[‹int›]", 1, "loop", "loop: result has len(s) elements, i ranges over s"),
  ("internal/slicesext:UniqueJoin", "slice", "‹[]T›[‹int›:]", 1, "loop", "loop: i is the number of elements copied so far, never more than the total length r was made with"),
  ("task:Executor.watchTasks", "index", "‹[]string›[‹int›]", 1, "loop", "loop: tasks has len(calls) elements, i ranges over calls"),
  -- `nilelem`: a field of the element of a list of pointers read in a loop without a nil guard (a null YAML list entry
  -- decodes to a nil element).  The lists below never hold one.  `compiled` reasons are CHECKED: see `flowsOk`.
  ("internal/fingerprint:ChecksumChecker.IsUpToDate", "nilelem", "range ‹*ast.Task›.Generates: ‹*ast.Glob›.Negate", 1, "compiled", "compiled: the checkers are handed the COMPILED task; its Generates come from templater.ReplaceGlobs, which drops nil entries (compiled_lists_nil_free)"),
  ("internal/fingerprint:TimestampChecker.IsUpToDate", "nilelem", "range ‹*ast.Task›.Generates: ‹*ast.Glob›.Negate", 1, "compiled", "compiled: same"),
  ("internal/summary:printTaskCommands", "nilelem", "range ‹*ast.Task›.Cmds: ‹*ast.Cmd›.Cmd", 1, "compiled", "compiled: PrintTask gets the compiled task; compiledTask skips nil commands (compiled_lists_nil_free)"),
  ("internal/summary:printTaskDependencies", "nilelem", "range ‹*ast.Task›.Deps: ‹*ast.Dep›.Task", 1, "compiled", "compiled: same, nil dependencies are skipped"),
  ("task:Executor.areTaskPreconditionsMet", "nilelem", "range ‹*ast.Task›.Preconditions: ‹*ast.Precondition›.Sh", 1, "compiled", "compiled: RunTask passes the compiled task; nil preconditions are skipped (compiled_lists_nil_free)"),
  ("task:Executor.ListTasks", "nilelem", "range ‹[]*ast.Task›: ‹*ast.Task›.Task", 1, "code", "code: the list is built by GetTaskList from compiled tasks (each the address of a fresh struct)"),
  ("task:Executor.Run", "nilelem", "range ‹[]*task.Call›: ‹*task.Call›.Task", 1, "code", "code: calls are built by args.Parse / the CLI as &task.Call{…}; an API argument, not decoded input"),
  ("taskfile/ast:NewIncludes", "nilelem", "range ‹[]*ast.IncludeElement›: ‹*ast.IncludeElement›.Key", 1, "code", "code: constructor arguments written in Go, not decoded input"),
  ("taskfile/ast:NewMatrix", "nilelem", "range ‹[]*ast.MatrixElement›: ‹*ast.MatrixElement›.Key", 1, "code", "code: same"),
  ("taskfile/ast:NewTasks", "nilelem", "range ‹[]*ast.TaskElement›: ‹*ast.TaskElement›.Key", 1, "code", "code: same"),
  ("taskfile/ast:NewVars", "nilelem", "range ‹[]*ast.VarElement›: ‹*ast.VarElement›.Key", 1, "code", "code: same"),
  ("task:Executor.watchTasks", "nilelem", "range ‹[]*task.Call›: ‹*task.Call›.Task", 1, "code", "code: calls are built by args.Parse / the CLI as &task.Call{…}; an API argument, not decoded input"),
  ("task:Executor.registerWatchedDirs", "nilelem", "range ‹*ast.Task›.Cmds: ‹*ast.Cmd›.Task", 1, "compiled", "compiled: the task is the result of e.CompiledTask in the same closure (taskFlows row); compiledTask skips nil commands"),
  ("task:Executor.registerWatchedDirs", "nilelem", "range ‹*ast.Task›.Deps: ‹*ast.Dep›.Task", 1, "compiled", "compiled: same, nil dependencies are skipped")]

def isDischarged (s : String × String × String × Nat) : Bool :=
  discharged.any (fun d => d.1 == s.1 && d.2.1 == s.2.1 && d.2.2.1 == s.2.2.1 && s.2.2.2 < d.2.2.2.1)

/-! ### the fact behind the `compiled` reasons, checked

A `compiled` reason says: the task whose list is ranged over is the COMPILED task (its `Cmds`, `Deps`, `Preconditions`
hold no nil entry, its `Sources` / `Generates` come out of `ReplaceGlobs`: `compiled_lists_nil_free`).  That is a claim
about every CALLER, and it was false once (`fingerprint.Globs` in watch mode, fix O8-3; `Globs` now guards by itself and
has no row any more).  `Gen.PanicSites.taskFlows` lists every call of the module that hands over a `*ast.Task` (or a
list of them) with the origin of that value in the calling function, and for loops over a local task the origin of the
local.  `flowsOk n f`: every row for `f` has its task from one of the `compiledProducers`, or takes it from a parameter of
a function for which the same holds (`n` levels up), or sits in a function nothing refers to (`deadFuncs`:
`summary.PrintTasks`, which would hand over RAW tasks, is such a function) — and there is at least one row. -/

/-- functions whose result is a compiled task (or a list of compiled tasks) -/
def compiledProducers : List String :=
  ["task:Executor.CompiledTask", "task:Executor.FastCompiledTask", "task:Executor.compiledTask",
   "task:Executor.GetTaskList"]   -- GetTaskList replaces every element by FastCompiledTask's result before returning

def flowRowOk (recur : String → Bool) (r : String × String × String × String) : Bool :=
  TaskModel.Gen.PanicSites.deadFuncs.contains r.2.1 ||
  (r.2.2.1 == "call" && compiledProducers.contains r.2.2.2) ||
  (r.2.2.1 == "param" && recur r.2.1)

def flowsOkIn (rows : List (String × String × String × String)) : Nat → String → Bool
  | 0, _ => false
  | n + 1, f =>
    rows.any (fun r => r.1 == f) &&
    rows.all (fun r => r.1 != f || flowRowOk (flowsOkIn rows n) r)

def flowsOk (n : Nat) (f : String) : Bool := flowsOkIn TaskModel.Gen.PanicSites.taskFlows n f

/-- the functions whose discharge reason is `compiled` -/
def compiledConsumers : List String :=
  (discharged.filter (fun d => d.2.2.2.2.1 == "compiled")).map (·.1)

/-! ### termination of the recursive functions

`Gen.PanicSites.recursive`: every function of the module on a cycle of the static call graph (calls through interfaces
reach every implementing method; a closure that calls itself through the variable it is assigned to is `f·g`).  Each
needs a bound, recorded here with its class: `visited` = a set of visited nodes checked before the recursive call,
`counter` = a call counter with a fixed maximum, `structural` = the argument of the recursive call is a proper part of
the argument (finite tree), `nocycle` = the static cycle cannot be taken at run time (said why). -/

def terminates : List (String × String × String) := [
  ("errors:TaskfileDecodeError.Debug·debug", "structural", "follows errors.Unwrap of the wrapped error: a finite chain built by fmt.Errorf / the decoders"),
  ("internal/deepcopy:TraverseStringsFunc·traverseFunc", "structural", "recursion on the fields / elements / map values of a reflect.Value decoded by yaml.v3 into `any`: aliases are expanded into copies, the value is a finite tree (a time.Time is left alone since 920130a)"),
  ("internal/flags:flagsOption.ApplyToExecutor", "nocycle", "ApplyToExecutor calls e.Options with the task.With… options only; none of them is a flagsOption, so Options does not come back here (the cycle is an artefact of resolving the interface call ExecutorOption.ApplyToExecutor to every implementation)"),
  ("task:Executor.Options", "nocycle", "same"),
  ("task:Executor.RunTask", "counter", "every RunTask increments taskCallCount[t.Task] and stops at MaximumTaskCall (Gen.Codes.maximumTaskCall), and a call never waits for an execution that waits for it (C07_terminates_all, C07_no_deadlock); under --watch the counter is off and the bound is the fingerprint check of the tasks (a legal cycle is one that sources / status end)"),
  ("task:Executor.runCommand", "counter", "member of RunTask's cycle"),
  ("task:Executor.runDeferred", "counter", "member of RunTask's cycle"),
  ("task:Executor.runDeps", "counter", "member of RunTask's cycle"),
  ("task:Executor.registerWatchedDirs·registerTaskDirs", "visited", "fix O8-5: a (task, hash of the call variables) pair is visited once (`visited`), and a task at most MaximumTaskCall times (`visits`) — before the fix a cyclic call graph kept the walk going for ever"),
  ("task:execution.waitsFor·visit", "visited", "`seen` is checked and set before the loop over x.waits"),
  ("taskfile/ast:Includes.Set", "nocycle", "Set calls NewIncludes() without elements (only to create an empty map); NewIncludes calls Set once per element it was given: none"),
  ("taskfile/ast:NewIncludes", "nocycle", "same"),
  ("taskfile/ast:Matrix.Set", "nocycle", "same pattern: NewMatrix() without elements"),
  ("taskfile/ast:NewMatrix", "nocycle", "same"),
  ("taskfile/ast:Tasks.Set", "nocycle", "same pattern: NewTasks() without elements"),
  ("taskfile/ast:NewTasks", "nocycle", "same"),
  ("taskfile/ast:Vars.Set", "nocycle", "same pattern: NewVars() without elements"),
  ("taskfile/ast:NewVars", "nocycle", "same"),
  ("taskfile:Reader.firstError", "visited", "`seen[location]` is set on entry and an include whose location is in `seen` is skipped before the recursive call; a location on the current stack is a cycle error"),
  ("taskfile:Reader.include", "visited", "a vertex is added to the graph before its includes are read; AddVertex of a known hash returns ErrVertexAlreadyExists and the function returns; an edge that would close a cycle is refused (ErrEdgeCreatesCycle → TaskfileCycleError, C08_cycle)")]

def boundClasses : List String := ["visited", "counter", "structural", "nocycle"]

def isBounded (r : String × String) : Bool :=
  terminates.any (fun t => t.1 == r.1 && boundClasses.contains t.2.1)

/-! ### the fact behind the `compiled` reasons

`Gen.PanicSites.compiledLists`: how `Executor.compiledTask` fills each field of the compiled task that is a list of
pointers.  A field is NIL-FREE when its elements are appended in a loop that skips nil elements first (`filtered-nil`)
or come out of `templater.ReplaceGlobs` (whose own loop skips them: were that guard dropped, the loop would show up as
an undischarged `nilelem` site).  A field handed over as it is (`pass`) may hold nil elements: it must be in the
reviewed list below, and every loop over it has to guard — an unguarded one is a `nilelem` site with no entry in
`discharged` (that is how `platforms: [~]` and `requires: {vars: [~]}` crashed before the repair). -/

def nilFreeHow (h : String) : Bool := h == "filtered-nil" || h == "call:templater.ReplaceGlobs"

/-- list fields that reach the compiled task unfiltered; their readers guard every element -/
def passThroughLists : List String := ["Platforms"]

def compiledListsOk (rows : List (String × String)) : Bool :=
  rows.all (fun r => rows.any (fun r' => r'.1 == r.1 && nilFreeHow r'.2) || (r.2 == "pass" && passThroughLists.contains r.1))

/-! ### the local arguments behind the `yaml` and snippet reasons -/

/-- stepping through an even-length child list by two never leaves it -/
theorem mapping_pairs_in_range (n i : Nat) (hn : n % 2 = 0) (hi : i % 2 = 0) (h : i < n) : i + 1 < n := by omega

/-- `NewSnippet`'s bounds (after the repair), over the integers as Go computes them -/
def snipEnd (line pad lenRaw lenHi : Int) : Int := max (min (line + pad) (min (lenRaw - 1) lenHi)) 0
def snipStart (line pad lenRaw lenHi : Int) : Int := min (max (line - pad) 1) (snipEnd line pad lenRaw lenHi + 1)

/-- both slice expressions `xs[start-1 : end]` are in range for both line lists -/
theorem snippet_bounds (line pad lenRaw lenHi : Int) (hr : 1 ≤ lenRaw) (hh : 0 ≤ lenHi) :
    0 ≤ snipStart line pad lenRaw lenHi - 1 ∧
    snipStart line pad lenRaw lenHi - 1 ≤ snipEnd line pad lenRaw lenHi ∧
    snipEnd line pad lenRaw lenHi ≤ lenRaw ∧ snipEnd line pad lenRaw lenHi ≤ lenHi := by
  unfold snipStart snipEnd
  omega

/-- the unrepaired bounds could leave the highlighted list (what the repair fixed) -/
example : ¬ (∀ line pad lenRaw lenHi : Int, 1 ≤ lenRaw → 0 ≤ lenHi →
    min (line + pad) (lenRaw - 1) ≤ lenHi) := by
  intro h; have := h 1 2 5 1 (by decide) (by decide); omega

end TaskModel.Decode
