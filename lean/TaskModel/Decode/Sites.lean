import TaskModel.Gen.PanicSites
/-
Decode.Sites — every expression on the load / compile / resolve / list path that can
panic by itself (index, slice, unchecked type assertion, Must*, explicit panic, a field read through
the element of a list of pointers without a nil guard), as
extracted from the current source (local variables printed as ‹their type›, so renaming them does not
change a site), with the reason it cannot fire.  A site that is not
in this table (a new unchecked index, say) breaks `all_panic_sites_discharged`.
Reasons: `guard` = the enclosing code checks the bound first (quoted); `loop` = loop
index below the length of the indexed slice; `split` = result of Split/SplitN/Cut on a
string known to contain the separator, or element 0; `yaml` = yaml.v3 mapping nodes have
an even number of children and the loop steps by two (`mapping_pairs_in_range`);
`const` = non-empty package-level table; `lib` = documented library invariant;
`init` = only at program start with a constant argument.
-/
namespace TaskModel.Decode

def discharged : List (String × String × String × String) := [
  ("args:Get", "slice", "‹[]string›[‹int›:]", "guard: doubleDashPos = pflag.ArgsLenAtDash() is -1 (returned before) or ≤ len(args)"),
  ("args:Get", "slice", "‹[]string›[:‹int›]", "guard: doubleDashPos = pflag.ArgsLenAtDash() is -1 (returned before) or ≤ len(args)"),
  ("args:splitVar", "index", "‹[]string›[0]", "split: SplitN always returns at least one element"),
  ("args:splitVar", "index", "‹[]string›[1]", "guard: only called for arguments that contain '=' (Parse checks strings.Contains(arg, \"=\")), SplitN(s, \"=\", 2) then has two elements"),
  ("errors:TaskfileDecodeError.Error", "index", "‹*yaml.TypeError›.Errors[0]", "guard: len(te.Errors) > 1 is handled before, yaml.TypeError has at least one entry"),
  ("errors:extractTypeErrorMessage", "index", "‹[]string›[1]", "guard: len(matches) == 2 checked"),
  ("internal/deepcopy:Slice", "index", "‹[]T›[‹int›]", "loop: c has the length of the ranged slice"),
  ("internal/deepcopy:TraverseStringsFunc", "assert", "‹reflect.Value›.Interface().(T)", "lib: copy is reflect.New of T's type, Elem has dynamic type T"),
  ("internal/env:GetEnviron", "index", "‹[]string›[0]", "split: SplitN returns at least one element"),
  ("internal/env:GetEnviron", "index", "‹[]string›[1]", "lib: os.Environ entries have the form key=value"),
  ("internal/execext:ExpandLiteral", "index", "‹[]*syntax.Word›[0]", "guard: len(words) == 0 returns before"),
  ("internal/output:prefixWriter.writeLine", "index", "PrefixColorSequence[‹uint›%uint(len(PrefixColorSequence))]", "const: modulo the length of a non-empty table"),
  ("internal/sort:AlphaNumericWithRootTasksFirst", "index", "‹[]string›[‹int›]", "loop: indices handed to sort.Slice's less function"),
  ("internal/version:getCommit", "slice", "‹debug.BuildSetting›.Value[:7]", "guard: len(setting.Value) > 7 branch; vcs.revision is a full hash"),
  ("task:Compiler.getSpecialVars", "index", "os.‹[]string›[0]", "lib: a process has a program name"),
  ("task:Executor.GetTask", "index", "‹[]*task.MatchingTask›[0]", "guard: len(matchingTasks) > 0"),
  ("task:Executor.GetTaskList", "index", "‹[]*ast.Task›[‹int›]", "loop"),
  ("task:Executor.RunTask", "index", "‹*ast.Task›.Cmds[‹int›]", "loop: i ranges over t.Cmds"),
  ("task:Executor.ToEditorOutput", "index", "‹*editors.Taskfile›.Tasks[‹int›]", "loop: o.Tasks has len(tasks) elements"),
  ("task:Executor.ToEditorOutput", "index", "‹[]*ast.Task›[‹int›]", "loop"),
  ("task:Executor.compiledTask", "index", "‹[]string›[‹int›]", "guard: len(keys) > 0 only when keys was filled in step with list (map loop variable)"),
  ("task:Executor.runCommand", "index", "‹*ast.Task›.Cmds[‹int›]", "loop: called with an index of t.Cmds"),
  ("task:Executor.runDeferred", "index", "‹*ast.Task›.Cmds[‹int›]", "loop: same"),
  ("task:asAnySlice", "index", "‹[]any›[‹int›]", "loop"),
  ("task:itemsFromFor", "index", "‹[]string›[‹int›]", "loop"),
  ("taskfile/ast:Includes.UnmarshalYAML", "index", "‹*yaml.Node›.Content[‹int›+1]", "yaml"),
  ("taskfile/ast:Includes.UnmarshalYAML", "index", "‹*yaml.Node›.Content[‹int›]", "yaml"),
  ("taskfile/ast:Matrix.UnmarshalYAML", "index", "‹*yaml.Node›.Content[‹int›+1]", "yaml"),
  ("taskfile/ast:Matrix.UnmarshalYAML", "index", "‹*yaml.Node›.Content[‹int›]", "yaml"),
  ("taskfile/ast:Platform.parsePlatform", "index", "‹[]string›[0]", "guard: switch on len(splitValues)"),
  ("taskfile/ast:Platform.parsePlatform", "index", "‹[]string›[1]", "guard: case 2"),
  ("taskfile/ast:Task.WildcardMatch", "must", "regexp.MustCompile(‹string›)", "lib: the pattern is ^ + QuoteMeta(name) with \\\\* replaced by (.*) + $ — always a valid expression"),
  ("taskfile/ast:Task.WildcardMatch", "slice", "‹[]string›[1:]", "guard: len(wildcards) == 0 returns before"),
  ("taskfile/ast:TaskfileGraph.Merge", "index", "‹[]string›[0]", "lib: a graph with a root vertex sorts to a non-empty list"),
  ("taskfile/ast:TaskfileGraph.Merge", "index", "‹[]string›[‹int›]", "loop: i from len-1 down to 1"),
  ("taskfile/ast:Tasks.Merge", "index", "‹*ast.Task›.Aliases[‹int›]", "loop"),
  ("taskfile/ast:Tasks.UnmarshalYAML", "index", "‹*yaml.Node›.Content[‹int›+1]", "yaml"),
  ("taskfile/ast:Tasks.UnmarshalYAML", "index", "‹*yaml.Node›.Content[‹int›]", "yaml"),
  ("taskfile/ast:Var.UnmarshalYAML", "index", "‹*yaml.Node›.Content[0]", "guard: len(node.Content) == 0 returns a decode error before"),
  ("taskfile/ast:Vars.UnmarshalYAML", "index", "‹*yaml.Node›.Content[‹int›+1]", "yaml"),
  ("taskfile/ast:Vars.UnmarshalYAML", "index", "‹*yaml.Node›.Content[‹int›]", "yaml"),
  ("taskfile/ast:duplicateKeyError", "index", "‹*yaml.Node›.Content[‹int›]", "loop: called from the hand-written mapping loops with their own index i (a key position, i < len(Content)); the inner index j runs from 0 below i"),
  ("taskfile:NewSnippet", "slice", "‹[]string›[‹*taskfile.Snippet›.start-1 : ‹*taskfile.Snippet›.end]", "guard: start and end are clamped to both line lists (snippet_bounds)"),
  ("taskfile:Reader.include", "assert", "‹graph.Edge[*ast.TaskfileVertex]›.Properties.Data.([]*ast.Include)", "lib: the only writer of edge data stores []*ast.Include"),
  ("taskfile:Reader.include", "index", "‹*taskfile.readResult›.includes[‹int›]", "loop: includes has Includes.Len() slots (made right after readNode succeeded), i counts the includes"),
  ("taskfile:Reader.include", "index", "‹[]*taskfile.includeEdge›[‹int›]", "loop: edges has Includes.Len() slots, i counts the includes"),
  ("taskfile:Snippet.String", "index", "‹*taskfile.Snippet›.linesRaw[‹int›]", "loop: i ranges over linesHighlighted, which has the same length (both sliced with the same bounds)"),
  ("taskfile:getScheme", "index", "strings.Split(‹*url.URL›.Path, \"//\")[0]", "split: element 0 always exists"),
  ("taskfile:getScheme", "slice", "‹string›[:‹int›]", "guard: i := strings.Index(uri, \"://\"); i != -1"),
  ("taskfile:init", "panic", "panic(‹error›)", "init: chroma style registration with a constant definition"),
  -- `nilelem`: a field of the element of a list of pointers read in a loop without a nil guard (a null YAML list entry
  -- decodes to a nil element).  The lists below never hold one:
  ("internal/fingerprint:ChecksumChecker.IsUpToDate", "nilelem", "range ‹*ast.Task›.Generates: ‹*ast.Glob›.Negate", "compiled: the checkers are handed the COMPILED task; its Generates come from templater.ReplaceGlobs, which drops nil entries (compiled_lists_nil_free)"),
  ("internal/fingerprint:TimestampChecker.IsUpToDate", "nilelem", "range ‹*ast.Task›.Generates: ‹*ast.Glob›.Negate", "compiled: same"),
  ("internal/fingerprint:Globs", "nilelem", "range ‹[]*ast.Glob›: ‹*ast.Glob›.Glob", "compiled: called with Sources / Generates of a compiled task (ReplaceGlobs dropped the nil entries)"),
  ("internal/summary:printTaskCommands", "nilelem", "range ‹*ast.Task›.Cmds: ‹*ast.Cmd›.Cmd", "compiled: PrintTask gets the compiled task; compiledTask skips nil commands (compiled_lists_nil_free)"),
  ("internal/summary:printTaskDependencies", "nilelem", "range ‹*ast.Task›.Deps: ‹*ast.Dep›.Task", "compiled: same, nil dependencies are skipped"),
  ("task:Executor.areTaskPreconditionsMet", "nilelem", "range ‹*ast.Task›.Preconditions: ‹*ast.Precondition›.Sh", "compiled: RunTask passes the compiled task; nil preconditions are skipped (compiled_lists_nil_free)"),
  ("task:Executor.ListTasks", "nilelem", "range ‹[]*ast.Task›: ‹*ast.Task›.Task", "code: the list is built by GetTaskList from compiled tasks (each the address of a fresh struct)"),
  ("task:Executor.Run", "nilelem", "range ‹[]*task.Call›: ‹*task.Call›.Task", "code: calls are built by args.Parse / the CLI as &task.Call{…}; an API argument, not decoded input"),
  ("taskfile/ast:NewIncludes", "nilelem", "range ‹[]*ast.IncludeElement›: ‹*ast.IncludeElement›.Key", "code: constructor arguments written in Go, not decoded input"),
  ("taskfile/ast:NewMatrix", "nilelem", "range ‹[]*ast.MatrixElement›: ‹*ast.MatrixElement›.Key", "code: same"),
  ("taskfile/ast:NewTasks", "nilelem", "range ‹[]*ast.TaskElement›: ‹*ast.TaskElement›.Key", "code: same"),
  ("taskfile/ast:NewVars", "nilelem", "range ‹[]*ast.VarElement›: ‹*ast.VarElement›.Key", "code: same")]

def isDischarged (s : String × String × String) : Bool :=
  discharged.any (fun d => d.1 == s.1 && d.2.1 == s.2.1 && d.2.2.1 == s.2.2)

/-! ### the fact behind the `compiled` reasons

`Gen.PanicSites.compiledLists`: how `Executor.compiledTask` fills each field of the compiled task that is a list of
pointers.  A field is NIL-FREE when its elements are appended in a loop that skips nil elements first (`filtered-nil`)
or come out of `templater.ReplaceGlobs` (whose own loop skips them: were that guard dropped, the loop would show up as
an undischarged `nilelem` site).  A field handed over as it is (`pass`) may hold nil elements: it must be in the
reviewed list below, and every loop over it has to guard — an unguarded one is a `nilelem` site with no entry in
`discharged` (that is how `platforms: [~]` and `requires: {vars: [~]}` crashed before the repair). -/

def nilFreeHow (h : String) : Bool := h == "filtered-nil" || h == "call:templater.ReplaceGlobs"

/-- list fields that reach the compiled task unfiltered; their readers guard every element -/
def passThroughLists : List String := ["Platforms"]

def compiledListsOk (rows : List (String × String)) : Bool :=
  rows.all (fun r => rows.any (fun r' => r'.1 == r.1 && nilFreeHow r'.2) || (r.2 == "pass" && passThroughLists.contains r.1))

/-! ### the local arguments behind the `yaml` and snippet reasons -/

/-- stepping through an even-length child list by two never leaves it -/
theorem mapping_pairs_in_range (n i : Nat) (hn : n % 2 = 0) (hi : i % 2 = 0) (h : i < n) : i + 1 < n := by omega

/-- `NewSnippet`'s bounds (after the repair), over the integers as Go computes them -/
def snipEnd (line pad lenRaw lenHi : Int) : Int := max (min (line + pad) (min (lenRaw - 1) lenHi)) 0
def snipStart (line pad lenRaw lenHi : Int) : Int := min (max (line - pad) 1) (snipEnd line pad lenRaw lenHi + 1)

/-- both slice expressions `xs[start-1 : end]` are in range for both line lists -/
theorem snippet_bounds (line pad lenRaw lenHi : Int) (hr : 1 ≤ lenRaw) (hh : 0 ≤ lenHi) :
    0 ≤ snipStart line pad lenRaw lenHi - 1 ∧
    snipStart line pad lenRaw lenHi - 1 ≤ snipEnd line pad lenRaw lenHi ∧
    snipEnd line pad lenRaw lenHi ≤ lenRaw ∧ snipEnd line pad lenRaw lenHi ≤ lenHi := by
  unfold snipStart snipEnd
  omega

/-- the unrepaired bounds could leave the highlighted list (what the repair fixed) -/
example : ¬ (∀ line pad lenRaw lenHi : Int, 1 ≤ lenRaw → 0 ≤ lenHi →
    min (line + pad) (lenRaw - 1) ≤ lenHi) := by
  intro h; have := h 1 2 5 1 (by decide) (by decide); omega

end TaskModel.Decode
