import TaskModel.Gen.WriteSites
/-!
Finger.WriteSites — review of EVERY call of the module that creates, changes or removes something in the file
system (`Gen.WriteSites`, regenerated with type information on every run: all `os.WriteFile / Create / MkdirAll /
Mkdir / Remove / RemoveAll / Rename / Chtimes / OpenFile / Symlink / Link / Truncate / Chmod / Chown / CreateTemp /
MkdirTemp` calls outside tests, the release tool and the verification hooks).

Property C12 says that the query and dry-run modes never create, modify or delete a file.  The Finger machine's
read-only theorems (`Props.C12`) are about the model; THIS table is what ties "the model's writers are all the
writers" to the source: a writer is acceptable when
* a condition it sits under inside its own function is false whenever the checker runs dry (`dryLocal`) — the wiring
  of `dry` to `--dry / --status / --list / --summary` is pinned separately by `Gen.DryWiring`;
* every call site of its function sits under such a condition (`dryCaller`);
* it belongs to an action of its own that is not a query mode, or has no call site at all (`notQuery`);
* it writes the cache of REMOTE Taskfiles (`remoteCache`): acknowledged — a read-only invocation on a remote Taskfile
  may download and cache it (stated in the trusted base of C12 and covered by C20's model).
A new writer anywhere in the module has no entry and breaks `Props.C12.write_sites_reviewed`.
-/
namespace TaskModel.Finger.WS

inductive Class
  | dryLocal (g : String)
  | dryCaller (g : String)
  | notQuery (why : String)
  | remoteCache
deriving Repr

structure Entry where
  fn : String
  call : String
  cls : Class

def reviewed : List Entry := [
  ⟨"internal/fingerprint:ChecksumChecker.IsUpToDate", "os.MkdirAll", .dryLocal "!‹*fingerprint.ChecksumChecker›.dry"⟩,
  ⟨"internal/fingerprint:ChecksumChecker.IsUpToDate", "os.WriteFile", .dryLocal "!‹*fingerprint.ChecksumChecker›.dry"⟩,
  ⟨"internal/fingerprint:TimestampChecker.IsUpToDate", "os.MkdirAll", .dryLocal "not:‹*fingerprint.TimestampChecker›.dry"⟩,
  ⟨"internal/fingerprint:TimestampChecker.IsUpToDate", "os.Create", .dryLocal "not:‹*fingerprint.TimestampChecker›.dry"⟩,
  ⟨"internal/fingerprint:TimestampChecker.IsUpToDate", "os.Chtimes", .dryLocal "not:‹*fingerprint.TimestampChecker›.dry"⟩,
  ⟨"internal/fingerprint:ChecksumChecker.OnError", "os.Remove", .dryCaller "not:‹*task.Executor›.Dry"⟩,
  ⟨"internal/fingerprint:TimestampChecker.OnError", "os.Remove", .dryCaller "not:‹*task.Executor›.Dry"⟩,
  ⟨"task:Executor.mkdir", "os.MkdirAll", .dryCaller "!‹*task.Executor›.Dry"⟩,
  ⟨"task:InitTaskfile", "os.WriteFile", .notQuery "the --init action"⟩,
  ⟨"cmd/task:run", "os.RemoveAll", .notQuery "the --clear-cache action (returns right after)"⟩,
  ⟨"taskfile/ast:TaskfileGraph.Visualize", "os.Create", .notQuery "no call site in the module"⟩,
  ⟨"taskfile:CacheNode.CreateCacheDir", "os.MkdirAll", .remoteCache⟩,
  ⟨"taskfile:CacheNode.Write", "os.WriteFile", .remoteCache⟩,
  ⟨"taskfile:CacheNode.WriteChecksum", "os.WriteFile", .remoteCache⟩,
  ⟨"taskfile:CacheNode.WriteResolvedLocation", "os.WriteFile", .remoteCache⟩,
  ⟨"taskfile:CacheNode.WriteTimestamp", "os.WriteFile", .remoteCache⟩]

abbrev Site := String × String × List String × List (String × List String)

def siteOk (s : Site) : Bool :=
  match reviewed.find? (fun e => e.fn == s.1 && e.call == s.2.1) with
  | none => false
  | some e =>
    match e.cls with
    | .dryLocal g => s.2.2.1.contains g
    | .dryCaller g => !s.2.2.2.isEmpty && s.2.2.2.all (fun c => c.2.contains g)
    | .notQuery _ => s.1 != "taskfile/ast:TaskfileGraph.Visualize" || s.2.2.2.isEmpty
    | .remoteCache => true

end TaskModel.Finger.WS
