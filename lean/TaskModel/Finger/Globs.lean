import TaskModel.Finger.AList
/-!
Finger.Globs — `fingerprint.Globs` (internal/fingerprint/glob.go).

    resultMap := map[string]bool{}
    for _, g := range globs {
        if g == nil { continue }         // fix O8-3: watch mode hands over the RAW task (`sources: [~]`); the model's
                                         // pattern lists have no such entry (a nil entry contributes nothing)
        matches, err := glob(dir, g.Glob); if err != nil { continue }
        for _, match := range matches { resultMap[match] = !g.Negate }
    }
    return collectKeys(resultMap)        // keys with value true, sort.Strings

What a single pattern matches (mvdan/sh expansion + `os.Stat`, directories dropped,
an expansion error ⇒ nothing) is an *oracle*: a pattern is given by its negate bit and
the list of paths it currently matches.  Paths are natural numbers whose order is the
order of the path strings (the harness numbers the paths of a case by their rank under
Go's string comparison), so `sort.Strings` is a sort on `Nat`.
-/
namespace TaskModel.Finger

abbrev Path := Nat

structure Pat where
  neg : Bool
  ms : List Path
deriving Repr, DecidableEq

/-- one pattern: `for _, match := range matches { resultMap[match] = !g.Negate }` -/
def addPat (m : List (Path × Bool)) (g : Pat) : List (Path × Bool) :=
  g.ms.foldl (fun m p => aset m p (!g.neg)) m

def globsMap (pats : List Pat) : List (Path × Bool) := pats.foldl addPat []

def insertSorted (p : Path) : List Path → List Path
  | [] => [p]
  | q :: l => if p ≤ q then p :: q :: l else q :: insertSorted p l

/-- `sort.Strings` -/
def sortPaths : List Path → List Path
  | [] => []
  | p :: l => insertSorted p (sortPaths l)

/-- `collectKeys`: keys whose value is `true`, sorted -/
def collectKeys (m : List (Path × Bool)) : List Path :=
  sortPaths ((m.filter (·.2)).map (·.1))

def globs (pats : List Pat) : List Path := collectKeys (globsMap pats)

/-- Specification: the flag given to `p` by the LAST pattern matching it. -/
def lastFlag : List Pat → Path → Option Bool
  | [], _ => none
  | g :: gs, p =>
    match lastFlag gs p with
    | some b => some b
    | none => if p ∈ g.ms then some (!g.neg) else none

example : globs [⟨false, [3, 1, 2]⟩, ⟨true, [2, 5]⟩, ⟨false, [5]⟩, ⟨true, [7]⟩] = [1, 3, 5] := by decide
example : globs [⟨true, [1]⟩, ⟨false, [1, 0]⟩] = [0, 1] := by decide
example : globs [⟨false, [1, 0]⟩, ⟨true, [1]⟩] = [0] := by decide

end TaskModel.Finger
