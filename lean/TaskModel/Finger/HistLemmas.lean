import TaskModel.Finger.MachineLemmas
/-! Lemmas for the history invariant of `Props.C04`: what one step does to the checksum store
and to the ghost log. -/
namespace TaskModel.Finger

variable (cfg : Cfg) (H : Hashes) (pr : Proj)

theorem lastAtt_append (pred : Attempt → Bool) (l : List Attempt) (a : Attempt) :
    lastAtt pred (l ++ [a]) = if pred a then some a else lastAtt pred l := by
  induction l with
  | nil => simp [lastAtt]
  | cons b l ih =>
    simp only [List.cons_append, lastAtt, ih]
    by_cases ha : pred a = true
    · simp [ha]
    · simp [ha]

theorem mkdirTask_fields (t : Task) (s : State) :
    (mkdirTask t s).files = s.files ∧ (mkdirTask t s).sums = s.sums ∧ (mkdirTask t s).log = s.log ∧
    (mkdirTask t s).marks = s.marks := by
  unfold mkdirTask
  cases t.dir with
  | none => simp
  | some d => simp only; split <;> simp

theorem cmdLoop_no_kill (e : Env) (ign : Bool) (hk : e.killAt = none) (cs : List Cmd) (k : Nat) (fs : FS) (ran : List Nat) :
    (cmdLoop e ign cs k fs ran).2.2 ≠ .killed := by
  induction cs generalizing k fs ran with
  | nil => simp [cmdLoop]
  | cons c cs ih =>
    simp only [cmdLoop, hk]
    simp only [reduceCtorEq, if_false]
    repeat' split
    all_goals first | exact ih _ _ _ | simp

theorem runBody_skipped (i : Nat) (t : Task) (dry : Bool) (e : Env) (s : State) :
    (runBody cfg H pr i t dry e s).2.skipped = false := by
  unfold runBody
  simp only
  split
  · rfl
  · split
    · split <;> rfl
    · split <;> rfl

/-- a `run` that reports "up to date": the check returned no error … -/
theorem run_skipped_noerr {i : Nat} {t : Task} (ht : pr.tasks[i]? = some t) (e : Env) (s : State)
    (h : (invoke cfg H pr i .run e s).2.skipped = true) : checkErr t e s.files = false := by
  cases hce : checkErr t e s.files with
  | false => rfl
  | true => rw [invoke_run_err cfg H pr ht e s hce] at h; cases h

/-- a `run` reports "up to date" only when the check said so -/
theorem run_skipped {i : Nat} {t : Task} (ht : pr.tasks[i]? = some t) (e : Env) (s : State)
    (h : (invoke cfg H pr i .run e s).2.skipped = true) : (isUpToDate H pr t false e.now s).2 = true := by
  rw [invoke_run cfg H pr ht e s (run_skipped_noerr cfg H pr ht e s h)] at h
  by_cases hu : ((isUpToDate H pr t false e.now s).2 && !interrupted t e) = true
  · simp only [Bool.and_eq_true] at hu
    exact hu.1
  · rw [if_neg hu, runBody_skipped] at h
    cases h

/-- … and was not interrupted by a failing sibling -/
theorem run_skipped_cond {i : Nat} {t : Task} (ht : pr.tasks[i]? = some t) (e : Env) (s : State)
    (h : (invoke cfg H pr i .run e s).2.skipped = true) :
    ((isUpToDate H pr t false e.now s).2 && !interrupted t e) = true := by
  rw [invoke_run cfg H pr ht e s (run_skipped_noerr cfg H pr ht e s h)] at h
  by_cases hu : ((isUpToDate H pr t false e.now s).2 && !interrupted t e) = true
  · exact hu
  · rw [if_neg hu, runBody_skipped] at h
    cases h

/-- the task is fingerprinted with method checksum -/
def Cs (t : Task) : Prop := t.method = .checksum ∧ t.sources.isEmpty = false

instance (t : Task) : Decidable (Cs t) := by unfold Cs; infer_instance

/-- the task is fingerprinted with method timestamp -/
def Ts (t : Task) : Prop := t.method = .timestamp ∧ t.sources.isEmpty = false

instance (t : Task) : Decidable (Ts t) := by unfold Ts; infer_instance

theorem not_cs_of_ts {t : Task} (h : Ts t) : ¬ Cs t := fun hc => by
  have := h.1; rw [hc.1] at this; cases this

theorem onError_sums (t : Task) (s : State) :
    (onError t s).sums = if Cs t then adel s.sums (sumKey t) else s.sums := by
  unfold onError
  split
  · rename_i hm
    by_cases hs : t.sources.isEmpty = true
    · simp [Cs, hs]
    · simp [Cs, hm, hs]
  · rename_i hm
    simp only [Cs, hm, reduceCtorEq, false_and, if_false]
    split <;> rfl
  · rename_i hm
    simp [Cs, hm]

/-- `statusOnError` for a timestamp task (TS3): the marker is removed -/
theorem onError_marks (t : Task) (s : State) :
    (onError t s).marks = if Ts t then adel s.marks (tsKey t) else s.marks := by
  unfold onError
  split
  · rename_i hm
    simp only [Ts, hm, reduceCtorEq, false_and, if_false]
    split <;> rfl
  · rename_i hm
    by_cases hs : t.sources.isEmpty = true
    · simp [Ts, hs]
    · simp [Ts, hm, hs]
  · rename_i hm
    simp [Ts, hm]

theorem onError_log (t : Task) (s : State) : (onError t s).log = s.log := by
  unfold onError
  cases t.method <;> simp <;> split <;> rfl

theorem onError_files (t : Task) (s : State) : (onError t s).files = s.files ∧ (onError t s).dirs = s.dirs := by
  unfold onError
  cases t.method <;> simp <;> split <;> simp

/-- the prompt (if any) is answered yes and the process is not killed -/
def Passes (t : Task) (e : Env) : Prop := (t.prompt = false ∨ e.yes = true) ∧ e.killAt = none

/-- the prompt is declined (answer no, or no terminal to ask on) -/
def Declined (t : Task) (e : Env) : Prop := t.prompt = true ∧ e.yes = false

instance (t : Task) (e : Env) : Decidable (Declined t e) := by unfold Declined; infer_instance

theorem passes_of_not_declined {t : Task} {e : Env} (hk : e.killAt = none) (h : ¬ Declined t e) : Passes t e := by
  refine ⟨?_, hk⟩
  unfold Declined at h
  cases hp : t.prompt
  · exact Or.inl rfl
  · cases hy : e.yes
    · exact absurd ⟨hp, hy⟩ h
    · exact Or.inr rfl

/-- **a declined prompt**: no command-loop attempt; `statusOnError` is applied to the state the
up-to-date check left, and the task is reported cancelled. -/
theorem runBody_declined (i : Nat) (t : Task) (e : Env) (s : State) (hd : Declined t e) :
    runBody cfg H pr i t false e s = (onError t s, ⟨.cancelled, false, [], []⟩) := by
  simp [runBody, hd.1, hd.2]

/-- **effect of the body**: one attempt is logged at the fingerprint of the state it started
from, at the time of the invocation; on success the stores are untouched, on failure `OnError`
removes the checksum (method checksum) / the marker (method timestamp). -/
theorem runBody_effect (i : Nat) (t : Task) (e : Env) (s : State) (hp : Passes t e) :
    ∃ ok, (runBody cfg H pr i t false e s).1.log = s.log ++ [⟨i, fpNow H pr t s.files, e.now, ok, srcList pr t s.files⟩] ∧
      (ok = true → (runBody cfg H pr i t false e s).1.sums = s.sums ∧ (runBody cfg H pr i t false e s).1.marks = s.marks) ∧
      (ok = false → (runBody cfg H pr i t false e s).1.sums = (if Cs t then adel s.sums (sumKey t) else s.sums) ∧
        (runBody cfg H pr i t false e s).1.marks = (if Ts t then adel s.marks (tsKey t) else s.marks) ∧
        (runBody cfg H pr i t false e s).2.exit = .failed) := by
  obtain ⟨hprompt, hk⟩ := hp
  have hcond : (t.prompt && !false && !e.yes) = false := by
    rcases hprompt with h | h <;> simp [h]
  have hmk := mkdirTask_fields t s
  unfold runBody
  simp only [hcond, Bool.false_eq_true, if_false]
  cases hend : (cmdLoop e t.ignoreError t.cmds 0 (mkdirTask t s).files []).2.2 with
  | killed => exact absurd hend (cmdLoop_no_kill e _ hk _ _ _ _)
  | done =>
    refine ⟨true, ?_, ?_, ?_⟩
    · simp [hmk.1, hmk.2.2.1]
    · intro _; simp [hmk.2.1, hmk.2.2.2]
    · intro h; cases h
  | failed =>
    refine ⟨false, ?_, ?_, ?_⟩
    · simp [onError_log, hmk.1, hmk.2.2.1]
    · intro h; cases h
    · intro _; rw [onError_sums, onError_marks]; simp [hmk.2.1, hmk.2.2.2]

/-- what the non-dry up-to-date check does to the checksum store and the log -/
theorem isUpToDate_effect (t : Task) (now : Nat) (s : State) :
    (isUpToDate H pr t false now s).1.log = s.log ∧ (isUpToDate H pr t false now s).1.files = s.files ∧
    (∀ x, (Cs t → x ≠ sumKey t) → aget (isUpToDate H pr t false now s).1.sums x = aget s.sums x) ∧
    (Cs t → aget (isUpToDate H pr t false now s).1.sums (sumKey t) = some (fpNow H pr t s.files)) ∧
    ((isUpToDate H pr t false now s).2 = true → (isUpToDate H pr t false now s).1.sums = s.sums) := by
  by_cases hsrc : t.sources.isEmpty = false
  · rw [isUpToDate_sources H pr hsrc]
    simp only
    cases hm : t.method with
    | checksum =>
      have hcs : Cs t := ⟨hm, hsrc⟩
      simp only [srcCheck, hm]
      have hf := sumCheck_fields H pr t false s
      refine ⟨hf.2.2.1, hf.1, ?_, fun _ => sumCheck_stored H pr t s, ?_⟩
      · intro x hx
        have hx' := hx hcs
        unfold sumCheck
        simp only [Bool.false_eq_true, if_false]
        split
        · rfl
        · exact aget_aset_ne _ _ (fun e => hx' e.symm)
      · intro hup
        have h2 : (sumCheck H pr t false s).2 = true := by
          cases hst : t.status.isEmpty <;> simp [hst] at hup <;> simp [hup]
        rw [sumCheck_result] at h2
        simp only [Bool.and_eq_true, decide_eq_true_eq] at h2
        unfold sumCheck
        simp [h2.2]
    | timestamp =>
      have hncs : ¬ Cs t := fun h => by rw [h.1] at hm; cases hm
      simp only [srcCheck, hm]
      have hf := tsCheck_fields t false now s
      exact ⟨hf.2.2.1, hf.1, fun x _ => by rw [hf.2.1], fun h => absurd h hncs, fun _ => hf.2.1⟩
    | none =>
      have hncs : ¬ Cs t := fun h => by rw [h.1] at hm; cases hm
      have hsc : srcCheck H pr t false now s = (s, false) := by simp [srcCheck, hm]
      rw [hsc]
      exact ⟨rfl, rfl, fun x _ => rfl, fun h => absurd h hncs, fun _ => rfl⟩
  · have hncs : ¬ Cs t := fun h => hsrc h.2
    have : (isUpToDate H pr t false now s).1 = s := by
      unfold isUpToDate
      simp only [Bool.not_eq_false] at hsrc
      simp [hsrc]
    rw [this]
    exact ⟨rfl, rfl, fun x _ => rfl, fun h => absurd h hncs, fun _ => rfl⟩

/-- what the start of a `--force` run (F8F) does to the checksum store and the log: like the check of a
normal run, or — when that check ends in an error — nothing -/
theorem forceStart_effect (t : Task) (e : Env) (s : State) :
    (forceStart H pr t e s).log = s.log ∧ (forceStart H pr t e s).files = s.files ∧
    (∀ x, (Cs t → x ≠ sumKey t) → aget (forceStart H pr t e s).sums x = aget s.sums x) ∧
    (Cs t → aget (forceStart H pr t e s).sums (sumKey t) = some (fpNow H pr t s.files) ∨
            aget (forceStart H pr t e s).sums (sumKey t) = aget s.sums (sumKey t)) := by
  unfold forceStart
  split
  · exact ⟨rfl, rfl, fun _ _ => rfl, fun _ => Or.inr rfl⟩
  · obtain ⟨h1, h2, h3, h4, _⟩ := isUpToDate_effect H pr t e.now s
    exact ⟨h1, h2, h3, fun hcs => Or.inl (h4 hcs)⟩

/-- for a timestamp task the check never ends in an error -/
theorem forceStart_ts {t : Task} (h : t.method = .timestamp) (e : Env) (s : State) :
    forceStart H pr t e s = (isUpToDate H pr t false e.now s).1 := by
  simp [forceStart, checkErr_timestamp e s.files h]

theorem applyOp_fields (o : Op) (s : State) :
    (applyOp pr o s).sums = s.sums ∧ (applyOp pr o s).log = s.log ∧ (applyOp pr o s).marks = s.marks := by
  cases o <;> simp only [applyOp] <;> (try split) <;> simp

end TaskModel.Finger
