/-!
Finger.AList — finite maps as association lists with unique keys (insertion order kept).
Used for the abstract file system (`Path ↦ File`) and the fingerprint stores
(`.task/checksum/<key>`, `.task/timestamp/<key>`).  All functions are structurally
recursive so `decide` evaluates them.
-/
namespace TaskModel.Finger

variable {κ : Type} [DecidableEq κ] {α : Type}

/-- lookup -/
def aget : List (κ × α) → κ → Option α
  | [], _ => none
  | (k, v) :: m, x => if k = x then some v else aget m x

/-- insert or overwrite (position of an existing key is kept) -/
def aset : List (κ × α) → κ → α → List (κ × α)
  | [], x, v => [(x, v)]
  | (k, w) :: m, x, v => if k = x then (k, v) :: m else (k, w) :: aset m x v

/-- delete -/
def adel : List (κ × α) → κ → List (κ × α)
  | [], _ => []
  | (k, w) :: m, x => if k = x then adel m x else (k, w) :: adel m x

def ahas (m : List (κ × α)) (x : κ) : Bool := (aget m x).isSome

@[simp] theorem aget_nil (x : κ) : aget ([] : List (κ × α)) x = none := rfl

theorem aget_aset (m : List (κ × α)) (x y : κ) (v : α) :
    aget (aset m x v) y = if x = y then some v else aget m y := by
  induction m with
  | nil => simp [aset, aget]
  | cons kv m ih =>
    obtain ⟨k, w⟩ := kv
    simp only [aset]
    by_cases hk : k = x
    · subst hk
      simp only [if_true, aget]
      by_cases hy : k = y <;> simp [hy]
    · simp only [hk, if_false, aget, ih]
      by_cases hy : k = y
      · subst hy
        have hk' : ¬ x = k := fun e => hk e.symm
        simp [hk']
      · simp [hy]

@[simp] theorem aget_aset_self (m : List (κ × α)) (x : κ) (v : α) :
    aget (aset m x v) x = some v := by simp [aget_aset]

theorem aget_aset_ne (m : List (κ × α)) {x y : κ} (v : α) (h : x ≠ y) :
    aget (aset m x v) y = aget m y := by simp [aget_aset, h]

theorem aget_adel (m : List (κ × α)) (x y : κ) :
    aget (adel m x) y = if x = y then none else aget m y := by
  induction m with
  | nil => simp [adel, aget]
  | cons kv m ih =>
    obtain ⟨k, w⟩ := kv
    simp only [adel]
    by_cases hk : k = x
    · subst hk
      simp only [if_true, ih, aget]
      by_cases hy : k = y <;> simp [hy]
    · simp only [hk, if_false, aget, ih]
      by_cases hy : k = y
      · subst hy
        have hk' : ¬ x = k := fun e => hk e.symm
        simp [hk']
      · simp [hy]

@[simp] theorem aget_adel_self (m : List (κ × α)) (x : κ) : aget (adel m x) x = none := by
  simp [aget_adel]

theorem aget_adel_ne (m : List (κ × α)) {x y : κ} (h : x ≠ y) :
    aget (adel m x) y = aget m y := by simp [aget_adel, h]

/-- keys are pairwise distinct -/
def akeys (m : List (κ × α)) : List κ := m.map (·.1)

theorem aget_none_of_not_mem (m : List (κ × α)) (x : κ) (h : x ∉ akeys m) : aget m x = none := by
  induction m with
  | nil => rfl
  | cons kv m ih =>
    obtain ⟨k, w⟩ := kv
    simp only [akeys, List.map_cons, List.mem_cons, not_or] at h
    simp only [aget]
    rw [if_neg (fun e => h.1 e.symm)]
    exact ih h.2

theorem mem_akeys_of_aget (m : List (κ × α)) (x : κ) (v : α) (h : aget m x = some v) : x ∈ akeys m := by
  induction m with
  | nil => simp [aget] at h
  | cons kv m ih =>
    obtain ⟨k, w⟩ := kv
    simp only [aget] at h
    simp only [akeys, List.map_cons, List.mem_cons]
    by_cases hk : k = x
    · exact Or.inl hk.symm
    · rw [if_neg hk] at h; exact Or.inr (ih h)

theorem akeys_aset (m : List (κ × α)) (x : κ) (v : α) :
    akeys (aset m x v) = if x ∈ akeys m then akeys m else akeys m ++ [x] := by
  induction m with
  | nil => simp [aset, akeys]
  | cons kv m ih =>
    obtain ⟨k, w⟩ := kv
    simp only [aset]
    by_cases hk : k = x
    · subst hk; simp [akeys]
    · have hk' : ¬ x = k := fun e => hk e.symm
      simp only [hk, if_false]
      simp only [akeys, List.map_cons, List.mem_cons, hk', false_or] at ih ⊢
      rw [ih]
      by_cases hm : x ∈ List.map (fun x => x.fst) m <;> simp [hm]

theorem nodup_akeys_aset (m : List (κ × α)) (x : κ) (v : α) (h : (akeys m).Nodup) :
    (akeys (aset m x v)).Nodup := by
  rw [akeys_aset]
  split
  · exact h
  · rename_i hx
    rw [List.nodup_append]
    refine ⟨h, by simp, ?_⟩
    intro a ha b hb
    simp only [List.mem_singleton] at hb
    subst hb
    intro e; subst e; exact hx ha

theorem mem_akeys_aset (m : List (κ × α)) (x y : κ) (v : α) :
    y ∈ akeys (aset m x v) ↔ y = x ∨ y ∈ akeys m := by
  rw [akeys_aset]
  split
  · rename_i hx
    constructor
    · exact Or.inr
    · rintro (rfl | h)
      · exact hx
      · exact h
  · simp [or_comm]

theorem aset_aset (m : List (κ × α)) (x : κ) (v w : α) : aset (aset m x v) x w = aset m x w := by
  induction m with
  | nil => simp [aset]
  | cons kv m ih =>
    obtain ⟨k, u⟩ := kv
    by_cases hk : k = x
    · simp [aset, hk]
    · simp [aset, hk, ih]


end TaskModel.Finger
