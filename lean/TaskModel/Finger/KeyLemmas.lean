import TaskModel.Finger.Machine
/-! Lemmas about the names of the state files (used by `Props.C04`): `stateKey` (fix N) and the
checksum key of a labelled task (fix F8A) are injective — distinct tasks never share a state file. -/
namespace TaskModel.Finger

/-! ### state file names (fix N): distinct names never share a key -/

theorem normalize_length (n : Bytes) : (normalize n).length = n.length := by simp [normalize]

theorem normalize_append (a b : Bytes) : normalize (a ++ b) = normalize a ++ normalize b := by simp [normalize]

theorem normalize_cons_dash (n : Bytes) : normalize (45 :: n) = 45 :: normalize n := by
  simp [normalize, keepChar]

/-- **`stateKey` is injective**: the tag (the name itself, standing for an injective hash) is appended
exactly when normalisation changed the name, and an unnormalised name cannot end in the tag of a
changed one -/
theorem stateKey_inj {a b : Bytes} (h : stateKey a = stateKey b) : a = b := by
  have key : ∀ x y : Bytes, normalize x = x → ¬ normalize y = y → x = normalize y ++ 45 :: y → False := by
    intro x y hx hy hxy
    apply hy
    rw [hxy, normalize_append, normalize_cons_dash] at hx
    have := (List.append_inj hx (normalize_length _)).2
    exact (List.cons.inj this).2
  unfold stateKey at h
  by_cases ha : normalize a = a <;> by_cases hb : normalize b = b
  · simpa [ha, hb] using h
  · simp only [ha, hb, if_true, if_false] at h
    exact (key a b ha hb h).elim
  · simp only [ha, hb, if_true, if_false] at h
    exact (key b a hb ha h.symm).elim
  · simp only [ha, hb, if_false] at h
    have hl := congrArg List.length h
    simp only [List.length_append, List.length_cons, normalize_length] at hl
    have := (List.append_inj h (by simp only [normalize_length]; omega)).2
    exact (List.cons.inj this).2

theorem tsKey_inj {t u : Task} (h : tsKey t = tsKey u) : t.name = u.name := stateKey_inj h

/-- the rule before fix N was not injective: `a-b`, `a:b` and `a.b` normalise to one name -/
example : oldKey [97, 45, 98] = oldKey [97, 58, 98] ∧ oldKey [97, 46, 98] = oldKey [97, 58, 98] ∧
    stateKey [97, 45, 98] ≠ stateKey [97, 58, 98] ∧ stateKey [97, 46, 98] ≠ stateKey [97, 58, 98] := by decide

/-! ### the checksum key (fix F8A): the state belongs to the pair (task name, label) -/

/-- the value of a digit string -/
def decVal (l : Bytes) : Nat := l.foldl (fun a d => a * 10 + (d - 48)) 0

theorem decVal_append_single (l : Bytes) (d : Nat) : decVal (l ++ [d]) = decVal l * 10 + (d - 48) := by
  simp [decVal, List.foldl_append]

/-- `%d` can be read back … -/
theorem decVal_decF (f n : Nat) (h : n < f) : decVal (decF f n) = n := by
  induction f generalizing n with
  | zero => omega
  | succ f ih =>
    unfold decF
    split
    · simp [decVal]
    · rw [decVal_append_single, ih (n / 10) (by omega)]
      omega

theorem dec_inj {a b : Nat} (h : dec a = dec b) : a = b := by
  have ha := decVal_decF (a + 1) a (by omega)
  have hb := decVal_decF (b + 1) b (by omega)
  unfold dec at h
  rw [h] at ha
  omega

/-- … and consists of digits only (so it contains no `:`) -/
theorem decF_digits (f n : Nat) : ∀ d ∈ decF f n, 48 ≤ d ∧ d ≤ 57 := by
  induction f generalizing n with
  | zero => intro d hd; simp [decF] at hd
  | succ f ih =>
    intro d hd
    unfold decF at hd
    split at hd
    · simp only [List.mem_singleton] at hd; omega
    · simp only [List.mem_append, List.mem_singleton] at hd
      rcases hd with hd | hd
      · exact ih _ d hd
      · omega

theorem colon_not_mem_dec (n : Nat) : 58 ∉ dec n := by
  intro h
  have := decF_digits _ _ 58 h
  omega

/-- a delimiter that occurs in neither prefix splits both sides at the same place -/
theorem split_at_delim (c : Nat) : ∀ (l₁ l₂ r₁ r₂ : Bytes), c ∉ l₁ → c ∉ l₂ →
    l₁ ++ c :: r₁ = l₂ ++ c :: r₂ → l₁ = l₂ ∧ r₁ = r₂
  | [], [], _, _, _, _, h => ⟨rfl, (List.cons.inj h).2⟩
  | [], b :: l₂, _, _, _, h2, h => by
    simp only [List.nil_append, List.cons_append] at h
    exact absurd (List.cons.inj h).1 (fun e => h2 (by simp [e]))
  | a :: l₁, [], _, _, h1, _, h => by
    simp only [List.nil_append, List.cons_append] at h
    exact absurd (List.cons.inj h).1.symm (fun e => h1 (by simp [e]))
  | a :: l₁, b :: l₂, r₁, r₂, h1, h2, h => by
    simp only [List.cons_append] at h
    have ht := List.cons.inj h
    have := split_at_delim c l₁ l₂ r₁ r₂ (fun m => h1 (by simp [m])) (fun m => h2 (by simp [m])) ht.2
    exact ⟨by rw [ht.1, this.1], this.2⟩

/-- **the length-prefixed pair is an injective encoding**: the decimal length ends at the first
`:`, it says where the task name ends, the rest is the label -/
theorem pairEnc_inj {a b a' b' : Bytes} (h : pairEnc a b = pairEnc a' b') : a = a' ∧ b = b' := by
  unfold pairEnc at h
  have hs := split_at_delim 58 _ _ _ _ (colon_not_mem_dec _) (colon_not_mem_dec _) h
  have hl : a.length = a'.length := dec_inj hs.1
  exact List.append_inj hs.2 hl

theorem dot_not_mem_normalize (l : Bytes) : 46 ∉ normalize l := by
  intro h
  simp only [normalize, List.mem_map] at h
  obtain ⟨c, _, hc⟩ := h
  by_cases hk : keepChar c = true
  · simp only [hk, if_true] at hc
    subst hc
    simp [keepChar] at hk
  · simp [hk] at hc

/-- a name that normalisation leaves alone contains no `.` -/
theorem dot_not_mem_of_normalized {n : Bytes} (h : normalize n = n) : 46 ∉ n := by
  rw [← h]; exact dot_not_mem_normalize n

/-- if `c` first occurs in the left string after a prefix `a`, a `c`-free prefix `b` of the same
string is not longer than `a` … read the other way round: `b` is at most as long as `a` -/
theorem prefix_le_of_delim (c : Nat) : ∀ (a x b y : Bytes), a ++ c :: x = b ++ y → c ∉ b → b.length ≤ a.length
  | _, _, [], _, _, _ => by simp
  | [], _, d :: b, _, h, hb => by
    simp only [List.nil_append, List.cons_append] at h
    exact absurd (List.cons.inj h).1 (fun e => hb (by simp [e]))
  | e :: a, x, d :: b, y, h, hb => by
    simp only [List.cons_append] at h
    have := prefix_le_of_delim c a x b y (List.cons.inj h).2 (fun m => hb (by simp [m]))
    simp only [List.length_cons]; omega

/-- the file of an unlabelled task (`stateKey`) is never the file of a labelled one: either it
contains no `.` at all, or its first `.` comes so late that the labelled name would be longer -/
theorem stateKey_ne_labelled (n m l : Bytes) : stateKey n ≠ normalize l ++ 46 :: pairEnc m l := by
  intro h
  unfold stateKey at h
  split at h
  · rename_i hn
    have : (46 : Nat) ∈ n := by rw [h]; simp
    exact dot_not_mem_of_normalized hn this
  · have hb : (46 : Nat) ∉ normalize n ++ [45] := by
      simp only [List.mem_append, List.mem_singleton, not_or]
      exact ⟨dot_not_mem_normalize n, by decide⟩
    have hle := prefix_le_of_delim 46 (normalize l) (pairEnc m l) (normalize n ++ [45]) n
      (by rw [← h]; simp) hb
    have hlen := congrArg List.length h
    simp only [List.length_append, List.length_cons, List.length_nil, normalize_length, pairEnc] at hle hlen
    omega

/-- **`sumKey` is injective on the pair (task name, label)**: two tasks share a checksum file only
if they have the same task name AND the same label (the hashes idealised as injective) -/
theorem sumKey_inj {t u : Task} (h : sumKey t = sumKey u) : t.name = u.name ∧ t.label = u.label := by
  unfold sumKey at h
  by_cases ht : t.label = [] <;> by_cases hu : u.label = []
  · simp only [ht, hu, if_true] at h
    exact ⟨stateKey_inj h, by rw [ht, hu]⟩
  · simp only [ht, hu, if_true, if_false] at h
    exact (stateKey_ne_labelled _ _ _ h).elim
  · simp only [ht, hu, if_true, if_false] at h
    exact (stateKey_ne_labelled _ _ _ h.symm).elim
  · simp only [ht, hu, if_false] at h
    have hs := split_at_delim 46 _ _ _ _ (dot_not_mem_normalize _) (dot_not_mem_normalize _) h
    exact pairEnc_inj hs.2

/-- non-vacuity / the cases the fix is about: equal labels on different tasks, a label equal to
another task's name, one task under two labels — all distinct keys; an unlabelled task keeps the
key it had; the old rule (`oldSumKey`) identified the first two pairs -/
example :
    let x : Task := { name := [120], label := [76], method := .checksum, sources := [], generates := [], status := [],
                      prompt := false, dir := none, cmds := [] }
    let y : Task := { x with name := [121] }
    let z : Task := { x with name := [76], label := [] }
    let x2 : Task := { x with label := [77] }
    sumKey x ≠ sumKey y ∧ sumKey x ≠ sumKey z ∧ sumKey x ≠ sumKey x2 ∧ sumKey z = stateKey [76] ∧
    sumKey x = [76, 46, 49, 58, 120, 76] ∧
    oldSumKey x = oldSumKey y ∧ oldSumKey x = oldSumKey z ∧ dec 0 = [48] ∧ dec 1203 = [49, 50, 48, 51] := by decide

end TaskModel.Finger
