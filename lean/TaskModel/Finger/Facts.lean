import TaskModel.Gen.DryWiring
import TaskModel.Gen.FingerOrder
/-!
Finger.Facts — the statement skeleton of the Go source that `TaskModel.Finger.Machine` was
written against, as equalities with the tables REGENERATED from the tree under test on
every run (`extract/finger.go` → `TaskModel/Gen/DryWiring.lean`, `FingerOrder.lean`).
If the source changes in any way that matters to the model (another dry argument, a write
moved before/after the comparison, a dropped `!checker.dry` guard, `OnError` bodies,
which name keys the store, the normalisation regexp …) one of these stops checking and
the property is reported as no longer shown.  Entries are keyed by function name and
normalised expression text (never by line), so reformatting does not disturb them.

This module is imported by `Props.C04/C05/C12` only — not by the driver — so that the
correspondence check still runs (and finds a failing input) when a table changes.

How the model reads the tables:
* `calls`: the dry bit of every checker construction.  `RunTask`, `Status`, `statusOnError`
  pass `e.Dry`, which `flags` sets to `Dry || Status`: modes `run`/`force` ⇒ `dry = false`,
  `--dry`/`--status` ⇒ `true`.  `ToEditorOutput` passes the constant `true`
  (`Cfg.fixed.listDry`; the tree as found passed `e.Dry`, i.e. `false` for a plain
  `--list --json`).  `compiledTask` only calls `Value` (no write).
* `guards`: `IsTaskUpToDate` is skipped under `skipFingerprinting` (`--force`); the prompt
  is skipped when dry; `mkdir` is skipped when dry (`Cfg.fixed.dryMkdir = false`; unguarded in
  the tree as found); `execext.RunCommand` is unreachable when dry, but a `task:` command is
  followed (`runCommand:e.RunTask` has no dry guard) and the callee's preconditions are evaluated
  (`areTaskPreconditionsMet` unguarded): `Cmd.need` / `Cmd.blocked`, the one way a dry body fails;
  `statusOnError` is called at two places — when the prompt is declined (under `!e.Dry`, like the
  prompt itself) and inside the command loop — and, since TS4, reaches `checker.OnError` only under
  `!(e.Dry)` (`Cfg.fixed.dryOnError = false`; unguarded in the tree as found).
* `checksumIsUpToDate`: read old → compute new → write under `!checker.dry && oldHash !=
  newHash` → generates check → `return oldHash == newHash` (`sumCheck`).
* `timestampIsUpToDate` (patched by TS1/TS2): Globs sources, Globs generates, `generatesExist`
  (true; cleared when a non-negated entry's `glob` fails or matches nothing — `gensOk`), Stat
  marker, append marker | create under `!checker.dry`, `time.Now`, max, newer?, `upToDate :=
  !shouldUpdate && generatesExist`, `Chtimes` under `!checker.dry && !upToDate`, `return upToDate`
  (`tsCheck`).  The `def …` entries are the definitions of the verdict variables with their FULL
  guard chain (err conditions included).
* `checksumSum`: per source, `filepath.Rel(t.Dir, f)` → `filepath.ToSlash` → hash, then the
  content (`nameOf`, `stream`); `fingerOrder_checksumName_ok` pins the arguments.
* `checksumOnError` removes the file when the task has sources; so does `timestampOnError`
  (patched by TS3) with the marker (`onError`); neither consults `checker.dry`, but in dry mode
  `statusOnError` is unreachable in the model's fragment (prompt guard `!e.Dry`; `runCommand` has
  no failing `execext.RunCommand` when dry).
* keys (fix N): checksum `stateFilename(t.Name())`, timestamp `stateFilename(t.Task)`; `stateFilename`
  = `normalizeFilename` (regexp `[^A-z0-9]` → `-`) when that changes nothing, else normalised name +
  `-` + `%016x` of `xxh3.HashString(name)` (`stateKey`).
* `timestampIsUpToDate` (fix M): the marker is created (`!markerExists`) and moved to now only inside
  the closure `touchMarker` (the `func` entry; its body starts from an empty guard chain: nothing
  when `checker.dry`), which is called on the three exits where the task is going to run — nothing
  to compare with, `anyFileNewerThan` failed, `!upToDate` — and never before `return upToDate` with
  `upToDate` true.
-/
namespace TaskModel.Finger.Facts
open TaskModel.Gen

theorem dryWiring_calls_ok : DryWiring.calls = [("Executor.RunTask:fingerprint.WithDry", "e.Dry"),
  ("Executor.Status:fingerprint.WithDry", "e.Dry"),
  ("Executor.ToEditorOutput:fingerprint.WithDry", "true"),
  ("Executor.compiledTask:fingerprint.NewChecksumChecker", "e.Dry"),
  ("Executor.compiledTask:fingerprint.NewTimestampChecker", "e.Dry"),
  ("Executor.statusOnError:fingerprint.NewSourcesChecker", "e.Dry"),
  ("IsTaskUpToDate:NewSourcesChecker", "config.dry"),
  ("NewSourcesChecker:NewChecksumChecker", "dry"),
  ("NewSourcesChecker:NewTimestampChecker", "dry"),
  ("flagsOption.ApplyToExecutor:task.WithDry", "Dry || Status")] := by rfl

theorem dryWiring_fields_ok : DryWiring.fields = [("NewChecksumChecker.dry", "dry"),
  ("NewTimestampChecker.dry", "dry"),
  ("WithDry", "config.dry = dry"),
  ("task.WithDry:return", "&dryOption{dry}"),
  ("task.WithDry", "e.Dry = o.dry")] := by rfl

/-- the guard entries the Finger model depends on (the others — dependencies, preconditions,
platform and call-count checks, deferred commands — belong to other domains and may change) -/
def fingerGuardKeys : List String :=
  ["Executor.RunTask:fingerprint.IsTaskUpToDate", "Executor.RunTask:e.Logger.Prompt", "Executor.RunTask:e.mkdir",
   "Executor.RunTask:e.runCommand", "Executor.RunTask:e.statusOnError", "Executor.RunTask:e.areTaskPreconditionsMet",
   "Executor.runCommand:e.RunTask", "Executor.runCommand:execext.RunCommand",
   "Executor.Status:fingerprint.IsTaskUpToDate", "Executor.statusOnError:checker.OnError",
   "Executor.ToEditorOutput:fingerprint.IsTaskUpToDate", "Executor.ListTasks:e.ToEditorOutput",
   "Executor.Run:summary.PrintTask", "Executor.Run:e.splitRegularAndWatchCalls"]

set_option maxRecDepth 4096 in
theorem dryWiring_guards_ok :
    DryWiring.guards.filter (fun g => fingerGuardKeys.contains g.1) =
      [("Executor.RunTask:e.areTaskPreconditionsMet", ""),
       ("Executor.RunTask:fingerprint.IsTaskUpToDate", "!skipFingerprinting"),
       ("Executor.RunTask:e.Logger.Prompt", "range t.Prompt && p != \"\" && !e.Dry"),
       ("Executor.RunTask:e.statusOnError", "range t.Prompt && p != \"\" && !e.Dry"),
       ("Executor.RunTask:e.mkdir", "!e.Dry"),
       ("Executor.RunTask:e.runCommand", "range t.Cmds && !(t.Cmds[i].Defer)"),
       ("Executor.RunTask:e.statusOnError", "range t.Cmds && !(t.Cmds[i].Defer)"),
       ("Executor.runCommand:e.RunTask", "case cmd.Task != \"\""),
       ("Executor.runCommand:execext.RunCommand", "case cmd.Cmd != \"\" && !(!shouldRunOnCurrentPlatform(cmd.Platforms)) && !(e.Dry)"),
       ("Executor.Status:fingerprint.IsTaskUpToDate", "range calls"),
       ("Executor.statusOnError:checker.OnError", "!(e.Dry)"),
       ("Executor.ToEditorOutput:fingerprint.IsTaskUpToDate", "!(noStatus)"),
       ("Executor.ListTasks:e.ToEditorOutput", "o.FormatTaskListAsJSON"),
       ("Executor.Run:summary.PrintTask", "e.Summary && range calls"),
       ("Executor.Run:e.splitRegularAndWatchCalls", "!(e.Summary)")] := by decide

theorem dryWiring_skipFingerprinting_ok : DryWiring.skipFingerprinting = "(!call.Indirect && e.Force) || e.ForceAll" := by rfl

theorem dryWiring_upToDateReturn_ok : DryWiring.upToDateReturn = "<preconditions> && upToDate" := by rfl

theorem fingerOrder_checksumIsUpToDate_ok : FingerOrder.checksumIsUpToDate = [("return false, nil", "len(t.Sources) == 0"),
  ("checker.checksumFilePath", "!(len(t.Sources) == 0)"),
  ("os.ReadFile", "!(len(t.Sources) == 0)"),
  ("strings.TrimSpace", "!(len(t.Sources) == 0)"),
  ("checker.checksum", "!(len(t.Sources) == 0)"),
  ("os.MkdirAll", "!(len(t.Sources) == 0) && !checker.dry && oldHash != newHash"),
  ("os.WriteFile", "!(len(t.Sources) == 0) && !checker.dry && oldHash != newHash"),
  ("glob", "!(len(t.Sources) == 0) && len(t.Generates) > 0 && range t.Generates && !(g.Negate)"),
  ("return false, nil", "!(len(t.Sources) == 0) && len(t.Generates) > 0 && range t.Generates && !(g.Negate) && len(generates) == 0"),
  ("return oldHash == newHash, nil", "!(len(t.Sources) == 0)")] := by rfl

theorem fingerOrder_checksumOnError_ok : FingerOrder.checksumOnError = [("return nil", "len(t.Sources) == 0"),
  ("os.Remove", "!(len(t.Sources) == 0)"),
  ("checker.checksumFilePath", "!(len(t.Sources) == 0)"),
  ("return os.Remove(checker.checksumFilePath(t))", "!(len(t.Sources) == 0)")] := by rfl

theorem fingerOrder_checksumSum_ok : FingerOrder.checksumSum = [("Globs", ""),
  ("xxh3.New", ""),
  ("filepath.Rel", "range sources"),
  ("io.CopyBuffer", "range sources"),
  ("filepath.ToSlash", "range sources"),
  ("os.Open", "range sources"),
  ("io.CopyBuffer", "range sources"),
  ("h.Sum128", ""),
  ("fmt.Sprintf", ""),
  ("return fmt.Sprintf(\"%x%x\", hash.Hi, hash.Lo), nil", "")] := by rfl

/-- what is written into the hash before a file's content: `nameOf` = the slash path relative to
`t.Dir` (the absolute path itself if `filepath.Rel` fails, which it cannot for a match below
`t.Dir`) -/
theorem fingerOrder_checksumName_ok :
    FingerOrder.checksumNameRel = "t.Dir, f" ∧ FingerOrder.checksumNameFallback = "name = f" ∧
    FingerOrder.checksumNameHashed = "strings.NewReader(filepath.ToSlash(name))" := by decide

theorem fingerOrder_checksumPath_ok : FingerOrder.checksumPath = [("filepath.Join", ""),
  ("stateFilename", ""),
  ("t.Name", ""),
  ("return filepath.Join(checker.tempDir, \"checksum\", stateFilename(t.Name()))", "")] := by rfl

theorem fingerOrder_timestampIsUpToDate_ok : FingerOrder.timestampIsUpToDate = [("return false, nil", "len(t.Sources) == 0"),
  ("Globs", "!(len(t.Sources) == 0)"),
  ("Globs", "!(len(t.Sources) == 0)"),
  ("def generatesExist := true", "!(len(t.Sources) == 0) && !(err != nil) && !(err != nil)"),
  ("glob", "!(len(t.Sources) == 0) && range t.Generates && !(g.Negate)"),
  ("def generatesExist = false", "!(len(t.Sources) == 0) && !(err != nil) && !(err != nil) && range t.Generates && !(g.Negate) && err != nil || len(files) == 0"),
  ("checker.timestampFilePath", "!(len(t.Sources) == 0)"),
  ("os.Stat", "!(len(t.Sources) == 0)"),
  ("def markerExists := err == nil", "!(len(t.Sources) == 0) && !(err != nil) && !(err != nil)"),
  ("append", "!(len(t.Sources) == 0) && markerExists"),
  ("assign generates = append(generates, timestampFile)", "!(len(t.Sources) == 0) && markerExists"),
  ("func", "!(len(t.Sources) == 0)"),
  ("return nil", "checker.dry"),
  ("os.MkdirAll", "!(checker.dry) && !markerExists"),
  ("os.Create", "!(checker.dry) && !markerExists"),
  ("time.Now", "!(checker.dry)"),
  ("os.Chtimes", "!(checker.dry)"),
  ("return os.Chtimes(timestampFile, now, now)", "!(checker.dry)"),
  ("getMaxTime", "!(len(t.Sources) == 0)"),
  ("touchMarker", "!(len(t.Sources) == 0)"),
  ("anyFileNewerThan", "!(len(t.Sources) == 0)"),
  ("def shouldUpdate, err := anyFileNewerThan(sources, generateMaxTime)", "!(len(t.Sources) == 0) && !(err != nil) && !(err != nil) && !(err != nil || generateMaxTime.IsZero())"),
  ("touchMarker", "!(len(t.Sources) == 0)"),
  ("def upToDate := !shouldUpdate && generatesExist", "!(len(t.Sources) == 0) && !(err != nil) && !(err != nil) && !(err != nil || generateMaxTime.IsZero()) && !(err != nil)"),
  ("touchMarker", "!(len(t.Sources) == 0) && !upToDate"),
  ("return upToDate, nil", "!(len(t.Sources) == 0)")] := by rfl

theorem fingerOrder_timestampOnError_ok : FingerOrder.timestampOnError = [("return nil", "len(t.Sources) == 0"),
  ("os.Remove", "!(len(t.Sources) == 0)"),
  ("checker.timestampFilePath", "!(len(t.Sources) == 0)"),
  ("return nil", "!(len(t.Sources) == 0)")] := by rfl

theorem fingerOrder_timestampPath_ok : FingerOrder.timestampPath = [("filepath.Join", ""),
  ("stateFilename", ""),
  ("return filepath.Join(checker.tempDir, \"timestamp\", stateFilename(t.Task))", "")] := by rfl

/-- `stateFilename` (fix N): the normalised name when normalisation leaves the name unchanged, else
the normalised name, `-`, and 16 hex digits of xxh3 of the ORIGINAL name (`stateKey`; the model's
tag is the name itself: the 64-bit hash is idealised as injective) -/
theorem fingerOrder_stateFilename_ok : FingerOrder.stateFilename = [("normalizeFilename", ""),
  ("def normalized := normalizeFilename(name)", ""),
  ("return normalized", "normalized == name"),
  ("fmt.Sprintf", "!(normalized == name)"),
  ("xxh3.HashString", "!(normalized == name)"),
  ("return fmt.Sprintf(\"%s-%016x\", normalized, xxh3.HashString(name))", "!(normalized == name)")] := by rfl

theorem fingerOrder_isTaskUpToDate_ok : FingerOrder.isTaskUpToDate = [("NewStatusChecker", "config.statusChecker == nil"),
  ("NewSourcesChecker", "config.sourcesChecker == nil"),
  ("config.statusChecker.IsUpToDate", "statusIsSet"),
  ("config.sourcesChecker.IsUpToDate", "sourcesIsSet"),
  ("return statusUpToDate && sourcesUpToDate, nil", "statusIsSet && sourcesIsSet"),
  ("return statusUpToDate, nil", "!(statusIsSet && sourcesIsSet) && statusIsSet"),
  ("return sourcesUpToDate, nil", "!(statusIsSet && sourcesIsSet) && !(statusIsSet) && sourcesIsSet"),
  ("return false, nil", "!(statusIsSet && sourcesIsSet) && !(statusIsSet) && !(sourcesIsSet)")] := by rfl

theorem fingerOrder_globs_ok : FingerOrder.globs = [("glob", "range globs"),
  ("assign resultMap[match] = !g.Negate", "range globs && range matches"),
  ("collectKeys", ""),
  ("return collectKeys(resultMap), nil", "")] := by rfl

theorem fingerOrder_glob_ok : FingerOrder.glob = [("execext.ExpandFields", ""),
  ("os.Stat", "range fs"),
  ("assign results[f] = true", "range fs && !(info.IsDir())"),
  ("collectKeys", ""),
  ("return collectKeys(results), nil", "")] := by rfl

theorem fingerOrder_collectKeys_ok : FingerOrder.collectKeys = [("append", "range m && v"),
  ("assign keys = append(keys, k)", "range m && v"),
  ("sort.Strings", ""),
  ("return keys", "")] := by rfl

theorem fingerOrder_statusIsUpToDate_ok : FingerOrder.statusIsUpToDate = [("execext.RunCommand", "range t.Status"),
  ("return true, nil", "")] := by rfl

theorem fingerOrder_swallowedErrReturns_ok : FingerOrder.swallowedErrReturns = [("ChecksumChecker.IsUpToDate", "return false, nil | err != nil | checker.checksum"),
  ("ChecksumChecker.IsUpToDate", "return false, nil | os.IsNotExist(err) | glob"),
  ("TimestampChecker.IsUpToDate", "return false, nil | err != nil | Globs"),
  ("TimestampChecker.IsUpToDate", "return false, nil | err != nil | Globs"),
  ("TimestampChecker.IsUpToDate", "return false, touchMarker() | err != nil || generateMaxTime.IsZero() | getMaxTime"),
  ("TimestampChecker.IsUpToDate", "return false, touchMarker() | err != nil | anyFileNewerThan"),
  ("StatusChecker.IsUpToDate", "return false, nil | err != nil | execext.RunCommand")] := by rfl

theorem fingerOrder_checksumRegexp_ok : FingerOrder.checksumRegexp = "[^A-z0-9]" := by rfl

theorem fingerOrder_normalizeReplacement_ok : FingerOrder.normalizeReplacement = "-" := by rfl

theorem fingerOrder_checksumKey_ok : FingerOrder.checksumKey = "stateFilename(t.Name())" := by rfl

theorem fingerOrder_checksumDir_ok : FingerOrder.checksumDir = "checksum" := by rfl

theorem fingerOrder_timestampKey_ok : FingerOrder.timestampKey = "stateFilename(t.Task)" := by rfl

theorem fingerOrder_timestampDir_ok : FingerOrder.timestampDir = "timestamp" := by rfl

end TaskModel.Finger.Facts
