import TaskModel.Gen.DryWiring
import TaskModel.Gen.FingerOrder
/-!
Finger.Facts — the statement skeleton of the Go source that `TaskModel.Finger.Machine` was
written against, as equalities with the tables REGENERATED from the tree under test on
every run (`extract/finger.go` → `TaskModel/Gen/DryWiring.lean`, `FingerOrder.lean`).
If the source changes in any way that matters to the model (another dry argument, a write
moved before/after the comparison, a dropped `!checker.dry` guard, `OnError` bodies,
which name keys the store, the normalisation regexp …) one of these stops checking and
the property is reported as no longer shown.  Entries are keyed by function name and
normalised expression text (never by line), so reformatting does not disturb them.

This module is imported by `Props.C04/C05/C12` only — not by the driver — so that the
correspondence check still runs (and finds a failing input) when a table changes.

Normal form of the tables (extract/fnorm.go): NO entry depends on how a local variable of the Go
function is spelled.  A local defined once by a pure expression is inlined (`cmd.Task` prints as
`t.Cmds[i].Task`, `!skipFingerprinting` as `!(e.ForceAll || (!call.Indirect && e.Force))`); a callee
whose receiver is a local is printed by the local's ORIGIN (`(fingerprint.NewSourcesChecker).OnError`
= method `OnError` of the value returned by that call, `(func·0)` = the first function literal of
the body, i.e. the closure `touchMarker`, `(&CheckerConfig{}).statusChecker.IsUpToDate`,
`(xxh3.New).Sum128`); every other local is a placeholder ‹k›, numbered per function by first
appearance.  Error plumbing (hidden guards, `swallowedErrReturns`) and the verdict variables whose
definitions are the `def …` rows are selected by data flow, not by name.  Receivers, parameters
(`t`, `e`, `checker` in the checkers' methods), fields, callees and package-level names are kept.
`selftest/harmless-H2.patch` and `harmless-H3.patch` (renames of locals, closures included) leave
both tables byte-identical.

How the model reads the tables:
* `calls`: the dry bit of every checker construction.  `RunTask`, `Status`, `statusOnError`
  pass `e.Dry`, which `flags` sets to `Dry || Status`: modes `run`/`force` ⇒ `dry = false`,
  `--dry`/`--status` ⇒ `true`.  `ToEditorOutput` passes the constant `true`
  (`Cfg.fixed.listDry`; the tree as found passed `e.Dry`, i.e. `false` for a plain
  `--list --json`).  `compiledTask` only calls `Value` (no write).
* `guards`: `IsTaskUpToDate` is skipped under `skipFingerprinting` (`--force`) — and exactly then (F8F)
  `e.recordFingerprint` runs: the sources checker's `IsUpToDate` for what it records, never when dry
  and only for a task with sources (`invoke … .force` starts the body from `(isUpToDate …).1`); the prompt
  is skipped when dry; `mkdir` is skipped when dry (`Cfg.fixed.dryMkdir = false`; unguarded in
  the tree as found); `execext.RunCommand` is unreachable when dry, but a `task:` command is
  followed (`runCommand:e.RunTask` has no dry guard) and the callee's preconditions are evaluated
  (`areTaskPreconditionsMet` unguarded): `Cmd.need` / `Cmd.blocked`, the one way a dry body fails;
  `statusOnError` is called at two places — when the prompt is declined (under `!e.Dry`, like the
  prompt itself) and inside the command loop — and, since TS4, reaches `checker.OnError` only under
  `!(e.Dry)` (`Cfg.fixed.dryOnError = false`; unguarded in the tree as found).
* `checksumIsUpToDate` (F8D): read old → compute new → LOOP OVER THE `generates` ENTRIES (`‹4›` =
  `generatesExist`: cleared when an entry does not exist / matches nothing; an error of `glob` is
  handed on — `propagate return false, ‹7›` — `checkErr`, `gensErr`) → write under `!checker.dry &&
  oldHash != newHash` → `return generatesExist && oldHash == newHash` (`sumCheck`).  The propagating
  return sits BEFORE `os.WriteFile`: on a tree without F8D it comes after, and the table differs.
* `statusOnError` in the command loop (F8C) sits under `!(t.IgnoreError && isExitError)`: a failure the
  task's `ignore_error` swallows does not reach the clean-up (`cmdLoop`, `Cmd.ignorable`).
* `glob` (F8E): a field that cannot be stat'ed, or is a directory, is skipped — no `propagate return`
  from `os.Stat` —, so whether a path is matched does not depend on other files (`nowPats`).
* `timestampIsUpToDate` (patched by TS1/TS2): Globs sources, Globs generates, `generatesExist`
  (true; cleared when a non-negated entry's `glob` fails or matches nothing — `gensOk`), Stat
  marker, append marker | create under `!checker.dry`, `time.Now`, max, newer?, `upToDate :=
  !shouldUpdate && generatesExist`, `Chtimes` under `!checker.dry && !upToDate`, `return upToDate`
  (`tsCheck`).  The `def …` entries are the definitions of the verdict variables with their FULL
  guard chain (err conditions included).
* `checksumSum`: per source, `filepath.Rel(t.Dir, f)` → `filepath.ToSlash` → hash, then the
  content (`nameOf`, `stream`); `fingerOrder_checksumName_ok` pins the arguments.  Fix F8B: a SECOND
  hasher gets, per source, the length of the name and the number of content bytes copied, as two
  big-endian `uint64` (`binary.Write` of a `[2]uint64`: 8 bytes each — `lenTable`, `be64`); the checksum is `%x%x` of the first sum followed by `%016x` of the
  second (`fpNow`); `fingerOrder_checksumFeed_ok` pins what goes to which hasher, in which order.
* `checksumOnError` removes the file when the task has sources; so does `timestampOnError`
  (patched by TS3) with the marker (`onError`); neither consults `checker.dry`, but in dry mode
  `statusOnError` is unreachable in the model's fragment (prompt guard `!e.Dry`; `runCommand` has
  no failing `execext.RunCommand` when dry).
* keys (fix N): timestamp `stateFilename(t.Task)`; `stateFilename`
  = `normalizeFilename` (regexp `[^A-z0-9]` → `-`) when that changes nothing, else normalised name +
  `-` + `%016x` of `xxh3.HashString(name)` (`stateKey`).  Checksum (fix F8A): `checksumFilename(t)` =
  `stateFilename(t.Task)` for a task without label, else `normalizeFilename(t.Label)` + `.` + `%016x`
  of xxh3 of the length-prefixed pair `"%d:%s%s", len(t.Task), t.Task, t.Label` (`sumKey`, `pairEnc`).
* `timestampIsUpToDate` (fix M): the marker is created (`!markerExists`) and moved to now only inside
  the closure `touchMarker` (the `func` entry; its body starts from an empty guard chain: nothing
  when `checker.dry`), which is called on the three exits where the task is going to run — nothing
  to compare with, `anyFileNewerThan` failed, `!upToDate` — and never before `return upToDate` with
  `upToDate` true.
-/
namespace TaskModel.Finger.Facts
open TaskModel.Gen

theorem dryWiring_calls_ok : DryWiring.calls = [("Executor.RunTask:fingerprint.WithDry", "e.Dry"),
  ("Executor.Status:fingerprint.WithDry", "e.Dry"),
  ("Executor.ToEditorOutput:fingerprint.WithDry", "true"),
  ("Executor.compiledTask:fingerprint.NewChecksumChecker", "e.Dry"),
  ("Executor.compiledTask:fingerprint.NewTimestampChecker", "e.Dry"),
  ("Executor.recordFingerprint:fingerprint.NewSourcesChecker", "e.Dry"),
  ("Executor.statusOnError:fingerprint.NewSourcesChecker", "e.Dry"),
  ("IsTaskUpToDate:NewSourcesChecker", "‹0›.dry"),
  ("NewSourcesChecker:NewChecksumChecker", "dry"),
  ("NewSourcesChecker:NewTimestampChecker", "dry"),
  ("flagsOption.ApplyToExecutor:task.WithDry", "Dry || Status")] := by rfl

theorem dryWiring_fields_ok : DryWiring.fields = [("NewChecksumChecker.dry", "dry"),
  ("NewTimestampChecker.dry", "dry"),
  ("WithDry", "‹0›.dry = dry"),
  ("task.WithDry:return", "&dryOption{dry}"),
  ("task.WithDry", "e.Dry = o.dry")] := by rfl

/-- the guard entries the Finger model depends on (the others — dependencies, preconditions,
platform and call-count checks, deferred commands — belong to other domains and may change) -/
def fingerGuardKeys : List String :=
  ["Executor.RunTask:fingerprint.IsTaskUpToDate", "Executor.RunTask:e.Logger.Prompt", "Executor.RunTask:e.mkdir",
   "Executor.RunTask:e.runCommand", "Executor.RunTask:e.statusOnError", "Executor.RunTask:e.areTaskPreconditionsMet",
   "Executor.RunTask:e.recordFingerprint", "Executor.recordFingerprint:(fingerprint.NewSourcesChecker).IsUpToDate",
   "Executor.runCommand:e.RunTask", "Executor.runCommand:execext.RunCommand",
   "Executor.Status:fingerprint.IsTaskUpToDate", "Executor.statusOnError:(fingerprint.NewSourcesChecker).OnError",
   "Executor.ToEditorOutput:fingerprint.IsTaskUpToDate", "Executor.ListTasks:e.ToEditorOutput",
   "Executor.Run:summary.PrintTask", "Executor.Run:e.splitRegularAndWatchCalls"]

set_option maxRecDepth 4096 in
theorem dryWiring_guards_ok :
    DryWiring.guards.filter (fun g => fingerGuardKeys.contains g.1) =
      [("Executor.RunTask:e.areTaskPreconditionsMet", ""),
       ("Executor.RunTask:fingerprint.IsTaskUpToDate", "!((!call.Indirect && e.Force) || e.ForceAll)"),
       ("Executor.RunTask:e.recordFingerprint", "!(!((!call.Indirect && e.Force) || e.ForceAll))"),
       ("Executor.RunTask:e.Logger.Prompt", "range ‹0›.Prompt && !e.Dry && ‹1› != \"\""),
       ("Executor.RunTask:e.statusOnError", "range ‹0›.Prompt && !e.Dry && ‹1› != \"\""),
       ("Executor.RunTask:e.mkdir", "!e.Dry"),
       ("Executor.RunTask:e.runCommand", "range ‹0›.Cmds && !(‹0›.Cmds[‹2›].Defer)"),
       ("Executor.RunTask:e.statusOnError", "range ‹0›.Cmds && !(‹0›.Cmds[‹2›].Defer) && !(‹0›.IgnoreError && ‹3›)"),
       ("Executor.runCommand:e.RunTask", "case t.Cmds[i].Task != \"\""),
       ("Executor.runCommand:execext.RunCommand", "case t.Cmds[i].Cmd != \"\" && !(!shouldRunOnCurrentPlatform(t.Cmds[i].Platforms)) && !(e.Dry)"),
       ("Executor.Status:fingerprint.IsTaskUpToDate", "range calls"),
       ("Executor.statusOnError:(fingerprint.NewSourcesChecker).OnError", "!(e.Dry)"),
       ("Executor.recordFingerprint:(fingerprint.NewSourcesChecker).IsUpToDate", "!(e.Dry || len(t.Sources) == 0)"),
       ("Executor.ToEditorOutput:fingerprint.IsTaskUpToDate", "!(noStatus)"),
       ("Executor.ListTasks:e.ToEditorOutput", "o.FormatTaskListAsJSON"),
       ("Executor.Run:summary.PrintTask", "e.Summary && range calls"),
       ("Executor.Run:e.splitRegularAndWatchCalls", "!(e.Summary)")] := by decide

theorem dryWiring_skipFingerprinting_ok : DryWiring.skipFingerprinting = "(!call.Indirect && e.Force) || e.ForceAll" := by rfl

theorem dryWiring_upToDateReturn_ok : DryWiring.upToDateReturn = "<e.areTaskPreconditionsMet> && <fingerprint.IsTaskUpToDate>" := by rfl

theorem fingerOrder_checksumIsUpToDate_ok : FingerOrder.checksumIsUpToDate = [("return false, nil", "len(t.Sources) == 0"),
  ("checker.checksumFilePath", "!(len(t.Sources) == 0)"),
  ("os.ReadFile", "!(len(t.Sources) == 0)"),
  ("strings.TrimSpace", "!(len(t.Sources) == 0)"),
  ("def ‹0› := strings.TrimSpace(string(‹1›))", "!(len(t.Sources) == 0)"),
  ("checker.checksum", "!(len(t.Sources) == 0)"),
  ("def ‹2›, ‹3› := checker.checksum(t)", "!(len(t.Sources) == 0)"),
  ("def ‹4› := true", "!(len(t.Sources) == 0) && !(‹3› != nil)"),
  ("glob", "!(len(t.Sources) == 0) && range t.Generates && !(‹5›.Negate)"),
  ("def ‹6›, ‹7› := glob(t.Dir, ‹5›.Glob)", "!(len(t.Sources) == 0) && !(‹3› != nil) && range t.Generates && !(‹5›.Negate)"),
  ("def ‹4› = false", "!(len(t.Sources) == 0) && !(‹3› != nil) && range t.Generates && !(‹5›.Negate) && os.IsNotExist(‹7›)"),
  ("propagate return false, ‹7›", "‹7› != nil | glob"),
  ("def ‹4› = false", "!(len(t.Sources) == 0) && !(‹3› != nil) && range t.Generates && !(‹5›.Negate) && !(‹7› != nil) && len(‹6›) == 0"),
  ("os.MkdirAll", "!(len(t.Sources) == 0) && !checker.dry && ‹0› != ‹2›"),
  ("os.WriteFile", "!(len(t.Sources) == 0) && !checker.dry && ‹0› != ‹2›"),
  ("propagate return false, ‹3›", "‹3› != nil | os.WriteFile"),
  ("return ‹4› && ‹0› == ‹2›, nil", "!(len(t.Sources) == 0)")] := by rfl

theorem fingerOrder_checksumOnError_ok : FingerOrder.checksumOnError = [("return nil", "len(t.Sources) == 0"),
  ("os.Remove", "!(len(t.Sources) == 0)"),
  ("checker.checksumFilePath", "!(len(t.Sources) == 0)"),
  ("return os.Remove(checker.checksumFilePath(t))", "!(len(t.Sources) == 0)")] := by rfl

theorem fingerOrder_checksumSum_ok : FingerOrder.checksumSum = [("Globs", ""),
  ("def ‹0›, ‹1› := Globs(t.Dir, t.Sources)", ""),
  ("propagate return \"\", ‹1›", "‹1› != nil | Globs"),
  ("xxh3.New", ""),
  ("def ‹2› := xxh3.New()", "!(‹1› != nil)"),
  ("xxh3.New", ""),
  ("def ‹3› := xxh3.New()", "!(‹1› != nil)"),
  ("filepath.Rel", "range ‹0›"),
  ("filepath.ToSlash", "range ‹0›"),
  ("io.CopyBuffer", "range ‹0›"),
  ("propagate return \"\", ‹4›", "‹4› != nil | io.CopyBuffer"),
  ("os.Open", "range ‹0›"),
  ("propagate return \"\", ‹5›", "‹5› != nil | os.Open"),
  ("io.CopyBuffer", "range ‹0›"),
  ("propagate return \"\", ‹5›", "‹5› != nil | io.CopyBuffer"),
  ("binary.Write", "range ‹0›"),
  ("(xxh3.New).Sum128", ""),
  ("def ‹6› := (xxh3.New).Sum128()", "!(‹1› != nil)"),
  ("fmt.Sprintf", ""),
  ("(xxh3.New·1).Sum64", ""),
  ("return fmt.Sprintf(\"%x%x%016x\", ‹6›.Hi, ‹6›.Lo, (xxh3.New·1).Sum64()), nil", "")] := by rfl

/-- what is written into the hash before a file's content: `nameOf` = the slash path relative to
`t.Dir` (the absolute path itself if `filepath.Rel` fails, which it cannot for a match below
`t.Dir`).  Facts with shared placeholders (also shared with `checksumFeed`): ‹0› the name, ‹2› the
source file of the loop -/
theorem fingerOrder_checksumName_ok :
    FingerOrder.checksumName = ["rel: ‹0›, ‹1› := filepath.Rel(t.Dir, ‹2›)", "fallback: ‹0› = ‹2›",
      "slash: ‹0› = filepath.ToSlash(‹0›)", "hashed: strings.NewReader(‹0›)"] := by decide

/-- **what is fed to which hasher** (fix F8B; placeholders shared with `checksumName`: ‹0› the name;
a hasher is printed by its origin also in argument position: `(xxh3.New)` the first local made by
`xxh3.New`, `(xxh3.New·1)` the second).  Per source, in this order: the name and then the file ‹6›
are copied into the FIRST hasher (`stream`), the second copy yielding the byte count ‹5›; the length
of the name and that byte count are written, as two big-endian `uint64` — 8 bytes each —, to the
SECOND hasher (`lenTable`, `be64`); the checksum is `%x%x` of the first hasher's 128-bit sum followed
by `%016x` of the second's 64-bit sum (`fpNow`).  On a tree without the fix the list has three entries
(no length record, no second sum): the obligation breaks; so it does when the length record is
dropped, reordered, written to the first hasher, or loses one of its two numbers. -/
theorem fingerOrder_checksumFeed_ok :
    FingerOrder.checksumFeed = ["feed: _, ‹3› := io.CopyBuffer((xxh3.New), strings.NewReader(‹0›), ‹4›)",
      "feed: ‹5›, ‹1› := io.CopyBuffer((xxh3.New), ‹6›, ‹4›)",
      "feed: _ = binary.Write((xxh3.New·1), binary.BigEndian, [2]uint64{uint64(len(‹0›)), uint64(‹5›)})",
      "sum: fmt.Sprintf(\"%x%x%016x\", ((xxh3.New).Sum128).Hi, ((xxh3.New).Sum128).Lo, (xxh3.New·1).Sum64())"] := by decide

theorem fingerOrder_checksumPath_ok : FingerOrder.checksumPath = [("filepath.Join", ""),
  ("checksumFilename", ""),
  ("return filepath.Join(checker.tempDir, \"checksum\", checksumFilename(t))", "")] := by rfl

/-- `checksumFilename` (fix F8A): the checksum state belongs to the pair (task name, label) — without
label `stateFilename(t.Task)` (the file an unlabelled task always had); with a label the normalised
label, a `.` (which `stateFilename` never produces) and `%016x` of xxh3 of the LENGTH-PREFIXED pair
`"%d:%s%s", len(t.Task), t.Task, t.Label` (`sumKey`, `pairEnc`; the model's tag is the hashed string
itself: the 64-bit hash is idealised as injective).  On a tree without the fix the table is empty and
`checksumPath` / `checksumKey` name `stateFilename(t.Name())`: three obligations break. -/
theorem fingerOrder_checksumFilename_ok : FingerOrder.checksumFilename = [("stateFilename", "t.Label == \"\""),
  ("return stateFilename(t.Task)", "t.Label == \"\""),
  ("fmt.Sprintf", "!(t.Label == \"\")"),
  ("def ‹0› := fmt.Sprintf(\"%d:%s%s\", len(t.Task), t.Task, t.Label)", "!(t.Label == \"\")"),
  ("fmt.Sprintf", "!(t.Label == \"\")"),
  ("normalizeFilename", "!(t.Label == \"\")"),
  ("xxh3.HashString", "!(t.Label == \"\")"),
  ("return fmt.Sprintf(\"%s.%016x\", normalizeFilename(t.Label), xxh3.HashString(‹0›))", "!(t.Label == \"\")")] := by rfl

theorem fingerOrder_timestampIsUpToDate_ok : FingerOrder.timestampIsUpToDate = [("return false, nil", "len(t.Sources) == 0"),
  ("Globs", "!(len(t.Sources) == 0)"),
  ("Globs", "!(len(t.Sources) == 0)"),
  ("def ‹0› := true", "!(len(t.Sources) == 0) && !(‹1› != nil) && !(‹1› != nil)"),
  ("glob", "!(len(t.Sources) == 0) && range t.Generates && !(‹2›.Negate)"),
  ("def ‹0› = false", "!(len(t.Sources) == 0) && !(‹1› != nil) && !(‹1› != nil) && range t.Generates && !(‹2›.Negate) && len(‹3›) == 0 || ‹4› != nil"),
  ("checker.timestampFilePath", "!(len(t.Sources) == 0)"),
  ("def ‹5› := checker.timestampFilePath(t)", "!(len(t.Sources) == 0) && !(‹1› != nil) && !(‹1› != nil)"),
  ("os.Stat", "!(len(t.Sources) == 0)"),
  ("def ‹6› := ‹1› == nil", "!(len(t.Sources) == 0) && !(‹1› != nil) && !(‹1› != nil)"),
  ("append", "!(len(t.Sources) == 0) && ‹6›"),
  ("assign ‹7› = append(‹7›, ‹5›)", "!(len(t.Sources) == 0) && ‹6›"),
  ("func", "!(len(t.Sources) == 0)"),
  ("return nil", "checker.dry"),
  ("os.MkdirAll", "!(checker.dry) && !‹6›"),
  ("propagate return ‹8›", "‹8› != nil | os.MkdirAll"),
  ("os.Create", "!(checker.dry) && !‹6›"),
  ("propagate return ‹9›", "‹9› != nil | os.Create"),
  ("time.Now", "!(checker.dry)"),
  ("def ‹10› := time.Now()", "!(checker.dry)"),
  ("os.Chtimes", "!(checker.dry)"),
  ("return os.Chtimes(‹5›, ‹10›, ‹10›)", "!(checker.dry)"),
  ("getMaxTime", "!(len(t.Sources) == 0)"),
  ("(func·0)", "!(len(t.Sources) == 0)"),
  ("anyFileNewerThan", "!(len(t.Sources) == 0)"),
  ("def ‹11›, ‹1› := anyFileNewerThan(‹12›, ‹13›)", "!(len(t.Sources) == 0) && !(‹1› != nil) && !(‹1› != nil) && !((getMaxTime).IsZero() || ‹1› != nil)"),
  ("(func·0)", "!(len(t.Sources) == 0)"),
  ("def ‹14› := !‹11› && ‹0›", "!(len(t.Sources) == 0) && !(‹1› != nil) && !(‹1› != nil) && !((getMaxTime).IsZero() || ‹1› != nil) && !(‹1› != nil)"),
  ("(func·0)", "!(len(t.Sources) == 0) && !‹14›"),
  ("propagate return false, ‹15›", "‹15› != nil | (func·0)"),
  ("return ‹14›, nil", "!(len(t.Sources) == 0)")] := by rfl

theorem fingerOrder_timestampOnError_ok : FingerOrder.timestampOnError = [("return nil", "len(t.Sources) == 0"),
  ("os.Remove", "!(len(t.Sources) == 0)"),
  ("checker.timestampFilePath", "!(len(t.Sources) == 0)"),
  ("propagate return ‹0›", "‹0› != nil && !os.IsNotExist(‹0›) | os.Remove"),
  ("return nil", "!(len(t.Sources) == 0)")] := by rfl

theorem fingerOrder_timestampPath_ok : FingerOrder.timestampPath = [("filepath.Join", ""),
  ("stateFilename", ""),
  ("return filepath.Join(checker.tempDir, \"timestamp\", stateFilename(t.Task))", "")] := by rfl

/-- `stateFilename` (fix N): the normalised name when normalisation leaves the name unchanged, else
the normalised name, `-`, and 16 hex digits of xxh3 of the ORIGINAL name (`stateKey`; the model's
tag is the name itself: the 64-bit hash is idealised as injective) -/
theorem fingerOrder_stateFilename_ok : FingerOrder.stateFilename = [("normalizeFilename", ""),
  ("def ‹0› := normalizeFilename(name)", ""),
  ("return ‹0›", "‹0› == name"),
  ("fmt.Sprintf", "!(‹0› == name)"),
  ("xxh3.HashString", "!(‹0› == name)"),
  ("return fmt.Sprintf(\"%s-%016x\", ‹0›, xxh3.HashString(name))", "!(‹0› == name)")] := by rfl

theorem fingerOrder_isTaskUpToDate_ok : FingerOrder.isTaskUpToDate = [("def ‹0› := &CheckerConfig{method: \"none\", tempDir: \"\", dry: false, logger: nil, statusChecker: nil, sourcesChecker: nil}", ""),
  ("NewStatusChecker", "‹0›.statusChecker == nil"),
  ("NewSourcesChecker", "‹0›.sourcesChecker == nil"),
  ("propagate return false, ‹1›", "‹1› != nil | NewSourcesChecker"),
  ("def ‹2› := len(t.Status) != 0", ""),
  ("def ‹3› := len(t.Sources) != 0", ""),
  ("(&CheckerConfig{}).statusChecker.IsUpToDate", "‹2›"),
  ("def ‹4›, ‹1› = (&CheckerConfig{}).statusChecker.IsUpToDate(ctx, t)", "‹2›"),
  ("propagate return false, ‹1›", "‹1› != nil | (&CheckerConfig{}).statusChecker.IsUpToDate"),
  ("(&CheckerConfig{}).sourcesChecker.IsUpToDate", "‹3›"),
  ("def ‹5›, ‹1› = (&CheckerConfig{}).sourcesChecker.IsUpToDate(t)", "‹3›"),
  ("propagate return false, ‹1›", "‹1› != nil | (&CheckerConfig{}).sourcesChecker.IsUpToDate"),
  ("return ‹4› && ‹5›, nil", "‹2› && ‹3›"),
  ("return ‹4›, nil", "!(‹2› && ‹3›) && ‹2›"),
  ("return ‹5›, nil", "!(‹2› && ‹3›) && !(‹2›) && ‹3›"),
  ("return false, nil", "!(‹2› && ‹3›) && !(‹2›) && !(‹3›)")] := by rfl

theorem fingerOrder_globs_ok : FingerOrder.globs = [("def ‹0› := make(map[string]bool)", ""),
  ("glob", "range globs && !(‹1› == nil)"),
  ("def ‹2›, ‹3› := glob(dir, ‹1›.Glob)", "range globs && !(‹1› == nil)"),
  ("assign ‹0›[‹4›] = !‹1›.Negate", "range globs && !(‹1› == nil) && range ‹2›"),
  ("collectKeys", ""),
  ("return collectKeys(‹0›), nil", "")] := by rfl

theorem fingerOrder_glob_ok : FingerOrder.glob = [("execext.ExpandFields", ""),
  ("def ‹0›, ‹1› := execext.ExpandFields(g)", ""),
  ("propagate return nil, ‹1›", "‹1› != nil | execext.ExpandFields"),
  ("def ‹2› := make(map[string]bool, len(‹0›))", "!(‹1› != nil)"),
  ("os.Stat", "range ‹0›"),
  ("assign ‹2›[‹3›] = true", "range ‹0›"),
  ("collectKeys", ""),
  ("return collectKeys(‹2›), nil", "")] := by rfl

theorem fingerOrder_collectKeys_ok : FingerOrder.collectKeys = [("def ‹0› := make([]string, 0, len(m))", ""),
  ("append", "range m && ‹1›"),
  ("assign ‹0› = append(‹0›, ‹2›)", "range m && ‹1›"),
  ("sort.Strings", ""),
  ("return ‹0›", "")] := by rfl

theorem fingerOrder_statusIsUpToDate_ok : FingerOrder.statusIsUpToDate = [("execext.RunCommand", "range t.Status"),
  ("return true, nil", "")] := by rfl

theorem fingerOrder_swallowedErrReturns_ok : FingerOrder.swallowedErrReturns = [("ChecksumChecker.IsUpToDate", "return false, nil | ‹3› != nil | checker.checksum"),
  ("TimestampChecker.IsUpToDate", "return false, nil | ‹1› != nil | Globs"),
  ("TimestampChecker.IsUpToDate", "return false, nil | ‹1› != nil | Globs"),
  ("TimestampChecker.IsUpToDate", "return false, (func·0)() | ‹1› != nil || (getMaxTime).IsZero() | getMaxTime"),
  ("TimestampChecker.IsUpToDate", "return false, (func·0)() | ‹1› != nil | anyFileNewerThan"),
  ("StatusChecker.IsUpToDate", "return false, nil | ‹0› != nil | execext.RunCommand")] := by rfl

theorem fingerOrder_checksumRegexp_ok : FingerOrder.checksumRegexp = "[^A-z0-9]" := by rfl

theorem fingerOrder_normalizeReplacement_ok : FingerOrder.normalizeReplacement = "-" := by rfl

theorem fingerOrder_checksumKey_ok : FingerOrder.checksumKey = "checksumFilename(t)" := by rfl

theorem fingerOrder_checksumDir_ok : FingerOrder.checksumDir = "checksum" := by rfl

theorem fingerOrder_timestampKey_ok : FingerOrder.timestampKey = "stateFilename(t.Task)" := by rfl

theorem fingerOrder_timestampDir_ok : FingerOrder.timestampDir = "timestamp" := by rfl

end TaskModel.Finger.Facts
