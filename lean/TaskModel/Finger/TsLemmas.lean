import TaskModel.Finger.HistLemmas
import TaskModel.Finger.StreamLemmas
import TaskModel.Finger.KeyLemmas
/-! Lemmas about method timestamp as patched by TS1–TS3 (used by `Props.C04`, `Props.C05`,
`Props.C12`): what an invocation does to the marker `.task/timestamp/<key>`. -/
namespace TaskModel.Finger

variable (cfg : Cfg) (H : Hashes) (pr : Proj)

/-! ### the check of a timestamp task -/

theorem isUpToDate_ts {t : Task} (hts : Ts t) (dry : Bool) (now : Nat) (s : State) :
    isUpToDate H pr t dry now s =
      ((tsCheck t dry now s).1, if t.status.isEmpty then tsUp t s else statusOk t s.files && tsUp t s) := by
  rw [isUpToDate_sources H pr hts.2]
  simp only [srcCheck, hts.1, tsCheck_result]

/-- "up to date" for a timestamp task means the timestamp check said so -/
theorem tsUp_of_upToDate {t : Task} (hts : Ts t) (dry : Bool) (now : Nat) (s : State)
    (h : (isUpToDate H pr t dry now s).2 = true) : tsUp t s = true := by
  rw [isUpToDate_ts H pr hts] at h
  simp only at h
  cases hst : t.status.isEmpty <;> simp [hst] at h <;> simp [h]

/-- what the verdict `tsUp` says -/
theorem tsUp_iff (t : Task) (s : State) :
    tsUp t s = true ↔
      tsGts t s ≠ [] ∧ (∀ p ∈ srcsNow t s.files, mtimeOf s.files p ≤ maxOf (tsGts t s)) ∧ gensOk t s.files = true := by
  unfold tsUp
  simp only [Bool.and_eq_true, Bool.not_eq_true', List.any_eq_false, decide_eq_true_eq, Nat.not_lt]
  constructor
  · rintro ⟨⟨h1, h2⟩, h3⟩
    exact ⟨fun e => by simp [e] at h1, h2, h3⟩
  · rintro ⟨h1, h2, h3⟩
    refine ⟨⟨?_, h2⟩, h3⟩
    cases hg : tsGts t s with
    | nil => exact absurd hg h1
    | cons _ _ => rfl

/-- **a source strictly newer than every generate and the marker ⇒ not up to date** -/
theorem tsUp_false_of_newer (t : Task) (s : State) (p : Path) (hp : p ∈ srcsNow t s.files)
    (hnew : ∀ m ∈ tsGts t s, m < mtimeOf s.files p) (hpos : 0 < mtimeOf s.files p) : tsUp t s = false := by
  cases h : tsUp t s with
  | false => rfl
  | true =>
    have h2 := ((tsUp_iff t s).mp h).2.1 p hp
    have : maxOf (tsGts t s) < mtimeOf s.files p := foldl_max_lt (tsGts t s) 0 _ hpos hnew
    omega

theorem maxOf_le_append (l r : List Nat) : maxOf l ≤ maxOf (l ++ r) := by
  unfold maxOf
  rw [List.foldl_append]
  exact le_foldl_max r _ _ (Or.inl (Nat.le_refl _))

/-- a check that says "up to date" leaves a state that is up to date (it leaves the state alone) -/
theorem tsUp_after_check (t : Task) (now : Nat) (s : State) (h : tsUp t s = true) :
    tsUp t (tsCheck t false now s).1 = true := by
  rw [tsCheck_upToDate_pure t false now s (by rw [tsCheck_result]; exact h)]; exact h

/-- effect of the non-dry check of ANY task on the markers -/
theorem isUpToDate_marks_other (t : Task) (now : Nat) (s : State) (x : Bytes) (hx : Ts t → x ≠ tsKey t) :
    aget (isUpToDate H pr t false now s).1.marks x = aget s.marks x := by
  by_cases hsrc : t.sources.isEmpty = false
  · rw [isUpToDate_sources H pr hsrc]
    simp only
    cases hm : t.method with
    | checksum => simp only [srcCheck, hm]; rw [(sumCheck_fields H pr t false s).2.1]
    | timestamp => simp only [srcCheck, hm]; exact tsCheck_marks_other t false now s x (hx ⟨hm, hsrc⟩)
    | none => simp [srcCheck, hm]
  · have : (isUpToDate H pr t false now s).1 = s := by
      unfold isUpToDate
      simp only [Bool.not_eq_false] at hsrc
      simp [hsrc]
    rw [this]

/-! ### the body -/

/-- a body that exits `failed` went through `statusOnError`: no marker for a timestamp task -/
theorem runBody_failed_marks (i : Nat) (t : Task) (e : Env) (s : State)
    (h : (runBody cfg H pr i t false e s).2.exit = .failed) :
    (runBody cfg H pr i t false e s).1.marks = if Ts t then adel s.marks (tsKey t) else s.marks := by
  have hmk := mkdirTask_fields t s
  unfold runBody at h ⊢
  simp only [Bool.not_false, Bool.and_true, Bool.false_eq_true, if_false] at h ⊢
  split
  · rename_i hc; simp [hc] at h
  · rename_i hc
    simp only [hc] at h
    split
    · rename_i hl; simp [hl] at h
    · rw [onError_marks]; simp [hmk.2.2.2]
    · rename_i hl; simp [hl] at h

/-- a body that does not exit `failed` / `cancelled` (it exits `ok`, or the process is killed)
leaves the markers alone -/
theorem runBody_marks_kept (i : Nat) (t : Task) (e : Env) (s : State)
    (h1 : (runBody cfg H pr i t false e s).2.exit ≠ .failed) (h2 : (runBody cfg H pr i t false e s).2.exit ≠ .cancelled) :
    (runBody cfg H pr i t false e s).1.marks = s.marks := by
  have hmk := mkdirTask_fields t s
  unfold runBody at h1 h2 ⊢
  simp only [Bool.not_false, Bool.and_true, Bool.false_eq_true, if_false] at h1 h2 ⊢
  split
  · rename_i hc; simp [hc] at h2
  · rename_i hc
    simp only [hc] at h1
    split
    · simp [hmk.2.2.2]
    · rename_i hl; simp [hl] at h1
    · simp [hmk.2.2.2]

/-! ### what an invocation of ANOTHER task does to a marker and to the log -/

theorem runBody_marks_other (i : Nat) (t : Task) (e : Env) (s : State) (x : Bytes) (hx : Ts t → x ≠ tsKey t) :
    aget (runBody cfg H pr i t false e s).1.marks x = aget s.marks x := by
  have hmk := mkdirTask_fields t s
  have hon : ∀ s' : State, s'.marks = s.marks → aget (onError t s').marks x = aget s.marks x := by
    intro s' hs'
    rw [onError_marks, hs']
    by_cases hts : Ts t
    · rw [if_pos hts, aget_adel_ne _ (fun e => hx hts e.symm)]
    · rw [if_neg hts]
  unfold runBody
  simp only [Bool.not_false, Bool.and_true, Bool.false_eq_true, if_false]
  split
  · exact hon s rfl
  · split
    · simp [hmk.2.2.2]
    · exact hon _ (by simp [hmk.2.2.2])
    · simp [hmk.2.2.2]

/-- the body logs at most one attempt, and it is an attempt at task `i` made at `e.now` -/
theorem runBody_log (i : Nat) (t : Task) (dry : Bool) (e : Env) (s : State) :
    (runBody cfg H pr i t dry e s).1.log = s.log ∨
    ∃ fp ok src, (runBody cfg H pr i t dry e s).1.log = s.log ++ [⟨i, fp, e.now, ok, src⟩] := by
  have hmk := mkdirTask_fields t s
  unfold runBody
  simp only
  split
  · left; exact onError_log t s
  · split
    · left
      have h1 : (if cfg.dryMkdir = true then mkdirTask t s else s).log = s.log := by
        split
        · exact hmk.2.2.1
        · rfl
      split
      · simp only; split
        · rw [onError_log]; exact h1
        · exact h1
      · exact h1
    · right
      split
      · exact ⟨_, _, _, by simp only [hmk.2.2.1]; rfl⟩
      · exact ⟨_, _, _, by simp only [onError_log, hmk.2.2.1]; rfl⟩
      · exact ⟨_, _, _, by simp only [hmk.2.2.1]; rfl⟩

theorem isUpToDate_log (t : Task) (dry : Bool) (now : Nat) (s : State) : (isUpToDate H pr t dry now s).1.log = s.log := by
  cases dry with
  | true => simp
  | false => exact (isUpToDate_effect H pr t now s).1

/-- an invocation of task `j` leaves every marker that is not `j`'s own alone -/
theorem invoke_marks_other {j : Nat} {tj : Task} (htj : pr.tasks[j]? = some tj) (m : Mode) (e : Env) (s : State)
    (x : Bytes) (hx : Ts tj → x ≠ tsKey tj) :
    aget (invoke Cfg.fixed H pr j m e s).1.marks x = aget s.marks x := by
  by_cases hro : m.readOnly = true
  · rw [(invoke_readOnly Cfg.fixed H pr rfl rfl rfl j m e s hro).1]
  · cases m with
    | run =>
      cases hce : checkErr tj e s.files with
      | true => rw [invoke_run_err Cfg.fixed H pr htj e s hce]
      | false =>
        rw [invoke_run Cfg.fixed H pr htj e s hce]
        split
        · exact isUpToDate_marks_other H pr tj e.now s x hx
        · rw [runBody_marks_other Cfg.fixed H pr j tj e _ x hx]
          exact isUpToDate_marks_other H pr tj e.now s x hx
    | force =>
      rw [invoke_force Cfg.fixed H pr htj]
      rw [runBody_marks_other Cfg.fixed H pr j tj e _ x hx]
      unfold forceStart
      split
      · rfl
      · exact isUpToDate_marks_other H pr tj e.now s x hx
    | dry => simp [Mode.readOnly] at hro
    | status => simp [Mode.readOnly] at hro
    | listJson => simp [Mode.readOnly] at hro
    | list => simp [Mode.readOnly] at hro
    | summary => simp [Mode.readOnly] at hro

/-- an invocation of task `j` logs at most one attempt, at task `j` -/
theorem invoke_log (j : Nat) (m : Mode) (e : Env) (s : State) :
    (invoke Cfg.fixed H pr j m e s).1.log = s.log ∨
    ∃ fp ok src, (invoke Cfg.fixed H pr j m e s).1.log = s.log ++ [⟨j, fp, e.now, ok, src⟩] := by
  by_cases hro : m.readOnly = true
  · left; rw [(invoke_readOnly Cfg.fixed H pr rfl rfl rfl j m e s hro).1]
  · cases htj : pr.tasks[j]? with
    | none =>
      left
      cases m <;> simp [Mode.readOnly] at hro <;> simp [invoke, htj]
    | some tj =>
      cases m with
      | run =>
        cases hce : checkErr tj e s.files with
        | true => left; rw [invoke_run_err Cfg.fixed H pr htj e s hce]
        | false =>
          rw [invoke_run Cfg.fixed H pr htj e s hce]
          split
          · left; exact isUpToDate_log H pr tj false e.now s
          · have := runBody_log Cfg.fixed H pr j tj false e (isUpToDate H pr tj false e.now s).1
            rw [isUpToDate_log] at this
            exact this
      | force =>
        rw [invoke_force Cfg.fixed H pr htj]
        have := runBody_log Cfg.fixed H pr j tj false e (forceStart H pr tj e s)
        rw [(forceStart_effect H pr tj e s).1] at this
        exact this
      | dry => simp [Mode.readOnly] at hro
      | status => simp [Mode.readOnly] at hro
      | listJson => simp [Mode.readOnly] at hro
      | list => simp [Mode.readOnly] at hro
      | summary => simp [Mode.readOnly] at hro

/-- every attempt a body logs carries the fingerprint OF its ghost source list -/
theorem runBody_log_src (i : Nat) (t : Task) (dry : Bool) (e : Env) (s : State) :
    (runBody cfg H pr i t dry e s).1.log = s.log ∨
    ∃ a, (runBody cfg H pr i t dry e s).1.log = s.log ++ [a] ∧ a.fp = fpOfList H a.src := by
  have hmk := mkdirTask_fields t s
  unfold runBody
  simp only
  split
  · left; exact onError_log t s
  · split
    · left
      have h1 : (if cfg.dryMkdir = true then mkdirTask t s else s).log = s.log := by
        split
        · exact hmk.2.2.1
        · rfl
      split
      · simp only; split
        · rw [onError_log]; exact h1
        · exact h1
      · exact h1
    · right
      split
      · exact ⟨_, by simp only [hmk.2.2.1]; rfl, fpNow_eq_fpOfList H pr t _⟩
      · exact ⟨_, by simp only [onError_log, hmk.2.2.1]; rfl, fpNow_eq_fpOfList H pr t _⟩
      · exact ⟨_, by simp only [hmk.2.2.1]; rfl, fpNow_eq_fpOfList H pr t _⟩

/-- … hence so does every attempt an invocation logs -/
theorem invoke_log_src (j : Nat) (m : Mode) (e : Env) (s : State) :
    (invoke Cfg.fixed H pr j m e s).1.log = s.log ∨
    ∃ a, (invoke Cfg.fixed H pr j m e s).1.log = s.log ++ [a] ∧ a.fp = fpOfList H a.src := by
  by_cases hro : m.readOnly = true
  · left; rw [(invoke_readOnly Cfg.fixed H pr rfl rfl rfl j m e s hro).1]
  · cases htj : pr.tasks[j]? with
    | none =>
      left
      cases m <;> simp [Mode.readOnly] at hro <;> simp [invoke, htj]
    | some tj =>
      cases m with
      | run =>
        cases hce : checkErr tj e s.files with
        | true => left; rw [invoke_run_err Cfg.fixed H pr htj e s hce]
        | false =>
          rw [invoke_run Cfg.fixed H pr htj e s hce]
          split
          · left; exact isUpToDate_log H pr tj false e.now s
          · have := runBody_log_src Cfg.fixed H pr j tj false e (isUpToDate H pr tj false e.now s).1
            rw [isUpToDate_log] at this
            exact this
      | force =>
        rw [invoke_force Cfg.fixed H pr htj]
        have := runBody_log_src Cfg.fixed H pr j tj false e (forceStart H pr tj e s)
        rw [(forceStart_effect H pr tj e s).1] at this
        exact this
      | dry => simp [Mode.readOnly] at hro
      | status => simp [Mode.readOnly] at hro
      | listJson => simp [Mode.readOnly] at hro
      | list => simp [Mode.readOnly] at hro
      | summary => simp [Mode.readOnly] at hro

/-! ### tasks without a positive `generates` pattern: the marker alone decides -/

/-- no positive `generates` pattern (none at all, or `exclude:` entries only) -/
def NoPosGenerates (t : Task) : Prop := ∀ g ∈ t.generates, g.neg = true

instance (t : Task) : Decidable (NoPosGenerates t) := by unfold NoPosGenerates; infer_instance

theorem lastFlag_allneg (pats : List Pat) (h : ∀ g ∈ pats, g.neg = true) (q : Path) : lastFlag pats q ≠ some true := by
  induction pats with
  | nil => simp [lastFlag]
  | cons g gs ih =>
    have ih' := ih (fun x hx => h x (by simp [hx]))
    have hg : g.neg = true := h g (by simp)
    simp only [lastFlag]
    cases hl : lastFlag gs q with
    | some b => simp only; intro e; exact ih' (hl ▸ e)
    | none => simp only; split <;> simp [hg]

theorem globs_allneg (pats : List Pat) (h : ∀ g ∈ pats, g.neg = true) : globs pats = [] := by
  apply List.eq_nil_iff_forall_not_mem.mpr
  intro q hq
  exact lastFlag_allneg pats h q ((mem_globs pats q).mp hq)

theorem noPos_gens {t : Task} (h : NoPosGenerates t) (fs : FS) :
    globs (nowPats t.generates fs) = [] ∧ gensOk t fs = true := by
  constructor
  · apply globs_allneg
    intro g hg
    simp only [nowPats, List.mem_map] at hg
    obtain ⟨g0, hg0, rfl⟩ := hg
    exact h g0 hg0
  · unfold gensOk
    rw [List.all_eq_true]
    intro g hg
    simp [h g hg]

theorem maxOf_single (m : Nat) : maxOf [m] = m := by
  simp [maxOf]

/-- without positive generates the verdict is: the marker exists and no source is newer than it -/
theorem tsUp_noPos {t : Task} (h : NoPosGenerates t) (s : State) :
    tsUp t s = true ↔ ∃ m, aget s.marks (tsKey t) = some m ∧ ∀ p ∈ srcsNow t s.files, mtimeOf s.files p ≤ m := by
  rw [tsUp_iff]
  have hg := noPos_gens h s.files
  unfold tsGts
  rw [hg.1]
  cases hm : aget s.marks (tsKey t) with
  | none => simp
  | some m => simp [maxOf_single, hg.2]

end TaskModel.Finger
