import TaskModel.Finger.Machine
/-! Helper lemmas about the state machine (used by `Props.C04`, `Props.C05`, `Props.C12`). -/
namespace TaskModel.Finger

variable (cfg : Cfg) (H : Hashes) (pr : Proj)

/-! ### the timestamp check -/

theorem le_foldl_max (l : List Nat) (a x : Nat) (h : x ≤ a ∨ x ∈ l) : x ≤ l.foldl Nat.max a := by
  induction l generalizing a with
  | nil => simpa using h
  | cons b l ih =>
    simp only [List.foldl_cons]
    apply ih
    rcases h with h | h
    · exact Or.inl (Nat.le_trans h (Nat.le_max_left a b))
    · simp only [List.mem_cons] at h
      rcases h with h | h
      · subst h; exact Or.inl (Nat.le_max_right a x)
      · exact Or.inr h

theorem le_maxOf (l : List Nat) (x : Nat) (h : x ∈ l) : x ≤ maxOf l :=
  le_foldl_max l 0 x (Or.inr h)


/-- the times the sources are compared with: generates that exist, plus the marker if it exists -/
def tsGts (t : Task) (s : State) : List Nat :=
  (globs (nowPats t.generates s.files)).map (mtimeOf s.files) ++
    (match aget s.marks (tsKey t) with | some m => [m] | none => [])

/-- the verdict of the (patched) timestamp check: something to compare with, no source newer than
it, and every non-negated `generates` entry matches an existing file -/
def tsUp (t : Task) (s : State) : Bool :=
  !(tsGts t s).isEmpty && !(srcsNow t s.files).any (fun p => decide (maxOf (tsGts t s) < mtimeOf s.files p)) &&
    gensOk t s.files

/-- **`tsCheck` in one line** (after fix M): the verdict is `tsUp`; the state is untouched by a dry
check and by EVERY check that says "up to date"; otherwise the marker is left at the time of the
check (created, or moved, because the task is going to run). -/
theorem tsCheck_eq (t : Task) (dry : Bool) (now : Nat) (s : State) :
    tsCheck t dry now s =
      (if dry || tsUp t s then s else { s with marks := aset s.marks (tsKey t) now }, tsUp t s) := by
  unfold tsCheck tsUp tsGts
  simp only
  generalize (List.map (mtimeOf s.files) (globs (nowPats t.generates s.files)) ++
    match aget s.marks (tsKey t) with | some m => [m] | none => []) = l
  cases l with
  | nil => cases dry <;> simp
  | cons a l =>
    simp only [List.isEmpty_cons, Bool.false_eq_true, if_false, Bool.not_false, Bool.true_and]
    generalize ((!(srcsNow t s.files).any fun p => decide (maxOf (a :: l) < mtimeOf s.files p)) && gensOk t s.files) = up
    cases dry <;> cases up <;> simp

theorem tsCheck_result (t : Task) (dry : Bool) (now : Nat) (s : State) : (tsCheck t dry now s).2 = tsUp t s := by
  rw [tsCheck_eq]

/-- a check leaves every OTHER marker alone -/
theorem tsCheck_marks_other (t : Task) (dry : Bool) (now : Nat) (s : State) (x : Bytes) (hx : x ≠ tsKey t) :
    aget (tsCheck t dry now s).1.marks x = aget s.marks x := by
  rw [tsCheck_eq]
  simp only
  split
  · rfl
  · exact aget_aset_ne _ _ (fun e => hx e.symm)

/-- **an up-to-date verdict changes nothing at all** (fix M: no marker is moved, none is created) -/
theorem tsCheck_upToDate_pure (t : Task) (dry : Bool) (now : Nat) (s : State)
    (hup : (tsCheck t dry now s).2 = true) : (tsCheck t dry now s).1 = s := by
  rw [tsCheck_result] at hup
  rw [tsCheck_eq]
  simp [hup]

/-- **a not-up-to-date verdict of a non-dry check leaves the marker at the time of the check** -/
theorem tsCheck_stored (t : Task) (now : Nat) (s : State) (hno : (tsCheck t false now s).2 = false) :
    aget (tsCheck t false now s).1.marks (tsKey t) = some now := by
  rw [tsCheck_result] at hno
  rw [tsCheck_eq]
  simp [hno]

/-- after a non-dry check: the marker is at the time of the check, or (verdict "up to date") the
state is what it was -/
theorem tsCheck_marker_after (t : Task) (now : Nat) (s : State) :
    aget (tsCheck t false now s).1.marks (tsKey t) = some now ∨
    ((tsCheck t false now s).2 = true ∧ (tsCheck t false now s).1 = s) := by
  cases hv : (tsCheck t false now s).2 with
  | false => exact Or.inl (tsCheck_stored t now s hv)
  | true => exact Or.inr ⟨rfl, tsCheck_upToDate_pure t false now s hv⟩

@[simp] theorem tsCheck_dry (t : Task) (now : Nat) (s : State) : (tsCheck t true now s).1 = s := by
  rw [tsCheck_eq]; simp

theorem tsCheck_fields (t : Task) (dry : Bool) (now : Nat) (s : State) :
    (tsCheck t dry now s).1.files = s.files ∧ (tsCheck t dry now s).1.sums = s.sums ∧
    (tsCheck t dry now s).1.log = s.log ∧ (tsCheck t dry now s).1.dirs = s.dirs := by
  rw [tsCheck_eq]
  simp only
  split <;> simp

/-! ### dry checks write nothing -/

@[simp] theorem sumCheck_dry (t : Task) (s : State) : (sumCheck H pr t true s).1 = s := by
  simp [sumCheck]

@[simp] theorem srcCheck_dry (t : Task) (now : Nat) (s : State) : (srcCheck H pr t true now s).1 = s := by
  unfold srcCheck
  split <;> simp

@[simp] theorem isUpToDate_dry (t : Task) (now : Nat) (s : State) : (isUpToDate H pr t true now s).1 = s := by
  unfold isUpToDate
  simp only
  split <;> simp

theorem listJson_dry (h : cfg.listDry = true) (now : Nat) (ts : List Task) (s : State) (acc : List Bool) :
    (listJson cfg H pr now ts s acc).1 = s := by
  induction ts generalizing s acc with
  | nil => rfl
  | cons t ts ih =>
    simp only [listJson, h]
    rw [ih]
    simp

/-- **the dry body** of the repaired wiring: no state change, no command — also when a `task:`
call fails (its precondition does not hold), which is the one way a dry body fails and the one
place where the tree before TS4 reached `statusOnError` in a dry run -/
theorem runBody_dry (h : cfg.dryMkdir = false) (h3 : cfg.dryOnError = false) (i : Nat) (t : Task) (e : Env) (s : State) :
    (runBody cfg H pr i t true e s).1 = s ∧ (runBody cfg H pr i t true e s).2.ran = [] := by
  simp only [runBody, h, h3, Obs.quiet, Bool.not_true, Bool.and_false, Bool.false_and, Bool.false_eq_true, if_false, if_true]
  split <;> exact ⟨rfl, rfl⟩

/-- what the dry body reports: `failed` iff some call's precondition does not hold -/
theorem runBody_dry_exit (h : cfg.dryMkdir = false) (h3 : cfg.dryOnError = false) (i : Nat) (t : Task) (e : Env) (s : State) :
    (runBody cfg H pr i t true e s).2.exit = if t.cmds.any (fun c => c.blocked s.files) then .failed else .ok := by
  simp only [runBody, h, h3, Obs.quiet, Bool.not_true, Bool.and_false, Bool.false_and, Bool.false_eq_true, if_false, if_true]
  split <;> rfl

/-- every read-only invocation of the repaired wiring leaves the state alone and runs nothing -/
theorem invoke_readOnly (h1 : cfg.listDry = true) (h2 : cfg.dryMkdir = false) (h3 : cfg.dryOnError = false)
    (i : Nat) (m : Mode) (e : Env) (s : State)
    (hm : m.readOnly = true) :
    (invoke cfg H pr i m e s).1 = s ∧ (invoke cfg H pr i m e s).2.ran = [] := by
  cases m with
  | run => simp [Mode.readOnly] at hm
  | force => simp [Mode.readOnly] at hm
  | list => simp [invoke, Obs.quiet]
  | summary => simp [invoke, Obs.quiet]
  | listJson =>
    simp only [invoke]
    split
    · exact ⟨rfl, rfl⟩
    · simp [listJson_dry cfg H pr h1]
  | status =>
    simp only [invoke]
    split
    · simp
    · split <;> simp
  | dry =>
    simp only [invoke]
    split
    · simp
    · split
      · exact ⟨rfl, rfl⟩
      · split
        · simp
        · simp only [isUpToDate_dry]
          exact runBody_dry cfg H pr h2 h3 i _ e s


/-! ### unfolding `invoke` -/

/-- with `G` set no entry fails to expand: the check returns no error -/
theorem gensErr_gset (guard : List Nat) (fs : FS) (gs : List Pat) (k : Nat) : gensErr true guard fs gs k = false := by
  induction gs generalizing k with
  | nil => rfl
  | cons g gs ih =>
    simp only [gensErr, Bool.not_true, Bool.false_and, Bool.false_eq_true, if_false, ih]
    split <;> simp

theorem checkErr_gset (t : Task) (e : Env) (fs : FS) (hg : e.gset = true) : checkErr t e fs = false := by
  simp [checkErr, hg, gensErr_gset]

theorem checkErr_timestamp {t : Task} (e : Env) (fs : FS) (h : t.method = .timestamp) : checkErr t e fs = false := by
  simp [checkErr, h]

/-- only a checksum task's check can return an error -/
theorem checkErr_method {t : Task} {e : Env} {fs : FS} (h : checkErr t e fs = true) : t.method = .checksum := by
  simp only [checkErr, Bool.and_eq_true, decide_eq_true_eq] at h
  exact h.1.1

/-- a run whose check returns an error: nothing runs; the fixed tree leaves the state alone -/
theorem invoke_run_err {i : Nat} {t : Task} (h : pr.tasks[i]? = some t) (e : Env) (s : State)
    (hce : checkErr t e s.files = true) :
    invoke cfg H pr i .run e s = (s, ⟨.checkError, false, [], []⟩) := by
  simp only [invoke, h, hce, if_true]

theorem invoke_run {i : Nat} {t : Task} (h : pr.tasks[i]? = some t) (e : Env) (s : State)
    (hce : checkErr t e s.files = false) :
    invoke cfg H pr i .run e s =
      if ((isUpToDate H pr t false e.now s).2 && !interrupted t e) = true then ((isUpToDate H pr t false e.now s).1, ⟨.ok, true, [], []⟩)
      else runBody cfg H pr i t false e (isUpToDate H pr t false e.now s).1 := by
  simp only [invoke, h, hce, Bool.false_eq_true, if_false]

theorem and_left_true {a b : Bool} (h : (a && b) = true) : a = true := by
  cases a <;> simp_all

theorem and_false_of_left {a b : Bool} (h : a = false) : (a && b) = false := by
  simp [h]

/-- an ordinary invocation: not cancelled by a failing sibling, every `generates` entry can be expanded -/
def Plain (e : Env) : Prop := e.cancelled = false ∧ e.gset = true

instance (e : Env) : Decidable (Plain e) := by unfold Plain; infer_instance

/-- a run that does not end with the error of the check: the check returned none -/
theorem run_noerr_of_exit {i : Nat} {t : Task} (h : pr.tasks[i]? = some t) (e : Env) (s : State)
    (hx : (invoke cfg H pr i .run e s).2.exit ≠ .checkError) : checkErr t e s.files = false := by
  cases hce : checkErr t e s.files with
  | false => rfl
  | true => rw [invoke_run_err cfg H pr h e s hce] at hx; exact absurd rfl hx

/-- an ordinary run: the verdict of the check alone decides -/
theorem invoke_run_plain {i : Nat} {t : Task} (h : pr.tasks[i]? = some t) (e : Env) (hp : Plain e) (s : State) :
    invoke cfg H pr i .run e s =
      if (isUpToDate H pr t false e.now s).2 then ((isUpToDate H pr t false e.now s).1, ⟨.ok, true, [], []⟩)
      else runBody cfg H pr i t false e (isUpToDate H pr t false e.now s).1 := by
  simp [invoke, h, interrupted, hp.1, checkErr_gset t e s.files hp.2]

theorem invoke_force {i : Nat} {t : Task} (h : pr.tasks[i]? = some t) (e : Env) (s : State) :
    invoke cfg H pr i .force e s = runBody cfg H pr i t false e (forceStart H pr t e s) := by
  simp [invoke, h]

theorem isUpToDate_sources {t : Task} (h : t.sources.isEmpty = false) (dry : Bool) (now : Nat) (s : State) :
    isUpToDate H pr t dry now s =
      ((srcCheck H pr t dry now s).1,
       if t.status.isEmpty then (srcCheck H pr t dry now s).2 else statusOk t s.files && (srcCheck H pr t dry now s).2) := by
  unfold isUpToDate
  simp only [h]
  cases hs : t.status.isEmpty <;> simp

/-- a failing status command makes the task not up to date, whatever the sources say -/
theorem isUpToDate_status_fails {t : Task} (hst : t.status.isEmpty = false) (hf : statusOk t s.files = false)
    (dry : Bool) (now : Nat) : (isUpToDate H pr t dry now s).2 = false := by
  unfold isUpToDate
  simp only [hst, hf]
  cases t.sources.isEmpty <;> simp

/-! ### what the checkers leave behind -/

theorem sumCheck_fields (t : Task) (dry : Bool) (s : State) :
    (sumCheck H pr t dry s).1.files = s.files ∧ (sumCheck H pr t dry s).1.marks = s.marks ∧
    (sumCheck H pr t dry s).1.log = s.log ∧ (sumCheck H pr t dry s).1.dirs = s.dirs := by
  unfold sumCheck
  simp only
  split
  · simp
  · split <;> simp

/-- after a non-dry checksum check the store holds the present fingerprint -/
theorem sumCheck_stored (t : Task) (s : State) :
    aget (sumCheck H pr t false s).1.sums (sumKey t) = some (fpNow H pr t s.files) := by
  unfold sumCheck
  simp only [Bool.false_eq_true, if_false]
  split
  · rename_i h; exact h
  · simp

theorem sumCheck_result (t : Task) (dry : Bool) (s : State) :
    (sumCheck H pr t dry s).2 = (gensOk t s.files && decide (aget s.sums (sumKey t) = some (fpNow H pr t s.files))) := rfl

theorem foldl_max_lt (l : List Nat) (a x : Nat) (ha : a < x) (hl : ∀ m ∈ l, m < x) : l.foldl Nat.max a < x := by
  induction l generalizing a with
  | nil => simpa using ha
  | cons b l ih =>
    simp only [List.foldl_cons]
    apply ih
    · exact Nat.max_lt.mpr ⟨ha, hl b (by simp)⟩
    · intro m hm; exact hl m (by simp [hm])

/-! ### the verdict does not depend on the mode -/

/-- **the verdict of the up-to-date check is the same in every mode**: `dry` only decides whether the
check may WRITE (`--status`, `--dry` and `--list --json` run it dry, a normal run does not) -/
theorem isUpToDate_verdict_dry (t : Task) (now : Nat) (s : State) :
    (isUpToDate H pr t true now s).2 = (isUpToDate H pr t false now s).2 := by
  have hsrc : (srcCheck H pr t true now s).2 = (srcCheck H pr t false now s).2 := by
    unfold srcCheck
    cases t.method with
    | checksum => simp only [sumCheck_result]
    | timestamp => simp only [tsCheck_result]
    | none => rfl
  unfold isUpToDate
  simp only
  cases t.sources.isEmpty <;> cases t.status.isEmpty <;> simp [hsrc]

/-- `--list --json` with the repaired wiring (`listDry`): the bits are the verdicts of the checks on the
state it started from, task by task -/
theorem listJson_bits (h : cfg.listDry = true) (now : Nat) (ts : List Task) (s : State) (acc : List Bool) :
    (listJson cfg H pr now ts s acc).2 = acc ++ ts.map (fun t => (isUpToDate H pr t true now s).2) := by
  induction ts generalizing acc with
  | nil => simp [listJson]
  | cons t ts ih =>
    simp only [listJson, h, isUpToDate_dry]
    rw [ih]
    simp

/-! ### the body -/

/-- a body that exits `ok` went through the whole command loop and left the stores alone -/
theorem runBody_ok (i : Nat) (t : Task) (e : Env) (s : State)
    (h : (runBody cfg H pr i t false e s).2.exit = .ok) :
    (runBody cfg H pr i t false e s).1.sums = s.sums ∧ (runBody cfg H pr i t false e s).1.marks = s.marks ∧
    (runBody cfg H pr i t false e s).2.skipped = false := by
  unfold runBody at h ⊢
  simp only [Bool.not_false, Bool.and_true, Bool.false_eq_true, if_false] at h ⊢
  split
  · rename_i hc; simp [hc] at h
  · rename_i hc
    simp only [hc] at h
    split
    · simp [mkdirTask]; cases t.dir <;> simp <;> split <;> simp
    · rename_i hl; simp [hl] at h
    · rename_i hl; simp [hl] at h

theorem cmdLoop_clean (e : Env) (ign : Bool) (hk : e.killAt = none) (hf : e.failAt = none) (hcan : e.cancelled = false) (cs : List Cmd)
    (hn : ∀ c ∈ cs, c.need = none) (k : Nat) (fs : FS) (ran : List Nat) :
    (cmdLoop e ign cs k fs ran).2.1 = ran ++ List.range' k cs.length ∧ (cmdLoop e ign cs k fs ran).2.2 = .done := by
  induction cs generalizing k fs ran with
  | nil => simp [cmdLoop]
  | cons c cs ih =>
    have hc : c.blocked fs = false := by simp [Cmd.blocked, hn c (by simp)]
    simp only [cmdLoop, hk, hf, hc, hcan]
    have := ih (fun x hx => hn x (by simp [hx])) (k + 1) (applyWrites fs c.writes e.now) (ran ++ [k])
    simp only [reduceCtorEq, if_false]
    rw [this.1, this.2]
    simp [List.range'_succ]

/-- the loop of a task with `ignore_error` (every failing exit status is swallowed): every command
starts, the loop ends `done` — whichever command fails -/
theorem cmdLoop_ignore_all (e : Env) (hk : e.killAt = none) (hcan : e.cancelled = false) (cs : List Cmd)
    (hn : ∀ c ∈ cs, c.need = none) (k : Nat) (fs : FS) (ran : List Nat) :
    (cmdLoop e true cs k fs ran).2.1 = ran ++ List.range' k cs.length ∧ (cmdLoop e true cs k fs ran).2.2 = .done := by
  induction cs generalizing k fs ran with
  | nil => simp [cmdLoop]
  | cons c cs ih =>
    have hc : c.blocked fs = false := by simp [Cmd.blocked, hn c (by simp)]
    have hrec := fun fs' => ih (fun x hx => hn x (by simp [hx])) (k + 1) fs' (ran ++ [k])
    simp only [cmdLoop, hk, hc, hcan, Cmd.ignorable, Bool.true_or, reduceCtorEq, if_false, if_true, Bool.false_eq_true]
    split
    · rw [(hrec fs).1, (hrec fs).2]; simp [List.range'_succ]
    · rw [(hrec _).1, (hrec _).2]; simp [List.range'_succ]

/-! ### histories -/

theorem runHist_append (a b : List Step) (s : State) :
    runHist cfg H pr (a ++ b) s =
      ((runHist cfg H pr b (runHist cfg H pr a s).1).1,
       (runHist cfg H pr a s).2 ++ (runHist cfg H pr b (runHist cfg H pr a s).1).2) := by
  induction a generalizing s with
  | nil => simp [runHist]
  | cons st a ih => simp [runHist, ih]

end TaskModel.Finger
