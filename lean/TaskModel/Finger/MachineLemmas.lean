import TaskModel.Finger.Machine
/-! Helper lemmas about the state machine (used by `Props.C04`, `Props.C05`, `Props.C12`). -/
namespace TaskModel.Finger

variable (cfg : Cfg) (H : Bytes → Bytes) (pr : Proj)

/-! ### dry checks write nothing -/

@[simp] theorem sumCheck_dry (t : Task) (s : State) : (sumCheck H pr t true s).1 = s := by
  simp [sumCheck]

@[simp] theorem tsCheck_dry (t : Task) (now : Nat) (s : State) : (tsCheck t true now s).1 = s := by
  unfold tsCheck
  simp only [if_true]
  split <;> (split <;> rfl)

@[simp] theorem srcCheck_dry (t : Task) (now : Nat) (s : State) : (srcCheck H pr t true now s).1 = s := by
  unfold srcCheck
  split <;> simp

@[simp] theorem isUpToDate_dry (t : Task) (now : Nat) (s : State) : (isUpToDate H pr t true now s).1 = s := by
  unfold isUpToDate
  simp only
  split <;> simp

theorem listJson_dry (h : cfg.listDry = true) (now : Nat) (ts : List Task) (s : State) (acc : List Bool) :
    (listJson cfg H pr now ts s acc).1 = s := by
  induction ts generalizing s acc with
  | nil => rfl
  | cons t ts ih =>
    simp only [listJson, h]
    rw [ih]
    simp

theorem runBody_dry (h : cfg.dryMkdir = false) (i : Nat) (t : Task) (e : Env) (s : State) :
    (runBody cfg H pr i t true e s).1 = s ∧ (runBody cfg H pr i t true e s).2.ran = [] := by
  simp [runBody, h, Obs.quiet]

/-- every read-only invocation of the repaired wiring leaves the state alone and runs nothing -/
theorem invoke_readOnly (h1 : cfg.listDry = true) (h2 : cfg.dryMkdir = false) (i : Nat) (m : Mode) (e : Env) (s : State)
    (hm : m.readOnly = true) :
    (invoke cfg H pr i m e s).1 = s ∧ (invoke cfg H pr i m e s).2.ran = [] := by
  cases m with
  | run => simp [Mode.readOnly] at hm
  | force => simp [Mode.readOnly] at hm
  | list => simp [invoke, Obs.quiet]
  | summary => simp [invoke, Obs.quiet]
  | listJson => simp [invoke, listJson_dry cfg H pr h1]
  | status =>
    simp only [invoke]
    split <;> simp
  | dry =>
    simp only [invoke]
    split
    · simp
    · split
      · simp
      · simp only [isUpToDate_dry]
        exact runBody_dry cfg H pr h2 i _ e s

/-! ### histories -/

theorem runHist_append (a b : List Step) (s : State) :
    runHist cfg H pr (a ++ b) s =
      ((runHist cfg H pr b (runHist cfg H pr a s).1).1,
       (runHist cfg H pr a s).2 ++ (runHist cfg H pr b (runHist cfg H pr a s).1).2) := by
  induction a generalizing s with
  | nil => simp [runHist]
  | cons st a ih => simp [runHist, ih]

end TaskModel.Finger
