import TaskModel.Finger.MachineLemmas
import TaskModel.Finger.GlobsLemmas
/-! Lemmas about `srcsNow` and the checksum byte stream (used by `Props.C05`). -/
namespace TaskModel.Finger

variable (nm : Path → Bytes)

theorem lastFlag_nowPats (pats : List Pat) (fs : FS) (p : Path) :
    lastFlag (nowPats pats fs) p = if ahas fs p = true then lastFlag pats p else none := by
  induction pats with
  | nil => simp [nowPats, lastFlag]
  | cons g gs ih =>
    simp only [nowPats, List.map_cons, lastFlag] at ih ⊢
    rw [ih]
    by_cases hp : ahas fs p = true
    · simp only [hp, if_true]
      cases lastFlag gs p with
      | some b => rfl
      | none => simp [List.mem_filter, hp]
    · simp only [hp]
      simp [List.mem_filter, hp]

/-- a path is a current source iff it exists and the last pattern matching it is positive -/
theorem mem_srcsNow (t : Task) (fs : FS) (p : Path) :
    p ∈ srcsNow t fs ↔ ahas fs p = true ∧ lastFlag t.sources p = some true := by
  unfold srcsNow
  rw [mem_globs, lastFlag_nowPats]
  by_cases hp : ahas fs p = true <;> simp [hp]

theorem strictSorted_srcsNow (t : Task) (fs : FS) : StrictSorted (srcsNow t fs) :=
  strictSorted_globs _

/-! ### the stream (for any naming `nm` of the paths; the machine uses `nameOf pr t`) -/

theorem stream_congr (fs fs' : FS) (l : List Path) (h : ∀ p ∈ l, contentOf fs' p = contentOf fs p) :
    stream nm fs' l = stream nm fs l := by
  induction l with
  | nil => rfl
  | cons a l ih =>
    simp only [stream]
    rw [h a (by simp), ih (fun p hp => h p (by simp [hp]))]

theorem stream_append (fs : FS) (l₁ l₂ : List Path) :
    stream nm fs (l₁ ++ l₂) = stream nm fs l₁ ++ stream nm fs l₂ := by
  induction l₁ with
  | nil => rfl
  | cons a l ih => simp [stream, ih]

/-- a content edit of one listed file changes the stream -/
theorem stream_edit (fs fs' : FS) (l : List Path) (p : Path) (hnd : l.Nodup) (hp : p ∈ l)
    (hne : contentOf fs' p ≠ contentOf fs p) (hoth : ∀ q, q ≠ p → contentOf fs' q = contentOf fs q) :
    stream nm fs' l ≠ stream nm fs l := by
  induction l with
  | nil => simp at hp
  | cons a l ih =>
    rw [List.nodup_cons] at hnd
    simp only [stream]
    by_cases ha : a = p
    · subst ha
      have hrest : stream nm fs' l = stream nm fs l :=
        stream_congr nm fs fs' l (fun q hq => hoth q (fun e => hnd.1 (e ▸ hq)))
      rw [hrest]
      intro heq
      rw [List.append_assoc, List.append_assoc] at heq
      have h2 := List.append_cancel_left heq
      exact hne (List.append_cancel_right h2)
    · have hp' : p ∈ l := by
        simp only [List.mem_cons] at hp
        rcases hp with e | e
        · exact absurd e.symm ha
        · exact e
      rw [hoth a ha]
      intro heq
      exact ih hnd.2 hp' (List.append_cancel_left heq)

theorem stream_length_insertSorted (fs : FS) (q : Path) (l : List Path) :
    (stream nm fs (insertSorted q l)).length =
      (stream nm fs l).length + (nm q).length + (contentOf fs q).length := by
  induction l with
  | nil => simp [insertSorted, stream]
  | cons a l ih =>
    simp only [insertSorted]
    split
    · simp only [stream, List.length_append]; omega
    · simp only [stream, List.length_append, ih]; omega

/-- replacing one listed file by another with the same content but a different name,
at the same position, changes the stream -/
theorem stream_replace (fs fs' : FS) (l₁ l₂ : List Path) (p q : Path)
    (h1 : ∀ x ∈ l₁, contentOf fs' x = contentOf fs x) (h2 : ∀ x ∈ l₂, contentOf fs' x = contentOf fs x)
    (hc : contentOf fs' q = contentOf fs p) (hb : nm q ≠ nm p) :
    stream nm fs' (l₁ ++ q :: l₂) ≠ stream nm fs (l₁ ++ p :: l₂) := by
  rw [stream_append, stream_append, stream_congr nm fs fs' l₁ h1]
  simp only [stream]
  rw [stream_congr nm fs fs' l₂ h2, hc]
  intro heq
  have h3 := List.append_cancel_left heq
  rw [List.append_assoc, List.append_assoc] at h3
  exact hb (List.append_cancel_right h3)

/-! ### the length table (fix F8B): stream and length table together are an injective encoding -/

theorem be64_length (n : Nat) : (be64 n).length = 8 := rfl

theorem be64_inj {a b : Nat} (h : be64 a = be64 b) : a = b := by
  simp only [be64, List.cons.injEq, and_true] at h
  omega

/-- `be64` is what `binary.Write` of a big-endian `uint64` writes: for `n < 2^64` every entry is a byte -/
theorem be64_bytes (n : Nat) (h : n < 18446744073709551616) : ∀ b ∈ be64 n, b < 256 := by
  intro b hb
  simp only [be64, List.mem_cons, List.not_mem_nil, or_false] at hb
  omega

theorem lenTable_congr (fs fs' : FS) (l : List Path) (h : ∀ p ∈ l, contentOf fs' p = contentOf fs p) :
    lenTable nm fs' l = lenTable nm fs l := by
  induction l with
  | nil => rfl
  | cons a l ih =>
    simp only [lenTable]
    rw [h a (by simp), ih (fun p hp => h p (by simp [hp]))]

theorem lenTable_length (fs : FS) (l : List Path) : (lenTable nm fs l).length = 16 * l.length := by
  induction l with
  | nil => rfl
  | cons a l ih => simp only [lenTable, List.length_append, be64_length, ih, List.length_cons]; omega

/-- **stream and length table together determine the list of (name, content)**: the table has 16
bytes per file — so it gives the number of files and every length —, and cutting the stream at those
lengths gives every name and every content.  No hypothesis on names, contents or file systems. -/
theorem stream_lenTable_inj (nm' : Path → Bytes) (fs fs' : FS) : ∀ (l l' : List Path),
    stream nm fs l = stream nm' fs' l' → lenTable nm fs l = lenTable nm' fs' l' →
    l.map (fun p => (nm p, contentOf fs p)) = l'.map (fun p => (nm' p, contentOf fs' p))
  | [], [], _, _ => rfl
  | [], b :: l', _, ht => by
    have := congrArg List.length ht
    rw [lenTable_length, lenTable_length] at this
    simp at this
  | a :: l, [], _, ht => by
    have := congrArg List.length ht
    rw [lenTable_length, lenTable_length] at this
    simp at this
  | a :: l, b :: l', hs, ht => by
    simp only [lenTable] at ht
    have h1 := List.append_inj ht (by simp only [List.length_append, be64_length])
    have h2 := List.append_inj h1.1 (by simp only [be64_length])
    have hn : (nm a).length = (nm' b).length := be64_inj h2.1
    have hc : (contentOf fs a).length = (contentOf fs' b).length := be64_inj h2.2
    simp only [stream] at hs
    have h3 := List.append_inj hs (by simp only [List.length_append, hn, hc])
    have h4 := List.append_inj h3.1 hn
    have ih := stream_lenTable_inj nm' fs fs' l l' h3.2 h1.2
    simp only [List.map_cons, h4.1, h4.2, ih]

/-- … hence the list of (path, content), when the names are injective on the listed paths -/
theorem stream_lenTable_inj_paths (fs fs' : FS) (l l' : List Path)
    (hnm : ∀ p ∈ l, ∀ q ∈ l', nm p = nm q → p = q)
    (hs : stream nm fs l = stream nm fs' l') (ht : lenTable nm fs l = lenTable nm fs' l') :
    l.map (fun p => (p, contentOf fs p)) = l'.map (fun p => (p, contentOf fs' p)) := by
  have hm := stream_lenTable_inj nm nm fs fs' l l' hs ht
  clear hs ht
  induction l generalizing l' with
  | nil =>
    cases l' with
    | nil => rfl
    | cons b l' => simp at hm
  | cons a l ih =>
    cases l' with
    | nil => simp at hm
    | cons b l' =>
      simp only [List.map_cons, List.cons.injEq, Prod.mk.injEq] at hm ⊢
      have hab : a = b := hnm a (by simp) b (by simp) hm.1.1
      exact ⟨⟨hab, hm.1.2⟩, ih l' (fun p hp q hq => hnm p (by simp [hp]) q (by simp [hq])) hm.2⟩

/-! ### the fingerprint as a function of the list of (name, content) -/

/-- names and contents back to back -/
def flatL : List (Bytes × Bytes) → Bytes
  | [] => []
  | r :: l => r.1 ++ r.2 ++ flatL l

/-- the length table of a list of (name, content) -/
def lensL : List (Bytes × Bytes) → Bytes
  | [] => []
  | r :: l => be64 r.1.length ++ be64 r.2.length ++ lensL l

/-- the checksum of a list of (name, content) -/
def fpOfList (H : Hashes) (l : List (Bytes × Bytes)) : Bytes := H.outer (flatL l) ++ H.lens (lensL l)

theorem stream_eq_flatL (fs : FS) (l : List Path) :
    stream nm fs l = flatL (l.map (fun p => (nm p, contentOf fs p))) := by
  induction l with
  | nil => rfl
  | cons a l ih => simp only [stream, List.map_cons, flatL, ih]

theorem lenTable_eq_lensL (fs : FS) (l : List Path) :
    lenTable nm fs l = lensL (l.map (fun p => (nm p, contentOf fs p))) := by
  induction l with
  | nil => rfl
  | cons a l ih => simp only [lenTable, List.map_cons, lensL, ih]

/-- **the fingerprint is a function of the list of (name, content) of the matched sources** -/
theorem fpNow_eq_fpOfList (H : Hashes) (pr : Proj) (t : Task) (fs : FS) :
    fpNow H pr t fs = fpOfList H (srcList pr t fs) := by
  unfold fpNow fpOfList srcList
  rw [stream_eq_flatL, lenTable_eq_lensL]

theorem lensL_length (l : List (Bytes × Bytes)) : (lensL l).length = 16 * l.length := by
  induction l with
  | nil => rfl
  | cons a l ih => simp only [lensL, List.length_append, be64_length, ih, List.length_cons]; omega

/-- … and the bytes fed to the two hashes determine that list (`stream_lenTable_inj` at list level) -/
theorem flatL_lensL_inj : ∀ (l l' : List (Bytes × Bytes)), flatL l = flatL l' → lensL l = lensL l' → l = l'
  | [], [], _, _ => rfl
  | [], b :: l', _, ht => by
    have := congrArg List.length ht
    rw [lensL_length, lensL_length] at this
    simp at this
  | a :: l, [], _, ht => by
    have := congrArg List.length ht
    rw [lensL_length, lensL_length] at this
    simp at this
  | a :: l, b :: l', hs, ht => by
    simp only [lensL] at ht
    have h1 := List.append_inj ht (by simp only [List.length_append, be64_length])
    have h2 := List.append_inj h1.1 (by simp only [be64_length])
    have hn : a.1.length = b.1.length := be64_inj h2.1
    have hc : a.2.length = b.2.length := be64_inj h2.2
    simp only [flatL] at hs
    have h3 := List.append_inj hs (by simp only [List.length_append, hn, hc])
    have h4 := List.append_inj h3.1 hn
    have ih := flatL_lensL_inj l l' h3.2 h1.2
    rw [ih, Prod.ext h4.1 h4.2]

/-! ### adding / removing a file -/

theorem ahas_aset (fs : FS) (q p : Path) (f : File) : ahas (aset fs q f) p = (decide (q = p) || ahas fs p) := by
  unfold ahas
  rw [aget_aset]
  by_cases h : q = p <;> simp [h]

theorem ahas_adel (fs : FS) (q p : Path) : ahas (adel fs q) p = (!decide (q = p) && ahas fs p) := by
  unfold ahas
  rw [aget_adel]
  by_cases h : q = p <;> simp [h]

theorem contentOf_aset_ne (fs : FS) (q p : Path) (f : File) (h : q ≠ p) :
    contentOf (aset fs q f) p = contentOf fs p := by
  unfold contentOf
  rw [aget_aset_ne _ _ h]

theorem contentOf_adel_ne (fs : FS) (q p : Path) (h : q ≠ p) :
    contentOf (adel fs q) p = contentOf fs p := by
  unfold contentOf
  rw [aget_adel_ne _ h]

/-- a new file matched by the sources is inserted at its place in the sorted list -/
theorem srcsNow_add (t : Task) (fs : FS) (q : Path) (f : File) (hnew : ahas fs q = false)
    (hm : lastFlag t.sources q = some true) :
    srcsNow t (aset fs q f) = insertSorted q (srcsNow t fs) := by
  have hq : q ∉ srcsNow t fs := by
    rw [mem_srcsNow]; simp [hnew]
  apply strictSorted_ext _ _ (strictSorted_srcsNow t _)
    (strictSorted_insertSorted q _ hq (strictSorted_srcsNow t fs))
  intro p
  rw [mem_insertSorted, mem_srcsNow, mem_srcsNow, ahas_aset]
  by_cases hp : q = p
  · subst hp; simp [hm]
  · have hp' : ¬ p = q := fun e => hp e.symm
    simp [hp, hp']

theorem srcsNow_remove (t : Task) (fs : FS) (q : Path) (hq : q ∈ srcsNow t fs) :
    srcsNow t fs = insertSorted q (srcsNow t (adel fs q)) := by
  have hq' : q ∉ srcsNow t (adel fs q) := by
    rw [mem_srcsNow, ahas_adel]; simp
  apply strictSorted_ext _ _ (strictSorted_srcsNow t _)
    (strictSorted_insertSorted q _ hq' (strictSorted_srcsNow t _))
  intro p
  rw [mem_insertSorted, mem_srcsNow, mem_srcsNow, ahas_adel]
  rw [mem_srcsNow] at hq
  by_cases hp : q = p
  · subst hp; simp [hq]
  · have hp' : ¬ p = q := fun e => hp e.symm
    simp [hp, hp']

end TaskModel.Finger
