import TaskModel.Finger.Globs
/-!
Finger.Machine — the fingerprint / up-to-date state machine (DESIGN §4.2, Appendix C).

One *invocation* of the `task` binary on one task of a project, in one of the modes
`task T`, `--force`, `--dry`, `--status`, `--list-all --json`, `--list-all`, `--summary`,
mirroring the statement order of

  * `Executor.RunTask` (task.go): `IsTaskUpToDate` (unless forced) → "is up to date" →
    prompt (unless dry; `statusOnError` when it is declined) → `mkdir` → command loop,
    `statusOnError` on the first failure;
  * `fingerprint.IsTaskUpToDate` (status AND sources, both always evaluated);
  * `ChecksumChecker.IsUpToDate` / `OnError`, `TimestampChecker.IsUpToDate` / `OnError`;
  * `Executor.Status`, `Executor.ToEditorOutput`, `Executor.Run` (`--summary`).

Abstractions: paths are numbers (rank of the path string), a glob pattern is its negate
bit plus the list of paths it would match if they existed (the expander is an oracle),
the name hashed with a source is its path relative to the task directory (`nameOf`),
`status:` commands are `test -f p`, a command writes fixed files and may fail / be the
point where the process is killed as chosen by `Env`, the hashes `H` (of the byte stream, and of
its length table) are uninterpreted (a parameter), time is a logical clock supplied by `Env.now`.

`Cfg` selects, for the three places where the property (C12) demands something else than
the snapshot `ee97f41` does and the repair is a one-line patch, which behaviour is
modelled: `Cfg.fixed` (what the driver runs, and what the patched tree does) or
`Cfg.found` (the tree as found; used only to state the counterexamples).
-/
namespace TaskModel.Finger

abbrev Bytes := List Nat

structure File where
  content : Bytes
  mtime : Nat
deriving Repr, DecidableEq

abbrev FS := List (Path × File)

inductive Method | checksum | timestamp | none
deriving Repr, DecidableEq

/-- a command: the files it writes when it succeeds.  `need = some p` makes it a `task:` CALL of a
helper task whose precondition is `test -f p` and whose single command is this one: when `p` does
not exist the call FAILS BEFORE ANYTHING RUNS — also under `--dry`, where preconditions are still
evaluated although no command is executed (the one way a dry body can fail). -/
structure Cmd where
  writes : List (Path × Bytes)
  need : Option Path
  /-- `ignore_error: true` on the command: a failing exit status is swallowed inside `runCommand` and the
  next command runs.  Only for plain commands: on a `task:` call the code does not look at it. -/
  ignoreError : Bool
deriving Repr, DecidableEq

/-- the call's precondition does not hold in `fs` -/
def Cmd.blocked (c : Cmd) (fs : FS) : Bool :=
  match c.need with
  | some p => !ahas fs p
  | none => false

structure Task where
  name : Bytes                 -- `t.Task` (with namespace prefix for included tasks)
  label : Bytes                -- `t.Label`; `[]` = none
  method : Method
  sources : List Pat           -- `ms` = the paths the pattern matches when they exist
  generates : List Pat
  status : List Path           -- `status: [test -f p, …]`
  prompt : Bool
  dir : Option Nat             -- `dir:` (a directory id), `none` = project root
  cmds : List Cmd
  /-- `ignore_error: true` on the task: a command (or `task:` call) that ends with a failing EXIT STATUS
  is skipped over.  (A call that fails on its precondition does not end with an exit status.) -/
  ignoreError : Bool := false
  /-- indices of the `generates` entries written `${G:?}…`: expanding them is an ERROR while the
  environment variable `G` is not set (`Env.gset`).  Only interpreted for method checksum (`checkErr`);
  the driver rejects them elsewhere. -/
  gguard : List Nat := []
deriving Repr, DecidableEq

structure Proj where
  base : List (Path × Bytes)   -- the bytes of every path: its slash path relative to the project root
  dirOf : List (Path × Nat)    -- paths lying inside a task directory
  dirLen : List (Nat × Nat)    -- task directory id ↦ length of its `dir/` prefix (relative to the root)
  tasks : List Task
deriving Repr, DecidableEq

structure Cfg where
  listDry : Bool               -- `ToEditorOutput` passes `WithDry(true)`          (F7)
  dryMkdir : Bool              -- `RunTask` calls `mkdir` also in dry mode          (defect 16)
  dryOnError : Bool            -- `statusOnError` removes the fingerprint also in dry mode (TS4)
deriving Repr, DecidableEq

def Cfg.fixed : Cfg := ⟨true, false, false⟩
def Cfg.found : Cfg := ⟨false, true, true⟩

/-- ghost: one entry per command-loop attempt -/
structure Attempt where
  task : Nat
  fp : Bytes                   -- `H` of the source stream when the loop was entered
  time : Nat
  ok : Bool                    -- every command ran and succeeded
  src : List (Bytes × Bytes)   -- ghost: the (name, content) of every matched source when the loop was entered
deriving Repr, DecidableEq

structure State where
  files : FS
  dirs : List Nat                       -- existing task directories
  sums : List (Bytes × Bytes)           -- `.task/checksum/<key>` ↦ stored hash
  marks : List (Bytes × Nat)            -- `.task/timestamp/<key>` ↦ mtime
  log : List Attempt                    -- ghost
deriving Repr, DecidableEq

def State.empty : State := ⟨[], [], [], [], []⟩

/-! ### names, keys -/

/-- `[^A-z0-9]` → `-`: the range `A-z` also keeps the six characters `[ \ ] ^ _ `` ` ``. -/
def keepChar (c : Nat) : Bool := (65 ≤ c && c ≤ 122) || (48 ≤ c && c ≤ 57)

def normalize (n : Bytes) : Bytes := n.map (fun c => if keepChar c then c else 45)

/-- `t.Name()` -/
def Task.displayName (t : Task) : Bytes := if t.label = [] then t.name else t.label

/-- `stateFilename` (fix N): the normalised name when normalisation leaves the name unchanged;
otherwise the normalised name, `-`, and a TAG of the original name.  In the code the tag is 16 hex
digits of `xxh3.HashString(name)`; the model's tag is the name itself — the 64-bit hash is
IDEALISED AS INJECTIVE (as `HashInj` does for the checksum), and a tag is assumed never to be the
tail of another task's unnormalised name.  With this tag `stateKey` is injective outright
(`stateKey_inj`): distinct names never share a state file.  The harness maps real file names back
by recomputing xxh3 of the names it generated. -/
def stateKey (n : Bytes) : Bytes := if normalize n = n then n else normalize n ++ 45 :: n

/-- the rule before fix N: `normalizeFilename` alone (used only to state the old-rule collision) -/
def oldKey (n : Bytes) : Bytes := normalize n

/-- `%d`: the decimal digits of `n`, most significant first (fuel `f`; enough whenever `n < f`) -/
def decF : Nat → Nat → Bytes
  | 0, _ => []
  | f + 1, n => if n < 10 then [48 + n] else decF f (n / 10) ++ [48 + n % 10]

def dec (n : Nat) : Bytes := decF (n + 1) n

/-- the string whose hash tags the checksum file of a LABELLED task (fix F8A):
`fmt.Sprintf("%d:%s%s", len(t.Task), t.Task, t.Label)` — the length-prefixed pair, an injective
encoding of (task name, label): `pairEnc_inj` (KeyLemmas). -/
def pairEnc (name label : Bytes) : Bytes := dec name.length ++ 58 :: (name ++ label)

/-- `checksumFilename` (fix F8A): the state of method checksum belongs to the PAIR (task name,
label).  A task without label keeps `stateFilename(t.Task)`; a labelled one gets the normalised
label, a `.` (46 — a character `stateFilename` never produces) and a TAG of the pair.  In the code
the tag is 16 hex digits of `xxh3.HashString(pairEnc)`; the model's tag is `pairEnc` itself — the
64-bit hash IDEALISED AS INJECTIVE, exactly as in `stateKey`.  `sumKey_inj` (KeyLemmas): equal keys ⇒
equal task names and equal labels.  Before the fix the key was `stateKey t.displayName`
(`oldSumKey`), shared by tasks with equal labels. -/
def sumKey (t : Task) : Bytes :=
  if t.label = [] then stateKey t.name else normalize t.label ++ 46 :: pairEnc t.name t.label

/-- the rule before fix F8A: `stateFilename(t.Name())` (used only to state the old-rule collision) -/
def oldSumKey (t : Task) : Bytes := stateKey t.displayName

def tsKey (t : Task) : Bytes := stateKey t.name

/-! ### sources, stream -/

/-- what the patterns match in the present file system -/
def nowPats (pats : List Pat) (fs : FS) : List Pat :=
  pats.map (fun g => { neg := g.neg, ms := g.ms.filter (ahas fs) })

def srcsNow (t : Task) (fs : FS) : List Path := globs (nowPats t.sources fs)

/-- the root-relative slash path of `p`, as bytes -/
def baseOf (pr : Proj) (p : Path) : Bytes := (aget pr.base p).getD []

/-- length of the prefix `filepath.Rel(t.Dir, ·)` removes: `dir/` of the task (0 = project root) -/
def stripOf (pr : Proj) (t : Task) : Nat :=
  match t.dir with
  | none => 0
  | some d => (aget pr.dirLen d).getD 0

/-- the NAME hashed for path `p` in task `t`: `filepath.ToSlash(filepath.Rel(t.Dir, p))`, the
path relative to the task's directory.  (Everything a `sources` pattern of `t` matches lies below
`t.Dir`, so the relative path is the root-relative one without the `dir/` prefix.)  Before the
fix of `C05-dir-move-not-detected` this was `filepath.Base(p)`, which is not injective. -/
def nameOf (pr : Proj) (t : Task) (p : Path) : Bytes := (baseOf pr p).drop (stripOf pr t)

def contentOf (fs : FS) (p : Path) : Bytes :=
  match aget fs p with
  | some f => f.content
  | none => []

def mtimeOf (fs : FS) (p : Path) : Nat :=
  match aget fs p with
  | some f => f.mtime
  | none => 0

/-- the two hash functions of `ChecksumChecker.checksum` (fix F8B), both uninterpreted:
`outer` = xxh3-128 of the byte stream (names and contents back to back), printed `%x%x`;
`lens` = xxh3-64 of the LENGTH TABLE (the length of every name and of every content, 8 bytes
each), printed `%016x`.  The stored checksum is the two printed one after the other.  Theorems
state what they need of them as the explicit hypothesis `FpInj` for the two fingerprints involved. -/
structure Hashes where
  outer : Bytes → Bytes
  lens : Bytes → Bytes

/-- the hashes the `decide`d examples and the driver run with: the stored checksum is the stream
followed by the length table (the harness maps the real xxh3 values back to them) -/
def hId : Hashes := ⟨id, id⟩

/-- the bytes fed to the OUTER hash: for every source in order, its name (`nm`) then its content,
back to back.  On its own NOT an injective encoding (file `ab` holding `c` and file `a` holding `bc`
give the same bytes: `C05_counterexample_undelimited_historical`); together with `lenTable` it is
(`stream_lenTable_inj`, StreamLemmas). -/
def stream (nm : Path → Bytes) (fs : FS) : List Path → Bytes
  | [] => []
  | p :: l => nm p ++ contentOf fs p ++ stream nm fs l

/-- what `binary.Write(…, binary.BigEndian, uint64)` writes: 8 bytes, most significant first.  (The first entry is `n / 2^56`
without `% 256`: it IS the top byte for every `n < 2^64`, i.e. for every length the code can
produce, and keeps `be64` injective on all of `Nat` without a side condition.) -/
def be64 (n : Nat) : Bytes :=
  [n / 72057594037927936, n / 281474976710656 % 256, n / 1099511627776 % 256, n / 4294967296 % 256,
   n / 16777216 % 256, n / 65536 % 256, n / 256 % 256, n % 256]

/-- the bytes fed to the LENS hash (fix F8B): for every source in order, the length of its name and
the length of its content, 8 bytes each — they say where every name and every content ends in
`stream` -/
def lenTable (nm : Path → Bytes) (fs : FS) : List Path → Bytes
  | [] => []
  | p :: l => be64 (nm p).length ++ be64 (contentOf fs p).length ++ lenTable nm fs l

/-- the list of (name, content) of the matched sources: what the fingerprint is a fingerprint OF -/
def srcList (pr : Proj) (t : Task) (fs : FS) : List (Bytes × Bytes) :=
  (srcsNow t fs).map (fun p => (nameOf pr t p, contentOf fs p))

/-- the checksum: `%x%x` of the outer hash of the stream, then `%016x` of the hash of the length
table.  (Before fix F8B: the first half alone.) -/
def fpNow (H : Hashes) (pr : Proj) (t : Task) (fs : FS) : Bytes :=
  H.outer (stream (nameOf pr t) fs (srcsNow t fs)) ++ H.lens (lenTable (nameOf pr t) fs (srcsNow t fs))

/-- every non-negated `generates` pattern matches something (ChecksumChecker) -/
def gensOk (t : Task) (fs : FS) : Bool :=
  t.generates.all (fun g => g.neg || g.ms.any (ahas fs))

def statusOk (t : Task) (fs : FS) : Bool := t.status.all (ahas fs)

/-! ### the checkers -/

/-- `ChecksumChecker.IsUpToDate`: read old, compute new, WRITE (if not dry and different),
generates check, compare. -/
def sumCheck (H : Hashes) (pr : Proj) (t : Task) (dry : Bool) (s : State) : State × Bool :=
  let old := aget s.sums (sumKey t)
  let new := fpNow H pr t s.files
  let s1 := if dry then s else if old = some new then s else { s with sums := aset s.sums (sumKey t) new }
  (s1, gensOk t s.files && decide (old = some new))

def maxOf (l : List Nat) : Nat := l.foldl Nat.max 0

/-- `TimestampChecker.IsUpToDate` (as patched by TS1/TS2 and fix M), in statement order: every
non-negated `generates` entry must match an existing file (`gensOk`, as for checksum — computed,
not yet returned); the marker joins the generates if it exists; `touch` (the closure
`touchMarker`) = nothing when dry, else the marker is created if absent and its mtime set to now;
nothing to compare with ⇒ `touch`, `false`; `upToDate` = no source newer than the newest
generate/marker AND the generates exist; `upToDate` ⇒ NOTHING changes (no marker is created, none
is moved); otherwise `touch`, `false` — the task is going to run. -/
def tsCheck (t : Task) (dry : Bool) (now : Nat) (s : State) : State × Bool :=
  let srcs := srcsNow t s.files
  let gens := globs (nowPats t.generates s.files)
  let ge := gensOk t s.files
  let mk := aget s.marks (tsKey t)
  let gts := gens.map (mtimeOf s.files) ++ (match mk with | some m => [m] | none => [])
  let touch := if dry then s else { s with marks := aset s.marks (tsKey t) now }
  if gts.isEmpty then (touch, false)
  else
    let upd := srcs.any (fun p => decide (maxOf gts < mtimeOf s.files p))
    let up := !upd && ge
    if up then (s, true) else (touch, false)

def srcCheck (H : Hashes) (pr : Proj) (t : Task) (dry : Bool) (now : Nat) (s : State) : State × Bool :=
  match t.method with
  | .checksum => sumCheck H pr t dry s
  | .timestamp => tsCheck t dry now s
  | .none => (s, false)

/-- `fingerprint.IsTaskUpToDate` -/
def isUpToDate (H : Hashes) (pr : Proj) (t : Task) (dry : Bool) (now : Nat) (s : State) : State × Bool :=
  let stSet := !t.status.isEmpty
  let soSet := !t.sources.isEmpty
  let a := stSet && statusOk t s.files
  let r := if soSet then srcCheck H pr t dry now s else (s, false)
  (r.1, if stSet && soSet then a && r.2 else if stSet then a else if soSet then r.2 else false)

/-- `SourcesCheckable.OnError` through `Executor.statusOnError`: the checksum file / (since TS3) the
timestamp marker of a task with sources is removed -/
def onError (t : Task) (s : State) : State :=
  match t.method with
  | .checksum => if t.sources.isEmpty then s else { s with sums := adel s.sums (sumKey t) }
  | .timestamp => if t.sources.isEmpty then s else { s with marks := adel s.marks (tsKey t) }
  | .none => s

/-! ### one invocation -/

inductive Mode | run | force | dry | status | listJson | list | summary
deriving Repr, DecidableEq

/-- what the environment does during this invocation -/
structure Env where
  now : Nat
  yes : Bool                   -- the prompt is answered yes (`--yes`); `false` = declined
  failAt : Option Nat          -- this command appends to the trace, then fails
  killAt : Option Nat          -- the process is killed before this command starts
  /-- the task runs as a DEPENDENCY next to a sibling that fails while this task's `status:` commands
  are running (`task parent`, `parent: deps: [failing, this]`): the status commands are interrupted —
  verdict "not up to date" whatever the files say —, the sources checker still runs (and writes), and
  the cancelled context makes the first command fail before it starts.  `RunTask` goes through
  `statusOnError` like for any failing command. -/
  cancelled : Bool := false
  /-- the environment variable `G` is set in this invocation (entries `${G:?}…` can be expanded) -/
  gset : Bool := true
  /-- a SECOND ACTIVATION of the same task (no `run: once`) is started by a sibling dependency while the
  first activation is inside its first command (`task parent`, `parent: deps: [this, other]`, `other:
  cmds: [task: this]`).  It does not change what the first activation does (`invoke`); what the second
  one reports is `twinUp`. -/
  twin : Bool := false
deriving Repr, DecidableEq

inductive Exit | ok | failed | notUpToDate | cancelled | killed
  | checkError                 -- the up-to-date check itself returned an error (exit status 1): nothing ran
deriving Repr, DecidableEq

structure Obs where
  exit : Exit
  skipped : Bool               -- `Task "x" is up to date`
  ran : List Nat               -- indices of the commands that started
  bits : List Bool             -- `up_to_date` of every task (`--list --json`)
deriving Repr, DecidableEq

def Obs.quiet : Obs := ⟨.ok, false, [], []⟩

inductive LoopEnd | done | failed | killed
deriving Repr, DecidableEq

def applyWrites (fs : FS) (ws : List (Path × Bytes)) (now : Nat) : FS :=
  ws.foldl (fun fs w => aset fs w.1 ⟨w.2, now⟩) fs

/-- the failing exit status of this command is swallowed: `ignore_error` on the task (`ign`), or on a
plain command -/
def Cmd.ignorable (c : Cmd) (ign : Bool) : Bool := ign || (c.ignoreError && c.need.isNone)

/-- the command loop of `RunTask` (`ign` = the task's `ignore_error`).  A command that fails with an
exit status that is IGNORED has started (it is in the trace), wrote nothing, and the loop goes on. -/
def cmdLoop (e : Env) (ign : Bool) : List Cmd → Nat → FS → List Nat → FS × List Nat × LoopEnd
  | [], _, fs, ran => (fs, ran, .done)
  | c :: cs, k, fs, ran =>
    if e.cancelled then (fs, ran, .failed)
    else if c.blocked fs then (fs, ran, .failed)
    else if e.killAt = some k then (fs, ran, .killed)
    else if e.failAt = some k then
      if c.ignorable ign then cmdLoop e ign cs (k + 1) fs (ran ++ [k]) else (fs, ran ++ [k], .failed)
    else cmdLoop e ign cs (k + 1) (applyWrites fs c.writes e.now) (ran ++ [k])

def mkdirTask (t : Task) (s : State) : State :=
  match t.dir with
  | none => s
  | some d => if d ∈ s.dirs then s else { s with dirs := s.dirs ++ [d] }

/-- `RunTask` after the up-to-date check: prompt, mkdir, commands.  A declined prompt (or no
terminal) goes through `statusOnError` before the task is reported cancelled (never in a dry run:
the prompt is skipped): the checksum the
check has just recorded — or the timestamp marker it has just created/touched — is removed again
(`onError`). -/
def runBody (cfg : Cfg) (H : Hashes) (pr : Proj) (i : Nat) (t : Task) (dry : Bool) (e : Env)
    (s : State) : State × Obs :=
  if t.prompt && !dry && !e.yes then (onError t s, ⟨.cancelled, false, [], []⟩)
  else if dry then
    -- no command is executed; a `task:` call whose precondition fails still fails the body, and
    -- `statusOnError` must leave the state alone (TS4; the tree as found applied `OnError`)
    let s1 := if cfg.dryMkdir then mkdirTask t s else s
    if t.cmds.any (fun c => c.blocked s.files) then
      ((if cfg.dryOnError then onError t s1 else s1), ⟨.failed, false, [], []⟩)
    else (s1, Obs.quiet)
  else
    let s1 := mkdirTask t s
    let r := cmdLoop e t.ignoreError t.cmds 0 s1.files []
    let att : Attempt := ⟨i, fpNow H pr t s1.files, e.now, decide (r.2.2 = .done), srcList pr t s1.files⟩
    let s2 : State := { s1 with files := r.1, log := s1.log ++ [att] }
    -- (a failure swallowed by `ignore_error` is no failure of the task: no `statusOnError` — F8C; before
    -- it the TASK-level `ignore_error` still went through the clean-up: `C05_ignored_failure_old_rule`)
    match r.2.2 with
    | .done => (s2, ⟨.ok, false, r.2.1, []⟩)
    | .failed => (onError t s2, ⟨.failed, false, r.2.1, []⟩)
    | .killed => (s2, ⟨.killed, false, r.2.1, []⟩)

/-- `ToEditorOutput`: every task is checked (order = task order) -/
def listJson (cfg : Cfg) (H : Hashes) (pr : Proj) (now : Nat) : List Task → State → List Bool → State × List Bool
  | [], s, acc => (s, acc)
  | t :: ts, s, acc =>
    let r := isUpToDate H pr t cfg.listDry now s
    listJson cfg H pr now ts r.1 (acc ++ [r.2])

/-- `ChecksumChecker.IsUpToDate`, the loop over the `generates` entries (F8D: BEFORE the checksum is
recorded): negated entries are skipped; an entry that cannot be expanded (`${G:?}…` while `G` is not
set) is an ERROR; an entry that matches nothing ends the loop (verdict "not up to date", no error). -/
def gensErr (gset : Bool) (guard : List Nat) (fs : FS) : List Pat → Nat → Bool
  | [], _ => false
  | g :: gs, k =>
    if g.neg then gensErr gset guard fs gs (k + 1)
    else if !gset && guard.contains k then true
    else if g.ms.any (ahas fs) then gensErr gset guard fs gs (k + 1) else false

/-- the up-to-date check of this task returns an error in this invocation (method checksum only:
`TimestampChecker` swallows every expansion error) -/
def checkErr (t : Task) (e : Env) (fs : FS) : Bool :=
  decide (t.method = .checksum) && !t.sources.isEmpty && gensErr e.gset t.gguard fs t.generates 0

/-- the state a `--force` run starts its body from (F8F): what the sources checker leaves — unless its
check ends in an error, which `--force` ignores and which (F8D) records nothing -/
def forceStart (H : Hashes) (pr : Proj) (t : Task) (e : Env) (s : State) : State :=
  if checkErr t e s.files then s else (isUpToDate H pr t false e.now s).1

/-- the `status:` commands of this run are interrupted by the failure of a sibling (`Env.cancelled`):
whatever the checkers say, the task is not reported up to date -/
def interrupted (t : Task) (e : Env) : Bool := e.cancelled && !t.status.isEmpty

def invoke (cfg : Cfg) (H : Hashes) (pr : Proj) (i : Nat) (m : Mode) (e : Env) (s : State) : State × Obs :=
  match m with
  | .list => (s, Obs.quiet)
  | .summary => (s, Obs.quiet)
  | .listJson =>
    if pr.tasks.any (fun t => checkErr t e s.files) then (s, ⟨.checkError, false, [], []⟩) else
    let r := listJson cfg H pr e.now pr.tasks s []
    (r.1, ⟨.ok, false, [], r.2⟩)
  | .status =>
    match pr.tasks[i]? with
    | none => (s, ⟨.failed, false, [], []⟩)
    | some t =>
      if checkErr t e s.files then (s, ⟨.checkError, false, [], []⟩) else
      let r := isUpToDate H pr t true e.now s
      (r.1, ⟨if r.2 then .ok else .notUpToDate, false, [], []⟩)
  | .force =>
    match pr.tasks[i]? with
    | none => (s, ⟨.failed, false, [], []⟩)
    -- (F8F) the sources checker runs under --force as well, for what it RECORDS only: its verdict and its
    -- errors are ignored, the status commands are not evaluated; before the fix the body started from `s`
    -- and a successful forced run recorded nothing (`C05_force_old_rule`)
    -- (an ERROR of that check — `checkErr` — is ignored as well; since F8D nothing is recorded then)
    | some t => runBody cfg H pr i t false e (forceStart H pr t e s)
  | .run =>
    match pr.tasks[i]? with
    | none => (s, ⟨.failed, false, [], []⟩)
    | some t =>
      -- (F8D: the `generates` entries are looked at BEFORE the checksum is recorded: nothing is left
      -- behind; before it the state was `(sumCheck H pr t false s).1`: `C04_check_error_old_rule`)
      if checkErr t e s.files then (s, ⟨.checkError, false, [], []⟩) else
      let r := isUpToDate H pr t false e.now s
      if r.2 && !interrupted t e then (r.1, ⟨.ok, true, [], []⟩) else runBody cfg H pr i t false e r.1
  | .dry =>
    match pr.tasks[i]? with
    | none => (s, ⟨.failed, false, [], []⟩)
    | some t =>
      if checkErr t e s.files then (s, ⟨.checkError, false, [], []⟩) else
      let r := isUpToDate H pr t true e.now s
      if r.2 then (r.1, ⟨.ok, true, [], []⟩) else runBody cfg H pr i t true e r.1

/-- **the second activation (`Env.twin`) is reported up to date**: its check runs on the state the
FIRST activation's check has just left — the fingerprint is recorded at check time, before any command
— while the first activation is still inside its first command.  (Mirrors the code: the open finding
`C04-concurrent-activation-skipped`, same root as the kill finding.  An up-to-date verdict writes
nothing, so the state is that of `invoke`.) -/
def twinUp (H : Hashes) (pr : Proj) (i : Nat) (e : Env) (s : State) : Bool :=
  match pr.tasks[i]? with
  | none => false
  | some t =>
    let r := isUpToDate H pr t false e.now s
    e.twin && !checkErr t e s.files && !(r.2 && !interrupted t e) && !(t.prompt && !e.yes) && !t.cmds.isEmpty &&
      (isUpToDate H pr t false e.now r.1).2

def Mode.readOnly : Mode → Bool
  | .dry | .status | .listJson | .list | .summary => true
  | _ => false

/-! ### file operations between invocations, histories -/

inductive Op
  | write (p : Path) (c : Bytes) (mt : Nat)     -- create or overwrite, explicit mtime
  | touch (p : Path) (mt : Nat)
  | delete (p : Path)
  | move (p q : Path)                           -- `rename`: content and mtime kept
  | rmdir (d : Nat)                             -- remove a task directory recursively
deriving Repr, DecidableEq

def ensureDir (pr : Proj) (p : Path) (dirs : List Nat) : List Nat :=
  match aget pr.dirOf p with
  | some d => if d ∈ dirs then dirs else dirs ++ [d]
  | none => dirs

def applyOp (pr : Proj) : Op → State → State
  | .write p c mt, s => { s with files := aset s.files p ⟨c, mt⟩, dirs := ensureDir pr p s.dirs }
  | .touch p mt, s =>
    match aget s.files p with
    | some f => { s with files := aset s.files p ⟨f.content, mt⟩ }
    | none => s
  | .delete p, s => { s with files := adel s.files p }
  | .move p q, s =>
    match aget s.files p with
    | some f => { s with files := aset (adel s.files p) q f, dirs := ensureDir pr q s.dirs }
    | none => s
  | .rmdir d, s =>
    { s with files := s.files.filter (fun kv => decide (aget pr.dirOf kv.1 ≠ some d)),
             dirs := s.dirs.filter (fun x => decide (x ≠ d)) }

inductive Step
  | inv (i : Nat) (m : Mode) (e : Env)
  | op (o : Op)
deriving Repr, DecidableEq

def step (cfg : Cfg) (H : Hashes) (pr : Proj) : Step → State → State × Option Obs
  | .inv i m e, s => let r := invoke cfg H pr i m e s; (r.1, some r.2)
  | .op o, s => (applyOp pr o s, none)

/-- run a history; observations in order (`none` for file operations) -/
def runHist (cfg : Cfg) (H : Hashes) (pr : Proj) : List Step → State → State × List (Option Obs)
  | [], s => (s, [])
  | st :: rest, s =>
    let r := step cfg H pr st s
    let r' := runHist cfg H pr rest r.1
    (r'.1, r.2 :: r'.2)

/-! ### goodRun (C04) -/

/-- the LAST log entry satisfying `pred` -/
def lastAtt (pred : Attempt → Bool) : List Attempt → Option Attempt
  | [] => none
  | a :: l =>
    match lastAtt pred l with
    | some b => some b
    | none => if pred a then some a else none

/-- "the most recent attempt at `t`'s commands for the present fingerprint ran them all
successfully, and the generates exist".  Present fingerprint: for `checksum` the hash of
the stream; for `timestamp` "no source is newer than that attempt".

CLOCK GRANULARITY (explicit hypothesis of the timestamp branch): modification times and the clock of
the invocations are counted in ONE unit (whole seconds in the harness), and "newer" is strict, as in the
code (`time.After`): a source written in the SAME tick as the attempt (`mtimeOf = a.time`) counts as
seen by it — `≤ a.time`.  An edit within the tick of a run is invisible to the method; the property is
read modulo that granularity (`C04_same_tick_edit_counts_as_seen`). -/
def goodRun (H : Hashes) (pr : Proj) (i : Nat) (t : Task) (s : State) : Bool :=
  gensOk t s.files &&
  match t.method with
  | .checksum =>
    (match lastAtt (fun a => decide (a.task = i ∧ a.fp = fpNow H pr t s.files)) s.log with
     | some a => a.ok
     | none => false)
  | .timestamp =>
    (match lastAtt (fun a => decide (a.task = i)) s.log with
     | some a => a.ok && (srcsNow t s.files).all (fun p => decide (mtimeOf s.files p ≤ a.time))
     | none => false)
  | .none => false

/-- `goodRun` for method checksum read off the GHOST source lists instead of the hashes: "the most
recent attempt at `t`'s commands for the PRESENT (names, contents) of the matched sources ran them all
successfully, and the generates exist" — the statement of the property itself; `goodRun` compares
fingerprints, which a constant hash would make vacuous (`C04_partial_src`) -/
def goodRunSrc (pr : Proj) (i : Nat) (t : Task) (s : State) : Bool :=
  gensOk t s.files &&
    (match lastAtt (fun a => decide (a.task = i ∧ a.src = srcList pr t s.files)) s.log with
     | some a => a.ok
     | none => false)

end TaskModel.Finger
