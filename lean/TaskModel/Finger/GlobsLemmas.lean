import TaskModel.Finger.Globs
/-! Helper lemmas about `globs` (used by `Props.C05`). -/
namespace TaskModel.Finger

theorem aget_foldl_aset (ms : List Path) (b : Bool) (m : List (Path × Bool)) (q : Path) :
    aget (ms.foldl (fun m p => aset m p b) m) q = if q ∈ ms then some b else aget m q := by
  induction ms generalizing m with
  | nil => simp
  | cons p ms ih =>
    simp only [List.foldl_cons, ih, List.mem_cons]
    by_cases h1 : q ∈ ms
    · simp [h1]
    · by_cases h2 : q = p
      · subst h2; simp [h1]
      · have : ¬ p = q := fun e => h2 e.symm
        simp [h1, h2, aget_aset, this]

theorem aget_addPat (m : List (Path × Bool)) (g : Pat) (q : Path) :
    aget (addPat m g) q = if q ∈ g.ms then some (!g.neg) else aget m q :=
  aget_foldl_aset g.ms (!g.neg) m q

theorem aget_foldl_addPat (pats : List Pat) (m : List (Path × Bool)) (q : Path) :
    aget (pats.foldl addPat m) q =
      match lastFlag pats q with
      | some b => some b
      | none => aget m q := by
  induction pats generalizing m with
  | nil => simp [lastFlag]
  | cons g gs ih =>
    simp only [List.foldl_cons, ih, lastFlag]
    cases h : lastFlag gs q with
    | some b => simp
    | none =>
      simp only [aget_addPat]
      by_cases hq : q ∈ g.ms <;> simp [hq]

theorem aget_globsMap (pats : List Pat) (q : Path) : aget (globsMap pats) q = lastFlag pats q := by
  unfold globsMap
  rw [aget_foldl_addPat]
  cases lastFlag pats q <;> simp

theorem nodup_foldl_aset (ms : List Path) (b : Bool) (m : List (Path × Bool)) (h : (akeys m).Nodup) :
    (akeys (ms.foldl (fun m p => aset m p b) m)).Nodup := by
  induction ms generalizing m with
  | nil => exact h
  | cons p ms ih => exact ih _ (nodup_akeys_aset m p b h)

theorem nodup_foldl_addPat (pats : List Pat) (m : List (Path × Bool)) (h : (akeys m).Nodup) :
    (akeys (pats.foldl addPat m)).Nodup := by
  induction pats generalizing m with
  | nil => exact h
  | cons g gs ih => exact ih _ (nodup_foldl_aset g.ms (!g.neg) m h)

theorem nodup_globsMap (pats : List Pat) : (akeys (globsMap pats)).Nodup :=
  nodup_foldl_addPat pats [] (by simp [akeys])

theorem mem_trueKeys (m : List (Path × Bool)) (h : (akeys m).Nodup) (q : Path) :
    q ∈ (m.filter (·.2)).map (·.1) ↔ aget m q = some true := by
  induction m with
  | nil => simp
  | cons kv m ih =>
    obtain ⟨k, w⟩ := kv
    simp only [akeys, List.map_cons, List.nodup_cons] at h
    have ih := ih h.2
    simp only [aget]
    by_cases hk : k = q
    · subst hk
      have hn : aget m k = none := aget_none_of_not_mem m k h.1
      cases w
      · simp only [List.filter_cons, Bool.false_eq_true, if_false, if_true]
        rw [ih, hn]; simp
      · simp
    · simp only [hk, if_false]
      rw [← ih]
      cases w
      · simp
      · simp only [List.filter_cons, if_true, List.map_cons, List.mem_cons]
        constructor
        · rintro (e | e)
          · exact absurd e.symm hk
          · exact e
        · exact Or.inr

theorem nodup_trueKeys (m : List (Path × Bool)) (h : (akeys m).Nodup) :
    ((m.filter (·.2)).map (·.1)).Nodup :=
  List.Nodup.sublist (List.Sublist.map _ List.filter_sublist) h

theorem mem_insertSorted (p q : Path) (l : List Path) : q ∈ insertSorted p l ↔ q = p ∨ q ∈ l := by
  induction l with
  | nil => simp [insertSorted]
  | cons a l ih =>
    simp only [insertSorted]
    split
    · simp
    · simp only [List.mem_cons, ih]
      constructor
      · rintro (h | h | h)
        · exact Or.inr (Or.inl h)
        · exact Or.inl h
        · exact Or.inr (Or.inr h)
      · rintro (h | h | h)
        · exact Or.inr (Or.inl h)
        · exact Or.inl h
        · exact Or.inr (Or.inr h)

theorem mem_sortPaths (q : Path) (l : List Path) : q ∈ sortPaths l ↔ q ∈ l := by
  induction l with
  | nil => simp [sortPaths]
  | cons a l ih => simp [sortPaths, mem_insertSorted, ih]

/-- strictly increasing -/
def StrictSorted (l : List Path) : Prop := l.Pairwise (· < ·)

theorem strictSorted_insertSorted (p : Path) (l : List Path) (hp : p ∉ l) (h : StrictSorted l) :
    StrictSorted (insertSorted p l) := by
  induction l with
  | nil => simp [insertSorted, StrictSorted]
  | cons a l ih =>
    simp only [List.mem_cons, not_or] at hp
    unfold StrictSorted at h ih ⊢
    rw [List.pairwise_cons] at h
    simp only [insertSorted]
    split
    · rename_i hle
      have hlt : p < a := Nat.lt_of_le_of_ne hle hp.1
      rw [List.pairwise_cons]
      refine ⟨?_, List.pairwise_cons.mpr h⟩
      intro b hb
      simp only [List.mem_cons] at hb
      rcases hb with rfl | hb
      · exact hlt
      · exact Nat.lt_trans hlt (h.1 b hb)
    · rename_i hle
      have hlt : a < p := Nat.lt_of_not_le hle
      rw [List.pairwise_cons]
      refine ⟨?_, ih hp.2 h.2⟩
      intro b hb
      rw [mem_insertSorted] at hb
      rcases hb with rfl | hb
      · exact hlt
      · exact h.1 b hb

theorem strictSorted_sortPaths (l : List Path) (h : l.Nodup) : StrictSorted (sortPaths l) := by
  induction l with
  | nil => simp [sortPaths, StrictSorted]
  | cons a l ih =>
    rw [List.nodup_cons] at h
    simp only [sortPaths]
    exact strictSorted_insertSorted a _ (by rw [mem_sortPaths]; exact h.1) (ih h.2)

theorem StrictSorted.nodup {l : List Path} (h : StrictSorted l) : l.Nodup :=
  List.Pairwise.imp (fun hab => Nat.ne_of_lt hab) h

/-- a strictly sorted list is determined by its members -/
theorem strictSorted_ext (l₁ l₂ : List Path) (h₁ : StrictSorted l₁) (h₂ : StrictSorted l₂)
    (h : ∀ q, q ∈ l₁ ↔ q ∈ l₂) : l₁ = l₂ := by
  induction l₁ generalizing l₂ with
  | nil =>
    cases l₂ with
    | nil => rfl
    | cons b l₂ => exact absurd ((h b).mpr (by simp)) (by simp)
  | cons a l₁ ih =>
    cases l₂ with
    | nil => exact absurd ((h a).mp (by simp)) (by simp)
    | cons b l₂ =>
      unfold StrictSorted at h₁ h₂
      rw [List.pairwise_cons] at h₁ h₂
      have hab : a = b := by
        have ha := (h a).mp (by simp)
        have hb := (h b).mpr (by simp)
        simp only [List.mem_cons] at ha hb
        rcases ha with ha | ha
        · exact ha
        · rcases hb with hb | hb
          · exact hb.symm
          · exact absurd (h₂.1 a ha) (Nat.lt_asymm (h₁.1 b hb))
      subst hab
      congr 1
      apply ih l₂ h₁.2 h₂.2
      intro q
      have hq := h q
      simp only [List.mem_cons] at hq
      constructor
      · intro hq1
        rcases hq.mp (Or.inr hq1) with e | e
        · subst e; exact absurd (h₁.1 q hq1) (Nat.lt_irrefl _)
        · exact e
      · intro hq2
        rcases hq.mpr (Or.inr hq2) with e | e
        · subst e; exact absurd (h₂.1 q hq2) (Nat.lt_irrefl _)
        · exact e

theorem mem_globs (pats : List Pat) (q : Path) : q ∈ globs pats ↔ lastFlag pats q = some true := by
  unfold globs collectKeys
  rw [mem_sortPaths, mem_trueKeys _ (nodup_globsMap pats), aget_globsMap]

theorem strictSorted_globs (pats : List Pat) : StrictSorted (globs pats) :=
  strictSorted_sortPaths _ (nodup_trueKeys _ (nodup_globsMap pats))

/-- `lastFlag` only looks at membership in the match lists -/
theorem lastFlag_congr (ps qs : List Pat) (q : Path)
    (hlen : ps.length = qs.length)
    (h : ∀ i (hi : i < ps.length), (ps[i]).neg = (qs[i]'(hlen ▸ hi)).neg ∧ (q ∈ (ps[i]).ms ↔ q ∈ (qs[i]'(hlen ▸ hi)).ms)) :
    lastFlag ps q = lastFlag qs q := by
  induction ps generalizing qs with
  | nil =>
    cases qs with
    | nil => rfl
    | cons _ _ => simp at hlen
  | cons g gs ih =>
    cases qs with
    | nil => simp at hlen
    | cons g' gs' =>
      simp only [List.length_cons, Nat.add_right_cancel_iff] at hlen
      have h0 := h 0 (by simp)
      simp only [List.getElem_cons_zero] at h0
      have ih' := ih gs' hlen (fun i hi => by
        have := h (i+1) (by simp; omega)
        simpa using this)
      simp only [lastFlag, ih', h0.1]
      by_cases hq : q ∈ g.ms
      · simp [hq, h0.2.mp hq]
      · have : q ∉ g'.ms := fun e => hq (h0.2.mpr e)
        simp [hq, this]

end TaskModel.Finger
