/-
Resolve.Glob — the wildcard matcher used for task names.

Mirrors `(*ast.Task).WildcardMatch` (taskfile/ast/task.go): the task name is split
at `*`, every `*` becomes the regexp group `(.*)`, the whole is anchored `(?s)^…$`, and
Go's regexp (leftmost-first, greedy) is run on the requested name.  With the flag `s`
the dot matches every character, the newline included ("only `*` is special").  With
every other character literal (the property's requirement; the implementation gets there
through `regexp.QuoteMeta`) the regexp semantics is the function below: the first group
takes the longest prefix for which the rest still matches, and so on.
-/
namespace TaskModel.Resolve

abbrev Str := List Char

/-- split at a separator character (like `strings.Split`): always at least one segment -/
def splitOn (c : Char) : Str → List Str
  | [] => [[]]
  | x :: xs =>
    match splitOn c xs with
    | [] => [[]]          -- unreachable
    | seg :: rest => if x = c then [] :: seg :: rest else (x :: seg) :: rest

def isPrefix : Str → Str → Bool
  | [], _ => true
  | _ :: _, [] => false
  | a :: as, b :: bs => a == b && isPrefix as bs

/-- `tryK seg k s n`: try group lengths `n, n-1, …, 0` (greedy: longest first);
`k` is the matcher for what follows `seg`. -/
def tryK (seg : Str) (k : Str → Option (List Str)) (s : Str) : Nat → Option (List Str)
  | 0 =>
    if isPrefix seg s then
      match k (s.drop seg.length) with
      | some ws => some ([] :: ws)
      | none => none
    else none
  | n + 1 =>
    if isPrefix seg (s.drop (n+1)) then
      match k ((s.drop (n+1)).drop seg.length) with
      | some ws => some (s.take (n+1) :: ws)
      | none => tryK seg k s n
    else tryK seg k s n

/-- match `(.*)seg₁(.*)seg₂…` against the whole of `s` -/
def matchRest : List Str → Str → Option (List Str)
  | [], s => if s = [] then some [] else none
  | seg :: more, s => tryK seg (matchRest more) s s.length

/-- `matchSegs (seg₀ :: rest) s` — the anchored match of `seg₀(.*)seg₁…` -/
def matchSegs : List Str → Str → Option (List Str)
  | [], _ => none
  | seg0 :: rest, s =>
    if isPrefix seg0 s then matchRest rest (s.drop seg0.length) else none

/-- the whole of `WildcardMatch`: pattern string, requested name -/
def wildcardMatch (pat name : Str) : Option (List Str) :=
  matchSegs (splitOn '*' pat) name

/-- the string a list of segments and wildcard values spell out -/
def interleave : List Str → List Str → Str
  | [], _ => []
  | [seg], _ => seg
  | seg :: segs, [] => seg ++ interleave segs []
  | seg :: segs, w :: ws => seg ++ w ++ interleave segs ws

end TaskModel.Resolve
