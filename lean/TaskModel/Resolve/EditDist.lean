/-
Edit distance between two names (byte strings, `List Nat`), as an executable
and proved oracle for "did you mean" suggestions.

* `Edit1 a b`     : `b` is obtained from `a` by one Levenshtein edit
                    (substitute / insert / delete one element).
* `within1 a b`   : executable test "equal or one edit apart" (`within1_iff`).
* `lev a b`       : Levenshtein distance by the classic row-by-row dynamic
                    programme; it satisfies the defining recurrence
                    (`lev_nil_left`, `lev_nil_right`, `lev_cons_cons`).
* `withinK k a b` : `lev a b ≤ k`; agrees with `within1` at `k = 1`
                    (`within1_eq_lev`).
* `EditLe k a b`  : `b` is reachable from `a` by at most `k` edits;
                    `lev_le_iff : lev a b ≤ k ↔ EditLe k a b`.

Every executable definition is structurally recursive, so `decide` evaluates it.
-/

namespace TaskModel.Resolve.EditDist

/-! ## 1. One elementary edit -/

/-- One elementary (Levenshtein) edit, given by the three edits at the head of
the list and congruence under a common head.  `edit1_iff` shows that this is the
usual `p ++ … ++ s` notion. -/
inductive Edit1 : List Nat → List Nat → Prop
  | sub (x y : Nat) (s : List Nat) : Edit1 (x :: s) (y :: s)
  | ins (y : Nat) (s : List Nat) : Edit1 s (y :: s)
  | del (x : Nat) (s : List Nat) : Edit1 (x :: s) s
  | cons (x : Nat) {a b : List Nat} : Edit1 a b → Edit1 (x :: a) (x :: b)

theorem Edit1.append_left (p : List Nat) {a b : List Nat} (h : Edit1 a b) :
    Edit1 (p ++ a) (p ++ b) := by
  induction p with
  | nil => exact h
  | cons x p ih => exact Edit1.cons x ih

/-- Substitution anywhere in the list. -/
theorem Edit1.sub_at (p : List Nat) (x y : Nat) (s : List Nat) :
    Edit1 (p ++ x :: s) (p ++ y :: s) :=
  (Edit1.sub x y s).append_left p

/-- Insertion anywhere in the list. -/
theorem Edit1.ins_at (p : List Nat) (y : Nat) (s : List Nat) :
    Edit1 (p ++ s) (p ++ y :: s) :=
  (Edit1.ins y s).append_left p

/-- Deletion anywhere in the list. -/
theorem Edit1.del_at (p : List Nat) (x : Nat) (s : List Nat) :
    Edit1 (p ++ x :: s) (p ++ s) :=
  (Edit1.del x s).append_left p

/-- `Edit1` is exactly: substitute, insert or delete one element somewhere. -/
theorem edit1_iff (a b : List Nat) :
    Edit1 a b ↔
      ∃ p s, (∃ x y, a = p ++ x :: s ∧ b = p ++ y :: s) ∨
             (∃ y, a = p ++ s ∧ b = p ++ y :: s) ∨
             (∃ x, a = p ++ x :: s ∧ b = p ++ s) := by
  constructor
  · intro h
    induction h with
    | sub x y s => exact ⟨[], s, Or.inl ⟨x, y, rfl, rfl⟩⟩
    | ins y s => exact ⟨[], s, Or.inr (Or.inl ⟨y, rfl, rfl⟩)⟩
    | del x s => exact ⟨[], s, Or.inr (Or.inr ⟨x, rfl, rfl⟩)⟩
    | cons z _ ih =>
      obtain ⟨p, s, h⟩ := ih
      refine ⟨z :: p, s, ?_⟩
      rcases h with ⟨x, y, rfl, rfl⟩ | ⟨y, rfl, rfl⟩ | ⟨x, rfl, rfl⟩
      · exact Or.inl ⟨x, y, rfl, rfl⟩
      · exact Or.inr (Or.inl ⟨y, rfl, rfl⟩)
      · exact Or.inr (Or.inr ⟨x, rfl, rfl⟩)
  · rintro ⟨p, s, ⟨x, y, rfl, rfl⟩ | ⟨y, rfl, rfl⟩ | ⟨x, rfl, rfl⟩⟩
    · exact Edit1.sub_at p x y s
    · exact Edit1.ins_at p y s
    · exact Edit1.del_at p x s

theorem edit1_nil_left {b : List Nat} : Edit1 [] b ↔ ∃ y, b = [y] := by
  constructor
  · intro h
    cases h with
    | ins y s => exact ⟨y, rfl⟩
  · rintro ⟨y, rfl⟩
    exact Edit1.ins y []

theorem edit1_nil_right {a : List Nat} : Edit1 a [] ↔ ∃ x, a = [x] := by
  constructor
  · intro h
    cases h with
    | del x s => exact ⟨x, rfl⟩
  · rintro ⟨x, rfl⟩
    exact Edit1.del x []

theorem edit1_cons_cons {x y : Nat} {a b : List Nat} :
    Edit1 (x :: a) (y :: b) ↔
      a = b ∨ a = y :: b ∨ x :: a = b ∨ (x = y ∧ Edit1 a b) := by
  constructor
  · intro h
    cases h with
    | sub => exact Or.inl rfl
    | ins => exact Or.inr (Or.inr (Or.inl rfl))
    | del => exact Or.inr (Or.inl rfl)
    | cons _ h => exact Or.inr (Or.inr (Or.inr ⟨rfl, h⟩))
  · rintro (rfl | rfl | rfl | ⟨rfl, h⟩)
    · exact Edit1.sub x y a
    · exact Edit1.del x (y :: b)
    · exact Edit1.ins y (x :: a)
    · exact Edit1.cons x h

/-- Executable test: `a` and `b` are equal or one edit apart. -/
def within1 : List Nat → List Nat → Bool
  | [], b => decide (b.length ≤ 1)
  | _ :: a, [] => a.isEmpty
  | x :: a, y :: b =>
    if x = y then within1 a b else (a == b) || (a == y :: b) || (x :: a == b)

theorem within1_iff (a b : List Nat) : within1 a b = true ↔ a = b ∨ Edit1 a b := by
  induction a generalizing b with
  | nil =>
    cases b with
    | nil => simp [within1]
    | cons y b =>
      cases b with
      | nil => simp [within1, edit1_nil_left]
      | cons z b => simp [within1, edit1_nil_left]
  | cons x a ih =>
    cases b with
    | nil =>
      cases a with
      | nil => simp [within1, edit1_nil_right]
      | cons z a => simp [within1, edit1_nil_right]
    | cons y b =>
      by_cases hxy : x = y
      · subst hxy
        simp only [within1, if_true, ih, edit1_cons_cons, List.cons.injEq, true_and]
        constructor
        · rintro (h | h)
          · exact Or.inl h
          · exact Or.inr (Or.inr (Or.inr (Or.inr h)))
        · rintro (h | h | h | h | h)
          · exact Or.inl h
          · exact Or.inl h
          · subst h; exact Or.inr (Edit1.del x b)
          · subst h; exact Or.inr (Edit1.ins x a)
          · exact Or.inr h
      · simp [within1, hxy, edit1_cons_cons, or_assoc]

example : within1 [1, 2, 3] [1, 2, 3] = true := by decide
example : within1 [1, 2, 3] [1, 9, 3] = true := by decide   -- substitution
example : within1 [1, 2, 3] [1, 2, 9, 3] = true := by decide -- insertion
example : within1 [1, 2, 3] [1, 3] = true := by decide       -- deletion
example : within1 [] [7] = true := by decide
example : within1 [7] [] = true := by decide
example : within1 [1, 2] [2, 1] = false := by decide         -- transposition = 2 edits
example : within1 [1, 2, 3] [1] = false := by decide
example : within1 [1, 2, 3] [4, 2, 5] = false := by decide
example : within1 [] [1, 2] = false := by decide

/-! ## 2. Levenshtein distance by the row-by-row dynamic programme -/

/-- The row for the empty first word: `nilRow b = [|b|, |b|-1, …, 1, 0]`, the
distances from `[]` to every suffix of `b`. -/
def nilRow : List Nat → List Nat
  | [] => [0]
  | _ :: b => (b.length + 1) :: nilRow b

/-- One step of the dynamic programme.  `prev` is the row of `a` (the distances
from `a` to every suffix of `b`, longest suffix first); the result is the row of
`x :: a`.  Structural recursion on `b`. -/
def stepRow (x : Nat) : List Nat → List Nat → List Nat
  | [], prev => [prev.headD 0 + 1]
  | y :: b, prev =>
    let rest := stepRow x b prev.tail
    min (prev.tail.headD 0 + if x = y then 0 else 1)
        (min (prev.headD 0 + 1) (rest.headD 0 + 1)) :: rest

/-- `row a b` lists the distances from `a` to every suffix of `b`, longest
suffix first.  Structural recursion on `a`. -/
def row : List Nat → List Nat → List Nat
  | [], b => nilRow b
  | x :: a, b => stepRow x b (row a b)

/-- Levenshtein distance. -/
def lev (a b : List Nat) : Nat := (row a b).headD 0

/-- `lev a b ≤ k`, as a `Bool`. -/
def withinK (k : Nat) (a b : List Nat) : Bool := decide (lev a b ≤ k)

theorem row_tail (a : List Nat) (y : Nat) (b : List Nat) :
    (row a (y :: b)).tail = row a b := by
  induction a with
  | nil => rfl
  | cons x a ih => simp [row, stepRow, ih]

theorem lev_nil_left (b : List Nat) : lev [] b = b.length := by
  cases b <;> rfl

theorem lev_nil_right (a : List Nat) : lev a [] = a.length := by
  induction a with
  | nil => rfl
  | cons x a ih =>
    have : lev (x :: a) [] = lev a [] + 1 := rfl
    rw [this, ih]; rfl

/-- The defining recurrence, in the "minimum of three" form. -/
theorem lev_cons_cons_min (x : Nat) (a : List Nat) (y : Nat) (b : List Nat) :
    lev (x :: a) (y :: b) =
      min (lev a b + if x = y then 0 else 1)
          (min (lev a (y :: b) + 1) (lev (x :: a) b + 1)) := by
  simp [lev, row, stepRow, row_tail]

theorem lev_symm (a b : List Nat) : lev a b = lev b a := by
  induction a generalizing b with
  | nil => rw [lev_nil_left, lev_nil_right]
  | cons x a iha =>
    induction b with
    | nil => rw [lev_nil_left, lev_nil_right]
    | cons y b ihb =>
      rw [lev_cons_cons_min, lev_cons_cons_min, iha b, iha (y :: b), ihb]
      by_cases h : x = y
      · subst h; simp; omega
      · have h' : ¬ y = x := fun e => h e.symm
        simp [h, h']; omega

/-- Deleting the head of the first word costs at most one. -/
theorem lev_del_left (x : Nat) (a b : List Nat) : lev (x :: a) b ≤ lev a b + 1 := by
  cases b with
  | nil => simp [lev_nil_right]
  | cons y b => rw [lev_cons_cons_min]; omega

theorem lev_del_right (a : List Nat) (y : Nat) (b : List Nat) :
    lev a (y :: b) ≤ lev a b + 1 := by
  rw [lev_symm a (y :: b), lev_symm a b]; exact lev_del_left y b a

/-- Inserting a head into the first word costs at most one. -/
theorem lev_ins_left (x : Nat) (a b : List Nat) : lev a b ≤ lev (x :: a) b + 1 := by
  induction b with
  | nil => simp only [lev_nil_right, List.length_cons]; omega
  | cons y b ih =>
    rw [lev_cons_cons_min]
    have := lev_del_right a y b
    omega

theorem lev_ins_right (a : List Nat) (y : Nat) (b : List Nat) :
    lev a b ≤ lev a (y :: b) + 1 := by
  rw [lev_symm a (y :: b), lev_symm a b]; exact lev_ins_left y b a

/-- The defining recurrence of the Levenshtein distance. -/
theorem lev_cons_cons (x : Nat) (a : List Nat) (y : Nat) (b : List Nat) :
    lev (x :: a) (y :: b) =
      if x = y then lev a b
      else 1 + min (lev a b) (min (lev a (y :: b)) (lev (x :: a) b)) := by
  rw [lev_cons_cons_min]
  have h1 := lev_ins_left x a b
  have h2 := lev_ins_right a y b
  by_cases h : x = y
  · simp only [h, if_true]; subst h; omega
  · simp only [h, if_false]; omega

theorem lev_self (a : List Nat) : lev a a = 0 := by
  induction a with
  | nil => rfl
  | cons x a ih => rw [lev_cons_cons]; simp [ih]

theorem lev_eq_zero_iff (a b : List Nat) : lev a b = 0 ↔ a = b := by
  induction a generalizing b with
  | nil => cases b <;> simp [lev_nil_left]
  | cons x a ih =>
    cases b with
    | nil => simp [lev_nil_right]
    | cons y b =>
      rw [lev_cons_cons]
      by_cases h : x = y
      · simp [h, ih]
      · simp [h]

theorem within1_iff_lev (a b : List Nat) : within1 a b = true ↔ lev a b ≤ 1 := by
  induction a generalizing b with
  | nil => simp [within1, lev_nil_left]
  | cons x a ih =>
    cases b with
    | nil => cases a <;> simp [within1, lev_nil_right]
    | cons y b =>
      rw [lev_cons_cons]
      by_cases h : x = y
      · simp [within1, h, ih]
      · have e1 := lev_eq_zero_iff a b
        have e2 := lev_eq_zero_iff a (y :: b)
        have e3 := lev_eq_zero_iff (x :: a) b
        simp only [within1, h, if_false, Bool.or_eq_true, beq_iff_eq, ← e1, ← e2, ← e3]
        omega

/-- At `k = 1` the general function is the one-edit test of section 1. -/
theorem within1_eq_lev (a b : List Nat) : within1 a b = withinK 1 a b := by
  rw [Bool.eq_iff_iff, within1_iff_lev]; simp [withinK]

/-- kitten / sitting -/
example : lev [107, 105, 116, 116, 101, 110] [115, 105, 116, 116, 105, 110, 103] = 3 := by
  decide
example : lev [1, 2, 3, 4] [1, 2, 3, 4] = 0 := by decide
example : lev [1, 2] [2, 1] = 2 := by decide                 -- transposition
example : lev [] [1, 2, 3] = 3 := by decide
example : lev [1, 2, 3] [] = 3 := by decide
example : withinK 2 [1, 2, 3, 4] [2, 1, 3, 4] = true := by decide
example : withinK 1 [1, 2, 3, 4] [2, 1, 3, 4] = false := by decide

/-! ## 3. `lev a b ≤ k` is "at most `k` elementary edits" -/

/-- `b` is reachable from `a` by at most `k` elementary edits. -/
inductive EditLe : Nat → List Nat → List Nat → Prop
  | refl (k : Nat) (a : List Nat) : EditLe k a a
  | step {k : Nat} {a c b : List Nat} : Edit1 a c → EditLe k c b → EditLe (k + 1) a b

theorem EditLe.cons (x : Nat) {k : Nat} {a b : List Nat} (h : EditLe k a b) :
    EditLe k (x :: a) (x :: b) := by
  induction h with
  | refl k a => exact EditLe.refl k (x :: a)
  | step h1 _ ih => exact EditLe.step (Edit1.cons x h1) ih

/-- The last edit of a chain may be given instead of the first. -/
theorem EditLe.snoc {k : Nat} {a c b : List Nat} (h : EditLe k a c) (e : Edit1 c b) :
    EditLe (k + 1) a b := by
  induction h with
  | refl k a => exact EditLe.step e (EditLe.refl k b)
  | step h1 _ ih => exact EditLe.step h1 (ih e)

theorem editLe_nil_left (b : List Nat) (k : Nat) (h : b.length ≤ k) : EditLe k [] b := by
  induction b generalizing k with
  | nil => exact EditLe.refl k []
  | cons y b ih =>
    cases k with
    | zero => simp at h
    | succ k =>
      have hb : b.length ≤ k := by simpa using h
      exact EditLe.step (Edit1.ins y []) (EditLe.cons y (ih k hb))

/-- Changing the first word by one edit changes the distance by at most one. -/
theorem lev_le_of_edit1 {a c : List Nat} (h : Edit1 a c) (b : List Nat) :
    lev a b ≤ lev c b + 1 := by
  induction h generalizing b with
  | sub x y s =>
    induction b with
    | nil => simp [lev_nil_right]
    | cons z b ih =>
      rw [lev_cons_cons_min, lev_cons_cons_min]
      have hc : (if x = z then 0 else 1) ≤ (if y = z then 0 else 1) + 1 := by
        split <;> split <;> omega
      omega
  | ins y s => exact lev_ins_left y s b
  | del x s => exact lev_del_left x s b
  | @cons x a c _ ih =>
    induction b with
    | nil =>
      have := ih []
      simp only [lev_nil_right] at this
      simp only [lev_nil_right, List.length_cons]
      omega
    | cons z b ihb =>
      rw [lev_cons_cons_min, lev_cons_cons_min]
      have := ih b
      have := ih (z :: b)
      omega

theorem lev_le_of_editLe {k : Nat} {a b : List Nat} (h : EditLe k a b) : lev a b ≤ k := by
  induction h with
  | refl k a => rw [lev_self]; exact Nat.zero_le k
  | @step k a c b h1 _ ih => have := lev_le_of_edit1 h1 b; omega

theorem editLe_of_lev_le (k : Nat) (a b : List Nat) (h : lev a b ≤ k) : EditLe k a b := by
  induction a generalizing b k with
  | nil => rw [lev_nil_left] at h; exact editLe_nil_left b k h
  | cons x a iha =>
    induction b generalizing k with
    | nil =>
      rw [lev_nil_right] at h
      cases k with
      | zero => simp at h
      | succ k =>
        refine EditLe.step (Edit1.del x a) (iha k [] ?_)
        rw [lev_nil_right]
        simpa using h
    | cons y b ihb =>
      rw [lev_cons_cons_min] at h
      by_cases hxy : x = y
      · subst hxy
        simp only [if_true, Nat.add_zero] at h
        by_cases h0 : lev a b ≤ k
        · exact EditLe.cons x (iha k b h0)
        · cases k with
          | zero => omega
          | succ k =>
            by_cases h1 : lev a (x :: b) ≤ k
            · exact EditLe.step (Edit1.del x a) (iha k (x :: b) h1)
            · exact EditLe.snoc (ihb k (by omega)) (Edit1.ins x b)
      · simp only [hxy, if_false] at h
        cases k with
        | zero => omega
        | succ k =>
          by_cases h0 : lev a b ≤ k
          · exact EditLe.step (Edit1.sub x y a) (EditLe.cons y (iha k b h0))
          · by_cases h1 : lev a (y :: b) ≤ k
            · exact EditLe.step (Edit1.del x a) (iha k (y :: b) h1)
            · exact EditLe.snoc (ihb k (by omega)) (Edit1.ins y b)

/-- The dynamic programme decides "at most `k` elementary edits". -/
theorem lev_le_iff (k : Nat) (a b : List Nat) : lev a b ≤ k ↔ EditLe k a b :=
  ⟨editLe_of_lev_le k a b, lev_le_of_editLe⟩

theorem withinK_iff (k : Nat) (a b : List Nat) : withinK k a b = true ↔ EditLe k a b := by
  rw [← lev_le_iff]; simp [withinK]

end TaskModel.Resolve.EditDist
