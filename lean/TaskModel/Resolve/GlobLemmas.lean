import TaskModel.Resolve.Glob
/-! Helper lemmas about the wildcard matcher (soundness, completeness, greediness). -/
namespace TaskModel.Resolve

theorem isPrefix_iff (a s : Str) : isPrefix a s = true ↔ ∃ t, s = a ++ t := by
  induction a generalizing s with
  | nil => simp [isPrefix]
  | cons x xs ih =>
    cases s with
    | nil => simp [isPrefix]
    | cons y ys =>
      simp only [isPrefix, Bool.and_eq_true, beq_iff_eq, ih, List.cons_append, List.cons.injEq]
      constructor
      · rintro ⟨rfl, t, rfl⟩; exact ⟨t, rfl, rfl⟩
      · rintro ⟨t, rfl, rfl⟩; exact ⟨rfl, t, rfl⟩

theorem drop_of_prefix (a t : Str) : (a ++ t).drop a.length = t := by simp

/-- what `rest`-level strings spell: `w₁ seg₁ w₂ seg₂ …` -/
def spellRest : List Str → List Str → Str
  | seg :: more, w :: ws => w ++ seg ++ spellRest more ws
  | _, _ => []

/-- soundness of the inner search, with maximality: the group length found is the LARGEST
`j ≤ n` for which the segment follows and the continuation succeeds -/
theorem tryK_sound (seg : Str) (k : Str → Option (List Str)) (s : Str) (n : Nat) (r : List Str)
    (h : tryK seg k s n = some r) :
    ∃ j, j ≤ n ∧ ∃ ws, r = s.take j :: ws ∧ isPrefix seg (s.drop j) = true ∧
      k ((s.drop j).drop seg.length) = some ws ∧
      ∀ j2, j < j2 → j2 ≤ n →
        ¬ (isPrefix seg (s.drop j2) = true ∧ (k ((s.drop j2).drop seg.length)).isSome = true) := by
  induction n with
  | zero =>
    simp only [tryK] at h
    split at h
    · rename_i hp
      split at h
      · rename_i ws hk
        refine ⟨0, Nat.le_refl _, ws, ?_, by simpa using hp, by simpa using hk, by intro j2 h1 h2; omega⟩
        simpa using (Option.some.inj h).symm
      · cases h
    · cases h
  | succ n ih =>
    simp only [tryK] at h
    split at h
    · rename_i hp
      split at h
      · rename_i ws hk
        exact ⟨n+1, Nat.le_refl _, ws, (Option.some.inj h).symm, hp, hk, by intro j2 h1 h2; omega⟩
      · rename_i hk
        obtain ⟨j, hj, ws, h1, h2, h3, h4⟩ := ih h
        refine ⟨j, by omega, ws, h1, h2, h3, ?_⟩
        intro j2 hlt hle
        by_cases he : j2 = n + 1
        · subst he; rw [hk]; simp
        · exact h4 j2 hlt (by omega)
    · rename_i hp
      obtain ⟨j, hj, ws, h1, h2, h3, h4⟩ := ih h
      refine ⟨j, by omega, ws, h1, h2, h3, ?_⟩
      intro j2 hlt hle
      by_cases he : j2 = n + 1
      · subst he; intro hc; exact hp hc.1
      · exact h4 j2 hlt (by omega)

/-- completeness + greediness of the inner search: if some `j ≤ n` works, the search
succeeds with a first group at least as long as `j`. -/
theorem tryK_complete (seg : Str) (k : Str → Option (List Str)) (s : Str) (n j : Nat)
    (hj : j ≤ n) (hp : isPrefix seg (s.drop j) = true)
    (hk : (k ((s.drop j).drop seg.length)).isSome = true) :
    ∃ j', j ≤ j' ∧ j' ≤ n ∧ ∃ ws, tryK seg k s n = some (s.take j' :: ws) ∧
      isPrefix seg (s.drop j') = true ∧ k ((s.drop j').drop seg.length) = some ws := by
  induction n with
  | zero =>
    have : j = 0 := by omega
    subst this
    obtain ⟨ws, hws⟩ := Option.isSome_iff_exists.mp hk
    refine ⟨0, Nat.le_refl _, Nat.le_refl _, ws, ?_, hp, hws⟩
    simp only [List.drop_zero] at hp hws
    simp [tryK, hp, hws]
  | succ n ih =>
    by_cases hp' : isPrefix seg (s.drop (n+1)) = true
    · cases hk' : k ((s.drop (n+1)).drop seg.length) with
      | some ws =>
        refine ⟨n+1, hj, Nat.le_refl _, ws, ?_, hp', hk'⟩
        simp only [tryK, hp', hk', if_true]
      | none =>
        have hjn : j ≤ n := by
          rcases Nat.lt_or_ge n j with hlt | hge
          · have : j = n + 1 := by omega
            subst this; rw [hk'] at hk; cases hk
          · exact hge
        obtain ⟨j', h1, h2, ws, h3, h4⟩ := ih hjn
        refine ⟨j', h1, by omega, ws, ?_, h4⟩
        simp only [tryK, hp', hk', h3, if_true]
    · have hjn : j ≤ n := by
        rcases Nat.lt_or_ge n j with hlt | hge
        · have : j = n + 1 := by omega
          subst this; exact absurd hp hp'
        · exact hge
      obtain ⟨j', h1, h2, ws, h3, h4⟩ := ih hjn
      refine ⟨j', h1, by omega, ws, ?_, h4⟩
      simp only [tryK, hp', h3]; simp

theorem matchRest_sound (segs : List Str) (s : Str) (ws : List Str)
    (h : matchRest segs s = some ws) :
    ws.length = segs.length ∧ s = spellRest segs ws := by
  induction segs generalizing s ws with
  | nil =>
    simp only [matchRest] at h
    split at h
    · cases h; subst_vars; simp [spellRest]
    · cases h
  | cons seg more ih =>
    simp only [matchRest] at h
    obtain ⟨j, hj, ws', rfl, hp, hk, _⟩ := tryK_sound _ _ _ _ _ h
    obtain ⟨hl, hs⟩ := ih _ _ hk
    obtain ⟨t, ht⟩ := (isPrefix_iff _ _).mp hp
    refine ⟨by simp [hl], ?_⟩
    simp only [spellRest]
    rw [ht, drop_of_prefix] at hs
    rw [← hs, List.append_assoc, ← ht, List.take_append_drop]

theorem matchRest_complete (segs ws : List Str) (hl : ws.length = segs.length) :
    (matchRest segs (spellRest segs ws)).isSome = true := by
  induction segs generalizing ws with
  | nil => cases ws <;> simp_all [matchRest, spellRest]
  | cons seg more ih =>
    cases ws with
    | nil => simp at hl
    | cons w ws =>
      simp only [List.length_cons, Nat.add_right_cancel_iff] at hl
      have hrec := ih ws hl
      simp only [matchRest, spellRest]
      have hdrop : (w ++ seg ++ spellRest more ws).drop w.length = seg ++ spellRest more ws := by
        simp [List.append_assoc]
      have hp : isPrefix seg ((w ++ seg ++ spellRest more ws).drop w.length) = true := by
        rw [hdrop]; exact (isPrefix_iff _ _).mpr ⟨_, rfl⟩
      have hk : (matchRest more (((w ++ seg ++ spellRest more ws).drop w.length).drop seg.length)).isSome = true := by
        rw [hdrop, drop_of_prefix]; exact hrec
      have hj : w.length ≤ (w ++ seg ++ spellRest more ws).length := by
        simp only [List.length_append]; omega
      obtain ⟨j', _, _, ws', h3, _⟩ := tryK_complete seg (matchRest more) _ _ _ hj hp hk
      rw [h3]; rfl

/-- lexicographic order on the LENGTHS of the wildcard values: `lexLenLe ws' ws` says that at
the first position where the two lists differ in length, `ws` has the longer value -/
def lexLenLe : List Str → List Str → Prop
  | w' :: r', w :: r => w'.length < w.length ∨ (w'.length = w.length ∧ lexLenLe r' r)
  | _, _ => True

/-- **greediness of ALL groups**: what the matcher returns is, among all ways of spelling
the name from the segments, the one whose first value is longest, then — the first value
being fixed — whose second value is longest, and so on (leftmost-longest, Go's `(.*)`). -/
theorem matchRest_greedy_all (segs : List Str) (s : Str) (ws : List Str)
    (h : matchRest segs s = some ws) (ws' : List Str) (hl : ws'.length = segs.length)
    (hs : s = spellRest segs ws') : lexLenLe ws' ws := by
  induction segs generalizing s ws ws' with
  | nil => cases ws' <;> first | trivial | (unfold lexLenLe; trivial)
  | cons seg more ih =>
    cases ws' with
    | nil => simp at hl
    | cons w' r' =>
      simp only [List.length_cons, Nat.add_right_cancel_iff] at hl
      simp only [matchRest] at h
      obtain ⟨j, hj, wsr, rfl, hp, hk, hmax⟩ := tryK_sound _ _ _ _ _ h
      simp only [spellRest] at hs
      have hdrop : s.drop w'.length = seg ++ spellRest more r' := by
        rw [hs]; simp [List.append_assoc]
      have hw'len : w'.length ≤ s.length := by
        rw [hs]; simp only [List.length_append]; omega
      have hp' : isPrefix seg (s.drop w'.length) = true := by
        rw [hdrop]; exact (isPrefix_iff _ _).mpr ⟨_, rfl⟩
      have hk' : (matchRest more ((s.drop w'.length).drop seg.length)).isSome = true := by
        rw [hdrop, drop_of_prefix]; exact matchRest_complete more r' hl
      have hle : w'.length ≤ j := by
        rcases Nat.lt_or_ge j w'.length with hlt | hge
        · exact absurd ⟨hp', hk'⟩ (hmax _ hlt hw'len)
        · exact hge
      have htake : (s.take j).length = j := by simp [List.length_take]; omega
      simp only [lexLenLe, htake]
      rcases Nat.lt_or_ge w'.length j with hlt | hge
      · exact Or.inl hlt
      · have hej : w'.length = j := by omega
        refine Or.inr ⟨hej, ?_⟩
        subst hej
        rw [hdrop, drop_of_prefix] at hk
        exact ih _ _ hk r' hl rfl

/-- corollary: the first wildcard value is at least as long as in any other decomposition -/
theorem matchRest_greedy (seg : Str) (more : List Str) (w : Str) (ws : List Str)
    (hl : ws.length = more.length) :
    ∃ w' ws', matchRest (seg :: more) (spellRest (seg :: more) (w :: ws)) = some (w' :: ws') ∧
      w.length ≤ w'.length := by
  have hc := matchRest_complete (seg :: more) (w :: ws) (by simp [hl])
  obtain ⟨r, hr⟩ := Option.isSome_iff_exists.mp hc
  have hlen := (matchRest_sound _ _ _ hr).1
  cases r with
  | nil => simp at hlen
  | cons w' ws' =>
    refine ⟨w', ws', hr, ?_⟩
    have := matchRest_greedy_all _ _ _ hr (w :: ws) (by simp [hl]) rfl
    simp only [lexLenLe] at this
    omega

end TaskModel.Resolve
