import TaskModel.Resolve.Glob
/-! Helper lemmas about the wildcard matcher (soundness, completeness, greediness). -/
namespace TaskModel.Resolve

theorem isPrefix_iff (a s : Str) : isPrefix a s = true ↔ ∃ t, s = a ++ t := by
  induction a generalizing s with
  | nil => simp [isPrefix]
  | cons x xs ih =>
    cases s with
    | nil => simp [isPrefix]
    | cons y ys =>
      simp only [isPrefix, Bool.and_eq_true, beq_iff_eq, ih, List.cons_append, List.cons.injEq]
      constructor
      · rintro ⟨rfl, t, rfl⟩; exact ⟨t, rfl, rfl⟩
      · rintro ⟨t, rfl, rfl⟩; exact ⟨rfl, t, rfl⟩

theorem drop_of_prefix (a t : Str) : (a ++ t).drop a.length = t := by simp

/-- what `rest`-level strings spell: `w₁ seg₁ w₂ seg₂ …` -/
def spellRest : List Str → List Str → Str
  | seg :: more, w :: ws => w ++ seg ++ spellRest more ws
  | _, _ => []

def NoNl (w : Str) : Prop := '\n' ∉ w

theorem nlFree_le_length (s : Str) : nlFree s ≤ s.length := by
  induction s with
  | nil => simp [nlFree]
  | cons c cs ih => simp only [nlFree]; split <;> simp <;> omega

theorem take_noNl_of_le (s : Str) (j : Nat) (h : j ≤ nlFree s) : NoNl (s.take j) := by
  induction s generalizing j with
  | nil => simp [NoNl]
  | cons c cs ih =>
    cases j with
    | zero => simp [NoNl]
    | succ j =>
      simp only [nlFree] at h
      split at h
      · omega
      · rename_i hc
        have := ih j (by omega)
        simp only [NoNl, List.take_succ_cons, List.mem_cons, not_or] at *
        exact ⟨fun e => hc e.symm, this⟩

theorem le_nlFree_of_noNl (w t : Str) (h : NoNl w) : w.length ≤ nlFree (w ++ t) := by
  induction w with
  | nil => simp
  | cons c cs ih =>
    simp only [NoNl, List.mem_cons, not_or] at h
    have hc : c ≠ '\n' := fun e => h.1 e.symm
    simp only [List.cons_append, nlFree, hc, if_false, List.length_cons]
    have := ih h.2
    omega

/-- soundness of the inner search -/
theorem tryK_sound (seg : Str) (k : Str → Option (List Str)) (s : Str) (n : Nat) (r : List Str)
    (h : tryK seg k s n = some r) :
    ∃ j, j ≤ n ∧ ∃ ws, r = s.take j :: ws ∧ isPrefix seg (s.drop j) = true ∧
      k ((s.drop j).drop seg.length) = some ws := by
  induction n with
  | zero =>
    simp only [tryK] at h
    split at h
    · rename_i hp
      split at h
      · rename_i ws hk
        refine ⟨0, Nat.le_refl _, ws, ?_, by simpa using hp, by simpa using hk⟩
        simpa using (Option.some.inj h).symm
      · cases h
    · cases h
  | succ n ih =>
    simp only [tryK] at h
    split at h
    · rename_i hp
      split at h
      · rename_i ws hk
        exact ⟨n+1, Nat.le_refl _, ws, (Option.some.inj h).symm, hp, hk⟩
      · obtain ⟨j, hj, rest⟩ := ih h
        exact ⟨j, by omega, rest⟩
    · obtain ⟨j, hj, rest⟩ := ih h
      exact ⟨j, by omega, rest⟩

/-- completeness + greediness of the inner search: if some `j ≤ n` works, the search
succeeds with a first group at least as long as `j`. -/
theorem tryK_complete (seg : Str) (k : Str → Option (List Str)) (s : Str) (n j : Nat)
    (hj : j ≤ n) (hp : isPrefix seg (s.drop j) = true)
    (hk : (k ((s.drop j).drop seg.length)).isSome = true) :
    ∃ j', j ≤ j' ∧ j' ≤ n ∧ ∃ ws, tryK seg k s n = some (s.take j' :: ws) ∧
      isPrefix seg (s.drop j') = true ∧ k ((s.drop j').drop seg.length) = some ws := by
  induction n with
  | zero =>
    have : j = 0 := by omega
    subst this
    obtain ⟨ws, hws⟩ := Option.isSome_iff_exists.mp hk
    refine ⟨0, Nat.le_refl _, Nat.le_refl _, ws, ?_, hp, hws⟩
    simp only [List.drop_zero] at hp hws
    simp [tryK, hp, hws]
  | succ n ih =>
    by_cases hp' : isPrefix seg (s.drop (n+1)) = true
    · cases hk' : k ((s.drop (n+1)).drop seg.length) with
      | some ws =>
        refine ⟨n+1, hj, Nat.le_refl _, ws, ?_, hp', hk'⟩
        simp only [tryK, hp', hk', if_true]
      | none =>
        have hjn : j ≤ n := by
          rcases Nat.lt_or_ge n j with hlt | hge
          · have : j = n + 1 := by omega
            subst this; rw [hk'] at hk; cases hk
          · exact hge
        obtain ⟨j', h1, h2, ws, h3, h4⟩ := ih hjn
        refine ⟨j', h1, by omega, ws, ?_, h4⟩
        simp only [tryK, hp', hk', h3, if_true]
    · have hjn : j ≤ n := by
        rcases Nat.lt_or_ge n j with hlt | hge
        · have : j = n + 1 := by omega
          subst this; exact absurd hp hp'
        · exact hge
      obtain ⟨j', h1, h2, ws, h3, h4⟩ := ih hjn
      refine ⟨j', h1, by omega, ws, ?_, h4⟩
      simp only [tryK, hp', h3]; simp

theorem matchRest_sound (segs : List Str) (s : Str) (ws : List Str)
    (h : matchRest segs s = some ws) :
    ws.length = segs.length ∧ s = spellRest segs ws ∧ ∀ w ∈ ws, NoNl w := by
  induction segs generalizing s ws with
  | nil =>
    simp only [matchRest] at h
    split at h
    · cases h; subst_vars; simp [spellRest]
    · cases h
  | cons seg more ih =>
    simp only [matchRest] at h
    obtain ⟨j, hj, ws', rfl, hp, hk⟩ := tryK_sound _ _ _ _ _ h
    obtain ⟨hl, hs, hn⟩ := ih _ _ hk
    obtain ⟨t, ht⟩ := (isPrefix_iff _ _).mp hp
    refine ⟨by simp [hl], ?_, ?_⟩
    · simp only [spellRest]
      rw [ht, drop_of_prefix] at hs
      rw [← hs, List.append_assoc, ← ht, List.take_append_drop]
    · intro w hw
      simp only [List.mem_cons] at hw
      rcases hw with rfl | hw
      · exact take_noNl_of_le _ _ hj
      · exact hn w hw

theorem matchRest_complete (segs ws : List Str) (hl : ws.length = segs.length)
    (hn : ∀ w ∈ ws, NoNl w) : (matchRest segs (spellRest segs ws)).isSome = true := by
  induction segs generalizing ws with
  | nil => cases ws <;> simp_all [matchRest, spellRest]
  | cons seg more ih =>
    cases ws with
    | nil => simp at hl
    | cons w ws =>
      simp only [List.length_cons, Nat.add_right_cancel_iff] at hl
      have hrec := ih ws hl (fun x hx => hn x (List.mem_cons_of_mem _ hx))
      simp only [matchRest, spellRest]
      have hdrop : (w ++ seg ++ spellRest more ws).drop w.length = seg ++ spellRest more ws := by
        simp [List.append_assoc]
      have hp : isPrefix seg ((w ++ seg ++ spellRest more ws).drop w.length) = true := by
        rw [hdrop]; exact (isPrefix_iff _ _).mpr ⟨_, rfl⟩
      have hk : (matchRest more (((w ++ seg ++ spellRest more ws).drop w.length).drop seg.length)).isSome = true := by
        rw [hdrop, drop_of_prefix]; exact hrec
      have hj : w.length ≤ nlFree (w ++ seg ++ spellRest more ws) := by
        rw [List.append_assoc]; exact le_nlFree_of_noNl _ _ (hn w (List.mem_cons_self))
      obtain ⟨j', _, _, ws', h3, _⟩ := tryK_complete seg (matchRest more) _ _ _ hj hp hk
      rw [h3]; rfl

/-- greediness: the first wildcard value is at least as long as in any other decomposition -/
theorem matchRest_greedy (seg : Str) (more : List Str) (w : Str) (ws : List Str)
    (hl : ws.length = more.length) (hn : ∀ x ∈ (w :: ws), NoNl x) :
    ∃ w' ws', matchRest (seg :: more) (spellRest (seg :: more) (w :: ws)) = some (w' :: ws') ∧
      w.length ≤ w'.length := by
  have hrec := matchRest_complete more ws hl (fun x hx => hn x (List.mem_cons_of_mem _ hx))
  simp only [matchRest, spellRest]
  have hdrop : (w ++ seg ++ spellRest more ws).drop w.length = seg ++ spellRest more ws := by
    simp [List.append_assoc]
  have hp : isPrefix seg ((w ++ seg ++ spellRest more ws).drop w.length) = true := by
    rw [hdrop]; exact (isPrefix_iff _ _).mpr ⟨_, rfl⟩
  have hk : (matchRest more (((w ++ seg ++ spellRest more ws).drop w.length).drop seg.length)).isSome = true := by
    rw [hdrop, drop_of_prefix]; exact hrec
  have hj : w.length ≤ nlFree (w ++ seg ++ spellRest more ws) := by
    rw [List.append_assoc]; exact le_nlFree_of_noNl _ _ (hn w (List.mem_cons_self))
  obtain ⟨j', h1, h2, ws', h3, _⟩ := tryK_complete seg (matchRest more) _ _ _ hj hp hk
  refine ⟨_, ws', h3, ?_⟩
  have := nlFree_le_length (w ++ seg ++ spellRest more ws)
  simp only [List.length_take]
  omega

end TaskModel.Resolve
