import TaskModel.Resolve.Glob
/-!
Resolve.Table — `Executor.FindMatchingTasks` / `Executor.GetTask` (task.go):
exact name, else the first task in table order whose pattern matches, else the unique
task carrying the name as an alias; two or more aliases ⇒ conflict (203), none ⇒ not
found (200).
-/
namespace TaskModel.Resolve

structure Entry where
  name : Str
  aliases : List Str
deriving Repr, DecidableEq

inductive Resolution
  | found (idx : Nat) (ws : List Str)     -- task index in table order, `.MATCH`
  | conflict (idxs : List Nat)            -- error 203
  | notFound                              -- error 200
deriving Repr, DecidableEq

/-- index of the first entry named exactly `req` (`Tasks.Get`) -/
def findExact (req : Str) : List Entry → Nat → Option Nat
  | [], _ => none
  | e :: es, i => if e.name = req then some i else findExact req es (i+1)

/-- first entry, in table order, whose pattern matches (`matchingTasks[0]`) -/
def findWild (req : Str) : List Entry → Nat → Option (Nat × List Str)
  | [], _ => none
  | e :: es, i =>
    match wildcardMatch e.name req with
    | some ws => some (i, ws)
    | none => findWild req es (i+1)

/-- indices of all entries having `req` among their aliases -/
def findAliases (req : Str) : List Entry → Nat → List Nat
  | [], _ => []
  | e :: es, i => if req ∈ e.aliases then i :: findAliases req es (i+1) else findAliases req es (i+1)

def resolve (tbl : List Entry) (req : Str) : Resolution :=
  match findExact req tbl 0 with
  | some i => .found i []
  | none =>
    match findWild req tbl 0 with
    | some (i, ws) => .found i ws
    | none =>
      match findAliases req tbl 0 with
      | [] => .notFound
      | [i] => .found i []     -- GetTask does not set MATCH on the alias path
      | is => .conflict is

/-- exit code class of a resolution failure (errors/errors.go) -/
def Resolution.code : Resolution → Nat
  | .found _ _ => 0
  | .conflict _ => 203
  | .notFound => 200

/-- outcome of the existence check of `Executor.Run` -/
inductive RunOutcome
  | refused (code : Nat)      -- nothing ran
  | ran (idxs : List Nat)     -- these tasks, in this order
deriving Repr, DecidableEq

/-- the existence check at the head of `Executor.Run`: every requested name is resolved, in
order, BEFORE anything runs; the first name that does not resolve decides the error (its
code), and then nothing is run at all; otherwise the tasks run in request order. -/
def runCheck (tbl : List Entry) : List Str → RunOutcome
  | [] => .ran []
  | r :: rs =>
    match resolve tbl r with
    | .found i _ =>
      match runCheck tbl rs with
      | .ran is => .ran (i :: is)
      | .refused c => .refused c
    | res => .refused res.code

end TaskModel.Resolve
