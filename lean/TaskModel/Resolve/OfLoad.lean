import TaskModel.Resolve.Table
import TaskModel.Load.Taskfile
/-!
Resolve.OfLoad — the resolution table of a loaded Taskfile: one entry per task of the merged
table, in table order (the order `Tasks.All(nil)` / `Values(nil)` enumerate), names and
aliases as character strings.
-/
namespace TaskModel.Resolve

def toStr (n : TaskModel.Load.Name) : Str := n.map Char.ofNat

def ofLoad (tf : TaskModel.Load.Taskfile) : List Entry :=
  tf.tasks.map (fun t => { name := toStr t.name, aliases := t.aliases.map toStr })

theorem ofLoad_names (tf : TaskModel.Load.Taskfile) : (ofLoad tf).map (·.name) = tf.tasks.names.map toStr := by
  simp [ofLoad, TaskModel.Load.Table.names, List.map_map, Function.comp_def]

end TaskModel.Resolve
