import TaskModel.Resolve.EditDist
/-!
Resolve.Suggest — the oracle for "did you mean" (`TaskNotFoundError.DidYouMean`).

NOT a model of the ranking of `sajari/fuzzy`.  It decides, from the trained words (every task
name and every alias of the merged table) and the requested name, what the property demands
of the suggestion ("the error suggests the closest existing task name when there is one"):

* `skip`      the request is more than two characters longer than every word: the lookup is
              skipped (fix 49049c0), no suggestion;
* `must w`    exactly one word is within edit distance 2 of the request, it has at least four
              characters: the suggestion must be that word (it is the closest one);
* `oneOf ws`  several words are within distance 2, one of them with at least four characters:
              there must be a suggestion and it must be one of them;
* `none`      no word is within distance 3: there must be no suggestion;
* `any`       otherwise (only short words nearby, or the nearest word at distance exactly 3:
              the library's delete-key index may or may not reach it) — nothing is demanded.

Distances are Levenshtein distances (`EditDist.lev`, proved equal to the least number of
elementary edits: `EditDist.lev_le_iff`).  The bound "four characters" is where the
library's index (delete keys of length > 1, dictionary hits of length > 2) is complete for
two edits; words use lower-case ASCII without `y`/`s` so that its `ies`/`ys` rule and its
lower-casing of the input do not apply (a statement about the generator, see harness).
-/
namespace TaskModel.Resolve.Suggest
open TaskModel.Resolve.EditDist

abbrev Name := List Nat

inductive Expect
  | skip
  | must (w : Name)
  | oneOf (ws : List Name)
  | none
  | any
deriving Repr, DecidableEq

/-- the words without repetitions (the last occurrence of each is kept) -/
def dedup : List Name → List Name
  | [] => []
  | a :: r => if r.contains a then dedup r else a :: dedup r

def maxLen : List Name → Nat
  | [] => 0
  | w :: r => max w.length (maxLen r)

/-- the words within distance 2 of the request -/
def near (words : List Name) (req : Name) : List Name := (dedup words).filter (fun w => withinK 2 req w)

def classify (words : List Name) (req : Name) : Expect :=
  if req.length > maxLen words + 2 then .skip
  else if (near words req).any (fun w => decide (4 ≤ w.length)) then
    match near words req with
    | [w] => .must w
    | ws => .oneOf ws
  else if words.all (fun w => !withinK 3 req w) then .none
  else .any

/-- does the suggestion given (`none` = the empty string) meet the expectation? -/
def meets : Expect → Option Name → Bool
  | .skip, d => d.isNone
  | .must w, d => d == some w
  | .oneOf ws, some d => ws.contains d
  | .oneOf _, Option.none => false
  | .none, d => d.isNone
  | .any, _ => true

/-! ### What the classes mean (in terms of the inductive edit relation) -/

theorem mem_dedup (a : Name) : ∀ (l : List Name), a ∈ dedup l ↔ a ∈ l
  | [] => by simp [dedup]
  | b :: r => by
    simp only [dedup]
    split
    · rename_i h
      rw [mem_dedup a r]
      simp only [List.contains_eq_mem, decide_eq_true_eq] at h
      constructor
      · exact List.mem_cons_of_mem _
      · intro h'; rcases List.mem_cons.mp h' with rfl | h'
        · exact h
        · exact h'
    · simp only [List.mem_cons, mem_dedup a r]

theorem mem_near (words : List Name) (req w : Name) : w ∈ near words req ↔ w ∈ words ∧ EditLe 2 req w := by
  simp only [near, List.mem_filter, mem_dedup, withinK_iff]

theorem le_maxLen (words : List Name) (w : Name) (h : w ∈ words) : w.length ≤ maxLen words := by
  induction words with
  | nil => cases h
  | cons a r ih =>
    simp only [maxLen]
    rcases List.mem_cons.mp h with rfl | h
    · omega
    · have := ih h; omega

/-- `skip`: the request is more than two characters longer than every word -/
theorem classify_skip (words : List Name) (req : Name) (h : classify words req = .skip) :
    ∀ w ∈ words, w.length + 2 < req.length := by
  intro w hw
  have := le_maxLen words w hw
  simp only [classify] at h
  split at h
  · omega
  · split at h
    · split at h <;> cases h
    · split at h <;> cases h

/-- `must w`: `w` is a trained word within two edits of the request and the ONLY such word —
so it is the closest existing name -/
theorem classify_must (words : List Name) (req w : Name) (h : classify words req = .must w) :
    w ∈ words ∧ EditLe 2 req w ∧ ∀ w' ∈ words, EditLe 2 req w' → w' = w := by
  simp only [classify] at h
  split at h
  · cases h
  · split at h
    · split at h
      · rename_i w0 hn
        cases h
        have hw : w ∈ near words req := by rw [hn]; exact List.mem_singleton.mpr rfl
        refine ⟨((mem_near _ _ _).mp hw).1, ((mem_near _ _ _).mp hw).2, ?_⟩
        intro w' hw' hd
        have : w' ∈ near words req := (mem_near _ _ _).mpr ⟨hw', hd⟩
        rw [hn] at this
        exact List.mem_singleton.mp this
      · cases h
    · split at h <;> cases h

/-- `oneOf ws`: `ws` is exactly the set of trained words within two edits, and it is not empty -/
theorem classify_oneOf (words : List Name) (req : Name) (ws : List Name) (h : classify words req = .oneOf ws) :
    ws ≠ [] ∧ ∀ w, w ∈ ws ↔ (w ∈ words ∧ EditLe 2 req w) := by
  simp only [classify] at h
  split at h
  · cases h
  · split at h
    · rename_i hany
      split at h
      · cases h
      · cases h
        refine ⟨?_, fun w => mem_near _ _ _⟩
        intro he
        rw [he] at hany
        simp at hany
    · split at h <;> cases h

/-- `none`: no trained word is within three edits of the request -/
theorem classify_none (words : List Name) (req : Name) (h : classify words req = .none) :
    ∀ w ∈ words, ¬ EditLe 3 req w := by
  simp only [classify] at h
  split at h
  · cases h
  · split at h
    · split at h <;> cases h
    · split at h
      · rename_i hall
        intro w hw hd
        have := List.all_eq_true.mp hall w hw
        rw [(withinK_iff 3 req w).mpr hd] at this
        simp at this
      · cases h

/-! ### Non-vacuity -/

-- words: build, test, lint-all, ab
private def ws : List Name := [[98,117,105,108,100], [116,101,115,116], [108,105,110,116,45,97,108,108], [97,98]]

example : classify ws [98,117,108,100] = .must [98,117,105,108,100] := by decide              -- "buld"
example : classify ws [98,105,117,108,100] = .must [98,117,105,108,100] := by decide          -- "biuld" (transposition = 2 edits)
example : classify ws [116,101,120,116] = .must [116,101,115,116] := by decide                -- "text"
example : classify ws [113,113,113,113,113,113] = .none := by decide                          -- "qqqqqq"
example : classify ws [113,113,113,113,113,113,113,113,113,113,113] = .skip := by decide      -- 11 > 8 + 2
example : classify ws [97,99] = .any := by decide                                             -- "ac": only the short "ab" is near
example : classify ([116,101,115,115] :: ws) [116,101,115] = .oneOf [[116,101,115,115], [116,101,115,116]] := by decide
example : meets (.must [1]) (some [1]) = true ∧ meets (.must [1]) Option.none = false ∧ meets .none (some [1]) = false := by decide

end TaskModel.Resolve.Suggest
