import TaskModel.Output.AcceptLemmas
/-! Completeness of the group multi-producer acceptor of `Output.Accept`: together with `acceptsGW_sound` it accepts
EXACTLY what the writer emits for some interleaving of the producers' chunk sequences, so a `reject` of the driver is
a disagreement with every schedule, not an artefact of the search.  (For `acceptsPW` only soundness is proved: its
pruning `bufferFits` holds on every real run, but that is argued in its comment, not proved.) -/
namespace TaskModel.Output

theorem not_all_empty_mid {α : Type} (pre : List (List α)) (x : α) (t : List α) (post : List (List α)) :
    (pre ++ [x :: t] ++ post).all List.isEmpty = false := by
  simp [List.all_append]

theorem shuffle_chunkCount (prods : List (List Bytes)) (s : List Bytes) (h : Shuffle prods s) :
    s.length = chunkCount prods := by
  unfold chunkCount
  induction h with
  | done seqs hs =>
    induction seqs with
    | nil => rfl
    | cons t ts ih =>
      have := hs t (by simp)
      subst this
      simpa using ih (fun u hu => hs u (by simp [hu]))
  | step pre x t post out _ ih =>
    simp only [List.length_cons, ih, List.map_append, List.sum_append, List.map_cons, List.map_nil,
      List.sum_cons, List.sum_nil]
    omega

theorem shuffle_mem_rev {α : Type} (seqs : List (List α)) (out : List α) (h : Shuffle seqs out) :
    ∀ t ∈ seqs, ∀ c ∈ t, c ∈ out := by
  induction h with
  | done seqs hs => intro t ht c hc; rw [hs t ht] at hc; cases hc
  | step pre x s post out _ ih =>
    intro t ht c hc
    simp only [List.mem_append, List.mem_singleton] at ht
    rcases ht with (ht | rfl) | ht
    · exact List.mem_cons_of_mem _ (ih t (by simp [ht]) c hc)
    · simp only [List.mem_cons] at hc
      rcases hc with rfl | hc
      · simp
      · exact List.mem_cons_of_mem _ (ih s (by simp) c hc)
    · exact List.mem_cons_of_mem _ (ih t (by simp [ht]) c hc)

theorem interleavesBytes_complete (prods : List (List Bytes)) (s : List Bytes) (h : Shuffle prods s) :
    ∀ (n : Nat), s.length < n → interleavesBytes n prods s.flatten = true := by
  induction h with
  | done seqs hs =>
    intro n hn
    cases n with
    | zero => omega
    | succ n =>
      unfold interleavesBytes
      rw [if_pos ((all_empty_iff seqs).mpr hs)]
      simp
  | step pr x t post out _ ih =>
    intro n hn
    cases n with
    | zero => omega
    | succ n =>
      unfold interleavesBytes
      rw [if_neg (by rw [not_all_empty_mid]; simp)]
      simp only [List.any_eq_true, Bool.and_eq_true]
      refine ⟨(x, pr ++ [t] ++ post), picks_complete pr x t post, ?_, ?_⟩
      · simp only [List.flatten_cons]
        exact List.isPrefixOf_iff_prefix.mpr (List.prefix_append _ _)
      · simp only [List.flatten_cons, List.drop_left']
        exact ih n (by simp at hn; omega)

theorem acceptsGW_complete (g : GW) (prods : List (List Bytes)) (failed : Bool) (s : List Bytes) (h : Shuffle prods s) :
    acceptsGW g prods failed (g.run s failed) = true := by
  rw [GW.run_eq]
  by_cases hq : (g.errorOnly && !failed) = true
  · simp [hq, acceptsGW]
  · by_cases hz : g.buff ++ s.flatten = []
    · simp only [hz, decide_true, Bool.or_true, if_true, acceptsGW, Bool.or_eq_true, Bool.and_eq_true, decide_eq_true_eq]
      right
      have hb : g.buff = [] := (List.append_eq_nil_iff.mp hz).1
      have hf : s.flatten = [] := (List.append_eq_nil_iff.mp hz).2
      refine ⟨hb, ?_⟩
      rw [List.all_eq_true]
      intro t ht
      rw [List.all_eq_true]
      intro c hc
      have := shuffle_mem_rev prods s h t ht c hc
      have := (List.flatten_eq_nil_iff.mp hf) c this
      simp [this]
    · have hq' : (g.errorOnly && !failed) = false := by simpa using hq
      simp only [hq', hz, decide_false, Bool.false_or, Bool.false_eq_true, if_false, acceptsGW, Bool.not_false, Bool.true_and,
        Bool.and_eq_true, bne_iff_ne, ne_eq]
      have hlen : s.length = chunkCount prods := shuffle_chunkCount prods s h
      refine ⟨List.isPrefixOf_iff_prefix.mpr ⟨(g.buff ++ s.flatten) ++ g.end_, by simp [List.append_assoc]⟩, ?_, ?_⟩
      · refine List.isSuffixOf_iff_suffix.mpr ⟨g.buff ++ s.flatten, ?_⟩
        simp [List.append_assoc]
      · have e : List.take ((List.drop g.begin_.length (g.begin_ ++ (g.buff ++ s.flatten) ++ g.end_)).length - g.end_.length)
            (List.drop g.begin_.length (g.begin_ ++ (g.buff ++ s.flatten) ++ g.end_)) = g.buff ++ s.flatten := by
          have hd : List.drop g.begin_.length (g.begin_ ++ (g.buff ++ s.flatten) ++ g.end_) = (g.buff ++ s.flatten) ++ g.end_ := by
            simp [List.append_assoc]
          rw [hd]
          have hl : ((g.buff ++ s.flatten) ++ g.end_).length - g.end_.length = (g.buff ++ s.flatten).length := by
            rw [List.length_append]; omega
          rw [hl]
          exact List.take_left' rfl
        rw [e]
        refine ⟨⟨hz, List.isPrefixOf_iff_prefix.mpr (List.prefix_append _ _)⟩, ?_⟩
        simp only [List.drop_left']
        exact interleavesBytes_complete prods s h _ (by omega)

end TaskModel.Output

