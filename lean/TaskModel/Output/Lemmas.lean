import TaskModel.Output.Model
/-! Helper lemmas about `takeLines`. -/
namespace TaskModel.Output

/-- scanning a newline-free prefix only accumulates it -/
theorem takeLines_prefix (r y cur : Bytes) (h : nl ∉ r) :
    takeLines (r ++ y) cur = takeLines y (r.reverse ++ cur) := by
  induction r generalizing cur with
  | nil => rfl
  | cons b bs ih =>
    simp only [List.mem_cons, not_or] at h
    have hb : b ≠ nl := fun e => h.1 e.symm
    simp only [List.cons_append, takeLines, hb, if_false]
    rw [ih (b :: cur) h.2]
    simp

/-- the remainder never contains a newline; lines and remainder spell the input -/
theorem takeLines_spec (bs cur : Bytes) (hc : nl ∉ cur) :
    nl ∉ (takeLines bs cur).2 ∧ (takeLines bs cur).1.flatten ++ (takeLines bs cur).2 = cur.reverse ++ bs ∧
    ∀ l ∈ (takeLines bs cur).1, ∃ body, l = body ++ [nl] ∧ nl ∉ body := by
  induction bs generalizing cur with
  | nil => simp [takeLines, hc]
  | cons b bs ih =>
    simp only [takeLines]
    split
    · rename_i hb
      subst hb
      obtain ⟨h1, h2, h3⟩ := ih [] (by simp)
      refine ⟨h1, ?_, ?_⟩
      · simp only [List.flatten_cons, List.reverse_cons, List.append_assoc]
        simp only [List.reverse_nil, List.nil_append] at h2
        rw [h2]; simp
      · intro l hl
        simp only [List.mem_cons] at hl
        rcases hl with rfl | hl
        · exact ⟨cur.reverse, by simp, by simpa using hc⟩
        · exact h3 l hl
    · rename_i hb
      obtain ⟨h1, h2, h3⟩ := ih (b :: cur) (by
        simp only [List.mem_cons, not_or]; exact ⟨fun e => hb e.symm, hc⟩)
      exact ⟨h1, by rw [h2]; simp, h3⟩

/-- scanning `x ++ y` = scanning `x`, then scanning the remainder followed by `y` -/
theorem takeLines_append (x y cur : Bytes) (hc : nl ∉ cur) :
    takeLines (x ++ y) cur =
      ((takeLines x cur).1 ++ (takeLines ((takeLines x cur).2 ++ y) []).1,
       (takeLines ((takeLines x cur).2 ++ y) []).2) := by
  induction x generalizing cur with
  | nil =>
    simp only [List.nil_append, takeLines]
    rw [takeLines_prefix cur.reverse y [] (by simpa using hc)]
    simp
  | cons b bs ih =>
    simp only [List.cons_append, takeLines]
    split
    · rw [ih [] (by simp)]; simp
    · rename_i hb
      rw [ih (b :: cur) (by simp only [List.mem_cons, not_or]; exact ⟨fun e => hb e.symm, hc⟩)]

/-! ### group -/

theorem foldl_write_buff (g : GW) (chunks : List Bytes) :
    (chunks.foldl GW.write g).buff = g.buff ++ chunks.flatten ∧
    (chunks.foldl GW.write g).begin_ = g.begin_ ∧ (chunks.foldl GW.write g).end_ = g.end_ ∧
    (chunks.foldl GW.write g).errorOnly = g.errorOnly := by
  induction chunks generalizing g with
  | nil => simp
  | cons p ps ih =>
    simp only [List.foldl_cons, List.flatten_cons]
    obtain ⟨a, b, c, d⟩ := ih (g.write p)
    exact ⟨by rw [a]; simp [GW.write], by rw [b]; rfl, by rw [c]; rfl, by rw [d]; rfl⟩

/-- what a group writer emits, in closed form, for any chunking -/
theorem GW.run_eq (g : GW) (chunks : List Bytes) (failed : Bool) :
    g.run chunks failed =
      if (g.errorOnly && !failed) || (g.buff ++ chunks.flatten = []) then []
      else [g.begin_ ++ (g.buff ++ chunks.flatten) ++ g.end_] := by
  obtain ⟨h1, h2, h3, h4⟩ := foldl_write_buff g chunks
  simp only [GW.run, GW.close, h1, h2, h3, h4]
  by_cases hq : (g.errorOnly && !failed) = true
  · simp [hq]
  · simp only [hq, Bool.false_eq_true, if_false, Bool.false_or]
    by_cases hz : g.buff ++ chunks.flatten = []
    · simp [hz]
    · simp [hz]

end TaskModel.Output
