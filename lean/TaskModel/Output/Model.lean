/-
Output.Model — the `prefixed` and `group` output writers (internal/output/prefixed.go,
group.go) as state machines over byte chunks, and the shared sink as an interleaving of
atomic blocks.

`prefixWriter`: every `Write(p)` appends `p` to a buffer and then emits every complete
line (`…\n`) of the buffer; the remainder stays buffered.  `close` emits the remainder,
newline-terminated, if it is not empty.  A line is emitted as ONE sink write
`"[" ++ prefix ++ "] " ++ line` (assembled first; before fix O8-2 it was four writes under a
mutex that only prefixed writers take, so a raw writer could land in between).
`groupWriter`: every `Write` only buffers; `close(err)` emits — if the buffer is not
empty and (not `error_only` or the command failed) — ONE sink write `begin ++ buffer ++ end`.

Atomicity: `Write` and `close` of one writer object hold that object's mutex (fix O8-1; fact
`Gen.Output.*LockSkeleton`), so each is ONE step of the machine below even when a command has
several producers (stdout and stderr of a pipeline's stages, background jobs: mvdan/sh and
os/exec copy from separate goroutines).  The producers' chunk sequences reach the writer in
SOME interleaving (`Shuffle producers stream`); the writer then behaves as `run stream`.
-/
namespace TaskModel.Output

abbrev Bytes := List UInt8
def nl : UInt8 := 10

/-- split off the complete lines of a buffer: `(lines, remainder)`; each line ends with `\n` -/
def takeLines : Bytes → Bytes → List Bytes × Bytes
  | [], cur => ([], cur.reverse)
  | b :: bs, cur =>
    if b = nl then
      let (ls, r) := takeLines bs []
      ((b :: cur).reverse :: ls, r)
    else takeLines bs (b :: cur)

structure PW where
  prefix_ : Bytes
  buff : Bytes := []
deriving Repr, DecidableEq

/-- `prefixWriter.Write`: returns the new state and the lines emitted -/
def PW.write (w : PW) (p : Bytes) : PW × List Bytes :=
  let (ls, r) := takeLines (w.buff ++ p) []
  ({ w with buff := r }, ls)

/-- `prefixWriter.close` -/
def PW.close (w : PW) : List Bytes :=
  if w.buff = [] then [] else [w.buff ++ [nl]]

/-- all lines a writer emits for a sequence of chunks followed by close -/
def PW.run (w : PW) : List Bytes → List Bytes
  | [] => w.close
  | p :: ps => let (w', ls) := w.write p; ls ++ PW.run w' ps

/-- the ONE write to the sink for one line: `[prefix] line` -/
def lineBlock (pre line : Bytes) : Bytes := [91] ++ pre ++ [93, 32] ++ line

/-- specification: the lines of a byte string, the last one newline-terminated if partial -/
def linesOf (bs : Bytes) : List Bytes :=
  let (ls, r) := takeLines bs []
  if r = [] then ls else ls ++ [r ++ [nl]]

/-! ### group -/

structure GW where
  begin_ : Bytes := []
  end_ : Bytes := []
  errorOnly : Bool := false
  buff : Bytes := []
deriving Repr, DecidableEq

def GW.write (g : GW) (p : Bytes) : GW := { g with buff := g.buff ++ p }

/-- `close(err)`: the list of sink writes (at most one) -/
def GW.close (g : GW) (failed : Bool) : List Bytes :=
  if g.errorOnly && !failed then []
  else if g.buff = [] then []
  else [g.begin_ ++ g.buff ++ g.end_]

def GW.run (g : GW) (chunks : List Bytes) (failed : Bool) : List Bytes :=
  (chunks.foldl GW.write g).close failed

/-! ### the sink: interleaving of the writers' block sequences -/

/-- `Shuffle seqs out`: `out` is an interleaving of the sequences `seqs` (each element of a
sequence is one atomic sink block, tagged with its writer) preserving each sequence's order -/
inductive Shuffle {α : Type} : List (List α) → List α → Prop
  | done (seqs : List (List α)) (h : ∀ s ∈ seqs, s = []) : Shuffle seqs []
  | step (pre : List (List α)) (x : α) (s : List α) (post : List (List α)) (out : List α)
      (h : Shuffle (pre ++ [s] ++ post) out) : Shuffle (pre ++ [x :: s] ++ post) (x :: out)

/-! ### a writer of any kind and the sink writes it prescribes -/

/-- `p`: prefixed, `g`: group, `r`: raw (a task with `interactive: true`, or Task's own log lines: every
non-empty chunk goes to the sink as it is) -/
inductive Writer where
  | p (pre : Bytes) (chunks : List Bytes)
  | g (begin_ end_ : Bytes) (errorOnly failed : Bool) (chunks : List Bytes)
  | r (chunks : List Bytes)
deriving Repr, DecidableEq

/-- the sequence of sink writes of one writer (each write atomic on the sink) -/
def Writer.blocks : Writer → List Bytes
  | .p pre chunks => (({ prefix_ := pre } : PW).run chunks).map (lineBlock pre)
  | .g b e eo failed chunks => ({ begin_ := b, end_ := e, errorOnly := eo } : GW).run chunks failed
  | .r chunks => chunks.filter (· ≠ [])

/-- writer `k + j` of the list tags its writes with its index -/
def tagFrom : Nat → List (List Bytes) → List (List (Nat × Bytes))
  | _, [] => []
  | k, s :: rest => s.map (fun b => (k, b)) :: tagFrom (k + 1) rest

end TaskModel.Output
