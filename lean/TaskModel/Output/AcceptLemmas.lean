import TaskModel.Output.Accept
import TaskModel.Output.Lemmas
/-! Soundness (and, for `interleaves`, exactness) of the acceptors of `Output.Accept` with respect to `Shuffle`. -/
namespace TaskModel.Output

theorem picks_spec {α : Type} (seqs : List (List α)) (x : α) (r : List (List α)) (h : (x, r) ∈ picks seqs) :
    ∃ pre s post, seqs = pre ++ [x :: s] ++ post ∧ r = pre ++ [s] ++ post := by
  induction seqs generalizing r with
  | nil => simp [picks] at h
  | cons t rest ih =>
    cases t with
    | nil =>
      simp only [picks, List.mem_map] at h
      obtain ⟨p, hp, he⟩ := h
      cases p with
      | mk y r' =>
        simp only [Prod.mk.injEq] at he
        obtain ⟨rfl, rfl⟩ := he
        obtain ⟨pre, s, post, h1, h2⟩ := ih r' hp
        exact ⟨[] :: pre, s, post, by simp [h1], by simp [h2]⟩
    | cons y ys =>
      simp only [picks, List.mem_cons, List.mem_map] at h
      rcases h with h | ⟨p, hp, he⟩
      · simp only [Prod.mk.injEq] at h
        obtain ⟨rfl, rfl⟩ := h
        exact ⟨[], ys, rest, by simp, by simp⟩
      · cases p with
        | mk z r' =>
          simp only [Prod.mk.injEq] at he
          obtain ⟨rfl, rfl⟩ := he
          obtain ⟨pre, s, post, h1, h2⟩ := ih r' hp
          exact ⟨(y :: ys) :: pre, s, post, by simp [h1], by simp [h2]⟩

theorem picks_complete {α : Type} (pre : List (List α)) (x : α) (s : List α) (post : List (List α)) :
    (x, pre ++ [s] ++ post) ∈ picks (pre ++ [x :: s] ++ post) := by
  induction pre with
  | nil => simp [picks]
  | cons t pre ih =>
    cases t with
    | nil =>
      simp only [List.cons_append, picks, List.mem_map]
      exact ⟨_, ih, rfl⟩
    | cons y ys =>
      simp only [List.cons_append, picks, List.mem_cons, List.mem_map]
      exact .inr ⟨_, ih, rfl⟩

theorem picks_nil_of_all_empty {α : Type} (seqs : List (List α)) (h : seqs.all List.isEmpty = true) : picks seqs = [] := by
  induction seqs with
  | nil => rfl
  | cons t rest ih =>
    simp only [List.all_cons, Bool.and_eq_true] at h
    cases t with
    | nil => simp [picks, ih h.2]
    | cons y ys => simp at h

theorem all_empty_iff {α : Type} (seqs : List (List α)) : seqs.all List.isEmpty = true ↔ ∀ s ∈ seqs, s = [] := by
  simp [List.all_eq_true, List.isEmpty_iff]

theorem interleaves_sound {α : Type} [DecidableEq α] (seqs : List (List α)) (out : List α)
    (h : interleaves seqs out = true) : Shuffle seqs out := by
  induction out generalizing seqs with
  | nil => exact Shuffle.done seqs ((all_empty_iff seqs).mp (by simpa [interleaves] using h))
  | cons y out ih =>
    simp only [interleaves, List.any_eq_true, Bool.and_eq_true, beq_iff_eq] at h
    obtain ⟨⟨x, r⟩, hp, hx, hr⟩ := h
    simp only at hx hr
    subst hx
    obtain ⟨pre, s, post, rfl, rfl⟩ := picks_spec seqs x r hp
    exact Shuffle.step pre x s post out (ih _ hr)

theorem interleaves_complete {α : Type} [DecidableEq α] (seqs : List (List α)) (out : List α)
    (h : Shuffle seqs out) : interleaves seqs out = true := by
  induction h with
  | done seqs hs => simpa [interleaves] using (all_empty_iff seqs).mpr hs
  | step pre x s post out _ ih =>
    simp only [interleaves, List.any_eq_true, Bool.and_eq_true, beq_iff_eq]
    exact ⟨(x, pre ++ [s] ++ post), picks_complete pre x s post, rfl, ih⟩

/-- the acceptor is exact -/
theorem interleaves_iff {α : Type} [DecidableEq α] (seqs : List (List α)) (out : List α) :
    interleaves seqs out = true ↔ Shuffle seqs out :=
  ⟨interleaves_sound seqs out, interleaves_complete seqs out⟩

theorem picks_map {α β : Type} (f : α → β) (seqs : List (List α)) :
    picks (seqs.map (fun s => s.map f)) = (picks seqs).map (fun p => (f p.1, p.2.map (fun s => s.map f))) := by
  induction seqs with
  | nil => rfl
  | cons t rest ih =>
    cases t with
    | nil => simp [picks, ih, List.map_map, Function.comp_def]
    | cons y ys => simp [picks, ih, List.map_map, Function.comp_def]

/-- an interleaving of the images lifts to an interleaving of the tagged sequences -/
theorem shuffle_lift {α β : Type} [DecidableEq β] (f : α → β) (seqs : List (List α)) (out' : List β)
    (h : Shuffle (seqs.map (fun s => s.map f)) out') : ∃ out, Shuffle seqs out ∧ out.map f = out' := by
  induction out' generalizing seqs with
  | nil =>
    refine ⟨[], Shuffle.done seqs ?_, rfl⟩
    have h0 := interleaves_complete _ _ h
    simp only [interleaves] at h0
    have := (all_empty_iff _).mp h0
    intro s hs
    have h1 := this (s.map f) (List.mem_map.mpr ⟨s, hs, rfl⟩)
    simpa using h1
  | cons y out' ih =>
    have h1 := interleaves_complete _ _ h
    simp only [interleaves, picks_map, List.any_map, List.any_eq_true, Bool.and_eq_true, beq_iff_eq, Function.comp_def] at h1
    obtain ⟨⟨x, r⟩, hp, hx, hr⟩ := h1
    simp only at hx hr
    obtain ⟨out, ho, hm⟩ := ih r (interleaves_sound _ _ hr)
    obtain ⟨pre, s, post, rfl, rfl⟩ := picks_spec seqs x r hp
    exact ⟨x :: out, Shuffle.step pre x s post out ho, by simp [hx, hm]⟩

theorem shuffle_map {α β : Type} (f : α → β) (seqs : List (List α)) (out : List α) (h : Shuffle seqs out) :
    Shuffle (seqs.map (fun s => s.map f)) (out.map f) := by
  induction h with
  | done seqs hs =>
    apply Shuffle.done
    intro s hs'
    obtain ⟨t, ht, rfl⟩ := List.mem_map.mp hs'
    rw [hs t ht]; rfl
  | step pre x s post out _ ih =>
    simp only [List.map_append, List.map_cons, List.map_nil] at ih ⊢
    exact Shuffle.step _ (f x) _ _ _ ih

theorem tagFrom_untag (k : Nat) (seqs : List (List Bytes)) :
    (tagFrom k seqs).map (fun s => s.map Prod.snd) = seqs := by
  induction seqs generalizing k with
  | nil => rfl
  | cons s rest ih => simp [tagFrom, ih, List.map_map, Function.comp_def]

/-- **Soundness of the driver's acceptor**: what it accepts is an interleaving of the writers' (tagged) write
sequences, each write whole. -/
theorem accepts_sound (ws : List Writer) (sink : List Bytes) (h : accepts ws sink = true) :
    ∃ out, Shuffle (tagFrom 0 (ws.map Writer.blocks)) out ∧ out.map Prod.snd = sink := by
  apply shuffle_lift
  rw [tagFrom_untag]
  exact interleaves_sound _ _ h

/-- … and it rejects nothing that is one -/
theorem accepts_complete (ws : List Writer) (out : List (Nat × Bytes))
    (h : Shuffle (tagFrom 0 (ws.map Writer.blocks)) out) : accepts ws (out.map Prod.snd) = true := by
  have := shuffle_map Prod.snd _ _ h
  rw [tagFrom_untag] at this
  exact interleaves_complete _ _ this

theorem acceptsThreads_sound (ts : List (List Writer)) (sink : List Bytes) (h : acceptsThreads ts sink = true) :
    ∃ out, Shuffle (tagFrom 0 (ts.map threadBlocks)) out ∧ out.map Prod.snd = sink := by
  apply shuffle_lift
  rw [tagFrom_untag]
  exact interleaves_sound _ _ h

/-! ### several producers, one writer -/

theorem acceptsPW_sound (pre : Bytes) (fuel : Nat) (w : PW) (prods : List (List Bytes)) (sink : List Bytes)
    (h : acceptsPW pre fuel w prods sink = true) :
    ∃ s, Shuffle prods s ∧ sink = (w.run s).map (lineBlock pre) := by
  induction fuel generalizing w prods sink with
  | zero => simp [acceptsPW] at h
  | succ fuel ih =>
    unfold acceptsPW at h
    split at h
    · rename_i he
      refine ⟨[], Shuffle.done prods ((all_empty_iff prods).mp he), ?_⟩
      simp only [beq_iff_eq] at h
      rw [← h]; rfl
    · simp only [List.any_eq_true, Bool.and_eq_true] at h
      obtain ⟨⟨x, r⟩, hp, ⟨hpre, _⟩, hr⟩ := h
      simp only at hpre hr
      obtain ⟨s, hs, hd⟩ := ih _ _ _ hr
      obtain ⟨pr, t, post, rfl, rfl⟩ := picks_spec prods x r hp
      refine ⟨x :: s, Shuffle.step pr x t post s hs, ?_⟩
      have := List.prefix_iff_eq_append.mp (List.isPrefixOf_iff_prefix.mp hpre)
      rw [← this, hd]
      simp [PW.run]

theorem interleavesBytes_sound (fuel : Nat) (prods : List (List Bytes)) (stream : Bytes)
    (h : interleavesBytes fuel prods stream = true) : ∃ s, Shuffle prods s ∧ s.flatten = stream := by
  induction fuel generalizing prods stream with
  | zero => simp [interleavesBytes] at h
  | succ fuel ih =>
    unfold interleavesBytes at h
    split at h
    · rename_i he
      simp only [beq_iff_eq] at h
      exact ⟨[], Shuffle.done prods ((all_empty_iff prods).mp he), by rw [h]; rfl⟩
    · simp only [List.any_eq_true, Bool.and_eq_true] at h
      obtain ⟨⟨x, r⟩, hp, hpre, hr⟩ := h
      simp only at hpre hr
      obtain ⟨s, hs, hd⟩ := ih _ _ hr
      obtain ⟨pr, t, post, rfl, rfl⟩ := picks_spec prods x r hp
      refine ⟨x :: s, Shuffle.step pr x t post s hs, ?_⟩
      have := List.prefix_iff_eq_append.mp (List.isPrefixOf_iff_prefix.mp hpre)
      rw [← this, ← hd]
      simp

theorem shuffle_nil_cons {α : Type} (seqs : List (List α)) (out : List α) (h : Shuffle seqs out) :
    Shuffle ([] :: seqs) out := by
  induction h with
  | done seqs hs => exact Shuffle.done _ (by intro s hs'; simp only [List.mem_cons] at hs'; rcases hs' with rfl | h; rfl; exact hs s h)
  | step pre x s post out _ ih => exact Shuffle.step ([] :: pre) x s post out ih

/-- running the producers one after the other is one of the interleavings -/
theorem shuffle_concat {α : Type} (seqs : List (List α)) : Shuffle seqs seqs.flatten := by
  induction seqs with
  | nil => exact Shuffle.done [] (by simp)
  | cons t rest ih =>
    induction t with
    | nil => simpa using shuffle_nil_cons _ _ ih
    | cons x xs ih2 => exact Shuffle.step [] x xs rest _ ih2

theorem acceptsGW_sound (g : GW) (prods : List (List Bytes)) (failed : Bool) (sink : List Bytes)
    (h : acceptsGW g prods failed sink = true) : ∃ s, Shuffle prods s ∧ sink = g.run s failed := by
  unfold acceptsGW at h
  split at h
  · -- nothing written
    refine ⟨prods.flatten, shuffle_concat prods, ?_⟩
    rw [GW.run_eq]
    simp only [Bool.or_eq_true, Bool.and_eq_true, decide_eq_true_eq] at h
    rcases h with h | ⟨hb, hp⟩
    · simp [h]
    · have : prods.flatten.flatten = [] := by
        simp only [List.flatten_eq_nil_iff, List.mem_flatten]
        intro c ⟨t, ht, hc⟩
        have := (List.all_eq_true.mp hp) t ht
        simpa using (List.all_eq_true.mp this) c hc
      simp [hb, this]
  · rename_i blk
    simp only [Bool.and_eq_true, Bool.not_eq_true', bne_iff_ne, ne_eq] at h
    obtain ⟨⟨hq, hbeg⟩, hend, ⟨hmid, hbuf⟩, hint⟩ := h
    obtain ⟨s, hs, hflat⟩ := interleavesBytes_sound _ _ _ hint
    refine ⟨s, hs, ?_⟩
    rw [GW.run_eq]
    have e1 := List.prefix_iff_eq_append.mp (List.isPrefixOf_iff_prefix.mp hbeg)
    have e3 := List.prefix_iff_eq_append.mp (List.isPrefixOf_iff_prefix.mp hbuf)
    obtain ⟨t, ht⟩ := List.isSuffixOf_iff_suffix.mp hend
    have e2 : (blk.drop g.begin_.length).take ((blk.drop g.begin_.length).length - g.end_.length) = t := by
      rw [← ht]; simp
    rw [e2] at e3 hmid hflat
    have hne : g.buff ++ s.flatten ≠ [] := by rw [hflat, e3]; exact hmid
    simp only [hq, Bool.false_or, hne, decide_false, Bool.false_eq_true, if_false]
    rw [hflat, e3, List.append_assoc, ht, e1]
  · simp at h

end TaskModel.Output
