import TaskModel.Output.Model
/-!
Output.Accept — the acceptors the driver runs on recorded sink writes.

* `interleaves seqs out`: `out` is an interleaving of the sequences `seqs` (backtracking over the
  sequences whose head equals the next element; exact: `interleaves_iff` in `AcceptLemmas`).
* `acceptsPW pre fuel w prods sink`: ONE prefixed writer fed by several producers — is there an order in
  which the producers' chunks reach the writer (each `Write` one atomic step) such that the writer
  emits exactly `sink`?  The search simulates the writer: a chunk that completes lines must be followed
  by exactly those lines in the sink.
* `acceptsGW g prods failed sink`: the same for a group writer: the one block is `begin ++ stream ++ end`
  for an interleaving `stream` of the producers' chunks.
-/
namespace TaskModel.Output

/-- all ways of taking the head of one of the sequences: `(head, the sequences afterwards)` -/
def picks {α : Type} : List (List α) → List (α × List (List α))
  | [] => []
  | [] :: rest => (picks rest).map (fun p => (p.1, [] :: p.2))
  | (x :: s) :: rest => (x, s :: rest) :: (picks rest).map (fun p => (p.1, (x :: s) :: p.2))

def interleaves {α : Type} [DecidableEq α] : List (List α) → List α → Bool
  | seqs, [] => seqs.all List.isEmpty
  | seqs, y :: out => (picks seqs).any (fun p => p.1 == y && interleaves p.2 out)

/-- the driver's acceptor for concurrent writers: the recorded sink writes are an interleaving of the
writers' write sequences -/
def accepts (ws : List Writer) (sink : List Bytes) : Bool :=
  interleaves (ws.map Writer.blocks) sink

/-- the writes of one task activation: its writers are used one after the other -/
def threadBlocks (t : List Writer) : List Bytes := (t.map Writer.blocks).flatten

/-- the driver's acceptor for the Executor-level stream: activations run in parallel, each a sequence of writers -/
def acceptsThreads (ts : List (List Writer)) (sink : List Bytes) : Bool :=
  interleaves (ts.map threadBlocks) sink

/-- pruning of the search: what the writer has buffered must be the beginning of the next line the sink shows (or
nothing, if the sink shows no further line) — true on every real run, since the buffer only grows until a newline
completes it; with producer-specific letters it leaves the search at most one candidate per step (without it, a line
made of `m` buffered chunks of several producers costs as many attempts as there are interleavings of those chunks) -/
def bufferFits (pre buff : Bytes) : List Bytes → Bool
  | [] => buff == []
  | nxt :: _ => (lineBlock pre buff).isPrefixOf nxt

/-- several producers, one prefixed writer (fuel ≥ number of chunks + 1) -/
def acceptsPW (pre : Bytes) : Nat → PW → List (List Bytes) → List Bytes → Bool
  | 0, _, _, _ => false
  | fuel + 1, w, prods, sink =>
    if prods.all List.isEmpty then (w.close.map (lineBlock pre)) == sink
    else (picks prods).any (fun p =>
      let bl := (w.write p.1).2.map (lineBlock pre)
      (bl.isPrefixOf sink && bufferFits pre (w.write p.1).1.buff (sink.drop bl.length)) &&
      acceptsPW pre fuel (w.write p.1).1 p.2 (sink.drop bl.length))

/-- `stream` is the concatenation of an interleaving of the producers' chunks -/
def interleavesBytes : Nat → List (List Bytes) → Bytes → Bool
  | 0, _, _ => false
  | fuel + 1, prods, stream =>
    if prods.all List.isEmpty then stream == []
    else (picks prods).any (fun p =>
      p.1.isPrefixOf stream && interleavesBytes fuel p.2 (stream.drop p.1.length))

def chunkCount (prods : List (List Bytes)) : Nat := (prods.map List.length).sum

/-- several producers, one group writer -/
def acceptsGW (g : GW) (prods : List (List Bytes)) (failed : Bool) (sink : List Bytes) : Bool :=
  match sink with
  | [] => (g.errorOnly && !failed) || (g.buff = [] && prods.all (fun s => s.all (· == [])))
  | [blk] =>
    !(g.errorOnly && !failed) &&
    g.begin_.isPrefixOf blk &&
    (let rest := blk.drop g.begin_.length
     g.end_.isSuffixOf rest &&
     (let mid := rest.take (rest.length - g.end_.length)
      mid != [] && g.buff.isPrefixOf mid &&
      interleavesBytes (chunkCount prods + 1) prods (mid.drop g.buff.length)))
  | _ => false

end TaskModel.Output
