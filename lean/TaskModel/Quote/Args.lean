import TaskModel.Quote.Quote
/-!
# `args.Get`, `args.Parse`, `splitVar` (args/args.go) and what `cmd/task` does with them
-/
namespace TaskModel.Quote

/-- `strings.SplitN(s, "=", 2)` → `(pair[0], pair[1])`.  `args.Parse` calls it only for
arguments that contain `=`; without one the Go code would panic, the model returns `(s, "")`. -/
def splitVar : Bytes → Bytes × Bytes
  | [] => ([], [])
  | b :: r => if b = 61 then ([], r) else ((b :: (splitVar r).1), (splitVar r).2)

/-- `ast.Vars.Set` on the ordered map: an existing key keeps its position. -/
def setVar (k v : Bytes) : List (Bytes × Bytes) → List (Bytes × Bytes)
  | [] => [(k, v)]
  | (k', v') :: r => if k' = k then (k, v) :: r else (k', v') :: setVar k v r

/-- `ast.Vars.Get` -/
def lookupVar (k : Bytes) : List (Bytes × Bytes) → Option Bytes
  | [] => none
  | (k', v) :: r => if k' = k then some v else lookupVar k r

def hasEq (a : Bytes) : Bool := a.contains 61

/-- `args.Parse`: arguments without `=` are task calls (in order), the others are global
variable assignments `NAME=value`, split at the first `=`. -/
def parse (argv : List Bytes) : List Bytes × List (Bytes × Bytes) :=
  (argv.filter (fun a => !hasEq a),
   (argv.filter hasEq).foldl (fun g a => setVar (splitVar a).1 (splitVar a).2 g) [])

/-- `args.Get`: `argv` = `pflag.Args()`, `dash` = `ArgsLenAtDash()` (`none` = no `--`):
arguments before `--` verbatim, arguments after it individually quoted. -/
def argsGet (argv : List Bytes) (dash : Option Nat) : Except Nat (List Bytes × List Bytes) :=
  match dash with
  | none => .ok (argv, [])
  | some d => match (argv.drop d).mapM quote with
    | .ok qs => .ok (argv.take d, qs)
    | .error e => .error e

/-- `strings.Join(xs, " ")` -/
def joinSp : List Bytes → Bytes
  | [] => []
  | [a] => a
  | a :: rest => a ++ 32 :: joinSp rest

/-- The value `CLI_ARGS` must have (cmd/task after fix F3): the quoted arguments after
`--` joined by single spaces. -/
def cliArgs (argv : List Bytes) (dash : Option Nat) : Except Nat Bytes :=
  match argsGet argv dash with
  | .ok (_, qs) => .ok (joinSp qs)
  | .error e => .error e

end TaskModel.Quote
