import TaskModel.Quote.Utf8Lemmas
import TaskModel.Quote.WordsLemmas
/-! The central lemma of C19: whatever `quote` emits for a NUL-free string is read back by
the shell as exactly that string (`go_quote`), for every byte string — valid UTF-8 or not. -/
namespace TaskModel.Quote

theorem nulOffset_none (s : Bytes) (h : ∀ b ∈ s, b ≠ 0) : nulOffset s = none := by
  induction s with
  | nil => rfl
  | cons b r ih =>
    have hb : b ≠ 0 := h b (by simp)
    simp [nulOffset, hb, ih (fun x hx => h x (by simp [hx]))]

theorem nulOffset_some (s : Bytes) (h : ∃ b ∈ s, b = 0) : ∃ off, nulOffset s = some off := by
  induction s with
  | nil => simp at h
  | cons b r ih =>
    by_cases hb : b = 0
    · exact ⟨0, by simp [nulOffset, hb]⟩
    · obtain ⟨y, hy, rfl⟩ := h
      simp only [List.mem_cons] at hy
      rcases hy with rfl | hy
      · exact absurd rfl hb
      · obtain ⟨off, ho⟩ := ih ⟨0, hy, rfl⟩
        exact ⟨off + 1, by simp [nulOffset, hb, ho]⟩

theorem ofNat_ne_of_lt {r : Nat} {c : UInt8} (hr : r < 256) (h : r ≠ c.toNat) : UInt8.ofNat r ≠ c := by
  intro e
  apply h
  have := congrArg UInt8.toNat e
  rw [UInt8.toNat_ofNat'] at this
  omega

theorem ne_of_toNat_ge {b c : UInt8} (h : 0x80 ≤ b.toNat) (hc : c.toNat < 0x80) : b ≠ c := by
  intro e; subst e; omega

/-- one rune of the `$'…'` body is read back as its raw bytes -/
theorem ansi_rune (x : Rune) (hg : Good x) (hne : x.raw ≠ []) (h0 : ∀ b ∈ x.raw, b ≠ 0) (t : Bytes) :
    go .ansi (ansiEsc x ++ t) = pushAll x.raw (go .ansi t) := by
  obtain ⟨r, raw⟩ := x
  have ha := hg.ascii
  have hh := hg.high
  have he := hg.enc
  dsimp only at ha hh he hne h0 ⊢
  unfold ansiEsc
  dsimp only
  by_cases c1 : r = 39 ∨ r = 92
  · have hlt : r < 0x80 := by omega
    rw [ha hlt]
    rcases c1 with rfl | rfl
    · simpa using go_ansi_esc_self 39 t (Or.inl rfl)
    · simpa using go_ansi_esc_self 92 t (Or.inr rfl)
  have c1a : r ≠ 39 := fun h => c1 (Or.inl h)
  have c1b : r ≠ 92 := fun h => c1 (Or.inr h)
  rw [if_neg (by simp [c1a, c1b])]
  by_cases c2 : isPrint r = true ∧ r ≠ runeError
  · rw [if_pos (by simp [c2.1, c2.2])]
    have henc : encodeRune r = raw := by
      by_cases hlt : r < 0x80
      · rw [ha hlt, encodeRune, if_pos hlt]
      · exact (he (by omega) (fun h => c2.2 h.1)).1
    rw [henc]
    apply go_ansi_lit
    intro b hb
    by_cases hlt : r < 0x80
    · rw [ha hlt] at hb
      simp only [List.mem_singleton] at hb
      subst hb
      exact ⟨ofNat_ne_of_lt (by omega) (by simpa using c1a), ofNat_ne_of_lt (by omega) (by simpa using c1b)⟩
    · have := (hh (by omega)).2 b hb
      exact ⟨ne_of_toNat_ge this (by decide), ne_of_toNat_ge this (by decide)⟩
  rw [if_neg (by simpa using c2)]
  have named := go_ansi_named t
  by_cases c3 : r = 7
  · subst c3; rw [ha (by omega)]; simpa using named.1
  rw [if_neg c3]
  by_cases c4 : r = 8
  · subst c4; rw [ha (by omega)]; simpa using named.2.1
  rw [if_neg c4]
  by_cases c5 : r = 12
  · subst c5; rw [ha (by omega)]; simpa using named.2.2.1
  rw [if_neg c5]
  by_cases c6 : r = 10
  · subst c6; rw [ha (by omega)]; simpa using named.2.2.2.1
  rw [if_neg c6]
  by_cases c7 : r = 13
  · subst c7; rw [ha (by omega)]; simpa using named.2.2.2.2.1
  rw [if_neg c7]
  by_cases c8 : r = 9
  · subst c8; rw [ha (by omega)]; simpa using named.2.2.2.2.2.1
  rw [if_neg c8]
  by_cases c9 : r = 11
  · subst c9; rw [ha (by omega)]; simpa using named.2.2.2.2.2.2
  rw [if_neg c9]
  by_cases c10 : r < 0x80 ∨ (r = runeError ∧ raw.length = 1)
  · rw [if_pos (by simpa using c10)]
    obtain ⟨b0, rfl⟩ : ∃ b0, raw = [b0] := by
      rcases c10 with h | ⟨_, h⟩
      · exact ⟨_, ha h⟩
      · match raw, h with
        | [b], _ => exact ⟨b, rfl⟩
    have hb0 : b0 ≠ 0 := h0 b0 (by simp)
    have hn : b0.toNat ≠ 0 := by
      intro e; apply hb0; exact UInt8.toNat_inj.mp (by simpa using e)
    have hp := hexParse_fixed2 b0.toNat b0.toNat_lt
    simp only [hexFixed] at hp
    have := go_ansi_x _ _ t b0.toNat hp hn
    rw [UInt8.ofNat_toNat] at this
    simpa [hexFixed] using this
  rw [if_neg (by simpa using c10)]
  have hge : 0x80 ≤ r := by omega
  obtain ⟨henc, hmax, hsur⟩ := he hge (fun h => c10 (Or.inr h))
  have hr0 : r ≠ 0 := by omega
  by_cases c11 : r < 0x10000
  · rw [if_pos c11]
    have hp := hexParse_fixed4 r c11
    simp only [hexFixed] at hp
    have := uniEsc_ok _ r (go .ansi t) hp hr0 hmax hsur
    rw [henc] at this
    simp only [hexFixed, List.cons_append, List.nil_append]
    rw [go_ansi_u, this]
  · rw [if_neg c11]
    have hp := hexParse_fixed8 r (by simp only [maxRune] at hmax; omega)
    simp only [hexFixed] at hp
    have := uniEsc_ok _ r (go .ansi t) hp hr0 hmax hsur
    rw [henc] at this
    simp only [hexFixed, List.cons_append, List.nil_append]
    rw [go_ansi_U, this]

/-- one rune of the `"…"` body is read back as its raw bytes -/
theorem dq_rune (x : Rune) (hg : Good x) (hp : x.r ≠ runeError) (t : Bytes) :
    go .dq (dqEsc x ++ t) = pushAll x.raw (go .dq t) := by
  obtain ⟨r, raw⟩ := x
  have ha := hg.ascii
  have hh := hg.high
  have he := hg.enc
  dsimp only at ha hh he hp ⊢
  unfold dqEsc
  dsimp only
  have henc : encodeRune r = raw := by
    by_cases hlt : r < 0x80
    · rw [ha hlt, encodeRune, if_pos hlt]
    · exact (he (by omega) (fun h => hp h.1)).1
  rw [henc]
  by_cases c : r = 34 ∨ r = 92 ∨ r = 96 ∨ r = 36
  · rw [if_pos (by simp; omega)]
    have hlt : r < 0x80 := by omega
    rw [ha hlt]
    have : UInt8.ofNat r = 34 ∨ UInt8.ofNat r = 92 ∨ UInt8.ofNat r = 96 ∨ UInt8.ofNat r = 36 := by
      rcases c with rfl | rfl | rfl | rfl <;> simp
    simpa using go_dq_esc (UInt8.ofNat r) t this
  · rw [if_neg (by simp; omega)]
    simp only [List.nil_append]
    apply go_dq_lit
    intro b hb
    have c' : r ≠ 34 ∧ r ≠ 92 ∧ r ≠ 96 ∧ r ≠ 36 := by omega
    by_cases hlt : r < 0x80
    · rw [ha hlt] at hb
      simp only [List.mem_singleton] at hb
      subst hb
      exact ⟨ofNat_ne_of_lt (by omega) (by simpa using c'.1), ofNat_ne_of_lt (by omega) (by simpa using c'.2.2.2),
        ofNat_ne_of_lt (by omega) (by simpa using c'.2.2.1), ofNat_ne_of_lt (by omega) (by simpa using c'.2.1)⟩
    · have := (hh (by omega)).2 b hb
      exact ⟨ne_of_toNat_ge this (by decide), ne_of_toNat_ge this (by decide),
        ne_of_toNat_ge this (by decide), ne_of_toNat_ge this (by decide)⟩

theorem ansi_body (rs : List Rune) (h : ∀ x ∈ rs, Good x ∧ x.raw ≠ [] ∧ ∀ b ∈ x.raw, b ≠ 0) (t : Bytes) :
    go .ansi (rs.flatMap ansiEsc ++ t) = pushAll (rs.flatMap (·.raw)) (go .ansi t) := by
  induction rs with
  | nil => rfl
  | cons x rs ih =>
    obtain ⟨hg, hne, h0⟩ := h x (by simp)
    simp only [List.flatMap_cons, List.append_assoc]
    rw [ansi_rune x hg hne h0, ih (fun y hy => h y (by simp [hy])), pushAll_append]

theorem dq_body (rs : List Rune) (h : ∀ x ∈ rs, Good x ∧ x.r ≠ runeError) (t : Bytes) :
    go .dq (rs.flatMap dqEsc ++ t) = pushAll (rs.flatMap (·.raw)) (go .dq t) := by
  induction rs with
  | nil => rfl
  | cons x rs ih =>
    obtain ⟨hg, hp⟩ := h x (by simp)
    simp only [List.flatMap_cons, List.append_assoc]
    rw [dq_rune x hg hp, ih (fun y hy => h y (by simp [hy])), pushAll_append]


theorem plain_of_not_shell (s : Bytes) (h0 : ∀ b ∈ s, b ≠ 0)
    (hs : ∀ x ∈ runes s, isShellRune x.r = false) : ∀ y ∈ s, isPlain y = true := by
  intro y hy
  have hy' : y ∈ (runes s).flatMap (·.raw) := by rw [runes_raw]; exact hy
  obtain ⟨x, hx, hyx⟩ := List.mem_flatMap.mp hy'
  have hg := good_of_mem_runes hx
  have hns : isShellRune y.toNat = false := by
    by_cases hlt : x.r < 0x80
    · rw [hg.ascii hlt] at hyx
      simp only [List.mem_singleton] at hyx
      subst hyx
      rw [UInt8.toNat_ofNat', Nat.mod_eq_of_lt (by omega)]
      exact hs x hx
    · have := (hg.high (by omega)).2 y hyx
      cases h : isShellRune y.toNat with
      | false => rfl
      | true => have := isShellRune_lt _ h; omega
  simp [isPlain, h0 y hy, hns]

/-- **What `quote` emits is read back as the original string**, from any state outside
quotes and whatever follows. -/
theorem go_quote (s : Bytes) (h0 : ∀ b ∈ s, b ≠ 0) :
    ∃ q, quote s = .ok q ∧ q ≠ [] ∧
      ∀ (st : Bool) (k : Bytes), go (.top st) (q ++ k) = pushAll s (go (.top true) k) := by
  unfold quote
  by_cases hs : s = []
  · subst hs
    refine ⟨[39, 39], by simp, by simp, fun st k => ?_⟩
    simp [go_top_open_sq, go_sq_close]
  rw [if_neg hs, nulOffset_none s h0]
  dsimp only
  have hrs : ∀ x ∈ runes s, Good x ∧ x.raw ≠ [] ∧ ∀ b ∈ x.raw, b ≠ 0 := fun x hx =>
    ⟨good_of_mem_runes hx, raw_ne_nil_of_mem_runes hx, fun b hb => h0 b (raw_subset_of_mem_runes hx b hb)⟩
  by_cases cA : (!(runes s).any (fun x => isShellRune x.r) &&
      !(runes s).any (fun x => x.r = runeError || !isPrint x.r) && !isKeyword s) = true
  · rw [if_pos cA]
    refine ⟨s, rfl, hs, fun st k => ?_⟩
    simp only [Bool.and_eq_true, Bool.not_eq_true', List.any_eq_false] at cA
    have hpl := plain_of_not_shell s h0 (fun x hx => by simpa using cA.1.1 x hx)
    match s, hs, hpl with
    | b :: a, _, hpl => exact go_top_plain b a k st hpl
  rw [if_neg cA]
  by_cases cB : (runes s).any (fun x => x.r = runeError || !isPrint x.r) = true
  · rw [if_pos cB]
    refine ⟨_, rfl, by simp, fun st k => ?_⟩
    have := ansi_body (runes s) hrs (39 :: k)
    rw [runes_raw, go_ansi_close] at this
    simp only [List.cons_append, List.nil_append, List.append_assoc]
    rw [go_top_open_ansi, this]
  rw [if_neg cB]
  by_cases cC : (!s.contains 39) = true
  · rw [if_pos cC]
    refine ⟨_, rfl, by simp, fun st k => ?_⟩
    have hno : ∀ b ∈ s, b ≠ 39 := by
      intro b hb e
      subst e
      simp at cC
      exact cC hb
    simp only [List.cons_append, List.nil_append, List.append_assoc]
    rw [go_top_open_sq, go_sq_lit s _ hno, go_sq_close]
  rw [if_neg cC]
  refine ⟨_, rfl, by simp, fun st k => ?_⟩
  have hpr : ∀ x ∈ runes s, Good x ∧ x.r ≠ runeError := by
    intro x hx
    refine ⟨(hrs x hx).1, fun e => cB ?_⟩
    exact List.any_eq_true.mpr ⟨x, hx, by simp [e]⟩
  have := dq_body (runes s) hpr (34 :: k)
  rw [runes_raw, go_dq_close] at this
  simp only [List.cons_append, List.nil_append, List.append_assoc]
  rw [go_top_open_dq, this]

theorem quote_error_iff (s : Bytes) : (∃ off, quote s = .error off) ↔ ∃ b ∈ s, b = 0 := by
  constructor
  · rintro ⟨off, h⟩
    by_cases hn : ∃ b ∈ s, b = 0
    · exact hn
    · have h0 : ∀ b ∈ s, b ≠ 0 := fun b hb e => hn ⟨b, hb, e⟩
      obtain ⟨q, hq, _⟩ := go_quote s h0
      rw [hq] at h; cases h
  · intro h
    obtain ⟨off, ho⟩ := nulOffset_some s h
    have hs : s ≠ [] := by rintro rfl; simp at h
    exact ⟨off, by simp [quote, hs, ho]⟩

end TaskModel.Quote
