import TaskModel.Quote.QuoteLemmas
import TaskModel.Quote.Args
/-! Helper lemmas for C19 about joined quoted arguments and the ordered variable map. -/
namespace TaskModel.Quote

theorem joinQuoted_go (args : List Bytes) (h : ∀ a ∈ args, NulFree a) (hne : args ≠ []) :
    ∃ line, joinQuoted args = .ok line ∧ line ≠ [] ∧ ∀ st, go (.top st) line = some args := by
  induction args with
  | nil => exact absurd rfl hne
  | cons a rest ih =>
    obtain ⟨q, hq, hqne, hgo⟩ := go_quote a (h a (by simp))
    cases rest with
    | nil =>
      refine ⟨q, by simp [joinQuoted, hq], hqne, fun st => ?_⟩
      have := hgo st []
      rw [List.append_nil] at this
      rw [this, go.eq_def]
      simp [pushAll_some]
    | cons b rest' =>
      obtain ⟨l, hl, hlne, hlgo⟩ := ih (fun x hx => h x (by simp [hx])) (by simp)
      refine ⟨q ++ 32 :: l, ?_, by simp, fun st => ?_⟩
      · simp [joinQuoted, hq, hl, bind, Except.bind, pure, Except.pure]
      · rw [hgo st (32 :: l), go.eq_def]
        simp [hlgo false, pushAll_some]

theorem mapM_quote (args : List Bytes) (h : ∀ a ∈ args, NulFree a) :
    ∃ qs, args.mapM quote = .ok qs ∧ qs.length = args.length ∧ joinQuoted args = .ok (joinSp qs) := by
  induction args with
  | nil => exact ⟨[], rfl, rfl, rfl⟩
  | cons a rest ih =>
    obtain ⟨q, hq, _, _⟩ := go_quote a (h a (by simp))
    obtain ⟨qs, hqs, hlen, hj⟩ := ih (fun x hx => h x (by simp [hx]))
    refine ⟨q :: qs, by simp [List.mapM_cons, hq, hqs, bind, Except.bind, pure, Except.pure], by simp [hlen], ?_⟩
    cases rest with
    | nil =>
      cases qs with
      | nil => simp [joinQuoted, joinSp, hq]
      | cons _ _ => simp at hlen
    | cons b rest' =>
      cases qs with
      | nil => simp at hlen
      | cons q' qs' => simp [joinQuoted, joinSp, hq, hj, bind, Except.bind, pure, Except.pure]

/-- `joinSp` is `strings.Join(·, " ")`. -/
theorem joinSp_eq_intercalate (qs : List Bytes) : joinSp qs = [32].intercalate qs := by
  induction qs with
  | nil => rfl
  | cons a rest ih =>
    cases rest with
    | nil => simp [joinSp, List.intercalate]
    | cons b rest' =>
      rw [joinSp, ih]
      simp [List.intercalate, List.intersperse]
      all_goals simp

theorem lookup_setVar_same (k v : Bytes) (g : List (Bytes × Bytes)) : lookupVar k (setVar k v g) = some v := by
  induction g with
  | nil => simp [setVar, lookupVar]
  | cons e g ih =>
    obtain ⟨k', v'⟩ := e
    by_cases hk : k' = k <;> simp [setVar, lookupVar, hk, ih]

theorem lookup_setVar_other (k k' v : Bytes) (g : List (Bytes × Bytes)) (h : k' ≠ k) :
    lookupVar k (setVar k' v g) = lookupVar k g := by
  induction g with
  | nil => simp [setVar, lookupVar, h]
  | cons e g ih =>
    obtain ⟨k'', v''⟩ := e
    by_cases hk : k'' = k'
    · subst hk; simp [setVar, lookupVar, h]
    · by_cases hk2 : k'' = k
      · subst hk2; simp [setVar, lookupVar, hk]
      · simp [setVar, lookupVar, hk, hk2, ih]

theorem lookup_foldl_other (k : Bytes) (as : List Bytes) (g : List (Bytes × Bytes))
    (h : ∀ a ∈ as, (splitVar a).1 ≠ k) :
    lookupVar k (as.foldl (fun g a => setVar (splitVar a).1 (splitVar a).2 g) g) = lookupVar k g := by
  induction as generalizing g with
  | nil => rfl
  | cons a as ih =>
    simp only [List.foldl_cons]
    rw [ih _ (fun x hx => h x (by simp [hx])), lookup_setVar_other _ _ _ _ (h a (by simp))]

end TaskModel.Quote
