import TaskModel.Quote.Quote
import TaskModel.Quote.Args
import TaskModel.Gen.QuoteTab
/-!
# C19: the model's constants and call sites agree with the sources (regenerated facts)

`TaskModel.Gen.QuoteTab` is rewritten on every run from the tree under test and from the
`mvdan.cc/sh/v3` version its go.mod requires.  These equalities are checked by `decide`;
when the sources change they stop compiling and the check reports a broken obligation.
-/
namespace TaskModel.Quote
open TaskModel.Gen

/-- the runes `syntax.Quote` treats as shell characters are the model's -/
theorem shellChars_match : shellChars = QuoteTab.shellChars := by decide

/-- `syntax.IsKeyword` accepts exactly the model's keywords -/
theorem keywords_match : keywords.map (·.map UInt8.toNat) = QuoteTab.keywords := by decide

/-- both quoting sites call `syntax.Quote(·, syntax.LangBash)`: `args.Get` for each
argument after `--`, and the template function `shellQuote` -/
theorem quote_sites_match :
    QuoteTab.quoteCalls = [("args.Get", "syntax.Quote(arg, syntax.LangBash)"),
      ("templater.shellQuote", "syntax.Quote(str, syntax.LangBash)")] := by decide

/-- `q` is the only alias, and it is the same function -/
theorem shellQuote_alias_match : QuoteTab.shellQuoteAliases = ["q"] := by decide

/-- `splitVar` splits at most once -/
theorem splitVar_site_match : QuoteTab.splitVarCall = "strings.SplitN(s, \"=\", 2)" := by decide

end TaskModel.Quote
