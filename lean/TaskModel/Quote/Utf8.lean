/-!
# Byte strings, Go's UTF-8 decoding, hexadecimal

`decodeRune` transcribes `utf8.DecodeRuneInString` (first-byte table + accept ranges),
`encodeRune` transcribes `utf8.AppendRune` (what `strings.Builder.WriteRune` writes),
`runes` is the sequence of `(rune, raw bytes)` a Go `for rem := s; len(rem) > 0; rem =
rem[size:]` loop over `DecodeRuneInString` sees.  Runes are `Nat` code points.
-/
namespace TaskModel.Quote

abbrev Bytes := List UInt8

def runeError : Nat := 0xFFFD
def maxRune : Nat := 0x10FFFF

/-- continuation byte 0x80..0xBF -/
def isCont (c : Nat) : Bool := 0x80 ≤ c && c ≤ 0xBF

/-- accept range of the second byte of a three-byte sequence (`acceptRanges` of
`unicode/utf8`: `E0` needs `A0..BF`, `ED` needs `80..9F`, otherwise `80..BF`) -/
def second3 (c0 c1 : Nat) : Bool :=
  (if c0 = 0xE0 then 0xA0 ≤ c1 else 0x80 ≤ c1) && (if c0 = 0xED then c1 ≤ 0x9F else c1 ≤ 0xBF)

/-- accept range of the second byte of a four-byte sequence (`F0`: `90..BF`, `F4`: `80..8F`) -/
def second4 (c0 c1 : Nat) : Bool :=
  (if c0 = 0xF0 then 0x90 ≤ c1 else 0x80 ≤ c1) && (if c0 = 0xF4 then c1 ≤ 0x8F else c1 ≤ 0xBF)

/-- `utf8.DecodeRuneInString`: `(rune, size)`; every malformed sequence is `(RuneError, 1)`. -/
def decodeRune : Bytes → Nat × Nat
  | [] => (runeError, 0)
  | b0 :: rest =>
    if b0.toNat < 0x80 then (b0.toNat, 1)
    else if b0.toNat < 0xC2 then (runeError, 1)
    else if b0.toNat < 0xE0 then
      match rest with
      | b1 :: _ =>
        if isCont b1.toNat then ((b0.toNat - 0xC0) * 64 + (b1.toNat - 0x80), 2) else (runeError, 1)
      | _ => (runeError, 1)
    else if b0.toNat < 0xF0 then
      match rest with
      | b1 :: b2 :: _ =>
        if second3 b0.toNat b1.toNat && isCont b2.toNat then
          ((b0.toNat - 0xE0) * 4096 + (b1.toNat - 0x80) * 64 + (b2.toNat - 0x80), 3)
        else (runeError, 1)
      | _ => (runeError, 1)
    else if b0.toNat < 0xF5 then
      match rest with
      | b1 :: b2 :: b3 :: _ =>
        if second4 b0.toNat b1.toNat && isCont b2.toNat && isCont b3.toNat then
          ((b0.toNat - 0xF0) * 262144 + (b1.toNat - 0x80) * 4096 + (b2.toNat - 0x80) * 64 + (b3.toNat - 0x80), 4)
        else (runeError, 1)
      | _ => (runeError, 1)
    else (runeError, 1)

/-- `utf8.AppendRune`: surrogates and values above `MaxRune` are written as U+FFFD. -/
def encodeRune (r : Nat) : Bytes :=
  if r < 0x80 then [UInt8.ofNat r]
  else if r < 0x800 then [UInt8.ofNat (0xC0 + r / 64), UInt8.ofNat (0x80 + r % 64)]
  else if r > maxRune || (0xD800 ≤ r && r ≤ 0xDFFF) then [0xEF, 0xBF, 0xBD]
  else if r < 0x10000 then
    [UInt8.ofNat (0xE0 + r / 4096), UInt8.ofNat (0x80 + r / 64 % 64), UInt8.ofNat (0x80 + r % 64)]
  else
    [UInt8.ofNat (0xF0 + r / 262144), UInt8.ofNat (0x80 + r / 4096 % 64),
     UInt8.ofNat (0x80 + r / 64 % 64), UInt8.ofNat (0x80 + r % 64)]

/-- One decoded rune with the bytes it was decoded from (`raw.length` is Go's `size`). -/
structure Rune where
  r : Nat
  raw : Bytes
deriving Repr, DecidableEq

/-- The runes of a string; `skip` bytes of an already decoded rune are passed over. -/
def runesAux : Nat → Bytes → List Rune
  | _, [] => []
  | 0, b :: rest =>
    let d := decodeRune (b :: rest)
    ⟨d.1, (b :: rest).take d.2⟩ :: runesAux (d.2 - 1) rest
  | k+1, _ :: rest => runesAux k rest

def runes (s : Bytes) : List Rune := runesAux 0 s

/-! ## hexadecimal (lower case, fixed width, as `%02x` / `%04x` / `%08x`) -/

def hexDigit (v : Nat) : UInt8 := if v < 10 then UInt8.ofNat (48 + v) else UInt8.ofNat (87 + v)

/-- `w` hexadecimal digits of `n`, most significant first. -/
def hexFixed : Nat → Nat → Bytes
  | 0, _ => []
  | w+1, n => hexDigit (n / 16 ^ w % 16) :: hexFixed w n

/-- value of one hexadecimal digit (either case) -/
def hexVal (b : UInt8) : Option Nat :=
  let c := b.toNat
  if 48 ≤ c && c ≤ 57 then some (c - 48)
  else if 97 ≤ c && c ≤ 102 then some (c - 87)
  else if 65 ≤ c && c ≤ 70 then some (c - 55)
  else none

/-- value of a string of hexadecimal digits -/
def hexParse : Bytes → Nat → Option Nat
  | [], acc => some acc
  | b :: r, acc => match hexVal b with
    | some v => hexParse r (acc * 16 + v)
    | none => none

end TaskModel.Quote
