import TaskModel.Quote.Words
/-! Lemmas about `go` / `words`: what each quoted form reads back as. -/
namespace TaskModel.Quote

@[simp] theorem pushAll_nil (r : Option (List Bytes)) : pushAll [] r = r := rfl
@[simp] theorem pushAll_cons (b : UInt8) (bs : Bytes) (r : Option (List Bytes)) :
    pushAll (b :: bs) r = push b (pushAll bs r) := rfl

theorem pushAll_append (a b : Bytes) (r : Option (List Bytes)) :
    pushAll (a ++ b) r = pushAll a (pushAll b r) := by
  induction a with
  | nil => rfl
  | cons x a ih => simp [ih]

theorem pushAll_some (a w : Bytes) (ws : List Bytes) :
    pushAll a (some (w :: ws)) = some ((a ++ w) :: ws) := by
  induction a with
  | nil => rfl
  | cons x a ih => simp [ih, push]

theorem pushAll_none (a : Bytes) : pushAll a none = none := by
  induction a with
  | nil => rfl
  | cons x a ih => simp [ih, push]

/-- closing quote of `'…'` -/
theorem go_sq_close (k : Bytes) : go .sq (39 :: k) = go (.top true) k := by
  rw [go.eq_def]; simp

theorem go_sq_lit (a k : Bytes) (h : ∀ b ∈ a, b ≠ 39) :
    go .sq (a ++ k) = pushAll a (go .sq k) := by
  induction a with
  | nil => rfl
  | cons x a ih =>
    have hx : x ≠ 39 := h x (by simp)
    have := ih (fun b hb => h b (by simp [hb]))
    rw [List.cons_append, go.eq_def]
    simp [hx, this]


/-! ### outside quotes -/

theorem isShellRune_lt (n : Nat) (h : isShellRune n = true) : n < 128 := by
  simp [isShellRune, shellChars] at h
  omega

theorem isPlain_ne (b : UInt8) (h : isPlain b = true) :
    b ≠ 32 ∧ b ≠ 39 ∧ b ≠ 34 ∧ b ≠ 36 := by
  refine ⟨?_, ?_, ?_, ?_⟩ <;> (intro hb; subst hb; revert h; decide)

theorem go_top_open_sq (st : Bool) (k : Bytes) : go (.top st) (39 :: k) = go .sq k := by
  rw [go.eq_def]; simp

theorem go_top_open_dq (st : Bool) (k : Bytes) : go (.top st) (34 :: k) = go .dq k := by
  rw [go.eq_def]; simp

theorem go_top_open_ansi (st : Bool) (k : Bytes) : go (.top st) (36 :: 39 :: k) = go .ansi k := by
  rw [go.eq_def]; simp

theorem go_top_plain (b : UInt8) (a k : Bytes) (st : Bool)
    (h : ∀ x ∈ b :: a, isPlain x = true) :
    go (.top st) (b :: a ++ k) = pushAll (b :: a) (go (.top true) k) := by
  induction a generalizing b st with
  | nil =>
    have hb := h b (by simp)
    obtain ⟨h1, h2, h3, h4⟩ := isPlain_ne b hb
    rw [List.cons_append, go.eq_def]
    simp [h1, h2, h3, h4, hb]
  | cons c a ih =>
    have hb := h b (by simp)
    obtain ⟨h1, h2, h3, h4⟩ := isPlain_ne b hb
    have := ih c true (fun x hx => h x (by simp at hx ⊢; right; exact hx))
    simp only [List.cons_append] at this ⊢
    rw [go.eq_def]
    simp [h1, h2, h3, h4, hb, this]

/-! ### inside `"…"` -/

theorem go_dq_close (k : Bytes) : go .dq (34 :: k) = go (.top true) k := by
  rw [go.eq_def]; simp

theorem go_dq_esc (c : UInt8) (k : Bytes) (h : c = 34 ∨ c = 92 ∨ c = 96 ∨ c = 36) :
    go .dq (92 :: c :: k) = push c (go .dq k) := by
  rw [go.eq_def]
  rcases h with rfl | rfl | rfl | rfl <;> simp

theorem go_dq_lit (a k : Bytes) (h : ∀ b ∈ a, b ≠ 34 ∧ b ≠ 36 ∧ b ≠ 96 ∧ b ≠ 92) :
    go .dq (a ++ k) = pushAll a (go .dq k) := by
  induction a with
  | nil => rfl
  | cons x a ih =>
    obtain ⟨h1, h2, h3, h4⟩ := h x (by simp)
    have := ih (fun b hb => h b (by simp [hb]))
    rw [List.cons_append, go.eq_def]
    simp [h1, h2, h3, h4, this]

/-! ### inside `$'…'` -/

theorem go_ansi_close (k : Bytes) : go .ansi (39 :: k) = go (.top true) k := by
  rw [go.eq_def]; simp

theorem go_ansi_lit (a k : Bytes) (h : ∀ b ∈ a, b ≠ 39 ∧ b ≠ 92) :
    go .ansi (a ++ k) = pushAll a (go .ansi k) := by
  induction a with
  | nil => rfl
  | cons x a ih =>
    obtain ⟨h1, h2⟩ := h x (by simp)
    have := ih (fun b hb => h b (by simp [hb]))
    rw [List.cons_append, go.eq_def]
    simp [h1, h2, this]

theorem go_ansi_esc_self (c : UInt8) (k : Bytes) (h : c = 39 ∨ c = 92) :
    go .ansi (92 :: c :: k) = push c (go .ansi k) := by
  rw [go.eq_def]
  rcases h with rfl | rfl <;> simp

theorem go_ansi_named (k : Bytes) :
    go .ansi (92 :: 97 :: k) = push 7 (go .ansi k) ∧
    go .ansi (92 :: 98 :: k) = push 8 (go .ansi k) ∧
    go .ansi (92 :: 102 :: k) = push 12 (go .ansi k) ∧
    go .ansi (92 :: 110 :: k) = push 10 (go .ansi k) ∧
    go .ansi (92 :: 114 :: k) = push 13 (go .ansi k) ∧
    go .ansi (92 :: 116 :: k) = push 9 (go .ansi k) ∧
    go .ansi (92 :: 118 :: k) = push 11 (go .ansi k) := by
  refine ⟨?_, ?_, ?_, ?_, ?_, ?_, ?_⟩ <;> (rw [go.eq_def]; simp)

theorem go_ansi_x (h1 h2 : UInt8) (k : Bytes) (n : Nat) (hp : hexParse [h1, h2] 0 = some n) (hn : n ≠ 0) :
    go .ansi (92 :: 120 :: h1 :: h2 :: k) = push (UInt8.ofNat n) (go .ansi k) := by
  rw [go.eq_def]; simp [hp, hn]

theorem go_ansi_u (h1 h2 h3 h4 : UInt8) (k : Bytes) :
    go .ansi (92 :: 117 :: h1 :: h2 :: h3 :: h4 :: k) = uniEsc [h1, h2, h3, h4] (go .ansi k) := by
  rw [go.eq_def]; simp

theorem go_ansi_U (h1 h2 h3 h4 h5 h6 h7 h8 : UInt8) (k : Bytes) :
    go .ansi (92 :: 85 :: h1 :: h2 :: h3 :: h4 :: h5 :: h6 :: h7 :: h8 :: k) =
      uniEsc [h1, h2, h3, h4, h5, h6, h7, h8] (go .ansi k) := by
  rw [go.eq_def]; simp

theorem uniEsc_ok (ds : Bytes) (n : Nat) (r : Option (List Bytes)) (hp : hexParse ds 0 = some n)
    (h0 : n ≠ 0) (hmax : n ≤ maxRune) (hsur : ¬(0xD800 ≤ n ∧ n ≤ 0xDFFF)) :
    uniEsc ds r = pushAll (encodeRune n) r := by
  have : ¬(n > maxRune) := by omega
  simp only [uniEsc, hp]
  rw [if_neg]
  simp only [Bool.or_eq_true, decide_eq_true_eq, Bool.and_eq_true, not_or]
  exact ⟨⟨h0, this⟩, hsur⟩

end TaskModel.Quote
