import TaskModel.Quote.Quote
/-!
# How the shell splits a command line into words and removes the quoting

`words` models a POSIX/bash shell (here: mvdan.cc/sh, `syntax` lexer + `expand`
quote removal) on the sub-language that matters for forwarded arguments:

    line  ::= ε | word (' ' word)*                 -- exactly one space between words
    word  ::= piece+
    piece ::= plain+ | ' … ' | " … " | $' … '

`plain` is any byte that is neither NUL nor one of `syntax.Quote`'s shell characters
(so: no blank, no quote, no `$`, backslash, glob, brace, tilde, `=`, `#`, operator).
Inside `'…'` everything is literal.  Inside `"…"` a backslash escapes `" \ `` ` `` $`
(and is kept before any other byte); an unescaped `$` or `` ` `` would start an expansion
and is outside the sub-language.  Inside `$'…'` the escapes `\\ \' \" \? \a \b \e \E \f
\n \r \t \v`, `\xHH` (one byte), `\uHHHH`, `\UHHHHHHHH` (UTF-8 of the code point) are
decoded, with exactly 2/4/8 hexadecimal digits (the maximum the shell reads).
Anything outside the sub-language is `none`.
-/
namespace TaskModel.Quote

inductive St where
  | top (started : Bool)   -- outside quotes; `started` = the current word has begun
  | sq                     -- inside '…'
  | dq                     -- inside "…"
  | ansi                   -- inside $'…'
deriving DecidableEq, Repr

/-- prepend a byte to the word being read -/
def push (b : UInt8) : Option (List Bytes) → Option (List Bytes)
  | some (w :: ws) => some ((b :: w) :: ws)
  | _ => none

/-- prepend bytes to the word being read -/
def pushAll (bs : Bytes) (r : Option (List Bytes)) : Option (List Bytes) :=
  bs.foldr push r

/-- a byte that may appear outside quotes -/
def isPlain (b : UInt8) : Bool := b ≠ 0 && !isShellRune b.toNat

/-- the rune written by `\uHHHH` / `\UHHHHHHHH`; NUL and non-code-points are outside the
sub-language -/
def uniEsc (digits : Bytes) (k : Option (List Bytes)) : Option (List Bytes) :=
  match hexParse digits 0 with
  | some n =>
    if n = 0 || n > maxRune || (0xD800 ≤ n && n ≤ 0xDFFF) then none else pushAll (encodeRune n) k
  | none => none

/-- `go st input` = the words of `input` read from state `st`; the head of the result is
the word in progress. -/
def go : St → Bytes → Option (List Bytes)
  | .top started, [] => if started then some [[]] else none
  | .top started, b :: r =>
    if b = 32 then
      if started then (go (.top false) r).map ([] :: ·) else none
    else if b = 39 then go .sq r
    else if b = 34 then go .dq r
    else if b = 36 then
      match r with
      | c :: r' => if c = 39 then go .ansi r' else none
      | [] => none
    else if isPlain b then push b (go (.top true) r)
    else none
  | .sq, [] => none
  | .sq, b :: r => if b = 39 then go (.top true) r else push b (go .sq r)
  | .dq, [] => none
  | .dq, b :: r =>
    if b = 34 then go (.top true) r
    else if b = 36 || b = 96 then none
    else if b = 92 then
      match r with
      | c :: r' =>
        if c = 34 || c = 92 || c = 96 || c = 36 then push c (go .dq r')
        else if c = 10 then go .dq r'
        else push 92 (push c (go .dq r'))
      | [] => none
    else push b (go .dq r)
  | .ansi, [] => none
  | .ansi, b :: r =>
    if b = 39 then go (.top true) r
    else if b = 92 then
      match r with
      | c :: r' =>
        if c = 39 || c = 92 || c = 34 || c = 63 then push c (go .ansi r')
        else if c = 97 then push 7 (go .ansi r')
        else if c = 98 then push 8 (go .ansi r')
        else if c = 101 || c = 69 then push 27 (go .ansi r')
        else if c = 102 then push 12 (go .ansi r')
        else if c = 110 then push 10 (go .ansi r')
        else if c = 114 then push 13 (go .ansi r')
        else if c = 116 then push 9 (go .ansi r')
        else if c = 118 then push 11 (go .ansi r')
        else if c = 120 then
          match r' with
          | h1 :: h2 :: r'' =>
            match hexParse [h1, h2] 0 with
            | some n => if n = 0 then none else push (UInt8.ofNat n) (go .ansi r'')
            | none => none
          | _ => none
        else if c = 117 then
          match r' with
          | h1 :: h2 :: h3 :: h4 :: r'' => uniEsc [h1, h2, h3, h4] (go .ansi r'')
          | _ => none
        else if c = 85 then
          match r' with
          | h1 :: h2 :: h3 :: h4 :: h5 :: h6 :: h7 :: h8 :: r'' =>
            uniEsc [h1, h2, h3, h4, h5, h6, h7, h8] (go .ansi r'')
          | _ => none
        else none
      | [] => none
    else push b (go .ansi r)

/-- The words of a command line (the argv the invoked program receives after the
command name). -/
def words (s : Bytes) : Option (List Bytes) :=
  if s = [] then some [] else go (.top false) s

end TaskModel.Quote
