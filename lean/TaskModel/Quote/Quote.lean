import TaskModel.Quote.Utf8
import TaskModel.Gen.QuoteTab
/-!
# `syntax.Quote(s, syntax.LangBash)` (mvdan.cc/sh/v3), transcribed for byte strings

Used by `args.Get` for every argument after `--` and by the template functions
`shellQuote` / `q`.  The result is one of: `''` (empty), the string itself (nothing to
quote), `$'…'` with escapes (some rune is not printable or not valid UTF-8), `'…'`
(no single quote inside), `"…"` with `\" \\ \` \$` escaped.  The only error in the
bash variant is a NUL byte (reported with its byte offset).
-/
deriving instance DecidableEq for Except

namespace TaskModel.Quote

/-- The runes of the first `switch` in `Quote` that set `shellChars`. -/
def shellChars : List Nat :=
  [59, 34, 39, 40, 41, 36, 124, 38, 62, 60, 96,   -- ; " ' ( ) $ | & > < `
   32, 9, 13, 10,                                  -- space \t \r \n
   92, 35, 123, 126, 42, 63, 91, 61]               -- \ # { ~ * ? [ =

def isShellRune (r : Nat) : Bool := shellChars.contains r

/-- `syntax.IsKeyword` -/
def keywords : List Bytes :=
  [[33], [91,91], [93,93], [99,97,115,101], [99,111,112,114,111,99], [100,111], [100,111,110,101],
   [101,108,115,101], [101,115,97,99], [102,105], [102,111,114], [102,117,110,99,116,105,111,110],
   [105,102], [105,110], [115,101,108,101,99,116], [116,104,101,110], [116,105,109,101],
   [117,110,116,105,108], [119,104,105,108,101], [123], [125]]

def isKeyword (s : Bytes) : Bool := keywords.contains s

/-- `unicode.IsPrint`: ASCII decided here, everything else by the table regenerated from
the Go toolchain's `unicode` package. -/
def isPrint (r : Nat) : Bool :=
  if r < 0x80 then 0x20 ≤ r && r ≤ 0x7E
  else Gen.QuoteTab.printRanges.any fun p => p.1 ≤ r && r ≤ p.2

/-- no NUL byte (what an operating system can pass as an argument) -/
def NulFree (s : Bytes) : Prop := ∀ b ∈ s, b ≠ 0

/-- byte offset of the first NUL -/
def nulOffset : Bytes → Option Nat
  | [] => none
  | b :: r => if b = 0 then some 0 else (nulOffset r).map (· + 1)

/-- what the `$'…'` loop writes for one rune -/
def ansiEsc (x : Rune) : Bytes :=
  let r := x.r
  if r = 39 || r = 92 then [92, UInt8.ofNat r]
  else if isPrint r && r ≠ runeError then encodeRune r
  else if r = 7 then [92, 97]        -- \a
  else if r = 8 then [92, 98]        -- \b
  else if r = 12 then [92, 102]      -- \f
  else if r = 10 then [92, 110]      -- \n
  else if r = 13 then [92, 114]      -- \r
  else if r = 9 then [92, 116]       -- \t
  else if r = 11 then [92, 118]      -- \v
  else if r < 0x80 || (r = runeError && x.raw.length = 1) then
    [92, 120] ++ hexFixed 2 (x.raw.headD 0).toNat          -- \xXX of rem[0]
  else if r < 0x10000 then [92, 117] ++ hexFixed 4 r       -- \uXXXX
  else [92, 85] ++ hexFixed 8 r                            -- \UXXXXXXXX

/-- what the `"…"` loop writes for one rune -/
def dqEsc (x : Rune) : Bytes :=
  (if x.r = 34 || x.r = 92 || x.r = 96 || x.r = 36 then [92] else []) ++ encodeRune x.r

/-- `syntax.Quote(s, LangBash)`; `.error off` = `QuoteError{ByteOffset: off, null bytes}`. -/
def quote (s : Bytes) : Except Nat Bytes :=
  if s = [] then .ok [39, 39]
  else match nulOffset s with
  | some off => .error off
  | none =>
    let rs := runes s
    let shell := rs.any fun x => isShellRune x.r
    let nonPrintable := rs.any fun x => x.r = runeError || !isPrint x.r
    if !shell && !nonPrintable && !isKeyword s then .ok s
    else if nonPrintable then .ok ([36, 39] ++ rs.flatMap ansiEsc ++ [39])
    else if !s.contains 39 then .ok ([39] ++ s ++ [39])
    else .ok ([34] ++ rs.flatMap dqEsc ++ [34])

/-- `args.Get` + `strings.Join(…, " ")`: what `CLI_ARGS` is meant to hold. -/
def joinQuoted : List Bytes → Except Nat Bytes
  | [] => .ok []
  | [a] => quote a
  | a :: rest => do
    let q ← quote a
    let qs ← joinQuoted rest
    pure (q ++ 32 :: qs)

end TaskModel.Quote
