import TaskModel.Quote.Utf8
/-! Facts about `decodeRune` / `encodeRune` / `runes` / hexadecimal used by the C19 proofs. -/
namespace TaskModel.Quote

/-- the rune decoded at the start of a string, with its bytes -/
def runeAt (l : Bytes) : Rune := ⟨(decodeRune l).1, l.take (decodeRune l).2⟩

/-- What the proofs need to know about a decoded rune. -/
structure Good (x : Rune) : Prop where
  ascii : x.r < 0x80 → x.raw = [UInt8.ofNat x.r]
  high : 0x80 ≤ x.r → x.raw ≠ [] ∧ ∀ b ∈ x.raw, 0x80 ≤ b.toNat
  enc : 0x80 ≤ x.r → ¬(x.r = runeError ∧ x.raw.length = 1) →
    encodeRune x.r = x.raw ∧ x.r ≤ maxRune ∧ ¬(0xD800 ≤ x.r ∧ x.r ≤ 0xDFFF)

theorem ofNat_eq_of_toNat {b : UInt8} {n : Nat} (h : n = b.toNat) : UInt8.ofNat n = b := by
  subst h; exact UInt8.ofNat_toNat

theorem second3_spec {c0 c1 : Nat} (h : second3 c0 c1 = true) :
    0x80 ≤ c1 ∧ c1 ≤ 0xBF ∧ (c0 = 0xE0 → 0xA0 ≤ c1) ∧ (c0 = 0xED → c1 ≤ 0x9F) := by
  unfold second3 at h
  simp only [Bool.and_eq_true] at h
  obtain ⟨h1, h2⟩ := h
  by_cases a : c0 = 0xE0 <;> by_cases b : c0 = 0xED <;> simp [a, b] at h1 h2 ⊢ <;> omega

theorem second4_spec {c0 c1 : Nat} (h : second4 c0 c1 = true) :
    0x80 ≤ c1 ∧ c1 ≤ 0xBF ∧ (c0 = 0xF0 → 0x90 ≤ c1) ∧ (c0 = 0xF4 → c1 ≤ 0x8F) := by
  unfold second4 at h
  simp only [Bool.and_eq_true] at h
  obtain ⟨h1, h2⟩ := h
  by_cases a : c0 = 0xF0 <;> by_cases b : c0 = 0xF4 <;> simp [a, b] at h1 h2 ⊢ <;> omega

/-- a byte that does not start a valid sequence: `(RuneError, 1)` -/
theorem good_err (b0 : UInt8) (h : 0x80 ≤ b0.toNat) : Good ⟨runeError, [b0]⟩ :=
  ⟨fun h' => by simp [runeError] at h', fun _ => ⟨by simp, by simpa using h⟩,
   fun _ h' => absurd ⟨rfl, rfl⟩ h'⟩

theorem good_ascii (b0 : UInt8) (h : b0.toNat < 0x80) : Good ⟨b0.toNat, [b0]⟩ :=
  ⟨fun _ => by simp, fun h' => by simp at h'; omega, fun h' => by simp at h'; omega⟩

theorem good_two (b0 b1 : UInt8) (h0 : 0xC2 ≤ b0.toNat) (h0' : b0.toNat < 0xE0) (h1 : isCont b1.toNat = true) :
    Good ⟨(b0.toNat - 0xC0) * 64 + (b1.toNat - 0x80), [b0, b1]⟩ := by
  simp only [isCont, Bool.and_eq_true, decide_eq_true_eq] at h1
  generalize hr : (b0.toNat - 0xC0) * 64 + (b1.toNat - 0x80) = r
  refine ⟨fun h' => ?_, fun _ => ⟨by simp, ?_⟩, fun _ _ => ⟨?_, ?_, ?_⟩⟩ <;> dsimp only [maxRune] at *
  · omega
  · simp; omega
  · have e0 : UInt8.ofNat (0xC0 + r / 64) = b0 := ofNat_eq_of_toNat (by omega)
    have e1 : UInt8.ofNat (0x80 + r % 64) = b1 := ofNat_eq_of_toNat (by omega)
    rw [encodeRune, if_neg (by omega), if_pos (by omega), e0, e1]
  · omega
  · omega

theorem good_three (b0 b1 b2 : UInt8) (h0 : 0xE0 ≤ b0.toNat) (h0' : b0.toNat < 0xF0)
    (h1 : second3 b0.toNat b1.toNat = true) (h2 : isCont b2.toNat = true) :
    Good ⟨(b0.toNat - 0xE0) * 4096 + (b1.toNat - 0x80) * 64 + (b2.toNat - 0x80), [b0, b1, b2]⟩ := by
  simp only [isCont, Bool.and_eq_true, decide_eq_true_eq] at h2
  obtain ⟨a1, a2, a3, a4⟩ := second3_spec h1
  generalize hr : (b0.toNat - 0xE0) * 4096 + (b1.toNat - 0x80) * 64 + (b2.toNat - 0x80) = r
  refine ⟨fun h' => ?_, fun _ => ⟨by simp, ?_⟩, fun _ _ => ⟨?_, ?_, ?_⟩⟩ <;> dsimp only [maxRune] at *
  · omega
  · simp; omega
  · have e0 : UInt8.ofNat (0xE0 + r / 4096) = b0 := ofNat_eq_of_toNat (by omega)
    have e1 : UInt8.ofNat (0x80 + r / 64 % 64) = b1 := ofNat_eq_of_toNat (by omega)
    have e2 : UInt8.ofNat (0x80 + r % 64) = b2 := ofNat_eq_of_toNat (by omega)
    rw [encodeRune, if_neg (by omega), if_neg (by omega), if_neg, if_pos (by omega), e0, e1, e2]
    simp [maxRune]; omega
  · omega
  · omega

theorem good_four (b0 b1 b2 b3 : UInt8) (h0 : 0xF0 ≤ b0.toNat) (h0' : b0.toNat < 0xF5)
    (h1 : second4 b0.toNat b1.toNat = true) (h2 : isCont b2.toNat = true) (h3 : isCont b3.toNat = true) :
    Good ⟨(b0.toNat - 0xF0) * 262144 + (b1.toNat - 0x80) * 4096 + (b2.toNat - 0x80) * 64 + (b3.toNat - 0x80),
      [b0, b1, b2, b3]⟩ := by
  simp only [isCont, Bool.and_eq_true, decide_eq_true_eq] at h2 h3
  obtain ⟨a1, a2, a3, a4⟩ := second4_spec h1
  generalize hr : (b0.toNat - 0xF0) * 262144 + (b1.toNat - 0x80) * 4096 + (b2.toNat - 0x80) * 64 + (b3.toNat - 0x80) = r
  refine ⟨fun h' => ?_, fun _ => ⟨by simp, ?_⟩, fun _ _ => ⟨?_, ?_, ?_⟩⟩ <;> dsimp only [maxRune] at *
  · omega
  · simp; omega
  · have e0 : UInt8.ofNat (0xF0 + r / 262144) = b0 := ofNat_eq_of_toNat (by omega)
    have e1 : UInt8.ofNat (0x80 + r / 4096 % 64) = b1 := ofNat_eq_of_toNat (by omega)
    have e2 : UInt8.ofNat (0x80 + r / 64 % 64) = b2 := ofNat_eq_of_toNat (by omega)
    have e3 : UInt8.ofNat (0x80 + r % 64) = b3 := ofNat_eq_of_toNat (by omega)
    rw [encodeRune, if_neg (by omega), if_neg (by omega), if_neg, if_neg (by omega), e0, e1, e2, e3]
    simp [maxRune]; omega
  · omega
  · omega


theorem good_runeAt (b0 : UInt8) (rest : Bytes) : Good (runeAt (b0 :: rest)) := by
  have hb0 := b0.toNat_lt
  unfold runeAt
  by_cases c1 : b0.toNat < 0x80
  · have : decodeRune (b0 :: rest) = (b0.toNat, 1) := by simp [decodeRune, c1]
    rw [this]; exact good_ascii b0 c1
  by_cases c2 : b0.toNat < 0xC2
  · have : decodeRune (b0 :: rest) = (runeError, 1) := by simp [decodeRune, c1, c2]
    rw [this]; exact good_err b0 (by omega)
  by_cases c3 : b0.toNat < 0xE0
  · cases rest with
    | nil =>
      have : decodeRune [b0] = (runeError, 1) := by simp [decodeRune, c1, c2, c3]
      rw [this]; exact good_err b0 (by omega)
    | cons b1 r1 =>
      by_cases k1 : isCont b1.toNat = true
      · have : decodeRune (b0 :: b1 :: r1) = ((b0.toNat - 0xC0) * 64 + (b1.toNat - 0x80), 2) := by
          simp [decodeRune, c1, c2, c3, k1]
        rw [this]; exact good_two b0 b1 (by omega) c3 k1
      · have : decodeRune (b0 :: b1 :: r1) = (runeError, 1) := by simp [decodeRune, c1, c2, c3, k1]
        rw [this]; exact good_err b0 (by omega)
  by_cases c4 : b0.toNat < 0xF0
  · match rest with
    | [] =>
      have : decodeRune [b0] = (runeError, 1) := by simp [decodeRune, c1, c2, c3, c4]
      rw [this]; exact good_err b0 (by omega)
    | [b1] =>
      have : decodeRune [b0, b1] = (runeError, 1) := by simp [decodeRune, c1, c2, c3, c4]
      rw [this]; exact good_err b0 (by omega)
    | b1 :: b2 :: r2 =>
      by_cases k : (second3 b0.toNat b1.toNat && isCont b2.toNat) = true
      · have : decodeRune (b0 :: b1 :: b2 :: r2) =
            ((b0.toNat - 0xE0) * 4096 + (b1.toNat - 0x80) * 64 + (b2.toNat - 0x80), 3) := by
          simp only [decodeRune, c1, c2, c3, c4, k, if_true, if_false]
        rw [this]
        simp only [Bool.and_eq_true] at k
        exact good_three b0 b1 b2 (by omega) c4 k.1 k.2
      · have : decodeRune (b0 :: b1 :: b2 :: r2) = (runeError, 1) := by
          simp only [decodeRune, c1, c2, c3, c4, k, if_false]
          rfl
        rw [this]; exact good_err b0 (by omega)
  by_cases c5 : b0.toNat < 0xF5
  · match rest with
    | [] =>
      have : decodeRune [b0] = (runeError, 1) := by simp [decodeRune, c1, c2, c3, c4, c5]
      rw [this]; exact good_err b0 (by omega)
    | [b1] =>
      have : decodeRune [b0, b1] = (runeError, 1) := by simp [decodeRune, c1, c2, c3, c4, c5]
      rw [this]; exact good_err b0 (by omega)
    | [b1, b2] =>
      have : decodeRune [b0, b1, b2] = (runeError, 1) := by simp [decodeRune, c1, c2, c3, c4, c5]
      rw [this]; exact good_err b0 (by omega)
    | b1 :: b2 :: b3 :: r3 =>
      by_cases k : (second4 b0.toNat b1.toNat && isCont b2.toNat && isCont b3.toNat) = true
      · have : decodeRune (b0 :: b1 :: b2 :: b3 :: r3) =
            ((b0.toNat - 0xF0) * 262144 + (b1.toNat - 0x80) * 4096 + (b2.toNat - 0x80) * 64 + (b3.toNat - 0x80), 4) := by
          simp only [decodeRune, c1, c2, c3, c4, c5, k, if_true, if_false]
        rw [this]
        simp only [Bool.and_eq_true] at k
        exact good_four b0 b1 b2 b3 (by omega) c5 k.1.1 k.1.2 k.2
      · have : decodeRune (b0 :: b1 :: b2 :: b3 :: r3) = (runeError, 1) := by
          simp only [decodeRune, c1, c2, c3, c4, c5, k, if_false]
          rfl
        rw [this]; exact good_err b0 (by omega)
  · have : decodeRune (b0 :: rest) = (runeError, 1) := by simp [decodeRune, c1, c2, c3, c4, c5]
    rw [this]; exact good_err b0 (by omega)

theorem decode_size_pos (b0 : UInt8) (rest : Bytes) : 1 ≤ (decodeRune (b0 :: rest)).2 := by
  unfold decodeRune
  split
  · rename_i h; cases h
  · repeat' split
    all_goals simp

/-! ### `runes` -/

theorem runesAux_drop (k : Nat) (l : Bytes) : runesAux k l = runesAux 0 (l.drop k) := by
  induction l generalizing k with
  | nil => cases k <;> simp [runesAux]
  | cons b rest ih =>
    cases k with
    | zero => simp
    | succ k => simp [runesAux, ih k]

/-- the raw bytes of the runes, concatenated, are the string -/
theorem runesAux_raw (k : Nat) (l : Bytes) : (runesAux k l).flatMap (·.raw) = l.drop k := by
  induction l generalizing k with
  | nil => cases k <;> simp [runesAux]
  | cons b rest ih =>
    cases k with
    | zero =>
      have hp := decode_size_pos b rest
      simp only [runesAux, List.flatMap_cons, ih, List.drop_zero]
      obtain ⟨n, hn⟩ : ∃ n, (decodeRune (b :: rest)).2 = n + 1 := ⟨(decodeRune (b :: rest)).2 - 1, by omega⟩
      rw [hn]
      simp
    | succ k => simp [runesAux, ih k]

theorem runes_raw (s : Bytes) : (runes s).flatMap (·.raw) = s := by
  simpa [runes] using runesAux_raw 0 s

/-- every rune of a string is the rune decoded at some suffix -/
theorem mem_runesAux {x : Rune} {k : Nat} {l : Bytes} (h : x ∈ runesAux k l) :
    ∃ b rest, x = runeAt (b :: rest) ∧ ∀ y ∈ b :: rest, y ∈ l := by
  induction l generalizing k with
  | nil => cases k <;> simp [runesAux] at h
  | cons b rest ih =>
    cases k with
    | zero =>
      simp only [runesAux, List.mem_cons] at h
      rcases h with rfl | h
      · exact ⟨b, rest, rfl, fun y hy => hy⟩
      · obtain ⟨b', rest', hx, hsub⟩ := ih h
        exact ⟨b', rest', hx, fun y hy => List.mem_cons_of_mem _ (hsub y hy)⟩
    | succ k =>
      simp only [runesAux] at h
      obtain ⟨b', rest', hx, hsub⟩ := ih h
      exact ⟨b', rest', hx, fun y hy => List.mem_cons_of_mem _ (hsub y hy)⟩

theorem good_of_mem_runes {x : Rune} {s : Bytes} (h : x ∈ runes s) : Good x := by
  obtain ⟨b, rest, rfl, _⟩ := mem_runesAux h
  exact good_runeAt b rest

theorem raw_subset_of_mem_runes {x : Rune} {s : Bytes} (h : x ∈ runes s) : ∀ y ∈ x.raw, y ∈ s := by
  obtain ⟨b, rest, rfl, hsub⟩ := mem_runesAux h
  intro y hy
  exact hsub y (List.mem_of_mem_take hy)

theorem raw_ne_nil_of_mem_runes {x : Rune} {s : Bytes} (h : x ∈ runes s) : x.raw ≠ [] := by
  obtain ⟨b, rest, rfl, _⟩ := mem_runesAux h
  have hp := decode_size_pos b rest
  obtain ⟨n, hn⟩ : ∃ n, (decodeRune (b :: rest)).2 = n + 1 := ⟨(decodeRune (b :: rest)).2 - 1, by omega⟩
  simp [runeAt, hn]

/-! ### hexadecimal -/

theorem hexVal_hexDigit : ∀ d, d < 16 → hexVal (hexDigit d) = some d := by decide

theorem hexParse_fixed2 (n : Nat) (h : n < 256) : hexParse (hexFixed 2 n) 0 = some n := by
  simp only [hexFixed, hexParse, hexVal_hexDigit _ (Nat.mod_lt _ (by decide : 0 < 16))]
  congr 1; omega

theorem hexParse_fixed4 (n : Nat) (h : n < 65536) : hexParse (hexFixed 4 n) 0 = some n := by
  simp only [hexFixed, hexParse, hexVal_hexDigit _ (Nat.mod_lt _ (by decide : 0 < 16))]
  congr 1; omega

theorem hexParse_fixed8 (n : Nat) (h : n < 4294967296) : hexParse (hexFixed 8 n) 0 = some n := by
  simp only [hexFixed, hexParse, hexVal_hexDigit _ (Nat.mod_lt _ (by decide : 0 < 16))]
  congr 1; omega

end TaskModel.Quote
