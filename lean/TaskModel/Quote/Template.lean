import TaskModel.Quote.Words
/-!
# The template passes between the command line and the shell

Every Taskfile-level variable — including `CLI_ARGS` and the `NAME=value` assignments
merged in by `cmd/task` — is passed through `templater.Replace` by
`Compiler.getVariables`, and the command text that finally contains the forwarded words
is the output of `templater.Replace` as well.  `templater.Replace` (a) executes the text as
a Go template: text outside `{{ … }}` actions is copied, (b) deletes every occurrence of
the literal `<no value>` from the result.

The model does not interpret actions: the engine's behaviour on text that contains `{{`
or `<no value>` is a parameter.  What is modelled (and checked against the real
`templater.Replace` by the correspondence domain `quote`, op `quote.inert`) is that all
other text passes unchanged.
-/
namespace TaskModel.Quote

def isPrefix : Bytes → Bytes → Bool
  | [], _ => true
  | _ :: _, [] => false
  | p :: ps, b :: bs => p = b && isPrefix ps bs

def isInfix (p : Bytes) : Bytes → Bool
  | [] => p = []
  | b :: bs => isPrefix p (b :: bs) || isInfix p bs

def leftDelim : Bytes := [123, 123]                                   -- {{
def noValue : Bytes := [60, 110, 111, 32, 118, 97, 108, 117, 101, 62]  -- <no value>

/-- text on which `templater.Replace` is the identity -/
def templateInert (s : Bytes) : Bool := !isInfix leftDelim s && !isInfix noValue s

/-- one pass of `templater.Replace`; `engine` is what it does to text that is not inert
(`none` = template error, the run fails). -/
def tmplPass (engine : Bytes → Option Bytes) (s : Bytes) : Option Bytes :=
  if templateInert s then some s else engine s

/-- What the invoked program receives when `line` (the forwarded, quoted text) travels
through the variable pass and the command pass and is then split by the shell. -/
def delivered (engine : Bytes → Option Bytes) (line : Bytes) : Option (List Bytes) :=
  ((tmplPass engine line).bind (tmplPass engine)).bind words

end TaskModel.Quote
