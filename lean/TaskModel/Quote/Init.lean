import TaskModel.Quote.Args
/-!
# `task --init [PATH]` (cmd/task/task.go, init.go, internal/filepathext)

Unix path functions of `path/filepath` on byte strings (`Clean`, `Join`, `Base`, `Ext`,
`Dir`), `filepathext.IsExtOnly` / `SmartJoin` (without the `.ROOT_DIR`-style special
names), the path computation of `cmd/task` and `task.InitTaskfile` over an abstract
file system: a finite map from clean absolute paths to `file` / `dir`.
-/
namespace TaskModel.Quote

/-- split at every `/` -/
def splitSlash : Bytes → List Bytes
  | [] => [[]]
  | b :: r =>
    if b = 47 then [] :: splitSlash r
    else match splitSlash r with
      | w :: ws => (b :: w) :: ws
      | [] => [[b]]

def dotdot : Bytes := [46, 46]

/-- the component stack of `filepath.Clean` (top of stack first) -/
def cleanStack (rooted : Bool) : List Bytes → List Bytes → List Bytes
  | [], st => st
  | c :: cs, st =>
    if c = [] || c = [46] then cleanStack rooted cs st
    else if c = dotdot then
      match st with
      | t :: st' => if t = dotdot then cleanStack rooted cs (c :: st) else cleanStack rooted cs st'
      | [] => if rooted then cleanStack rooted cs [] else cleanStack rooted cs [c]
    else cleanStack rooted cs (c :: st)

def joinSlash : List Bytes → Bytes
  | [] => []
  | [a] => a
  | a :: rest => a ++ 47 :: joinSlash rest

/-- `filepath.Clean` -/
def clean (p : Bytes) : Bytes :=
  let rooted := p.head? = some 47
  let body := joinSlash (cleanStack rooted (splitSlash p) []).reverse
  if rooted then 47 :: body else if body = [] then [46] else body

/-- `filepath.Join(a, b)` -/
def join (a b : Bytes) : Bytes :=
  if a = [] && b = [] then [] else if a = [] then clean b else if b = [] then clean a
  else clean (a ++ 47 :: b)

def dropTrailingSlashes (p : Bytes) : Bytes := (p.reverse.dropWhile (· = 47)).reverse

/-- `filepath.Base` -/
def base (p : Bytes) : Bytes :=
  if p = [] then [46]
  else
    let q := dropTrailingSlashes p
    if q = [] then [47] else (splitSlash q).getLast?.getD []

/-- suffix of a path element from its last dot -/
def extOf : Bytes → Bytes
  | [] => []
  | b :: r => if r.contains 46 then extOf r else if b = 46 then b :: r else []

/-- `filepath.Ext`: looks at the text after the last `/` only -/
def ext (p : Bytes) : Bytes := extOf ((splitSlash p).getLast?.getD [])

/-- `filepath.Dir` -/
def dir (p : Bytes) : Bytes :=
  clean (joinSlash ((splitSlash p).dropLast ++ [[]]))

def isAbs (p : Bytes) : Bool := p.head? = some 47

/-- `filepathext.SmartJoin` -/
def smartJoin (a b : Bytes) : Bytes := if isAbs b then b else join a b

/-- `filepathext.IsExtOnly`: a name that consists of an extension only (`.yaml`, `sub/.yml`).
The directory names `.` and `..` are not extensions (`Base "." = Ext "." = "."`: the slip
`task --init .` → `./Taskfile.` of the first version of this function). -/
def isExtOnly (p : Bytes) : Bool := base p ≠ [46] ∧ base p ≠ dotdot ∧ base p = ext p

/-- the predicate before the repair, kept for the machine-checked witness -/
def isExtOnlyOld (p : Bytes) : Bool := base p = ext p

def taskfileStem : Bytes := [84, 97, 115, 107, 102, 105, 108, 101]               -- Taskfile
def defaultTaskfile : Bytes := taskfileStem ++ [46, 121, 109, 108]               -- Taskfile.yml

inductive Kind where | file | dir
deriving DecidableEq, Repr

abbrev FS := List (Bytes × Kind)

def stat (fs : FS) (p : Bytes) : Option Kind := (fs.find? (fun e => e.1 = clean p)).map (·.2)

/-- The path `cmd/task` hands to `InitTaskfile`: the working directory, or the first
positional argument joined to it.  An argument that names an existing directory is that
directory whatever it looks like (`.config`); otherwise an extension-only name `.ext`
means `Taskfile.ext` beside it. -/
def initArgPath (fs : FS) (wd : Bytes) (positional : List Bytes) : Bytes :=
  match positional with
  | [] => wd
  | name :: _ =>
    let isDir : Bool := stat fs (smartJoin wd name) = some .dir
    let name := if !isDir && isExtOnly name then smartJoin (dir name) (taskfileStem ++ ext name) else name
    smartJoin wd name

inductive InitResult where
  | written (p : Bytes)     -- exit 0, default Taskfile created at `p` (the path given to `os.WriteFile`)
  | exists_ (p : Bytes)     -- exit 101 (TaskfileAlreadyExistsError) because of `p`, nothing written
  | error                   -- any other failure (parent missing / not a directory), nothing written
deriving DecidableEq, Repr

/-- `os.WriteFile` of a path that does not exist: needs its parent to be a directory -/
def writeNew (fs : FS) (p : Bytes) : InitResult :=
  if stat fs (dir p) = some .dir then .written p else .error

/-- `task.InitTaskfile` -/
def initTaskfile (fs : FS) (path : Bytes) : InitResult :=
  match stat fs path with
  | some .file => .exists_ path
  | some .dir =>
    let p := smartJoin path defaultTaskfile
    if (stat fs p).isSome then .exists_ p else writeNew fs p
  | none => writeNew fs path

/-- `task --init` with the given positional arguments (those before `--`). -/
def initRun (fs : FS) (wd : Bytes) (argv : List Bytes) (dash : Option Nat) : InitResult :=
  match argsGet argv dash with
  | .ok (positional, _) => initTaskfile fs (initArgPath fs wd positional)
  | .error _ => .error

/-- the file system afterwards -/
def initApply (fs : FS) : InitResult → FS
  | .written p => (clean p, .file) :: fs
  | _ => fs

end TaskModel.Quote
