import TaskModel.Sched.TokenLemmas
/-!
Sched.DeadlockLemmas — a decidable sufficient condition for "no label is accepted":
every top-level call has entered and every activation has returned or waits for something
that cannot arrive without a step of another activation (`depsWait` with all dependencies
started and not all returned; `wReleased` whose execution has not finished; `inCall`
whose callee has entered and not returned).  Used for the machine-checked deadlock of a
cycle through a `run: once` task.
-/
namespace TaskModel.Sched.S7

/-- is the activation unable to move in configuration `c`? -/
def stuckAct (c : Config) (x : Act) : Bool :=
  match x.phase with
  | .done => true
  | .depsWait =>
    (depResults c x x.def_.deps.length 0).isNone &&
    (List.range x.def_.deps.length).all (fun j => (x.kids.lookup (slotOfDep j)).isSome)
  | .wReleased => (execResultOf c x.waitsFor).isNone
  | .inCall i _ => (callKidOf c x).isNone && (x.kids.lookup (slotOfCall x i)).isSome
  | _ => false

/-- no top-level call is left to enter and every activation is stuck -/
def deadlocked (c : Config) : Bool :=
  (List.range c.ncalls).all (fun k => (c.tops.lookup k).isSome) &&
  c.acts.all (fun p => match c.act? p.1 with | some x => stuckAct c x | none => true)

theorem lookup_mem {β} : ∀ (l : List (Nat × β)) (a : Nat) (x : β), l.lookup a = some x → ∃ p ∈ l, p.1 = a := by
  intro l
  induction l with
  | nil => intro a x h; cases h
  | cons q l ih =>
    intro a x h
    obtain ⟨k, v⟩ := q
    simp only [List.lookup] at h
    split at h
    · rename_i he; exact ⟨(k, v), List.mem_cons_self, by simpa using (beq_iff_eq.mp he).symm⟩
    · obtain ⟨p, hp, e⟩ := ih a x h
      exact ⟨p, List.mem_cons_of_mem _ hp, e⟩

theorem deadlocked_acts (c : Config) (h : deadlocked c = true) (a : Nat) (x : Act) (hx : c.act? a = some x) :
    stuckAct c x = true := by
  unfold deadlocked at h
  simp only [Bool.and_eq_true, List.all_eq_true] at h
  obtain ⟨p, hp, e⟩ := lookup_mem c.acts a x hx
  have := h.2 p hp
  rw [e, hx] at this
  exact this

set_option maxHeartbeats 1000000 in
/-- what an accepted local step needs of the phases `stuckAct` knows about -/
theorem stepLocal_needs (F : Flags) (o : Obs) (x : Act) (ev : Ev) (y : Act) (eff : Eff)
    (h : stepLocal F o x ev = some (y, eff)) :
    x.phase ≠ .done ∧ (x.phase = .depsWait → (o.deps ()).isSome = true) ∧
    (x.phase = .wReleased → (o.execResult ()).isSome = true) ∧
    (∀ i d, x.phase = .inCall i d → (o.callKid ()).isSome = true) := by
  steplocal_cases h
  all_goals (simp_all)

/-- **soundness of the deadlock check**: in a `deadlocked` configuration no label at all —
of any activation, old or new — is accepted -/
theorem deadlocked_sound (P : Program) (F : Flags) (c : Config) (h : deadlocked c = true) (l : Label) :
    step P F c l = none := by
  have hacts := deadlocked_acts c h
  have htops : ∀ k, k < c.ncalls → (c.tops.lookup k).isSome = true := by
    unfold deadlocked at h
    simp only [Bool.and_eq_true, List.all_eq_true, List.mem_range] at h
    exact h.1
  cases hs : step P F c l with
  | none => rfl
  | some c' =>
    exfalso
    rcases step_cases P F c c' l hs with ⟨k, t, _, hen⟩ | ⟨_, x, y, eff, hx, hl, _⟩
    · -- enter
      unfold enterAct at hen
      split at hen
      · cases hen
      · have hnone : enterCheck F c l.act k t = none := by
          unfold enterCheck
          cases k with
          | top k =>
            simp only
            by_cases hk : k < c.ncalls
            · simp [htops k hk]
            · have : k ≥ c.ncalls := Nat.le_of_not_lt hk
              simp [this]
          | dep p j =>
            simp only
            cases hp : c.act? p with
            | none => rfl
            | some px =>
              simp only
              have hst := hacts p px hp
              unfold stuckAct at hst
              split at hst
              · rename_i hph; simp [hph]
              · rename_i hph
                simp only [Bool.and_eq_true, List.all_eq_true, List.mem_range] at hst
                by_cases hj : j < px.def_.deps.length
                · simp [hph, hst.2 j hj]
                · have : px.def_.deps[j]? = none := by simp; omega
                  simp [this]
              · rename_i hph; simp [hph]
              · rename_i hph; simp [hph]
              · cases hst
          | call p i dfr =>
            simp only
            cases hp : c.act? p with
            | none => rfl
            | some px =>
              simp only
              have hst := hacts p px hp
              unfold stuckAct at hst
              split at hst
              · rename_i hph; simp [hph]
              · rename_i hph; simp [hph]
              · rename_i hph; simp [hph]
              · rename_i i' d' hph
                simp only [Bool.and_eq_true] at hst
                by_cases he : i' = i ∧ d' = dfr
                · obtain ⟨rfl, rfl⟩ := he
                  simp [hph, hst.2]
                · have : px.phase ≠ .inCall i dfr := by
                    rw [hph]; intro e; cases e; exact he ⟨rfl, rfl⟩
                  simp [this]
              · cases hst
        rw [hnone] at hen
        cases hen
    · -- local step
      have hst := hacts l.act x hx
      obtain ⟨h1, h2, h3, h4⟩ := stepLocal_needs F _ x l.ev y eff hl
      unfold stuckAct at hst
      split at hst
      · rename_i hph; exact h1 hph
      · rename_i hph
        simp only [Bool.and_eq_true] at hst
        have := h2 hph
        simp only [obsOf] at this
        rw [Option.isNone_iff_eq_none.mp hst.1] at this
        cases this
      · rename_i hph
        have := h3 hph
        simp only [obsOf] at this
        rw [Option.isNone_iff_eq_none.mp hst] at this
        cases this
      · rename_i i d hph
        simp only [Bool.and_eq_true] at hst
        have := h4 i d hph
        simp only [obsOf] at this
        rw [Option.isNone_iff_eq_none.mp hst.1] at this
        cases this
      · cases hst

end TaskModel.Sched.S7
