import TaskModel.Sched.Model
/-!
Sched.Monitors — decidable checks on an event trace.

* `finalCheck`: what must hold of the configuration a complete run ends in, and the
  result `Run` must return for it.
* raw monitors `rawCxx`: the properties stated directly on the observable event list
  (no model state), so they can be evaluated on an implementation trace even when the
  model rejects it.  `Props/Cxx.lean` proves them for every trace the model accepts.
-/
namespace TaskModel.Sched

/-- `Run`'s pre-check: every named task exists (200) and is not internal (202) -/
def precheck (P : Program) : List Nat → Option Res
  | [] => none
  | t :: ts =>
    match P[t]? with
    | none => some (.typed 200)
    | some d => if d.internal then some (.typed 202) else precheck P ts

/-- sequential `Run`: calls run in order, the first error is returned at once -/
def seqResult (c : Config) : Nat → Nat → Option Res
  | 0, _ => some .ok
  | n+1, k =>
    match c.tops.lookup k with
    | none => none
    | some id =>
      match kidDone c id with
      | none => none
      | some r =>
        if r.isOk then seqResult c n (k+1)
        else if (List.range n).all (fun d => (c.tops.lookup (k+1+d)).isNone) then some r else none

def parResults (c : Config) : Nat → Nat → Option (List Res)
  | 0, _ => some []
  | n+1, k =>
    match c.tops.lookup k with
    | none => none
    | some id =>
      match kidDone c id, parResults c n (k+1) with
      | some r, some rs => some (r :: rs)
      | _, _ => none

def allDone (c : Config) : List (Nat × Act) → List Nat → Bool
  | [], _ => true
  | (id, _) :: r, seen =>
    if seen.contains id then allDone c r seen
    else (match c.act? id with | some x => x.phase = .done | none => false) && allDone c r (id :: seen)

/-- `none` = fine; `some why` otherwise -/
def finalCheck (P : Program) (F : Flags) (calls : List Nat) (c : Config) (result : Res) : Option String :=
  match precheck P calls with
  | some e =>
    if !c.acts.isEmpty then some "events-after-failed-precheck"
    else if result ≠ e then some "precheck-result" else none
  | none =>
    if c.tokens ≠ 0 then some "tokens-not-returned"
    else if !allDone c c.acts [] then some "activation-not-finished"
    else if F.parallel then
      match parResults c calls.length 0 with
      | none => some "top-missing"
      | some rs =>
        if result.isOk then (if rs.all Res.isOk then none else some "run-ok-but-top-failed")
        else if rs.contains result then none else some "run-result-not-a-top-result"
    else
      match seqResult c calls.length 0 with
      | none => some "top-sequence"
      | some r => if r = result then none else some "run-result"

/-! ### per-activation monitors as state machines -/

structure ActMon (σ : Type) where
  init : σ
  step : σ → Ev → Option σ        -- `none` = the property is violated at this event

def ActMon.run {σ} (m : ActMon σ) : σ → List Ev → Option σ
  | s, [] => some s
  | s, e :: es => match m.step s e with | some s' => m.run s' es | none => none

theorem ActMon.run_append {σ} (m : ActMon σ) (s : σ) (l1 l2 : List Ev) :
    m.run s (l1 ++ l2) = (m.run s l1).bind (fun s' => m.run s' l2) := by
  induction l1 generalizing s with
  | nil => rfl
  | cons e es ih =>
    simp only [List.cons_append, ActMon.run]
    cases m.step s e with
    | none => rfl
    | some s' => exact ih s'

/-- may deferred entry `i` start after the deferred entry `last` (if any)? -/
def okAfter (last : Option Nat) (i : Nat) : Bool :=
  match last with
  | some j => decide (i < j)
  | none => true

/-- C14: the deferred entries of one activation start in strictly decreasing index order
(hence each at most once, and in reverse order of registration) -/
def deferOrderMon : ActMon (Option Nat) where
  init := none
  step last ev :=
    match ev with
    | .cmdStart i _ true | .callRelease i true => if okAfter last i then some (some i) else none
    | _ => some last

/-! ### raw-trace helpers -/

/-- position-tagged events of one activation -/
def evsOf (a : Nat) : List Label → List Ev
  | [] => []
  | l :: ls => if l.act = a then l.ev :: evsOf a ls else evsOf a ls

def enterOf (a : Nat) : List Label → Option (Kind × Nat)
  | [] => none
  | l :: ls => if l.act = a then (match l.ev with | .enter k t => some (k, t) | _ => enterOf a ls) else enterOf a ls

def actIds : List Label → List Nat
  | [] => []
  | l :: ls => match l.ev with | .enter _ _ => l.act :: actIds ls | _ => actIds ls

/-- C02 on the raw events of one activation: non-deferred command starts have strictly
increasing indices and each start is closed (`cmdEnd` / `callReacq`) before the next. -/
def seqOk : List Ev → Option Nat → Bool → Bool
  | [], _, _ => true
  | .cmdStart i _ false :: r, last, open_ =>
    !open_ && (match last with | some j => j < i | none => true) && seqOk r (some i) true
  | .cmdEnd _ _ :: r, last, _ => seqOk r last false
  | .callRelease i false :: r, last, open_ =>
    !open_ && (match last with | some j => j < i | none => true) && seqOk r (some i) true
  | .callRelease _ true :: r, last, open_ => !open_ && seqOk r last true
  | .callReacq _ :: r, last, _ => seqOk r last false
  | _ :: r, last, open_ => seqOk r last open_

/-- C07 bound on the raw trace: slots in use never exceed the limit -/
def boundOk (cap : Nat) : List Label → Nat → Bool
  | [], _ => true
  | l :: ls, n =>
    match l.ev with
    | .acquire | .wReacq | .depsReacq | .callReacq _ => n + 1 ≤ cap && boundOk cap ls (n+1)
    | .release | .wRelease | .depsRelease | .callRelease _ _ => boundOk cap ls (n-1)
    | _ => boundOk cap ls n

/-- C06: a dedup key is registered at most once -/
def regOnce : List Label → List Nat → Bool
  | [], _ => true
  | l :: ls, seen =>
    match l.ev with
    | .register k => !seen.contains k && regOnce ls (k :: seen)
    | _ => regOnce ls seen

/-- C01 (finish part): when an activation starts its first command every dependency
activation it spawned has exited, and the number spawned equals its number of deps. -/
def depsExitedBefore (a : Nat) (ndeps : Nat) : List Label → List Nat → List Nat → Bool
  | [], _, _ => true
  | l :: ls, kids, exited =>
    match l.ev with
    | .enter (.dep p _) _ => if p = a then depsExitedBefore a ndeps ls (l.act :: kids) exited else depsExitedBefore a ndeps ls kids exited
    | .exit => depsExitedBefore a ndeps ls kids (l.act :: exited)
    | .cmdStart _ _ false | .callRelease _ false =>
      if l.act = a then kids.length = ndeps && kids.all (exited.contains ·) else depsExitedBefore a ndeps ls kids exited
    | _ => depsExitedBefore a ndeps ls kids exited

/-- C01/C06 (waiter part): a `wWake` of a waiter on key `k` comes after the `execDone` of
the activation registered for `k` -/
def wakeAfterDone : List Label → List (Nat × Nat) → List Nat → List (Nat × Nat) → Bool
  | [], _, _, _ => true
  | l :: ls, regs, dones, waits =>
    match l.ev with
    | .register k => wakeAfterDone ls ((k, l.act) :: regs) dones waits
    | .execDone => wakeAfterDone ls regs (l.act :: dones) waits
    | .waiter k => wakeAfterDone ls regs dones ((l.act, k) :: waits)
    | .wWake =>
      (match waits.lookup l.act with
       | some k => (match regs.lookup k with | some e => dones.contains e | none => false)
       | none => false) && wakeAfterDone ls regs dones waits
    | _ => wakeAfterDone ls regs dones waits

/-- C13: an activation whose task has a failing guard starts no command -/
def guardedNoCmd (P : Program) (F : Flags) (tr : List Label) : Bool :=
  (actIds tr).all fun a =>
    match enterOf a tr with
    | none => true
    | some (_, t) =>
      match P[t]? with
      | none => true
      | some d =>
        let blocked := !d.platformOk || !d.requiresOk || !d.compileOk || !d.enumOk || !d.precondOk || (d.prompt && !F.yes)
        !blocked || (evsOf a tr).all (fun e => match e with | .cmdStart _ _ _ | .callRelease _ _ => false | _ => true)

/-- C03: after a command of `a` ended with a failure that is not ignored, `a` starts no
further non-deferred command -/
def failStop (d : TaskDef) : List Ev → Bool → Bool
  | [], _ => true
  | .cmdEnd i r :: rest, failed =>
    let ignored := d.ignoreError && (match r with | .exit _ => true | _ => false) ||
      (match d.cmds[i]?, r with | some (.shell _ true _), .exit _ => true | _, _ => false)
    let isDeferred := match d.cmds[i]? with | some c => c.deferred | none => false
    failStop d rest (failed || (!isDeferred && !r.isOk && !ignored))
  | .cmdStart _ _ false :: rest, failed => !failed && failStop d rest failed
  | .callRelease _ false :: rest, failed => !failed && failStop d rest failed
  | _ :: rest, failed => failStop d rest failed

def failStopAll (P : Program) (tr : List Label) : Bool :=
  (actIds tr).all fun a =>
    match enterOf a tr with
    | none => true
    | some (_, t) => match P[t]? with | none => true | some d => failStop d (evsOf a tr) false

def monitorVerdicts (P : Program) (F : Flags) (_calls : List Nat) (tr : List Label) : String :=
  let ids := actIds tr
  let b (x : Bool) := if x then "1" else "0"
  let c01 := wakeAfterDone tr [] [] [] && ids.all (fun a =>
    match enterOf a tr with
    | some (_, t) => (match P[t]? with | some d => depsExitedBefore a d.deps.length tr [] [] | none => true)
    | none => true)
  let c02 := ids.all (fun a => seqOk (evsOf a tr) none false)
  let c03 := failStopAll P tr
  let c06 := regOnce tr []
  let c07 := match F.cap with | some n => boundOk n tr 0 | none => true
  let c13 := guardedNoCmd P F tr
  let c14 := ids.all (fun a => (deferOrderMon.run deferOrderMon.init (evsOf a tr)).isSome)
  s!"C01={b c01} C02={b c02} C03={b c03} C06={b c06} C07={b c07} C13={b c13} C14={b c14}"

end TaskModel.Sched
