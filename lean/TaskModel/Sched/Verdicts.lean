import TaskModel.Sched.MonC02
import TaskModel.Sched.MonC03
import TaskModel.Sched.MonC07
import TaskModel.Sched.MonC13
/-!
Sched.Verdicts — `monitorVerdicts` with the C02 / C03 fields computed by the state-machine
monitors whose soundness `Props/C02.lean` (`C02_seq_all`) and `Props/C03.lean`
(`C03_no_later_cmd_all`) prove.  Same output format as `Monitors.monitorVerdicts`; the
other fields are computed exactly as there.

Wire-up (maintainer): `Monitors.lean` cannot import `MonC02` / `MonC03` (they import it for
`ActMon`, `evsOf`, `actIds`), so either
* let `Driver/Sched.lean` import this file and call `monitorVerdicts2` instead of
  `monitorVerdicts` (one word), or
* move the definitions of `seqMon` (`SeqSt`, `ltAfter`) and `failStopMon`, `failStopMonP`
  (`ignoredBy`, `isDeferredAt`, `stopsBody`) above `monitorVerdicts` in `Monitors.lean` and set
      let c02 := ids.all (fun a => (seqMon.run seqMon.init (evsOf a tr)).isSome)
      let c03 := ids.all (fun a => ((failStopMonP P).run (failStopMonP P).init (evsOf a tr)).isSome)
  (`= seqMonAll tr`, `= failStopMonAll P tr`).
-/
namespace TaskModel.Sched

def monitorVerdicts2 (P : Program) (F : Flags) (_calls : List Nat) (tr : List Label) : String :=
  let ids := actIds tr
  let b (x : Bool) := if x then "1" else "0"
  let c01 := wakeAfterDone tr [] [] [] && ids.all (fun a =>
    match enterOf a tr with
    | some (_, t) => (match P[t]? with | some d => depsExitedBefore a d.deps.length tr [] [] | none => true)
    | none => true)
  let c02 := seqMonAll tr
  let c03 := failStopMonAll P tr
  let c06 := regOnce tr []
  let c07 := (match F.cap with | some n => boundOk n tr 0 | none => true) &&
    ids.all (fun a => (S7.holdMon.run S7.holdMon.init (evsOf a tr)).isSome)
  let c13 := guardedNoCmd P F tr &&
    ids.all (fun a => ((S7.noCmdMon P F).run (S7.noCmdMon P F).init (evsOf a tr)).isSome)
  let c14 := ids.all (fun a => (deferOrderMon.run deferOrderMon.init (evsOf a tr)).isSome)
  s!"C01={b c01} C02={b c02} C03={b c03} C06={b c06} C07={b c07} C13={b c13} C14={b c14}"

theorem seqOk_mono (evs : List Ev) : ∀ (last : Option Nat), seqOk evs last true = true → seqOk evs last false = true := by
  induction evs with
  | nil => intro _ _; rfl
  | cons e es ih =>
    intro last h
    cases e with
    | cmdStart i seen d =>
      cases d with
      | false => simp [seqOk] at h
      | true => simpa [seqOk] using ih last (by simpa [seqOk] using h)
    | callRelease i d => cases d <;> simp [seqOk] at h
    | cmdEnd i r => simpa [seqOk] using h
    | callReacq i => simpa [seqOk] using h
    | _ => simpa [seqOk] using ih last (by simpa [seqOk] using h)

/-- the new monitors are at least as strict as the raw ones they replace -/
theorem seqOk_of_seqMon (evs : List Ev) : ∀ (s : SeqSt), (seqMon.run s evs).isSome = true →
    seqOk evs s.last s.cur.isSome = true := by
  induction evs with
  | nil => intro s _; rfl
  | cons e es ih =>
    intro s h
    simp only [ActMon.run] at h
    cases hs : seqMon.step s e with
    | none => rw [hs] at h; cases h
    | some s' =>
      rw [hs] at h
      have ih' := ih s' h
      cases e with
      | cmdStart i seen d =>
        cases d with
        | false =>
          simp only [seqMon] at hs
          split at hs
          · rename_i hc
            cases hs
            simp only [Bool.and_eq_true, Option.isNone_iff_eq_none] at hc
            simp only [seqOk, hc.1, Option.isSome_none, Bool.not_false, Bool.true_and, Bool.and_eq_true]
            refine ⟨?_, by simpa using ih'⟩
            have := hc.2
            unfold ltAfter at this
            cases hl : s.last with
            | none => rfl
            | some j => rw [hl] at this; simpa using this
          · cases hs
        | true =>
          simp only [seqMon] at hs
          split at hs
          · rename_i hc
            cases hs
            simp only [Option.isNone_iff_eq_none] at hc
            have := seqOk_mono es s.last (by simpa using ih')
            simpa [seqOk, hc] using this
          · cases hs
      | callRelease i d =>
        cases d with
        | false =>
          simp only [seqMon] at hs
          split at hs
          · rename_i hc
            cases hs
            simp only [Bool.and_eq_true, Option.isNone_iff_eq_none] at hc
            simp only [seqOk, hc.1, Option.isSome_none, Bool.not_false, Bool.true_and, Bool.and_eq_true]
            refine ⟨?_, by simpa using ih'⟩
            have := hc.2
            unfold ltAfter at this
            cases hl : s.last with
            | none => rfl
            | some j => rw [hl] at this; simpa using this
          · cases hs
        | true =>
          simp only [seqMon] at hs
          split at hs
          · rename_i hc
            cases hs
            simp only [Option.isNone_iff_eq_none] at hc
            simpa [seqOk, hc] using ih'
          · cases hs
      | cmdEnd i r =>
        simp only [seqMon] at hs
        split at hs
        · cases hs; simpa [seqOk] using ih'
        · cases hs
      | callReacq i =>
        simp only [seqMon] at hs
        split at hs
        · cases hs; simpa [seqOk] using ih'
        · cases hs
      | callRet i =>
        simp only [seqMon] at hs
        split at hs
        · cases hs; simpa [seqOk] using ih'
        · cases hs
      | exit =>
        simp only [seqMon] at hs
        split at hs
        · cases hs; simpa [seqOk] using ih'
        · cases hs
      | _ =>
        simp only [seqMon] at hs
        cases hs
        simpa [seqOk] using ih'

/-- whenever the new C02 verdict is `1`, so is the one it replaces -/
theorem seqMonAll_stricter (tr : List Label) (h : seqMonAll tr = true) :
    (actIds tr).all (fun a => seqOk (evsOf a tr) none false) = true := by
  unfold seqMonAll at h
  rw [List.all_eq_true] at h ⊢
  intro a ha
  exact seqOk_of_seqMon (evsOf a tr) seqMon.init (h a ha)

end TaskModel.Sched
