import TaskModel.Sched.LiveInv
/-!
Sched.LiveTrace — the link between activations and the events of the trace that led to
the configuration (`TraceLink`), and the invariants of deadlock freedom bundled
(`live_trace_reach`).
-/
namespace TaskModel.Sched.S7

theorem enterOf_append_some (a : Nat) (t1 t2 : List Label) (v : Kind × Nat) (h : enterOf a t1 = some v) :
    enterOf a (t1 ++ t2) = some v := by
  induction t1 with
  | nil => cases h
  | cons l ls ih =>
    simp only [List.cons_append, enterOf] at h ⊢
    split
    · rename_i hla
      rw [if_pos hla] at h
      cases hev : l.ev <;> rw [hev] at h <;> simp only at h ⊢ <;> first | exact h | exact ih h
    · rename_i hla
      rw [if_neg hla] at h
      exact ih h

theorem enterOf_append_none (a : Nat) (t1 t2 : List Label) (h : enterOf a t1 = none) :
    enterOf a (t1 ++ t2) = enterOf a t2 := by
  induction t1 with
  | nil => rfl
  | cons l ls ih =>
    simp only [List.cons_append, enterOf] at h ⊢
    split
    · rename_i hla
      rw [if_pos hla] at h
      cases hev : l.ev <;> rw [hev] at h <;> simp only at h ⊢ <;> first | exact ih h | cases h
    · rename_i hla
      rw [if_neg hla] at h
      exact ih h

theorem enterOf_not_mem (a : Nat) (tr : List Label) (h : a ∉ actIds tr) : enterOf a tr = none := by
  induction tr with
  | nil => rfl
  | cons l ls ih =>
    simp only [enterOf]
    cases hev : l.ev with
    | enter k t =>
      have hact : actIds (l :: ls) = l.act :: actIds ls := by simp [actIds, hev]
      rw [hact] at h
      have h1 : l.act ≠ a := fun e => h (by rw [e]; exact List.mem_cons_self)
      have h2 : a ∉ actIds ls := fun e => h (List.mem_cons_of_mem _ e)
      rw [if_neg h1]; exact ih h2
    | _ =>
      have hact : actIds (l :: ls) = actIds ls := by simp [actIds, hev]
      rw [hact] at h
      split <;> exact ih h

structure TraceLink (c : Config) (tr : List Label) : Prop where
  ids : IdsInv c tr
  enter : ∀ a x, c.act? a = some x → ∃ kind, enterOf a tr = some (kind, x.task)
  waiter : ∀ a x k, c.act? a = some x → x.waitsFor = some k → (⟨a, .waiter k⟩ : Label) ∈ tr
  register : ∀ a x k, c.act? a = some x → x.key = some k → (⟨a, .register k⟩ : Label) ∈ tr

theorem traceLink_init (n : Nat) : TraceLink (init n) [] := by
  refine ⟨idsInv_init n, ?_, ?_, ?_⟩ <;> intro a x <;> simp [init, Config.act?]

theorem enter_back (P : Program) (F : Flags) (c c' : Config) (a : Nat) (kind : Kind) (t : Nat)
    (h : enterAct P F c a kind t = some c') (b : Nat) (z : Act) (hz : c'.act? b = some z) :
    (b = a ∧ z = freshAct P F c kind t) ∨
    (b ≠ a ∧ ∃ z0 ks, c.act? b = some z0 ∧ z = { z0 with kids := ks }) := by
  obtain ⟨hnone, hnew, hoth⟩ := enterAct_acts P F c c' a kind t h
  by_cases hb : b = a
  · subst hb; rw [hnew] at hz; cases hz; exact .inl ⟨rfl, rfl⟩
  · right
    refine ⟨hb, ?_⟩
    cases hzc : c.act? b with
    | none =>
      exfalso
      rcases hoth b hb with e | ⟨px, _, e1, _, _⟩
      · rw [e, hzc] at hz; cases hz
      · rw [hzc] at e1; cases e1
    | some z0 =>
      obtain ⟨_, ks, e, _⟩ := enter_old P F c c' a kind t h b z0 hzc
      rw [e] at hz; cases hz
      exact ⟨z0, ks, rfl, rfl⟩

theorem traceLink_step (P : Program) (F : Flags) (c : Config) (tr : List Label) (l : Label) (c' : Config)
    (hkeys : ∀ a x, c.act? a = some x → KeyInv x)
    (hinv : TraceLink c tr) (hs : step P F c l = some c') : TraceLink c' (tr ++ [l]) := by
  obtain ⟨hids, hen, hwa, hre⟩ := hinv
  refine ⟨idsInv_step P F c tr l c' hids hs, ?_, ?_, ?_⟩
  all_goals rcases step_cases P F c c' l hs with ⟨k, t, he, henter⟩ | ⟨hne, x, y, eff, hx, hl, rfl⟩
  · -- enter / enter
    intro b z hz
    rcases enter_back P F c c' l.act k t henter b z hz with ⟨rfl, rfl⟩ | ⟨_, z0, ks, hz0, rfl⟩
    · have hnone := (enterAct_acts P F c c' l.act k t henter).1
      have hnot : l.act ∉ actIds tr := by
        intro hin; have := (hids.2 l.act).mp hin; rw [hnone] at this; cases this
      rw [enterOf_append_none _ _ _ (enterOf_not_mem _ _ hnot)]
      refine ⟨k, ?_⟩
      simp [enterOf, he, (freshAct_fields P F c k t).2.2.2.2.2.2.2.2.2.2.2.1]
    · obtain ⟨kind, hk⟩ := hen b z0 hz0
      exact ⟨kind, enterOf_append_some _ _ _ _ hk⟩
  · -- enter / local
    intro b z hz
    by_cases hb : b = l.act
    · subst hb
      rw [act?_set_self] at hz; cases hz
      obtain ⟨kind, hk⟩ := hen l.act x hx
      refine ⟨kind, ?_⟩
      rw [(stepLocal_static F _ x l.ev y eff hl).task]
      exact enterOf_append_some _ _ _ _ hk
    · rw [act?_set_other _ _ _ _ hb, act?_applyEff] at hz
      obtain ⟨kind, hk⟩ := hen b z hz
      exact ⟨kind, enterOf_append_some _ _ _ _ hk⟩
  · -- waiter / enter
    intro b z kk hz hw
    rcases enter_back P F c c' l.act k t henter b z hz with ⟨rfl, rfl⟩ | ⟨_, z0, ks, hz0, rfl⟩
    · rw [(freshAct_fields P F c k t).2.2.2.2.2.2.2.2.1] at hw; cases hw
    · exact List.mem_append_left _ (hwa b z0 kk hz0 hw)
  · -- waiter / local
    intro b z kk hz hw
    by_cases hb : b = l.act
    · subst hb
      rw [act?_set_self] at hz; cases hz
      obtain ⟨_, _, h3, _⟩ := stepLocal_keys F _ x l.ev y eff (hkeys l.act x hx).pre hl
      rcases h3 kk hw with e | ⟨e, _, _⟩
      · exact List.mem_append_left _ (hwa l.act x kk hx e)
      · apply List.mem_append_right
        rw [← e]; exact List.mem_singleton.mpr rfl
    · rw [act?_set_other _ _ _ _ hb, act?_applyEff] at hz
      exact List.mem_append_left _ (hwa b z kk hz hw)
  · -- register / enter
    intro b z kk hz hw
    rcases enter_back P F c c' l.act k t henter b z hz with ⟨rfl, rfl⟩ | ⟨_, z0, ks, hz0, rfl⟩
    · rw [(freshAct_fields P F c k t).2.2.2.2.2.2.2.1] at hw; cases hw
    · exact List.mem_append_left _ (hre b z0 kk hz0 hw)
  · -- register / local
    intro b z kk hz hw
    by_cases hb : b = l.act
    · subst hb
      rw [act?_set_self] at hz; cases hz
      obtain ⟨_, h2, _, _⟩ := stepLocal_keys F _ x l.ev y eff (hkeys l.act x hx).pre hl
      rcases h2 kk hw with e | ⟨e, _⟩
      · exact List.mem_append_left _ (hre l.act x kk hx e)
      · apply List.mem_append_right
        rw [← e]; exact List.mem_singleton.mpr rfl
    · rw [act?_set_other _ _ _ _ hb, act?_applyEff] at hz
      exact List.mem_append_left _ (hre b z kk hz hw)

theorem live_trace_reach (P : Program) (F : Flags) (n : Nat) (tr : List Label) (c : Config)
    (h : replay P F (init n) tr = some c) : Live P c ∧ TraceLink c tr ∧ TokInv c tr := by
  have := replay_inv_tr P F (fun c tr => Live P c ∧ TraceLink c tr ∧ TokInv c tr)
    (fun c tr l c' hinv hs => ⟨live_step P F c l c' hinv.1 hs,
      traceLink_step P F c tr l c' (fun a x hx => (hinv.1.loc a x hx).keys) hinv.2.1 hs,
      tokInv_step P F c tr l c' hinv.2.2 hs⟩)
    n ⟨live_init P n, traceLink_init n,
       ⟨idsInv_init n, by intro a x hx; simp [init, Config.act?] at hx, rfl⟩⟩ tr c h
  exact this

end TaskModel.Sched.S7
