import TaskModel.Sched.SeqLemmas
import TaskModel.Sched.LStep
/-! Frame facts about `stepLocal`: what a local step never changes, which phases it can
leave and how. Used by the tree invariant (`TreeLemmas.lean`) and by `Props/C02`, `Props/C03`. -/
namespace TaskModel.Sched.S2

/-- the fields no local step changes -/
def Frame (x y : Act) : Prop :=
  y.kids = x.kids ∧ y.def_ = x.def_ ∧ y.kind = x.kind ∧ y.task = x.task ∧ y.indirect = x.indirect

theorem Frame.rfl' (x : Act) : Frame x x := ⟨rfl, rfl, rfl, rfl, rfl⟩

theorem Frame.trans {x y z : Act} (h1 : Frame x y) (h2 : Frame y z) : Frame x z := by
  obtain ⟨a1, a2, a3, a4, a5⟩ := h1
  obtain ⟨b1, b2, b3, b4, b5⟩ := h2
  exact ⟨b1.trans a1, b2.trans a2, b3.trans a3, b4.trans a4, b5.trans a5⟩

theorem next_frame (x : Act) (cs : List Cmd) (i : Nat) : Frame x (x.next cs i) := by
  unfold Act.next
  split
  split <;> exact ⟨rfl, rfl, rfl, rfl, rfl⟩

theorem fail_frame (x : Act) (r : Res) : Frame x (x.fail r) := ⟨rfl, rfl, rfl, rfl, rfl⟩
theorem stop_frame (x : Act) (r : Res) : Frame x (x.stop r) := ⟨rfl, rfl, rfl, rfl, rfl⟩

theorem afterCmd_frame (x : Act) (c : Cmd) (r : Res) : Frame x (x.afterCmd c r) := by
  unfold Act.afterCmd
  simp only
  split
  · exact next_frame x _ _
  · split
    · exact next_frame x _ _
    · exact ⟨rfl, rfl, rfl, rfl, rfl⟩
  · exact fail_frame x _

theorem afterDefer_frame (x : Act) : Frame x x.afterDefer := by
  unfold Act.afterDefer
  split <;> exact ⟨rfl, rfl, rfl, rfl, rfl⟩

theorem next_more (x : Act) (cs : List Cmd) (i : Nat) :
    (x.next cs i).started = x.started ∧ (x.next cs i).res = x.res ∧ (x.next cs i).callRes = x.callRes ∧
    (x.next cs i).key = x.key ∧ (x.next cs i).waitsFor = x.waitsFor := by
  unfold Act.next
  split
  split <;> simp

theorem fail_phase (x : Act) (r : Res) : (x.fail r).phase = .defers ∨ (x.fail r).phase = .finished := by
  unfold Act.fail
  by_cases h : x.stack.isEmpty = true
  · right; simp [h]
  · left; simp [h]

theorem afterCmd_phase (x : Act) (c : Cmd) (r : Res) :
    (x.afterCmd c r).phase = .body ∨ (x.afterCmd c r).phase = .defers ∨ (x.afterCmd c r).phase = .finished := by
  have hn : ∀ cs i, (x.next cs i).phase = .body ∨ (x.next cs i).phase = .defers ∨ (x.next cs i).phase = .finished := by
    intro cs i
    rcases next_phase x cs i with h | ⟨h, _⟩ | ⟨h, _⟩
    · exact .inl h
    · exact .inr (.inl h)
    · exact .inr (.inr h)
  unfold Act.afterCmd
  simp only
  split
  · exact hn _ _
  · split
    · exact hn _ _
    · exact .inr (fail_phase _ _)
  · exact .inr (fail_phase _ _)

theorem afterCmd_started (x : Act) (c : Cmd) (r : Res) : (x.afterCmd c r).started = x.started := by
  unfold Act.afterCmd
  simp only
  split
  · exact (next_more x _ _).1
  · split
    · exact (next_more x _ _).1
    · rfl
  · rfl

theorem afterDefer_phase (x : Act) : x.afterDefer.phase = .defers ∨ x.afterDefer.phase = .finished := by
  unfold Act.afterDefer
  split
  · right; rfl
  · rename_i i st _
    by_cases h : st.isEmpty = true
    · right; simp [h]
    · left; simp [h]

theorem afterDefer_fields (x : Act) :
    x.afterDefer.regs = x.regs ∧ x.afterDefer.started = x.started ∧ x.afterDefer.res = x.res ∧
    x.afterDefer.callRes = x.callRes ∧ x.afterDefer.idx = x.idx ∧ x.afterDefer.rest = x.rest ∧
    x.afterDefer.exitCode = x.exitCode ∧ x.afterDefer.key = x.key ∧ x.afterDefer.waitsFor = x.waitsFor := by
  unfold Act.afterDefer
  split <;> simp

theorem next_out (x : Act) (cs : List Cmd) (i : Nat) : (x.next cs i).out = x.out := by
  unfold Act.next
  split
  split <;> simp

theorem afterDefer_out (x : Act) : x.afterDefer.out = x.out := by
  unfold Act.afterDefer
  split <;> simp

/-- a local step changes neither the kids, the task definition, the kind nor the call mode,
and no step leaves phase `done` -/
theorem stepLocal_frame (F : Flags) (o : Obs) (x : Act) (ev : Ev) (y : Act) (eff : Eff)
    (h : stepLocal F o x ev = some (y, eff)) : Frame x y ∧ x.phase ≠ .done := by
  have hL := LStep_of_stepLocal F o x ev y eff h
  cases hL
  all_goals (refine ⟨?_, by clear h; intro hd; simp_all⟩)
  all_goals first
    | exact ⟨rfl, rfl, rfl, rfl, rfl⟩
    | exact next_frame x _ _
    | exact afterCmd_frame x _ _
    | exact afterDefer_frame x
    | exact Frame.trans (y := { x with holds := true }) ⟨rfl, rfl, rfl, rfl, rfl⟩ (afterCmd_frame _ _ _)
    | exact Frame.trans (y := { x with holds := true }) ⟨rfl, rfl, rfl, rfl, rfl⟩ (afterDefer_frame _)

end TaskModel.Sched.S2
