import TaskModel.Sched.LiveLemmas
import TaskModel.Sched.TermLemmas
/-!
Sched.LiveInv — the global invariant behind deadlock freedom and its preservation by
every step.
-/
namespace TaskModel.Sched.S7

structure Live (P : Program) (c : Config) : Prop where
  loc : ∀ a x, c.act? a = some x → LocalLive P x
  kids : ∀ a x s id, c.act? a = some x → x.kids.lookup s = some id →
    ∃ k, c.act? id = some k ∧ slotFor x s k.task
  execs : ∀ k e, c.execs.lookup k = some e → ∃ ex, c.act? e = some ex ∧ ex.key = some k
  waits : ∀ a x k, c.act? a = some x → x.waitsFor = some k → (c.execs.lookup k).isSome = true
  joined : ∀ a x, c.act? a = some x → x.phase = .depsJoined →
    (depResults c x x.def_.deps.length 0).isSome = true

theorem live_init (P : Program) (n : Nat) : Live P (init n) := by
  constructor
  · intro a x h; simp [init, Config.act?] at h
  · intro a x s id h; simp [init, Config.act?] at h
  · intro k e h; simp [init] at h
  · intro a x k h; simp [init, Config.act?] at h
  · intro a x h; simp [init, Config.act?] at h

theorem slotFor_kids (x : Act) (ks : List (Nat × Nat)) (s t : Nat) : slotFor { x with kids := ks } s t ↔ slotFor x s t :=
  Iff.rfl

theorem live_enter (P : Program) (F : Flags) (c c' : Config) (a : Nat) (kind : Kind) (t : Nat)
    (hl : Live P c) (h : enterAct P F c a kind t = some c') : Live P c' := by
  obtain ⟨hnone, hnew, _, hcase⟩ := enterAct_cases P F c c' a kind t h
  have hfr := enterAct_frame P F c c' a kind t h
  have hold := enter_old P F c c' a kind t h
  have hft : (freshAct P F c kind t).task = t := (freshAct_fields P F c kind t).2.2.2.2.2.2.2.2.2.2.2.1
  have hfk : (freshAct P F c kind t).kids = [] := (freshAct_fields P F c kind t).2.2.2.2.2.2.2.2.2.1
  have hfw : (freshAct P F c kind t).waitsFor = none := (freshAct_fields P F c kind t).2.2.2.2.2.2.2.2.1
  have hfp := (freshAct_fields P F c kind t).1
  -- every activation of c' is the fresh one or an old one up to `kids`
  have hback : ∀ b y, c'.act? b = some y →
      (b = a ∧ y = freshAct P F c kind t) ∨ (b ≠ a ∧ ∃ z, c.act? b = some z ∧ ∃ ks, y = { z with kids := ks } ∧
        (ks = z.kids ∨ z.phase = .depsWait ∨ ∃ i d, z.phase = .inCall i d)) := by
    intro b y hy
    by_cases hba : b = a
    · subst hba; rw [hnew] at hy; cases hy; exact .inl ⟨rfl, rfl⟩
    · right
      refine ⟨hba, ?_⟩
      cases hz : c.act? b with
      | none =>
        exfalso
        obtain ⟨_, _, hoth⟩ := enterAct_acts P F c c' a kind t h
        rcases hoth b hba with e | ⟨px, _, e1, _, _⟩
        · rw [e, hz] at hy; cases hy
        · rw [hz] at e1; cases e1
      | some z =>
        obtain ⟨_, ks, e, hks⟩ := hold b z hz
        rw [e] at hy; cases hy
        exact ⟨z, rfl, ks, rfl, hks⟩
  have htask : ∀ id k, c.act? id = some k → ∃ k', c'.act? id = some k' ∧ k'.task = k.task := by
    intro id k hk
    obtain ⟨_, ks, e, _⟩ := hold id k hk
    exact ⟨_, e, rfl⟩
  constructor
  · -- loc
    intro b y hy
    rcases hback b y hy with ⟨_, rfl⟩ | ⟨_, z, hz, ks, rfl, _⟩
    · exact localLive_fresh P F c kind t
    · exact localLive_kids P z ks (hl.loc b z hz)
  · -- kids
    intro b y s id hy hlk
    rcases hback b y hy with ⟨_, rfl⟩ | ⟨hba, z, hz, ks, rfl, _⟩
    · rw [hfk] at hlk; cases hlk
    · -- which kids does b have in c'?
      rcases hcase with ⟨k', _, _, _, hoth⟩ | ⟨p, px, s0, hpx, hfree, hslot, _, hpa, hp', hoth, _⟩
      · have e := hoth b hba
        rw [hy, hz] at e
        have hks : ks = z.kids := by
          have := congrArg (fun o => o.map Act.kids) e; simpa using this
        simp only [hks] at hlk
        obtain ⟨k, hk, hs⟩ := hl.kids b z s id hz hlk
        obtain ⟨k', hk', ht'⟩ := htask id k hk
        exact ⟨k', hk', by rw [ht']; exact hs⟩
      · by_cases hbp : b = p
        · subst hbp
          rw [hz] at hpx; cases hpx
          rw [hy] at hp'
          have hks : ks = (s0, a) :: z.kids := by
            have := congrArg (fun o => o.map Act.kids) hp'; simpa using this
          simp only [hks] at hlk
          by_cases hs : s = s0
          · subst hs
            rw [lookup_cons_self] at hlk
            cases hlk
            exact ⟨_, hnew, by rw [hft]; exact hslot⟩
          · rw [lookup_cons_ne _ _ _ _ hs] at hlk
            obtain ⟨k, hk, hsl⟩ := hl.kids b z s id hz hlk
            obtain ⟨k', hk', ht'⟩ := htask id k hk
            exact ⟨k', hk', by rw [ht']; exact hsl⟩
        · have e := hoth b hba hbp
          rw [hy, hz] at e
          have hks : ks = z.kids := by
            have := congrArg (fun o => o.map Act.kids) e; simpa using this
          simp only [hks] at hlk
          obtain ⟨k, hk, hs⟩ := hl.kids b z s id hz hlk
          obtain ⟨k', hk', ht'⟩ := htask id k hk
          exact ⟨k', hk', by rw [ht']; exact hs⟩
  · -- execs
    intro k e he
    rw [hfr.2.1] at he
    obtain ⟨ex, hex, hkey⟩ := hl.execs k e he
    obtain ⟨_, ks, e', _⟩ := hold e ex hex
    exact ⟨_, e', hkey⟩
  · -- waits
    intro b y k hy hw
    rw [hfr.2.1]
    rcases hback b y hy with ⟨_, rfl⟩ | ⟨_, z, hz, ks, rfl, _⟩
    · rw [hfw] at hw; cases hw
    · exact hl.waits b z k hz hw
  · -- joined
    intro b y hy hp
    rcases hback b y hy with ⟨_, rfl⟩ | ⟨_, z, hz, ks, rfl, hks⟩
    · rcases hfp with e | e <;> rw [e] at hp <;> cases hp
    · have hzp : z.phase = .depsJoined := hp
      have hks' : ks = z.kids := by
        rcases hks with e | e | ⟨i, d, e⟩
        · exact e
        · rw [e] at hzp; cases hzp
        · rw [e] at hzp; cases hzp
      subst hks'
      have hj := hl.joined b z hz hzp
      cases hd : depResults c z z.def_.deps.length 0 with
      | none => rw [hd] at hj; cases hj
      | some rs =>
        have := depResults_stable c c' z (kidDone_enter P F c c' a kind t h) _ _ rs hd
        have e2 : depResults c' { z with kids := z.kids } z.def_.deps.length 0 = depResults c' z z.def_.deps.length 0 :=
          depResults_kids c' z _ rfl _ _
        show (depResults c' { z with kids := z.kids } z.def_.deps.length 0).isSome = true
        rw [e2, this]; rfl

theorem execs_mono (c : Config) (a : Nat) (y : Act) (eff : Eff) (k : Nat)
    (h : (c.execs.lookup k).isSome = true) : (((applyEff c a eff).set a y).execs.lookup k).isSome = true := by
  cases eff with
  | reg k0 =>
    show (List.lookup k ((k0, a) :: c.execs)).isSome = true
    by_cases hk : k = k0
    · subst hk; simp
    · rw [lookup_cons_ne _ _ _ _ hk]; exact h
  | _ => exact h

theorem live_local (P : Program) (F : Flags) (c : Config) (a : Nat) (x y : Act) (ev : Ev) (eff : Eff)
    (hl : Live P c) (hx : c.act? a = some x) (h : stepLocal F (obsOf F c a x) x ev = some (y, eff)) :
    Live P ((applyEff c a eff).set a y) := by
  have hst := stepLocal_static F _ x ev y eff h
  have hlx := hl.loc a x hx
  obtain ⟨_, hk2, hk3, hk4, _, hk6⟩ := stepLocal_keys F _ x ev y eff hlx.keys.pre h
  have heff := stepLocal_eff F _ x ev y eff h
  -- activations of the new configuration
  have hback : ∀ b z, ((applyEff c a eff).set a y).act? b = some z →
      (b = a ∧ z = y) ∨ (b ≠ a ∧ c.act? b = some z) := by
    intro b z hz
    by_cases hba : b = a
    · subst hba; rw [act?_set_self] at hz; cases hz; exact .inl ⟨rfl, rfl⟩
    · rw [act?_set_other _ _ _ _ hba, act?_applyEff] at hz; exact .inr ⟨hba, hz⟩
  have htask : ∀ id k, c.act? id = some k →
      ∃ k', ((applyEff c a eff).set a y).act? id = some k' ∧ k'.task = k.task ∧ (k.key ≠ none → k'.key = k.key) := by
    intro id k hk
    by_cases hia : id = a
    · subst hia
      rw [hx] at hk; cases hk
      refine ⟨y, by simp, hst.task, ?_⟩
      intro hne
      cases hkk : x.key with
      | none => exact absurd hkk hne
      | some kk => exact hk4 kk hkk
    · exact ⟨k, by rw [act?_set_other _ _ _ _ hia, act?_applyEff]; exact hk, rfl, fun _ => rfl⟩
  have hkd := kidDone_local F c a x y ev eff hx h
  constructor
  · -- loc
    intro b z hz
    rcases hback b z hz with ⟨_, rfl⟩ | ⟨_, hz'⟩
    · exact localLive_local P F _ x ev z eff hlx h
    · exact hl.loc b z hz'
  · -- kids
    intro b z s id hz hlk
    rcases hback b z hz with ⟨_, rfl⟩ | ⟨_, hz'⟩
    · rw [hst.kids] at hlk
      obtain ⟨k, hk, hs⟩ := hl.kids a x s id hx hlk
      obtain ⟨k', hk', ht', _⟩ := htask id k hk
      refine ⟨k', hk', ?_⟩
      rw [ht']
      unfold slotFor at hs ⊢
      rw [hst.def_]; exact hs
    · obtain ⟨k, hk, hs⟩ := hl.kids b z s id hz' hlk
      obtain ⟨k', hk', ht', _⟩ := htask id k hk
      exact ⟨k', hk', by rw [ht']; exact hs⟩
  · -- execs
    intro k e he
    have hold : ∀ e, c.execs.lookup k = some e →
        ∃ ex, ((applyEff c a eff).set a y).act? e = some ex ∧ ex.key = some k := by
      intro e he
      obtain ⟨ex, hex, hkey⟩ := hl.execs k e he
      obtain ⟨ex', hex', _, hk'⟩ := htask e ex hex
      exact ⟨ex', hex', by rw [hk' (by rw [hkey]; simp)]; exact hkey⟩
    cases heq : eff with
    | reg k0 =>
      subst heq
      have he' : List.lookup k ((k0, a) :: c.execs) = some e := he
      by_cases hk : k = k0
      · subst hk
        rw [lookup_cons_self] at he'
        cases he'
        exact ⟨y, by simp, hk6 k rfl⟩
      · rw [lookup_cons_ne _ _ _ _ hk] at he'
        exact hold e he'
    | none => subst heq; exact hold e he
    | acq => subst heq; exact hold e he
    | rel => subst heq; exact hold e he
    | wait k0 => subst heq; exact hold e he
  · -- waits
    intro b z k hz hw
    rcases hback b z hz with ⟨_, rfl⟩ | ⟨_, hz'⟩
    · rcases hk3 k hw with e | ⟨_, hreg, _⟩
      · exact execs_mono c a z eff k (hl.waits a x k hx e)
      · exact execs_mono c a z eff k hreg
    · exact execs_mono c a y eff k (hl.waits b z k hz' hw)
  · -- joined
    intro b z hz hp
    rcases hback b z hz with ⟨_, rfl⟩ | ⟨_, hz'⟩
    · obtain ⟨_, hdeps⟩ := stepLocal_depsJoined F _ x ev z eff h hp
      have hd0 : (depResults c x x.def_.deps.length 0).isSome = true := hdeps
      cases hd : depResults c x x.def_.deps.length 0 with
      | none => rw [hd] at hd0; cases hd0
      | some rs =>
        have := depResults_stable c ((applyEff c a eff).set a z) x hkd _ _ rs hd
        rw [hst.def_, depResults_kids _ x z hst.kids, this]; rfl
    · have hj := hl.joined b z hz' hp
      cases hd : depResults c z z.def_.deps.length 0 with
      | none => rw [hd] at hj; cases hj
      | some rs =>
        rw [depResults_stable c ((applyEff c a eff).set a y) z hkd _ _ rs hd]; rfl

theorem live_step (P : Program) (F : Flags) (c : Config) (l : Label) (c' : Config)
    (hl : Live P c) (hs : step P F c l = some c') : Live P c' := by
  rcases step_cases P F c c' l hs with ⟨k, t, _, hen⟩ | ⟨_, x, y, eff, hx, hst, rfl⟩
  · exact live_enter P F c c' l.act k t hl hen
  · exact live_local P F c l.act x y l.ev eff hl hx hst

theorem live_reach (P : Program) (F : Flags) (n : Nat) (tr : List Label) (c : Config)
    (h : replay P F (init n) tr = some c) : Live P c :=
  replay_inv P F (Live P) (fun c l c' hl hs => live_step P F c l c' hl hs) (init n) tr c (live_init P n) h

end TaskModel.Sched.S7
