import TaskModel.Sched.LiveMain
import TaskModel.Sched.KidInv
/-!
Sched.WaitGraph — the wait-for relation between registered executions (`Config.waits`,
`execution.waits` in task.go) as a graph: edges whose source has not finished (`WEdge`),
paths (`WPath`), and the executable reachability check `reaches` / `Config.execWaitsFor`
the model's `waiter` / `waitCycle` rules evaluate (`other.waitsFor(parent)`).

* `reaches_sound` / `reaches_complete`: `reaches c fuel k p` holds iff there is a path of at
  most `fuel` edges.
* `path_rank`: under a rank that decreases along every edge, a path visits each execution at
  most once — so its sources are distinct registered executions and `fuel = number of
  registered executions` is enough (`execWaitsFor_complete`).
-/
namespace TaskModel.Sched.S7

/-! ### lists -/

theorem nodup_subset_length : ∀ (l m : List Nat), l.Nodup → (∀ x ∈ l, x ∈ m) → l.length ≤ m.length := by
  intro l
  induction l with
  | nil => intro m _ _; exact Nat.zero_le _
  | cons a l ih =>
    intro m hnd hsub
    have hnd' := List.nodup_cons.mp hnd
    have ham : a ∈ m := hsub a List.mem_cons_self
    have hsub' : ∀ x ∈ l, x ∈ m.erase a := by
      intro x hx
      have hxa : x ≠ a := fun e => hnd'.1 (e ▸ hx)
      exact (List.mem_erase_of_ne hxa).mpr (hsub x (List.mem_cons_of_mem _ hx))
    have h1 := ih (m.erase a) hnd'.2 hsub'
    have h2 : (m.erase a).length = m.length - 1 := List.length_erase_of_mem ham
    have h3 : 0 < m.length := List.length_pos_of_mem ham
    simp only [List.length_cons]
    omega

theorem lookup_mem_pair {β} : ∀ (l : List (Nat × β)) (a : Nat) (x : β), l.lookup a = some x → (a, x) ∈ l := by
  intro l
  induction l with
  | nil => intro a x h; cases h
  | cons q l ih =>
    intro a x h
    obtain ⟨k, v⟩ := q
    simp only [List.lookup] at h
    split at h
    · rename_i he
      have hk : a = k := beq_iff_eq.mp he
      cases h
      rw [hk]; exact List.mem_cons_self
    · exact List.mem_cons_of_mem _ (ih a x h)

theorem lookup_isSome_mem_keys {β} (l : List (Nat × β)) (a : Nat) (h : (l.lookup a).isSome = true) :
    a ∈ l.map Prod.fst := by
  cases hl : l.lookup a with
  | none => rw [hl] at h; cases h
  | some x => exact List.mem_map.mpr ⟨(a, x), lookup_mem_pair l a x hl, rfl⟩

/-! ### edges and paths -/

/-- an edge of the wait-for relation that still counts: its source has not finished -/
def WEdge (c : Config) (s t : Nat) : Prop := (s, t) ∈ c.waits ∧ execFinished c s = false

/-- `WPath c k l p`: a path from `k` to `p` along `WEdge`; `l` lists the sources of its edges
(every execution on the path but the last) -/
inductive WPath (c : Config) : Nat → List Nat → Nat → Prop
  | nil (k : Nat) : WPath c k [] k
  | cons {s m t : Nat} {l : List Nat} : WEdge c s m → WPath c m l t → WPath c s (s :: l) t

theorem reaches_sound (c : Config) : ∀ (f k p : Nat), reaches c f k p = true → ∃ l, WPath c k l p := by
  intro f
  induction f with
  | zero =>
    intro k p h
    simp only [reaches, beq_iff_eq] at h
    subst h; exact ⟨[], .nil k⟩
  | succ f ih =>
    intro k p h
    simp only [reaches, Bool.or_eq_true, beq_iff_eq, Bool.and_eq_true, Bool.not_eq_true', List.any_eq_true] at h
    rcases h with h | ⟨hfin, e, he, hk, hr⟩
    · subst h; exact ⟨[], .nil k⟩
    · obtain ⟨l, hl⟩ := ih e.2 p hr
      subst hk
      exact ⟨e.1 :: l, .cons ⟨he, hfin⟩ hl⟩

theorem reaches_complete (c : Config) (k p : Nat) (l : List Nat) (h : WPath c k l p) :
    ∀ f, l.length ≤ f → reaches c f k p = true := by
  induction h with
  | nil k => intro f _; cases f <;> simp [reaches]
  | @cons s m t l he _ ih =>
    intro f hf
    cases f with
    | zero => simp at hf
    | succ f =>
      have := ih f (by simpa using hf)
      simp only [reaches, Bool.or_eq_true, beq_iff_eq, Bool.and_eq_true, Bool.not_eq_true', List.any_eq_true]
      exact .inr ⟨he.2, (s, m), he.1, rfl, this⟩

/-- along a path the rank decreases: the sources are pairwise distinct -/
theorem path_rank (c : Config) (rk : Nat → Nat) (hrk : ∀ s t, WEdge c s t → rk t < rk s)
    (k p : Nat) (l : List Nat) (h : WPath c k l p) :
    rk p ≤ rk k ∧ (∀ s ∈ l, rk p < rk s ∧ rk s ≤ rk k) ∧ l.Nodup := by
  induction h with
  | nil k => exact ⟨Nat.le_refl _, fun s hs => (by cases hs), List.nodup_nil⟩
  | @cons s m t l he _ ih =>
    obtain ⟨h1, h2, h3⟩ := ih
    have hlt := hrk s m he
    refine ⟨by omega, ?_, ?_⟩
    · intro x hx
      rcases List.mem_cons.mp hx with e | e
      · subst e; exact ⟨by omega, Nat.le_refl _⟩
      · have := h2 x e; exact ⟨this.1, by omega⟩
    · refine List.nodup_cons.mpr ⟨?_, h3⟩
      intro hs
      have := (h2 s hs).2
      omega

/-- every source of an edge of a path is the source of a recorded edge -/
theorem path_sources (c : Config) (k p : Nat) (l : List Nat) (h : WPath c k l p) :
    ∀ s ∈ l, ∃ t, (s, t) ∈ c.waits := by
  induction h with
  | nil k => intro s hs; cases hs
  | @cons s m t l he _ ih =>
    intro x hx
    rcases List.mem_cons.mp hx with e | e
    · subst e; exact ⟨m, he.1⟩
    · exact ih x e

/-- a path that comes back to where it started (with at least one edge) is excluded by a rank -/
theorem no_cycle_of_rank (c : Config) (rk : Nat → Nat) (hrk : ∀ s t, WEdge c s t → rk t < rk s)
    (k s : Nat) (l : List Nat) : ¬ WPath c k (s :: l) k := by
  intro h
  have := (path_rank c rk hrk k k (s :: l) h).2.1
  cases h with
  | cons he hp =>
    have := (this k List.mem_cons_self).1
    omega

/-- with a rank and sources that are registered executions, the fuel of `execWaitsFor` suffices -/
theorem execWaitsFor_complete (c : Config) (rk : Nat → Nat) (hrk : ∀ s t, WEdge c s t → rk t < rk s)
    (hsrc : ∀ s t, (s, t) ∈ c.waits → (c.execs.lookup s).isSome = true)
    (k p : Nat) (l : List Nat) (h : WPath c k l p) : c.execWaitsFor k p = true := by
  apply reaches_complete c k p l h
  have hnd := (path_rank c rk hrk k p l h).2.2
  have hsub : ∀ s ∈ l, s ∈ c.execs.map Prod.fst := by
    intro s hs
    obtain ⟨t, ht⟩ := path_sources c k p l h s hs
    exact lookup_isSome_mem_keys c.execs s (hsrc s t ht)
  have := nodup_subset_length l (c.execs.map Prod.fst) hnd hsub
  simpa using this

end TaskModel.Sched.S7
