import TaskModel.Sched.WaitGraph
import TaskModel.Sched.GlobalLemmas
/-!
Sched.WaitInv — the invariant behind the wait-for check of `startExecution` (fix of
`C07-once-cycle-deadlocks`): in every reachable configuration the wait-for relation between
executions, restricted to edges whose source has not finished, is acyclic — witnessed by a
rank that decreases along every such edge (`WInv.rank`).

Why it is preserved: a registration adds an edge to a brand-new execution (no edge leaves
it); a waiter adds the edge `p → k` only when `k` does not reach `p` (`cyc k = false`, and
`reaches` is complete because of the rank the configuration has so far), so every
execution that reaches `p` can be lifted above `k`; finishing an execution only removes
edges.  The rest of `WInv` is bookkeeping: edges join registered executions, an activation's
`par` is the `inner` execution of the activation that created it, and the edge for a
registration / a wait made from within an execution is recorded.
-/
namespace TaskModel.Sched.S7

/-! ### `par` is fixed at creation; `inner` changes only by `register` -/

theorem next_par (x : Act) (cs : List Cmd) (i : Nat) : (x.next cs i).par = x.par := by
  unfold Act.next
  split
  split <;> rfl

theorem afterCmd_par (x : Act) (c : Cmd) (r : Res) : (x.afterCmd c r).par = x.par := by
  unfold Act.afterCmd
  simp only
  split
  · exact next_par _ _ _
  · split
    · exact next_par _ _ _
    · rfl
  · rfl

theorem afterDefer_par (x : Act) : x.afterDefer.par = x.par := by
  unfold Act.afterDefer
  split <;> rfl

theorem stepLocal_par (F : Flags) (o : Obs) (x : Act) (ev : Ev) (y : Act) (eff : Eff)
    (h : stepLocal F o x ev = some (y, eff)) : y.par = x.par := by
  have hL := S2.LStep_of_stepLocal F o x ev y eff h
  cases hL <;> first
    | rfl
    | exact next_par _ _ _
    | exact afterCmd_par _ _ _
    | exact afterDefer_par _

theorem inner_of (x y : Act) (hk : y.key = x.key) (hp : y.par = x.par) : y.inner = x.inner := by
  unfold Act.inner; rw [hk, hp]

/-- a local step leaves the `inner` execution alone unless it is the registration itself -/
theorem stepLocal_inner (F : Flags) (o : Obs) (x : Act) (ev : Ev) (y : Act) (eff : Eff)
    (h : stepLocal F o x ev = some (y, eff)) :
    y.inner = x.inner ∨ (x.phase = .acquired ∧ ∃ k, ev = .register k) := by
  have hL := S2.LStep_of_stepLocal F o x ev y eff h
  cases hL
  case register k hp hr hk => exact .inr ⟨hp, k, rfl⟩
  all_goals left
  all_goals first
    | rfl
    | exact inner_of _ _ (next_static _ _ _).2.2.1 (next_par _ _ _)
    | exact inner_of _ _ (afterCmd_static _ _ _).2.2.1 (afterCmd_par _ _ _)
    | exact inner_of _ _ (afterDefer_static _).2.2.1 (afterDefer_par _)

/-- what the `wait` effect stands for -/
theorem stepLocal_wait (F : Flags) (o : Obs) (x : Act) (ev : Ev) (y : Act) (k : Nat)
    (h : stepLocal F o x ev = some (y, .wait k)) :
    ev = .waiter k ∧ x.phase = .acquired ∧ o.registered k = true ∧ o.cyc k = false ∧
    y = { x with phase := .wWaiting, waitsFor := some k } := by
  have hL := S2.LStep_of_stepLocal F o x ev y _ h
  cases hL with
  | waiter k hp hr hk hcyc => exact ⟨rfl, hp, hk, hcyc, rfl⟩

/-- what the `reg` effect stands for -/
theorem stepLocal_reg (F : Flags) (o : Obs) (x : Act) (ev : Ev) (y : Act) (k : Nat)
    (h : stepLocal F o x ev = some (y, .reg k)) :
    ev = .register k ∧ x.phase = .acquired ∧ o.registered k = false ∧
    y = { x with phase := .exec, key := some k } := by
  have hL := S2.LStep_of_stepLocal F o x ev y _ h
  cases hL with
  | register k hp hr hk => exact ⟨rfl, hp, hk, rfl⟩

/-! ### finished executions stay finished -/

theorem fin_mono_step (P : Program) (F : Flags) (c c' : Config) (l : Label) (h : step P F c l = some c')
    (k : Nat) (hf : execFinished c k = true) : execFinished c' k = true := by
  unfold execFinished at hf ⊢
  cases hr : execResultOf c (some k) with
  | none => rw [hr] at hf; cases hf
  | some r => rw [step_execResultOf P F c c' l h k r hr]; rfl

theorem execFinished_lookup (c : Config) (k : Nat) (h : (c.execs.lookup k) = none) : execFinished c k = false := by
  unfold execFinished execResultOf
  simp [h]

/-- an execution whose activation is in a phase before `execDoneP` has not finished -/
theorem execFinished_phase (c : Config) (k e : Nat) (ex : Act) (he : c.execs.lookup k = some e)
    (hex : c.act? e = some ex) (hp : exFin ex.phase = false) : execFinished c k = false := by
  unfold execFinished execResultOf
  simp only [he, hex]
  cases hph : ex.phase <;> simp_all [exFin]

/-! ### the edges only grow -/

theorem waits_mono (c : Config) (a : Nat) (y : Act) (eff : Eff) (e : Nat × Nat) (h : e ∈ c.waits) :
    e ∈ ((applyEff c a eff).set a y).waits := by
  cases eff with
  | none => exact h
  | acq => exact h
  | rel => exact h
  | reg k =>
    show e ∈ addWait c a k
    unfold addWait; split
    · split
      · exact List.mem_cons_of_mem _ h
      · exact h
    · exact h
  | wait k =>
    show e ∈ addWait c a k
    unfold addWait; split
    · split
      · exact List.mem_cons_of_mem _ h
      · exact h
    · exact h

theorem addWait_some (c : Config) (a k : Nat) (x : Act) (p : Nat) (hx : c.act? a = some x) (hp : x.par = some p) :
    addWait c a k = (p, k) :: c.waits := by
  unfold addWait; simp [hx, hp]

theorem addWait_none (c : Config) (a k : Nat) (x : Act) (hx : c.act? a = some x) (hp : x.par = none) :
    addWait c a k = c.waits := by
  unfold addWait; simp [hx, hp]

theorem waits_local (c : Config) (a : Nat) (x y : Act) (eff : Eff) (hx : c.act? a = some x) :
    ((applyEff c a eff).set a y).waits =
      (match eff, x.par with
       | .reg k, some p => (p, k) :: c.waits
       | .wait k, some p => (p, k) :: c.waits
       | _, _ => c.waits) := by
  cases eff with
  | none => rfl
  | acq => rfl
  | rel => rfl
  | reg k =>
    show addWait c a k = _
    cases hp : x.par with
    | none => exact addWait_none c a k x hx hp
    | some p => exact addWait_some c a k x p hx hp
  | wait k =>
    show addWait c a k = _
    cases hp : x.par with
    | none => exact addWait_none c a k x hx hp
    | some p => exact addWait_some c a k x p hx hp

theorem enterAct_waits (P : Program) (F : Flags) (c c' : Config) (a : Nat) (kind : Kind) (t : Nat)
    (h : enterAct P F c a kind t = some c') : c'.waits = c.waits := by
  have hb : (bumpCalls P c t).waits = c.waits := by
    unfold bumpCalls; split
    · split <;> rfl
    · rfl
  unfold enterAct at h
  split at h
  · cases h
  · split at h
    · cases h
    · cases h; exact hb
    · cases h; exact hb

/-! ### the invariant -/

structure WInv (c : Config) : Prop where
  /-- the relation restricted to unfinished sources is acyclic: some rank decreases along it -/
  rank : ∃ rk : Nat → Nat, ∀ s t, WEdge c s t → rk t < rk s
  /-- edges join registered executions -/
  reg : ∀ s t, (s, t) ∈ c.waits → (c.execs.lookup s).isSome = true ∧ (c.execs.lookup t).isSome = true
  /-- the execution an activation is part of is registered -/
  parReg : ∀ a x p, c.act? a = some x → x.par = some p → (c.execs.lookup p).isSome = true
  /-- the activation that registered a key is the one recorded for it -/
  keyReg : ∀ a x k, c.act? a = some x → x.key = some k → c.execs.lookup k = some a
  /-- a child is part of its creator's `inner` execution -/
  kidPar : ∀ a x s id k, c.act? a = some x → x.kids.lookup s = some id → c.act? id = some k → k.par = x.inner
  /-- an activation that is part of an execution has been created by another activation -/
  hasParent : ∀ b y, c.act? b = some y → y.par ≠ none → ∃ a x s, c.act? a = some x ∧ x.kids.lookup s = some b
  /-- a registration from within an execution is recorded as an edge -/
  keyEdge : ∀ a x k p, c.act? a = some x → x.key = some k → x.par = some p → (p, k) ∈ c.waits
  /-- so is a wait -/
  waitEdge : ∀ a x k p, c.act? a = some x → x.waitsFor = some k → x.par = some p → (p, k) ∈ c.waits

theorem wInv_init (n : Nat) : WInv (init n) := by
  refine ⟨⟨fun _ => 0, ?_⟩, ?_, ?_, ?_, ?_, ?_, ?_, ?_⟩
  · intro s t h; exact absurd h.1 (by simp [init])
  · intro s t h; simp [init] at h
  all_goals (intros; simp_all [init, Config.act?])

theorem freshAct_par (P : Program) (F : Flags) (c : Config) (kind : Kind) (t : Nat) :
    (freshAct P F c kind t).par = parentExec c kind := by
  simp only [freshAct]
  cases earlyResult P[t]? (c.callCount t + 1) F.maxCalls <;> rfl

theorem inner_some_reg (c : Config) (hw : WInv c) (a : Nat) (x : Act) (p : Nat) (hx : c.act? a = some x)
    (hi : x.inner = some p) : (c.execs.lookup p).isSome = true := by
  unfold Act.inner at hi
  cases hk : x.key with
  | some k =>
    rw [hk] at hi; simp only [Option.some.injEq] at hi; subst hi
    rw [hw.keyReg a x k hx hk]; rfl
  | none =>
    rw [hk] at hi
    exact hw.parReg a x p hx hi

/-- `enter` preserves the invariant -/
theorem wInv_enter (P : Program) (F : Flags) (c c' : Config) (l : Label) (kind : Kind) (t : Nat)
    (hl : Live P c) (hw : WInv c) (hs : step P F c l = some c') (hen : enterAct P F c l.act kind t = some c') :
    WInv c' := by
  have hwaits := enterAct_waits P F c c' l.act kind t hen
  obtain ⟨hnone, hnew, hexecs, hk⟩ := enterAct_kind P F c c' l.act kind t hen
  have hfk := (freshAct_fields P F c kind t).2.2.2.2.2.2.2.1
  have hfw := (freshAct_fields P F c kind t).2.2.2.2.2.2.2.2.1
  have hfkids := (freshAct_fields P F c kind t).2.2.2.2.2.2.2.2.2.1
  -- every activation of c' is the fresh one or an old one up to `kids`
  have hback := enter_back P F c c' l.act kind t hen
  have hold := enter_old P F c c' l.act kind t hen
  -- the new activation's `par`, if any, is its creator's `inner`
  have hfpar : ∀ p, (freshAct P F c kind t).par = some p →
      ∃ b px slot, c.act? b = some px ∧ px.inner = some p ∧ b ≠ l.act ∧
        c'.act? b = some { px with kids := (slot, l.act) :: px.kids } := by
    intro p hp
    rw [freshAct_par] at hp
    rcases hk with ⟨k0, rfl, _⟩ | ⟨b, px, slot, hne, hpx, _, hg, hb', _⟩
    · cases hp
    · refine ⟨b, px, slot, hpx, ?_, hne, hb'⟩
      cases hg with
      | dep j e _ _ _ => subst e; simpa [parentExec, hpx] using hp
      | call i d e _ _ _ => subst e; simpa [parentExec, hpx] using hp
  refine ⟨?_, ?_, ?_, ?_, ?_, ?_, ?_, ?_⟩
  · -- rank
    obtain ⟨rk, hrk⟩ := hw.rank
    refine ⟨rk, ?_⟩
    intro s t he
    apply hrk s t
    refine ⟨by rw [← hwaits]; exact he.1, ?_⟩
    cases hf : execFinished c s with
    | false => rfl
    | true => have := fin_mono_step P F c c' l hs s hf; rw [he.2] at this; cases this
  · intro s t he
    rw [hwaits] at he; rw [hexecs]; exact hw.reg s t he
  · -- parReg
    intro b y p hy hp
    rw [hexecs]
    rcases hback b y hy with ⟨_, rfl⟩ | ⟨_, z0, ks, hz0, rfl⟩
    · obtain ⟨b', px, _, hpx, hin, _, _⟩ := hfpar p hp
      exact inner_some_reg c hw b' px p hpx hin
    · exact hw.parReg b z0 p hz0 hp
  · -- keyReg
    intro b y k hy hkk
    rw [hexecs]
    rcases hback b y hy with ⟨_, rfl⟩ | ⟨_, z0, ks, hz0, rfl⟩
    · rw [hfk] at hkk; cases hkk
    · exact hw.keyReg b z0 k hz0 hkk
  · -- kidPar
    intro b y s id k hy hlk hkid
    -- the kid's `par`
    have hkpar : ∀ k0, c.act? id = some k0 → k.par = k0.par := by
      intro k0 hk0
      obtain ⟨_, ks, e, _⟩ := hold id k0 hk0
      rw [e] at hkid; cases hkid; rfl
    rcases hback b y hy with ⟨_, rfl⟩ | ⟨hba, z0, ks, hz0, rfl⟩
    · rw [hfkids] at hlk; cases hlk
    · -- b is old; its kids are the old ones plus possibly the new activation
      show k.par = z0.inner
      by_cases hid : id = l.act
      · subst hid
        rw [hnew] at hkid; cases hkid
        -- the new activation is a kid of b: b is its creator
        rcases hk with ⟨k0, _, hoth⟩ | ⟨p, px, slot, hne, hpx, hslot, hg, hp', hoth⟩
        · exfalso
          have := hoth b hba
          rw [hy, hz0] at this
          have hks : ks = z0.kids := by
            have := congrArg (fun o => o.map Act.kids) this; simpa using this
          rw [hks] at hlk
          obtain ⟨k1, hk1, _⟩ := hl.kids b z0 s l.act hz0 hlk
          rw [hnone] at hk1; cases hk1
        · by_cases hbp : b = p
          · subst hbp
            rw [hz0] at hpx; cases hpx
            rw [freshAct_par]
            cases hg with
            | dep j e _ _ _ => subst e; simp [parentExec, hz0]
            | call i d e _ _ _ => subst e; simp [parentExec, hz0]
          · exfalso
            have := hoth b hba hbp
            rw [hy, hz0] at this
            have hks : ks = z0.kids := by
              have := congrArg (fun o => o.map Act.kids) this; simpa using this
            rw [hks] at hlk
            obtain ⟨k1, hk1, _⟩ := hl.kids b z0 s l.act hz0 hlk
            rw [hnone] at hk1; cases hk1
      · -- an old kid: it was a kid of b before
        have hlk0 : z0.kids.lookup s = some id := by
          rcases hk with ⟨k0, _, hoth⟩ | ⟨p, px, slot, hne, hpx, hslot, hg, hp', hoth⟩
          · have := hoth b hba
            rw [hy, hz0] at this
            have hks : ks = z0.kids := by
              have := congrArg (fun o => o.map Act.kids) this; simpa using this
            rw [hks] at hlk; exact hlk
          · by_cases hbp : b = p
            · subst hbp
              rw [hz0] at hpx; cases hpx
              rw [hy] at hp'
              have hks : ks = (slot, l.act) :: z0.kids := by
                have := congrArg (fun o => o.map Act.kids) hp'; simpa using this
              rw [hks] at hlk
              by_cases hss : s = slot
              · subst hss
                rw [S2.lookup_cons_self] at hlk
                cases hlk; exact absurd rfl hid
              · rw [S2.lookup_cons_ne _ _ _ _ hss] at hlk; exact hlk
            · have := hoth b hba hbp
              rw [hy, hz0] at this
              have hks : ks = z0.kids := by
                have := congrArg (fun o => o.map Act.kids) this; simpa using this
              rw [hks] at hlk; exact hlk
        obtain ⟨k0, hk0, _⟩ := hl.kids b z0 s id hz0 hlk0
        rw [hkpar k0 hk0]
        exact hw.kidPar b z0 s id k0 hz0 hlk0 hk0
  · -- hasParent
    intro b y hy hp
    rcases hback b y hy with ⟨hbl, rfl⟩ | ⟨hba, z0, ks, hz0, rfl⟩
    · cases hpp : (freshAct P F c kind t).par with
      | none => exact absurd hpp hp
      | some p =>
        obtain ⟨b', px, slot, _, _, _, hb'⟩ := hfpar p hpp
        exact ⟨b', _, slot, hb', by rw [hbl]; exact S2.lookup_cons_self _ _ _⟩
    · obtain ⟨a0, x0, s, hx0, hlk⟩ := hw.hasParent b z0 hz0 hp
      -- the old parent is still there, with at least its old kids
      rcases hk with ⟨k0, _, hoth⟩ | ⟨p, px, slot, hne, hpx, hslot, hg, hp', hoth⟩
      · have ha0 : a0 ≠ l.act := by intro e; subst e; rw [hnone] at hx0; cases hx0
        exact ⟨a0, x0, s, by rw [hoth a0 ha0]; exact hx0, hlk⟩
      · have ha0 : a0 ≠ l.act := by intro e; subst e; rw [hnone] at hx0; cases hx0
        by_cases hap : a0 = p
        · subst hap
          rw [hx0] at hpx; cases hpx
          refine ⟨a0, _, s, hp', ?_⟩
          have hss : s ≠ slot := by intro e; subst e; rw [hslot] at hlk; cases hlk
          show List.lookup s ((slot, l.act) :: x0.kids) = some b
          rw [S2.lookup_cons_ne _ _ _ _ hss]; exact hlk
        · exact ⟨a0, x0, s, by rw [hoth a0 ha0 hap]; exact hx0, hlk⟩
  · -- keyEdge
    intro b y k p hy hkk hp
    rw [hwaits]
    rcases hback b y hy with ⟨_, rfl⟩ | ⟨_, z0, ks, hz0, rfl⟩
    · rw [hfk] at hkk; cases hkk
    · exact hw.keyEdge b z0 k p hz0 hkk hp
  · -- waitEdge
    intro b y k p hy hkk hp
    rw [hwaits]
    rcases hback b y hy with ⟨_, rfl⟩ | ⟨_, z0, ks, hz0, rfl⟩
    · rw [hfw] at hkk; cases hkk
    · exact hw.waitEdge b z0 k p hz0 hkk hp

/-- `cyc k = false` means: the execution registered under `k` does not reach the one `x` is part of -/
theorem cyc_false_no_path (F : Flags) (c : Config) (hw : WInv c) (a : Nat) (x : Act) (k p : Nat)
    (hp : x.par = some p) (hcyc : (obsOf F c a x).cyc k = false) : ¬ ∃ l, WPath c k l p := by
  intro ⟨l, hl⟩
  obtain ⟨rk, hrk⟩ := hw.rank
  have := execWaitsFor_complete c rk hrk (fun s t h => (hw.reg s t h).1) k p l hl
  simp only [obsOf, hp] at hcyc
  rw [this] at hcyc; cases hcyc

open Classical in
/-- a local step preserves the invariant -/
theorem wInv_local (P : Program) (F : Flags) (c : Config) (l : Label) (x y : Act) (eff : Eff)
    (hl : Live P c) (hK : ∀ a x, c.act? a = some x → S2.KInv (kidDone c) x) (hw : WInv c)
    (hs : step P F c l = some ((applyEff c l.act eff).set l.act y))
    (hx : c.act? l.act = some x) (hst : stepLocal F (obsOf F c l.act x) x l.ev = some (y, eff)) :
    WInv ((applyEff c l.act eff).set l.act y) := by
  have hpar := stepLocal_par F _ x l.ev y eff hst
  have hstat := stepLocal_static F _ x l.ev y eff hst
  have hlx := hl.loc l.act x hx
  obtain ⟨_, hk2, hk3, _, _, _⟩ := stepLocal_keys F _ x l.ev y eff hlx.keys.pre hst
  have heff := stepLocal_eff F _ x l.ev y eff hst
  have hwaits := waits_local c l.act x y eff hx
  have hback : ∀ b z, ((applyEff c l.act eff).set l.act y).act? b = some z →
      (b = l.act ∧ z = y) ∨ (b ≠ l.act ∧ c.act? b = some z) := by
    intro b z hz
    by_cases hba : b = l.act
    · subst hba; rw [act?_set_self] at hz; cases hz; exact .inl ⟨rfl, rfl⟩
    · rw [act?_set_other _ _ _ _ hba, act?_applyEff] at hz; exact .inr ⟨hba, hz⟩
  -- an old activation and its `par`
  have hold : ∀ b z, ((applyEff c l.act eff).set l.act y).act? b = some z →
      ∃ z0, c.act? b = some z0 ∧ z.par = z0.par ∧ z.kids = z0.kids := by
    intro b z hz
    rcases hback b z hz with ⟨rfl, rfl⟩ | ⟨_, hz'⟩
    · exact ⟨x, hx, hpar, hstat.kids⟩
    · exact ⟨z, hz', rfl, rfl⟩
  have hfwd : ∀ b z0, c.act? b = some z0 →
      ∃ z, ((applyEff c l.act eff).set l.act y).act? b = some z ∧ z.par = z0.par ∧ z.kids = z0.kids := by
    intro b z0 hz0
    by_cases hba : b = l.act
    · subst hba; rw [hx] at hz0; cases hz0
      exact ⟨y, act?_set_self _ _ _, hpar, hstat.kids⟩
    · exact ⟨z0, by rw [act?_set_other _ _ _ _ hba, act?_applyEff]; exact hz0, rfl, rfl⟩
  have hunfin : ∀ s t, (s, t) ∈ c.waits → execFinished ((applyEff c l.act eff).set l.act y) s = false → WEdge c s t := by
    intro s t hm hf
    refine ⟨hm, ?_⟩
    cases hf0 : execFinished c s with
    | false => rfl
    | true => have := fin_mono_step P F c _ l hs s hf0; rw [hf] at this; cases this
  refine ⟨?_, ?_, ?_, ?_, ?_, ?_, ?_, ?_⟩
  · -- rank
    obtain ⟨rk, hrk⟩ := hw.rank
    have hsame : ((applyEff c l.act eff).set l.act y).waits = c.waits →
        ∃ rk : Nat → Nat, ∀ s t, WEdge ((applyEff c l.act eff).set l.act y) s t → rk t < rk s := by
      intro e
      refine ⟨rk, ?_⟩
      intro s t he
      exact hrk s t (hunfin s t (by rw [← e]; exact he.1) he.2)
    cases hpp : x.par with
    | none => apply hsame; rw [hwaits, hpp]; cases eff <;> rfl
    | some p =>
      have hpreg := hw.parReg l.act x p hx hpp
      cases eff with
      | none => exact hsame (by rw [hwaits])
      | acq => exact hsame (by rw [hwaits])
      | rel => exact hsame (by rw [hwaits])
      | reg k =>
        obtain ⟨_, _, hreg, _⟩ := stepLocal_reg F _ x l.ev y k hst
        have hkn : (c.execs.lookup k).isSome = false := hreg
        have hw' : ((applyEff c l.act (.reg k)).set l.act y).waits = (p, k) :: c.waits := by rw [hwaits, hpp]
        refine ⟨fun m => if m = k then 0 else rk m + 1, ?_⟩
        intro s t he
        have hm := he.1
        rw [hw'] at hm
        rcases List.mem_cons.mp hm with e | e
        · obtain ⟨e1, e2⟩ := Prod.mk.inj e
          rw [e1, e2]
          have hpk : p ≠ k := by intro e; subst e; rw [hpreg] at hkn; cases hkn
          simp [hpk]
        · have hr := hw.reg s t e
          have hsk : s ≠ k := by intro e'; subst e'; rw [hr.1] at hkn; cases hkn
          have htk : t ≠ k := by intro e'; subst e'; rw [hr.2] at hkn; cases hkn
          have := hrk s t (hunfin s t e he.2)
          simp only [hsk, htk, if_false]; omega
      | wait k =>
        obtain ⟨_, _, _, hcyc, _⟩ := stepLocal_wait F _ x l.ev y k hst
        have hno := cyc_false_no_path F c hw l.act x k p hpp hcyc
        have hw' : ((applyEff c l.act (.wait k)).set l.act y).waits = (p, k) :: c.waits := by rw [hwaits, hpp]
        refine ⟨fun m => rk m + (if (∃ pl, WPath c m pl p) then rk k + 1 else 0), ?_⟩
        intro s t he
        have hm := he.1
        rw [hw'] at hm
        rcases List.mem_cons.mp hm with e | e
        · obtain ⟨e1, e2⟩ := Prod.mk.inj e
          rw [e1, e2]
          have h1 : ∃ pl, WPath c p pl p := ⟨[], .nil p⟩
          simp only [if_pos h1, if_neg hno]; omega
        · have hedge := hunfin s t e he.2
          have := hrk s t hedge
          by_cases ht : ∃ pl, WPath c t pl p
          · have hs' : ∃ pl, WPath c s pl p := by
              obtain ⟨pl, hpl⟩ := ht; exact ⟨s :: pl, .cons hedge hpl⟩
            simp only [if_pos ht, if_pos hs']; omega
          · simp only [if_neg ht]; split <;> omega
  · -- reg
    intro s t hm
    have hold' : (s, t) ∈ c.waits → (((applyEff c l.act eff).set l.act y).execs.lookup s).isSome = true ∧
        (((applyEff c l.act eff).set l.act y).execs.lookup t).isSome = true := by
      intro e
      exact ⟨execs_mono c l.act y eff s (hw.reg s t e).1, execs_mono c l.act y eff t (hw.reg s t e).2⟩
    cases hpp : x.par with
    | none =>
      apply hold'
      rw [hwaits, hpp] at hm
      cases eff <;> exact hm
    | some p =>
      have hpreg := hw.parReg l.act x p hx hpp
      cases eff with
      | none => exact hold' (by rw [hwaits] at hm; exact hm)
      | acq => exact hold' (by rw [hwaits] at hm; exact hm)
      | rel => exact hold' (by rw [hwaits] at hm; exact hm)
      | reg k =>
        rw [hwaits, hpp] at hm
        rcases List.mem_cons.mp hm with e | e
        · obtain ⟨e1, e2⟩ := Prod.mk.inj e
          rw [e1, e2]
          refine ⟨execs_mono c l.act y (.reg k) p hpreg, ?_⟩
          show (List.lookup k ((k, l.act) :: c.execs)).isSome = true
          simp [List.lookup]
        · exact hold' e
      | wait k =>
        obtain ⟨_, _, hreg, _, _⟩ := stepLocal_wait F _ x l.ev y k hst
        rw [hwaits, hpp] at hm
        rcases List.mem_cons.mp hm with e | e
        · obtain ⟨e1, e2⟩ := Prod.mk.inj e
          rw [e1, e2]
          exact ⟨execs_mono c l.act y (.wait k) p hpreg, execs_mono c l.act y (.wait k) k hreg⟩
        · exact hold' e
  · -- parReg
    intro b z p hz hp
    obtain ⟨z0, hz0, e, _⟩ := hold b z hz
    exact execs_mono c l.act y eff p (hw.parReg b z0 p hz0 (by rw [← e]; exact hp))
  · -- keyReg
    intro b z k hz hkk
    rcases hback b z hz with ⟨rfl, rfl⟩ | ⟨_, hz'⟩
    · rcases hk2 k hkk with e | ⟨hev, _⟩
      · exact step_execs_lookup P F c _ l hs k l.act (hw.keyReg l.act x k hx e)
      · have : eff = .reg k := by rw [heff, hev]; rfl
        subst this
        show List.lookup k ((k, l.act) :: c.execs) = some l.act
        simp [List.lookup]
    · exact step_execs_lookup P F c _ l hs k b (hw.keyReg b z k hz' hkk)
  · -- kidPar
    intro b z s id k hz hlk hkid
    obtain ⟨k0, hk0, hkp, _⟩ := hold id k hkid
    rw [hkp]
    rcases hback b z hz with ⟨rfl, rfl⟩ | ⟨_, hz'⟩
    · rw [hstat.kids] at hlk
      rcases stepLocal_inner F _ x l.ev _ eff hst with e | ⟨hph, _⟩
      · rw [e]; exact hw.kidPar l.act x s id k0 hx hlk hk0
      · exfalso
        have := (hK l.act x hx).noKids (by rw [hph]; rfl)
        rw [this] at hlk; cases hlk
    · exact hw.kidPar b z s id k0 hz' hlk hk0
  · -- hasParent
    intro b z hz hp
    obtain ⟨z0, hz0, e, _⟩ := hold b z hz
    obtain ⟨a0, x0, s, hx0, hlk⟩ := hw.hasParent b z0 hz0 (by rw [← e]; exact hp)
    obtain ⟨x1, hx1, _, hkids⟩ := hfwd a0 x0 hx0
    exact ⟨a0, x1, s, hx1, by rw [hkids]; exact hlk⟩
  · -- keyEdge
    intro b z k p hz hkk hp
    rcases hback b z hz with ⟨rfl, rfl⟩ | ⟨_, hz'⟩
    · rw [hpar] at hp
      rcases hk2 k hkk with e | ⟨hev, _⟩
      · exact waits_mono c l.act _ eff _ (hw.keyEdge l.act x k p hx e hp)
      · have : eff = .reg k := by rw [heff, hev]; rfl
        subst this
        rw [hwaits, hp]; exact List.mem_cons_self
    · exact waits_mono c l.act _ eff _ (hw.keyEdge b z k p hz' hkk hp)
  · -- waitEdge
    intro b z k p hz hkk hp
    rcases hback b z hz with ⟨rfl, rfl⟩ | ⟨_, hz'⟩
    · rw [hpar] at hp
      rcases hk3 k hkk with e | ⟨hev, _, _⟩
      · exact waits_mono c l.act _ eff _ (hw.waitEdge l.act x k p hx e hp)
      · have : eff = .wait k := by rw [heff, hev]; rfl
        subst this
        rw [hwaits, hp]; exact List.mem_cons_self
    · exact waits_mono c l.act _ eff _ (hw.waitEdge b z k p hz' hkk hp)

/-- **the wait-for invariant holds in every reachable configuration** -/
theorem wInv_reach (P : Program) (F : Flags) (n : Nat) (tr : List Label) (c : Config)
    (h : replay P F (init n) tr = some c) : WInv c := by
  have := replay_inv_tr P F (fun c tr => replay P F (init n) tr = some c ∧ WInv c)
    (fun c tr l c' hinv hs => by
      obtain ⟨hr, hw⟩ := hinv
      have hr' : replay P F (init n) (tr ++ [l]) = some c' := by
        rw [replay_append, hr]; simp [replay, hs]
      refine ⟨hr', ?_⟩
      have hl := live_reach P F n tr c hr
      rcases step_cases P F c c' l hs with ⟨k, t, _, hen⟩ | ⟨_, x, y, eff, hx, hst, rfl⟩
      · exact wInv_enter P F c c' l k t hl hw hs hen
      · exact wInv_local P F c l x y eff hl (fun a x hx => S2.KInv_sound P F n tr c hr a x hx) hw hs hx hst)
    n ⟨rfl, wInv_init n⟩ tr c h
  exact this.2

end TaskModel.Sched.S7
