import TaskModel.Sched.KidInv
import TaskModel.Sched.MonC03
/-! Helper lemmas for C03 (`Props/C03.lean`): the remaining command list is a suffix of the
task's command list; what `afterCmd` does with failures; the deferred part of an
activation is never left; the relation between `failStopMon` and the model. -/
namespace TaskModel.Sched.S2

/-! ### `rest` is the suffix of `cmds` at `idx` -/

theorem advance_drop (all : List Cmd) : ∀ (cs : List Cmd) (i : Nat) (regs stack : List Nat), cs = all.drop i →
    (advance cs i regs stack).1 = all.drop (advance cs i regs stack).2.1 := by
  intro cs
  induction cs with
  | nil => intro i regs stack h; simpa [advance] using h
  | cons c cs ih =>
    intro i regs stack h
    simp only [advance]
    split
    · apply ih
      have := congrArg List.tail h
      simpa [List.tail_drop] using this
    · exact h

theorem next_rest (x : Act) (cs : List Cmd) (i : Nat) :
    (x.next cs i).rest = (advance cs i x.regs x.stack).1 := by
  unfold Act.next
  split
  rename_i rest i' regs stack heq
  simp only [heq]
  split <;> rfl

/-- in the command loop `rest` is what is left of the task's commands from `idx` on,
and an open non-deferred command is the one at `idx` -/
def RestInv (x : Act) : Prop :=
  (bodyPhase x.phase = true → x.phase ≠ .guards → x.rest = x.def_.cmds.drop x.idx) ∧
  (∀ i, openND x.phase = some i → i = x.idx)

theorem RestInv_next (x : Act) (cs : List Cmd) (i : Nat) (h : cs = x.def_.cmds.drop i) : RestInv (x.next cs i) := by
  obtain ⟨_, _, h3, _, _, _, h7, _⟩ := next_stack x cs i
  refine ⟨?_, ?_⟩
  · intro _ _
    rw [next_rest, h3, h7]
    exact advance_drop x.def_.cmds cs i x.regs x.stack h
  · intro k hk
    rcases next_phase x cs i with h1 | ⟨h1, _⟩ | ⟨h1, _⟩ <;> rw [h1] at hk <;> cases hk

theorem RestInv_post (y : Act) (hp : y.phase = .defers ∨ y.phase = .finished) : RestInv y := by
  rcases hp with h | h <;>
  · refine ⟨?_, ?_⟩
    · intro hh; rw [h] at hh; cases hh
    · intro i hh; rw [h] at hh; cases hh

theorem RestInv_afterCmd (x : Act) (c : Cmd) (r : Res) (h : x.rest = x.def_.cmds.drop x.idx) :
    RestInv (x.afterCmd c r) := by
  have ht : x.rest.tail = x.def_.cmds.drop (x.idx + 1) := by rw [h, List.tail_drop]
  unfold Act.afterCmd
  simp only
  split
  · exact RestInv_next x _ _ ht
  · split
    · exact RestInv_next x _ _ ht
    · exact RestInv_post _ (fail_phase _ _)
  · exact RestInv_post _ (fail_phase _ _)

theorem RestInv_fresh (P : Program) (F : Flags) (c : Config) (kind : Kind) (t : Nat) :
    RestInv (freshAct P F c kind t) := by
  obtain ⟨hph, _⟩ := freshAct_fields P F c kind t
  refine ⟨?_, ?_⟩
  · intro hh; rcases hph with h | h <;> rw [h] at hh <;> cases hh
  · intro i hh; rcases hph with h | h <;> rw [h] at hh <;> cases hh

theorem RestInv_local (F : Flags) (o : Obs) (x : Act) (ev : Ev) (y : Act) (eff : Eff)
    (hR : RestInv x) (h : stepLocal F o x ev = some (y, eff)) : RestInv y := by
  have hL := LStep_of_stepLocal F o x ev y eff h
  obtain ⟨h1, h2⟩ := hR
  cases hL with
  | guardsPassed hp hc => exact RestInv_next x _ 0 (by simp)
  | cmdEndBody i r cmd tl hp hr hc hs =>
    exact RestInv_afterCmd x cmd r (h1 (by rw [hp]; rfl) (by rw [hp]; simp))
  | callReacqBody i cmd tl hp hc hr =>
    exact RestInv_afterCmd { x with holds := true } cmd x.callRes (h1 (by rw [hp]; rfl) (by rw [hp]; simp))
  | callReacqDefer i hp hc => exact RestInv_post _ (afterDefer_phase _)
  | cmdEndDefer j r cmd hp hd hs => exact RestInv_post _ (afterDefer_phase _)
  | callRet i d r hp hk => cases d <;> simp_all [RestInv, bodyPhase, openND]
  | _ => simp_all [RestInv, bodyPhase, openND, Act.stop, Act.stopDeps]

theorem RestInv_kids (x : Act) (k : List (Nat × Nat)) (h : RestInv x) : RestInv { x with kids := k } := h

theorem RestInv_sound (P : Program) (F : Flags) (n : Nat) (tr : List Label) (c : Config)
    (h : replay P F (init n) tr = some c) (a : Nat) (x : Act) (hx : c.act? a = some x) : RestInv x :=
  localInv_sound RestInv P F (RestInv_fresh P F) (fun o x ev y eff => RestInv_local F o x ev y eff)
    RestInv_kids n tr c h a x hx

/-! ### what `afterCmd` does with a failure -/

/-- `ignore_error` applies to the result `r` of command `c` in a task with definition `d`:
exit statuses only; command-level only on shell commands -/
def Ignored (d : TaskDef) (c : Cmd) (r : Res) : Prop :=
  ∃ n, r = .exit n ∧ (d.ignoreError = true ∨ ∃ k dfr, c = .shell k true dfr)

/-- a success, or an ignored failure: the loop goes on with the next entry -/
theorem afterCmd_continue (x : Act) (c : Cmd) (r : Res) (h : r = .ok ∨ Ignored x.def_ c r) :
    x.afterCmd c r = x.next x.rest.tail (x.idx + 1) := by
  rcases h with rfl | ⟨n, rfl, h | ⟨k, dfr, rfl⟩⟩
  · cases c with
    | shell k ie d => cases ie <;> rfl
    | call t d => rfl
  · cases c with
    | shell k ie d => cases ie <;> simp [Act.afterCmd, h]
    | call t d => simp [Act.afterCmd, h]
  · rfl

/-- a failure that is not ignored: the loop stops, the result is that failure — wrapped in
`TaskRunError` iff the task was called directly — and nothing else of the outcome changes -/
theorem afterCmd_stop (x : Act) (c : Cmd) (r : Res) (hok : r.isOk = false) (hi : ¬ Ignored x.def_ c r) :
    ((x.afterCmd c r).phase = .defers ∨ (x.afterCmd c r).phase = .finished) ∧
    (x.afterCmd c r).res = (if x.indirect then r else .run r) ∧
    (x.afterCmd c r).started = x.started ∧ (x.afterCmd c r).stack = x.stack ∧
    (x.afterCmd c r).regs = x.regs ∧ (x.afterCmd c r).idx = x.idx := by
  have hfail : ∀ (z : Act), z.indirect = x.indirect → z.started = x.started → z.stack = x.stack →
      z.regs = x.regs → z.idx = x.idx →
      ((z.fail r).phase = .defers ∨ (z.fail r).phase = .finished) ∧
      (z.fail r).res = (if x.indirect then r else .run r) ∧
      (z.fail r).started = x.started ∧ (z.fail r).stack = x.stack ∧ (z.fail r).regs = x.regs ∧
      (z.fail r).idx = x.idx := by
    intro z h1 h2 h3 h4 h5
    refine ⟨fail_phase z r, ?_, h2, h3, h4, h5⟩
    simp [Act.fail, h1]
  cases r with
  | ok => cases hok
  | exit n =>
    have h1 : x.def_.ignoreError = false := by
      cases h : x.def_.ignoreError with
      | false => rfl
      | true => exact absurd ⟨n, rfl, .inl h⟩ hi
    cases c with
    | shell k ie d =>
      cases ie with
      | true => exact absurd ⟨n, rfl, .inr ⟨k, d, rfl⟩⟩ hi
      | false =>
        simp only [Act.afterCmd, h1, Bool.false_eq_true, if_false]
        exact hfail _ rfl rfl rfl rfl rfl
    | call t d =>
      simp only [Act.afterCmd, h1, Bool.false_eq_true, if_false]
      exact hfail _ rfl rfl rfl rfl rfl
  | ctx => cases c with
    | shell k ie d => cases ie <;> exact hfail _ rfl rfl rfl rfl rfl
    | call t d => exact hfail _ rfl rfl rfl rfl rfl
  | typed n => cases c with
    | shell k ie d => cases ie <;> exact hfail _ rfl rfl rfl rfl rfl
    | call t d => exact hfail _ rfl rfl rfl rfl rfl
  | run e => cases c with
    | shell k ie d => cases ie <;> exact hfail _ rfl rfl rfl rfl rfl
    | call t d => exact hfail _ rfl rfl rfl rfl rfl
  | generic => cases c with
    | shell k ie d => cases ie <;> exact hfail _ rfl rfl rfl rfl rfl
    | call t d => exact hfail _ rfl rfl rfl rfl rfl

/-! ### the deferred part is never left, and the result is fixed there -/

theorem lateP_step (F : Flags) (o : Obs) (x : Act) (ev : Ev) (y : Act) (eff : Eff)
    (h : stepLocal F o x ev = some (y, eff)) (hl : lateP x.phase = true) :
    lateP y.phase = true ∧ y.res = x.res ∧ y.started = x.started := by
  have hL := LStep_of_stepLocal F o x ev y eff h
  cases hL with
  | callRet i d r hp hk => cases d <;> simp_all [lateP]
  | callReacqDefer i hp hc =>
    refine ⟨?_, (afterDefer_fields _).2.2.1, (afterDefer_fields _).2.1⟩
    rcases afterDefer_phase { x with holds := true } with h1 | h1 <;> rw [h1] <;> rfl
  | cmdEndDefer j r cmd hp hd hs =>
    refine ⟨?_, (afterDefer_fields _).2.2.1, (afterDefer_fields _).2.1⟩
    rcases afterDefer_phase x with h1 | h1 <;> rw [h1] <;> rfl
  | _ => simp_all [lateP]

/-- … and so is what the execution ended with (what its waiters will take) -/
theorem lateP_step_out (F : Flags) (o : Obs) (x : Act) (ev : Ev) (y : Act) (eff : Eff)
    (h : stepLocal F o x ev = some (y, eff)) (hl : lateP x.phase = true) : y.out = x.out := by
  have hL := LStep_of_stepLocal F o x ev y eff h
  cases hL with
  | callRet i d r hp hk => cases d <;> simp_all [lateP]
  | callReacqDefer i hp hc => exact afterDefer_out _
  | cmdEndDefer j r cmd hp hd hs => exact afterDefer_out _
  | _ => simp_all [lateP]

/-- no non-deferred command starts in the deferred part or after it -/
theorem lateP_no_start (F : Flags) (o : Obs) (x : Act) (ev : Ev) (y : Act) (eff : Eff)
    (h : stepLocal F o x ev = some (y, eff)) (hl : lateP x.phase = true) :
    (∀ i seen, ev ≠ .cmdStart i seen false) ∧ (∀ i, ev ≠ .callRelease i false) := by
  have hL := LStep_of_stepLocal F o x ev y eff h
  cases hL <;> simp_all [lateP]

/-- the result an activation can have after a command ended -/
theorem afterCmd_res (x : Act) (c : Cmd) (r : Res) :
    (x.afterCmd c r).res = x.res ∨ ∃ e, (x.afterCmd c r).res = if x.indirect then e else .run e := by
  unfold Act.afterCmd
  simp only
  split
  · exact .inl (next_more x _ _).2.1
  · split
    · exact .inl (next_more x _ _).2.1
    · exact .inr ⟨_, rfl⟩
  · exact .inr ⟨_, rfl⟩

theorem afterCmd_waitsFor (x : Act) (c : Cmd) (r : Res) :
    (x.afterCmd c r).waitsFor = x.waitsFor ∧ (x.afterCmd c r).key = x.key := by
  unfold Act.afterCmd
  simp only
  split
  · exact ⟨(next_more x _ _).2.2.2.2, (next_more x _ _).2.2.2.1⟩
  · split
    · exact ⟨(next_more x _ _).2.2.2.2, (next_more x _ _).2.2.2.1⟩
    · exact ⟨rfl, rfl⟩
  · exact ⟨rfl, rfl⟩

/-! ### shape of results: a directly called task that is not a dedup waiter never returns a bare exit status -/

def wPhase : Phase → Bool
  | .wWaiting | .wReleased | .wWoken => true
  | _ => false

def StatusInv (x : Act) : Prop :=
  (wPhase x.phase = true → x.waitsFor.isSome = true) ∧
  (x.indirect = (match x.kind with | .top _ => false | _ => true)) ∧
  (x.indirect = false → x.waitsFor = none → ∀ n, x.res ≠ .exit n)

theorem StatusInv_fresh (P : Program) (F : Flags) (c : Config) (kind : Kind) (t : Nat) :
    StatusInv (freshAct P F c kind t) := by
  unfold StatusInv
  simp only [freshAct]
  cases h : earlyResult P[t]? (c.callCount t + 1) F.maxCalls with
  | none =>
    refine ⟨?_, rfl, ?_⟩
    · intro hh; cases hh
    · intro _ _ n hn; cases hn
  | some r =>
    refine ⟨?_, rfl, ?_⟩
    · intro hh; cases hh
    · intro _ _ n hn
      simp only at hn
      subst hn
      unfold earlyResult at h
      split at h
      · cases h
      · repeat' split at h
        all_goals cases h

theorem depErr_direct_ne_exit (r : Res) (n : Nat) : depErr false r ≠ .exit n := by
  cases r <;> simp [depErr]

theorem StatusInv_local (F : Flags) (o : Obs) (x : Act) (ev : Ev) (y : Act) (eff : Eff)
    (hI : StatusInv x) (h : stepLocal F o x ev = some (y, eff)) : StatusInv y := by
  have hL := LStep_of_stepLocal F o x ev y eff h
  obtain ⟨h1, h2, h3⟩ := hI
  have hcmd : ∀ (z : Act) (c : Cmd) (r : Res), z.indirect = x.indirect → z.kind = x.kind →
      z.waitsFor = x.waitsFor → z.res = x.res → StatusInv (z.afterCmd c r) := by
    intro z c r e1 e2 e3 e4
    obtain ⟨_, _, f3, _, f5⟩ := afterCmd_frame z c r
    refine ⟨?_, by rw [f5, f3, e1, e2]; exact h2, ?_⟩
    · intro hh; rcases afterCmd_phase z c r with h | h | h <;> rw [h] at hh <;> cases hh
    · intro hi hw n
      rw [f5, e1] at hi
      rw [(afterCmd_waitsFor z c r).1, e3] at hw
      rcases afterCmd_res z c r with hr | ⟨e, hr⟩
      · rw [hr, e4]; exact h3 hi hw n
      · rw [hr, e1, hi]; simp
  have hdef : ∀ (z : Act), z.indirect = x.indirect → z.kind = x.kind →
      z.waitsFor = x.waitsFor → z.res = x.res → StatusInv z.afterDefer := by
    intro z e1 e2 e3 e4
    obtain ⟨_, _, f3, _, f5⟩ := afterDefer_frame z
    obtain ⟨_, _, g3, _, _, _, _, _, g9⟩ := afterDefer_fields z
    refine ⟨?_, by rw [f5, f3, e1, e2]; exact h2, ?_⟩
    · intro hh; rcases afterDefer_phase z with h | h <;> rw [h] at hh <;> cases hh
    · intro hi hw n
      rw [f5, e1] at hi
      rw [g9, e3] at hw
      rw [g3, e4]; exact h3 hi hw n
  cases hL with
  | guardsPassed hp hc =>
    obtain ⟨_, _, f3, _, f5⟩ := next_frame x x.def_.cmds 0
    obtain ⟨_, g2, _, _, g5⟩ := next_more x x.def_.cmds 0
    refine ⟨?_, by rw [f5, f3]; exact h2, ?_⟩
    · intro hh
      rcases next_phase x x.def_.cmds 0 with h | ⟨h, _⟩ | ⟨h, _⟩ <;> rw [h] at hh <;> cases hh
    · intro hi hw n
      rw [f5] at hi; rw [g5] at hw; rw [g2]; exact h3 hi hw n
  | cmdEndBody i r cmd tl hp hr hc hs => exact hcmd x cmd r rfl rfl rfl rfl
  | callReacqBody i cmd tl hp hc hr => exact hcmd { x with holds := true } cmd x.callRes rfl rfl rfl rfl
  | callReacqDefer i hp hc => exact hdef { x with holds := true } rfl rfl rfl rfl
  | cmdEndDefer j r cmd hp hd hs => exact hdef x rfl rfl rfl rfl
  | depsDoneFail r rs hp hd hr hm =>
    refine ⟨?_, h2, ?_⟩
    · intro hh; cases hh
    intro hi hw n
    simp only [Act.stopDeps] at hi ⊢
    rw [hi]; exact depErr_direct_ne_exit r n
  | wWake r hp he =>
    refine ⟨?_, h2, ?_⟩
    · intro _; exact h1 (by rw [hp]; rfl)
    intro _ hw
    have := h1 (by rw [hp]; rfl)
    simp only at hw
    rw [hw] at this; cases this
  | promptFail hp hc =>
    cases hF : F.promptErr <;> simp_all [StatusInv, wPhase, Act.stop, promptRes]
  | _ => simp_all [StatusInv, wPhase, Act.stop]

theorem StatusInv_sound (P : Program) (F : Flags) (n : Nat) (tr : List Label) (c : Config)
    (h : replay P F (init n) tr = some c) (a : Nat) (x : Act) (hx : c.act? a = some x) : StatusInv x :=
  localInv_sound StatusInv P F (StatusInv_fresh P F) (fun o x ev y eff => StatusInv_local F o x ev y eff)
    (fun _ _ h => h) n tr c h a x hx

/-! ### every activation wraps what `startExecution` gave it according to its own call -/

theorem wrapFor_marked (b : Bool) (r : Res) : wrapFor b ⟨r, true⟩ = (if b then r else .run r) := rfl
theorem wrapFor_plain (b : Bool) (r : Res) : wrapFor b ⟨r, false⟩ = r := rfl
theorem wrapFor_indirect (o : Outcome) : wrapFor true o = o.err := by
  unfold wrapFor; split <;> rfl
theorem depErr_eq_wrapFor (b : Bool) (r : Res) : depErr b r = wrapFor b (depOut r) := by
  cases r <;> rfl

/-- **the result of an activation is its own wrapping of the outcome it took** — of its own
execution, of the shared execution it waited for, or of the early return: `RunTask`'s last
lines, for the executor and for every waiter alike -/
def OutInv (x : Act) : Prop := x.res = wrapFor x.indirect x.out

theorem OutInv_fresh (P : Program) (F : Flags) (c : Config) (kind : Kind) (t : Nat) :
    OutInv (freshAct P F c kind t) := by
  unfold OutInv
  simp only [freshAct]
  cases h : earlyResult P[t]? (c.callCount t + 1) F.maxCalls <;> rfl

theorem afterCmd_OutInv (x : Act) (c : Cmd) (r : Res) (h : OutInv x) : OutInv (x.afterCmd c r) := by
  have hn : OutInv (x.next x.rest.tail (x.idx + 1)) := by
    unfold OutInv
    rw [(next_more x _ _).2.1, next_out, (next_frame x _ _).2.2.2.2]; exact h
  have hf : ∀ (z : Act) (e : Res), OutInv (z.fail e) := fun z e => rfl
  unfold Act.afterCmd
  simp only
  split
  · exact hn
  · split
    · exact hn
    · exact hf _ _
  · exact hf _ _

theorem OutInv_local (F : Flags) (o : Obs) (x : Act) (ev : Ev) (y : Act) (eff : Eff)
    (hI : OutInv x) (h : stepLocal F o x ev = some (y, eff)) : OutInv y := by
  have hL := LStep_of_stepLocal F o x ev y eff h
  have hdef : ∀ z : Act, OutInv z → OutInv z.afterDefer := by
    intro z hz
    unfold OutInv
    rw [(afterDefer_fields z).2.2.1, afterDefer_out, (afterDefer_frame z).2.2.2.2]; exact hz
  cases hL with
  | guardsPassed hp hc =>
    unfold OutInv
    rw [(next_more x _ _).2.1, next_out, (next_frame x _ _).2.2.2.2]; exact hI
  | cmdEndBody i r cmd tl hp hr hc hs => exact afterCmd_OutInv x cmd r hI
  | callReacqBody i cmd tl hp hc hr => exact afterCmd_OutInv { x with holds := true } cmd x.callRes hI
  | callReacqDefer i hp hc => exact hdef { x with holds := true } hI
  | cmdEndDefer j r cmd hp hd hs => exact hdef x hI
  | depsDoneFail r rs hp hd hr hm => exact depErr_eq_wrapFor x.indirect r
  | wWake r hp he => rfl
  | ctxErr hp hc => rfl
  | precondFail hp hc => rfl
  | upToDate hp hc => rfl
  | promptFail hp hc => rfl
  | waitCycle k hp hr hk hcyc => rfl
  | _ => exact hI

theorem OutInv_sound (P : Program) (F : Flags) (n : Nat) (tr : List Label) (c : Config)
    (h : replay P F (init n) tr = some c) (a : Nat) (x : Act) (hx : c.act? a = some x) :
    x.res = wrapFor x.indirect x.out :=
  localInv_sound OutInv P F (OutInv_fresh P F) (fun o x ev y eff => OutInv_local F o x ev y eff)
    (fun _ _ h => h) n tr c h a x hx

/-! ### `failStopMonP` ↔ model -/

theorem getElem?_of_drop_eq_cons {α} (l : List α) (n : Nat) (c : α) (tl : List α) (h : l.drop n = c :: tl) :
    l[n]? = some c := by
  have : (l.drop n)[0]? = some c := by rw [h]; rfl
  simpa using this

/-- the monitor's "not ignored" is the model's -/
theorem not_Ignored_of_stopsBody (d : TaskDef) (i : Nat) (cmd : Cmd) (r : Res) (hc : d.cmds[i]? = some cmd)
    (h : stopsBody d i r = true) : r.isOk = false ∧ ¬ Ignored d cmd r := by
  simp only [stopsBody, Bool.and_eq_true, Bool.not_eq_true'] at h
  obtain ⟨⟨_, h2⟩, h3⟩ := h
  refine ⟨h2, ?_⟩
  rintro ⟨n, rfl, hi⟩
  simp only [ignoredBy, hc, Bool.or_eq_false_iff] at h3
  rcases hi with hi | ⟨k, dfr, rfl⟩
  · rw [hi] at h3; cases h3.1
  · cases h3.2

def FailR (s : TaskDef × Bool) (x : Act) : Prop :=
  x.def_ = s.1 ∧ (s.2 = true → lateP x.phase = true) ∧ RestInv x

theorem FailR_fresh (P : Program) (F : Flags) (c : Config) (kind : Kind) (t : Nat) :
    FailR ((P[t]?).getD {}, false) (freshAct P F c kind t) := by
  obtain ⟨_, _, _, _, _, _, _, _, _, _, _, _, hd, _⟩ := freshAct_fields P F c kind t
  refine ⟨hd, ?_, RestInv_fresh P F c kind t⟩
  intro h; cases h

theorem FailR_kids (s : TaskDef × Bool) (x : Act) (k : List (Nat × Nat)) (h : FailR s x) :
    FailR s { x with kids := k } := h

theorem FailR_local (P : Program) (F : Flags) (o : Obs) (s : TaskDef × Bool) (x : Act) (ev : Ev) (y : Act)
    (eff : Eff) (hR : FailR s x) (h : stepLocal F o x ev = some (y, eff)) :
    ∃ s', (failStopMonP P).step s ev = some s' ∧ FailR s' y := by
  obtain ⟨hd, hfl, hri⟩ := hR
  have hdef : y.def_ = s.1 := by rw [(stepLocal_frame F o x ev y eff h).1.2.1]; exact hd
  have hrest : RestInv y := RestInv_local F o x ev y eff hri h
  have hlate := lateP_step F o x ev y eff h
  have hL := LStep_of_stepLocal F o x ev y eff h
  have hsame : ∀ b : Bool, (b = true → s.2 = true) → FailR (s.1, b) y :=
    fun b hb => ⟨hdef, fun e => (hlate (hfl (hb e))).1, hrest⟩
  have hnl : ∀ i, openND x.phase = some i ∨ x.phase = .body → s.2 = false := by
    intro i hi
    cases hs : s.2 with
    | false => rfl
    | true =>
      have := hfl hs
      rcases hi with hi | hi
      · revert hi this; cases x.phase <;> simp [openND, lateP] <;> (rename_i d; cases d <;> simp)
      · rw [hi] at this; cases this
  cases hL with
  | cmdStartBody k ie tl hp hr =>
    have hs := hnl 0 (.inr hp)
    exact ⟨(s.1, false), by simp [failStopMonP, failStopMon, hs], hsame false (fun e => by cases e)⟩
  | callReleaseBody t tl hp hr =>
    have hs := hnl 0 (.inr hp)
    exact ⟨(s.1, false), by simp [failStopMonP, failStopMon, hs], hsame false (fun e => by cases e)⟩
  | cmdEndBody i r cmd tl hp hr hc hs =>
    have hs2 := hnl i (.inl (by rw [hp]; rfl))
    refine ⟨(s.1, s.2 || stopsBody s.1 i r), by simp [failStopMonP, failStopMon], hdef, ?_, hrest⟩
    intro hb
    rw [hs2, Bool.false_or] at hb
    have hidx : i = x.idx := hri.2 i (by rw [hp]; rfl)
    have hdrop := hri.1 (by rw [hp]; rfl) (by rw [hp]; simp)
    have hcmd : s.1.cmds[i]? = some cmd := by
      rw [← hd, hidx]; exact getElem?_of_drop_eq_cons _ _ _ tl (by rw [← hdrop, hr])
    obtain ⟨h1, h2⟩ := not_Ignored_of_stopsBody s.1 i cmd r hcmd hb
    rw [← hd] at h2
    rcases (afterCmd_stop x cmd r h1 h2).1 with h3 | h3 <;> simp only [h3] <;> rfl
  | cmdEndDefer j r cmd hp hd' hs =>
    refine ⟨(s.1, s.2 || stopsBody s.1 j r), by simp [failStopMonP, failStopMon], hdef, ?_, hrest⟩
    intro _
    exact (hlate (by rw [hp]; rfl)).1
  | _ => exact ⟨s, by simp [failStopMonP, failStopMon], hsame s.2 id⟩

end TaskModel.Sched.S2
