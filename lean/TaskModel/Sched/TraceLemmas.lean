import TaskModel.Sched.FailLemmas
/-! Trace-level consequences of the local facts: once an activation has left its command
loop, no later event of it in any accepted continuation starts a non-deferred command, and
its result and the list of commands it started stay what they are. -/
namespace TaskModel.Sched.S2

/-- the start of a non-deferred entry -/
def isNDStart : Ev → Bool
  | .cmdStart _ _ false | .callRelease _ false => true
  | _ => false

theorem lateP_forever (P : Program) (F : Flags) (a : Nat) : ∀ (tr : List Label) (c c' : Config) (x : Act),
    replay P F c tr = some c' → c.act? a = some x → lateP x.phase = true →
    (∃ x', c'.act? a = some x' ∧ lateP x'.phase = true ∧ x'.res = x.res ∧ x'.started = x.started) ∧
    ∀ ev, ev ∈ evsOf a tr → isNDStart ev = false := by
  intro tr
  induction tr with
  | nil =>
    intro c c' x h hx hl
    simp only [replay, Option.some.injEq] at h
    subst h
    exact ⟨⟨x, hx, hl, rfl, rfl⟩, fun ev hev => by simp [evsOf] at hev⟩
  | cons l ls ih =>
    intro c c' x h hx hl
    simp only [replay] at h
    split at h
    · rename_i c1 hs
      -- the activation after the first step
      have key : (∃ x1, c1.act? a = some x1 ∧ lateP x1.phase = true ∧ x1.res = x.res ∧ x1.started = x.started) ∧
          (l.act = a → isNDStart l.ev = false) := by
        rcases step_cases P F c c1 l hs with ⟨k, t, he, hen⟩ | ⟨hne, x0, y, eff, hx0, hl0, rfl⟩
        · obtain ⟨hnone, _, hoth⟩ := enterAct_acts' P F c c1 l.act k t hen
          have hne : a ≠ l.act := by intro e; subst e; rw [hx] at hnone; cases hnone
          refine ⟨?_, fun e => absurd e.symm hne⟩
          rcases hoth a hne with h1 | ⟨px, slot, h1, h2, _⟩
          · exact ⟨x, by rw [h1]; exact hx, hl, rfl, rfl⟩
          · rw [hx] at h1; cases h1
            exact ⟨_, h2, hl, rfl, rfl⟩
        · by_cases ha : a = l.act
          · subst ha
            rw [hx] at hx0; cases hx0
            obtain ⟨g1, g2, g3⟩ := lateP_step F _ x l.ev y eff hl0 hl
            obtain ⟨g4, g5⟩ := lateP_no_start F _ x l.ev y eff hl0 hl
            refine ⟨⟨y, by simp, g1, g2, g3⟩, fun _ => ?_⟩
            cases hev : l.ev with
            | cmdStart i seen d => cases d <;> first | rfl | exact absurd hev (g4 i seen)
            | callRelease i d => cases d <;> first | rfl | exact absurd hev (g5 i)
            | _ => rfl
          · refine ⟨⟨x, ?_, hl, rfl, rfl⟩, fun e => absurd e.symm ha⟩
            rw [act?_set_other _ _ _ _ ha, act?_applyEff]; exact hx
      obtain ⟨⟨x1, hx1, hl1, hr1, hs1⟩, hev1⟩ := key
      obtain ⟨⟨x', h1, h2, h3, h4⟩, h5⟩ := ih c1 c' x1 h hx1 hl1
      refine ⟨⟨x', h1, h2, h3.trans hr1, h4.trans hs1⟩, ?_⟩
      intro ev hev
      simp only [evsOf] at hev
      split at hev
      · rename_i hla
        simp only [List.mem_cons] at hev
        rcases hev with rfl | hev
        · exact hev1 hla
        · exact h5 ev hev
      · exact h5 ev hev
    · cases h

/-! ### `started` is the history of non-deferred command starts -/

/-- indices of the non-deferred entries started, in order -/
def ndStarts : List Ev → List Nat
  | [] => []
  | .cmdStart i _ false :: r => i :: ndStarts r
  | .callRelease i false :: r => i :: ndStarts r
  | _ :: r => ndStarts r

def startedMon : ActMon (List Nat) where
  init := []
  step s ev :=
    match ev with
    | .cmdStart i _ false | .callRelease i false => some (s ++ [i])
    | _ => some s

theorem startedMon_run (evs : List Ev) : ∀ s, startedMon.run s evs = some (s ++ ndStarts evs) := by
  induction evs with
  | nil => intro s; simp [ActMon.run, ndStarts]
  | cons e es ih =>
    intro s
    have hsame : startedMon.step s e = some s → startedMon.run s (e :: es) = some (s ++ ndStarts es) := by
      intro he; simp only [ActMon.run, he]; exact ih s
    have hpush : ∀ i, startedMon.step s e = some (s ++ [i]) →
        startedMon.run s (e :: es) = some (s ++ i :: ndStarts es) := by
      intro i he; simp only [ActMon.run, he]; rw [ih]; simp
    cases e with
    | cmdStart i seen d =>
      cases d with
      | false => exact hpush i rfl
      | true => exact hsame rfl
    | callRelease i d =>
      cases d with
      | false => exact hpush i rfl
      | true => exact hsame rfl
    | _ => exact hsame rfl

theorem started_local (F : Flags) (o : Obs) (s : List Nat) (x : Act) (ev : Ev) (y : Act) (eff : Eff)
    (hR : x.started = s) (h : stepLocal F o x ev = some (y, eff)) :
    ∃ s', startedMon.step s ev = some s' ∧ y.started = s' := by
  have hL := LStep_of_stepLocal F o x ev y eff h
  subst hR
  cases hL with
  | guardsPassed hp hc => exact ⟨_, rfl, (next_more x _ _).1⟩
  | cmdEndBody i r cmd tl hp hr hc hs => exact ⟨_, rfl, afterCmd_started x cmd r⟩
  | callReacqBody i cmd tl hp hc hr => exact ⟨_, rfl, afterCmd_started _ cmd _⟩
  | callReacqDefer i hp hc => exact ⟨_, rfl, (afterDefer_fields _).2.1⟩
  | cmdEndDefer j r cmd hp hd hs => exact ⟨_, rfl, (afterDefer_fields _).2.1⟩
  | _ => exact ⟨_, rfl, rfl⟩

/-- in every accepted trace the model's `started` of an activation is exactly the list of
non-deferred command starts among its events -/
theorem started_is_history (P : Program) (F : Flags) (n : Nat) (tr : List Label) (c : Config)
    (h : replay P F (init n) tr = some c) (a : Nat) (x : Act) (hx : c.act? a = some x) :
    x.started = ndStarts (evsOf a tr) := by
  have := actMon_sound startedMon (fun s x => x.started = s) P F
    (fun c kind t => ⟨[], rfl, (freshAct_fields P F c kind t).2.2.2.2.1⟩)
    (fun o s x ev y eff hR hs => started_local F o s x ev y eff hR hs)
    (fun _ _ _ h => h) n tr c h a
  rw [hx] at this
  obtain ⟨s, h1, h2⟩ := this
  rw [startedMon_run] at h1
  simp only [startedMon, List.nil_append, Option.some.injEq] at h1
  rw [h2, ← h1]

theorem ndStarts_nil (evs : List Ev) (h : ndStarts evs = []) : ∀ ev, ev ∈ evs → isNDStart ev = false := by
  induction evs with
  | nil => intro ev hev; cases hev
  | cons e es ih =>
    intro ev hev
    cases e with
    | cmdStart i seen d =>
      cases d with
      | true =>
        simp only [List.mem_cons] at hev
        rcases hev with rfl | hev
        · rfl
        · exact ih (by simpa [ndStarts] using h) ev hev
      | false => simp [ndStarts] at h
    | callRelease i d =>
      cases d with
      | true =>
        simp only [List.mem_cons] at hev
        rcases hev with rfl | hev
        · rfl
        · exact ih (by simpa [ndStarts] using h) ev hev
      | false => simp [ndStarts] at h
    | _ =>
      simp only [List.mem_cons] at hev
      rcases hev with rfl | hev
      · rfl
      · exact ih (by simpa [ndStarts] using h) ev hev

/-- before the command loop nothing has started -/
theorem preBody_started (P : Program) (F : Flags) (n : Nat) (tr : List Label) (c : Config)
    (h : replay P F (init n) tr = some c) (a : Nat) (x : Act) (hx : c.act? a = some x)
    (hp : preBodyP x.phase = true) : x.started = [] := by
  refine localInv_sound (fun x => preBodyP x.phase = true → x.started = []) P F ?_ ?_ (fun _ _ h => h)
    n tr c h a x hx hp
  · intro c kind t _; exact (freshAct_fields P F c kind t).2.2.2.2.1
  · intro o x ev y eff hG hs
    have hL := LStep_of_stepLocal F o x ev y eff hs
    cases hL with
    | guardsPassed hp hc =>
      intro hh
      rcases next_phase x x.def_.cmds 0 with h1 | ⟨h1, _⟩ | ⟨h1, _⟩ <;> rw [h1] at hh <;> cases hh
    | cmdEndBody i r cmd tl hp hr hc hs =>
      intro hh; rcases afterCmd_phase x cmd r with h1 | h1 | h1 <;> rw [h1] at hh <;> cases hh
    | callReacqBody i cmd tl hp hc hr =>
      intro hh
      rcases afterCmd_phase { x with holds := true } cmd x.callRes with h1 | h1 | h1 <;> rw [h1] at hh <;> cases hh
    | callReacqDefer i hp hc =>
      intro hh; rcases afterDefer_phase { x with holds := true } with h1 | h1 <;> rw [h1] at hh <;> cases hh
    | cmdEndDefer j r cmd hp hd hs =>
      intro hh; rcases afterDefer_phase x with h1 | h1 <;> rw [h1] at hh <;> cases hh
    | _ => simp_all [preBodyP, Act.stop, Act.stopDeps]

/-- splitting an accepted trace at an event -/
theorem replay_split (P : Program) (F : Flags) (c0 c : Config) (tr1 tr2 : List Label) (l : Label)
    (h : replay P F c0 (tr1 ++ l :: tr2) = some c) :
    ∃ c1 c2, replay P F c0 tr1 = some c1 ∧ step P F c1 l = some c2 ∧ replay P F c2 tr2 = some c := by
  rw [replay_append] at h
  cases h1 : replay P F c0 tr1 with
  | none => rw [h1] at h; cases h
  | some c1 =>
    rw [h1] at h
    simp only [Option.bind, replay] at h
    split at h
    · rename_i c2 hs; exact ⟨c1, c2, rfl, hs, h⟩
    · cases h

/-- a non-`enter` event of `a` applied to a configuration: the local step it performs -/
theorem step_local_of (P : Program) (F : Flags) (c1 c2 : Config) (a : Nat) (ev : Ev)
    (hne : ∀ k t, ev ≠ .enter k t) (hs : step P F c1 ⟨a, ev⟩ = some c2) :
    ∃ x y eff, c1.act? a = some x ∧ stepLocal F (obsOf F c1 a x) x ev = some (y, eff) ∧ c2.act? a = some y := by
  obtain ⟨x, y, eff, h1, h2, rfl⟩ := step_local P F c1 c2 ⟨a, ev⟩ hne hs
  exact ⟨x, y, eff, h1, h2, by simp⟩

/-! ### small facts used by `Props/C03.lean` -/

theorem mem_of_lookup {α} (l : List (Nat × α)) (s : Nat) (v : α) (h : l.lookup s = some v) : (s, v) ∈ l := by
  induction l with
  | nil => cases h
  | cons p l ih =>
    obtain ⟨k, w⟩ := p
    simp only [List.lookup] at h
    split at h
    · rename_i he
      have : s = k := by simpa using he
      cases h; subst this; exact List.mem_cons_self
    · exact List.mem_cons_of_mem _ (ih h)

theorem isOk_eq_ok (r : Res) (h : r.isOk = true) : r = .ok := by cases r <;> first | rfl | cases h

theorem parResults_one (c : Config) (rs : List Res) (h : parResults c 1 0 = some rs) :
    ∃ id r, c.tops.lookup 0 = some id ∧ kidDone c id = some r ∧ rs = [r] := by
  simp only [parResults] at h
  split at h
  · cases h
  · rename_i id hid
    split at h
    · rename_i r rs' hr hrs
      cases hrs; cases h
      exact ⟨id, r, hid, hr, rfl⟩
    · cases h

theorem seqResult_one (c : Config) (r' : Res) (h : seqResult c 1 0 = some r') :
    ∃ id, c.tops.lookup 0 = some id ∧ kidDone c id = some r' := by
  simp only [seqResult] at h
  split at h
  · cases h
  · rename_i id hid
    split at h
    · cases h
    · rename_i r hr
      split at h
      · rename_i hok
        cases h
        exact ⟨id, hid, by rw [hr, isOk_eq_ok _ hok]⟩
      · split at h
        · cases h; exact ⟨id, hid, hr⟩
        · cases h

end TaskModel.Sched.S2
