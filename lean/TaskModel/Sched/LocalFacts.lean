import TaskModel.Sched.DeferLemmas
/-!
Sched.LocalFacts — facts about one accepted `stepLocal` (one activation, one event),
each proved by one case split over the transitions:

* `stepLocal` never touches the identity of an activation (`kids`, `def_`, `kind`, `task`,
  `indirect`) and has no transition out of `done`; `done` is entered by `exit` only;
* `key` is set exactly by `register`, `waitsFor` exactly by `waiter`;
* once `execDone` is behind an activation its result is final.
-/
namespace TaskModel.Sched

/-! ### the deterministic helpers leave the identity fields alone -/

/-- fields no helper (`next`, `fail`, `stop`, `afterCmd`, `afterDefer`) changes -/
def SameId (x y : Act) : Prop :=
  y.kids = x.kids ∧ y.def_ = x.def_ ∧ y.kind = x.kind ∧ y.task = x.task ∧ y.indirect = x.indirect ∧
  y.key = x.key ∧ y.waitsFor = x.waitsFor ∧ y.started = x.started

theorem SameId.rfl' (x : Act) : SameId x x := ⟨rfl, rfl, rfl, rfl, rfl, rfl, rfl, rfl⟩

theorem SameId.trans {x y z : Act} (h1 : SameId x y) (h2 : SameId y z) : SameId x z := by
  obtain ⟨a1, a2, a3, a4, a5, a6, a7, a8⟩ := h1
  obtain ⟨b1, b2, b3, b4, b5, b6, b7, b8⟩ := h2
  exact ⟨b1.trans a1, b2.trans a2, b3.trans a3, b4.trans a4, b5.trans a5, b6.trans a6, b7.trans a7, b8.trans a8⟩

theorem next_same (x : Act) (cs : List Cmd) (i : Nat) : SameId x (x.next cs i) := by
  unfold Act.next
  split
  split <;> exact ⟨rfl, rfl, rfl, rfl, rfl, rfl, rfl, rfl⟩

theorem fail_same (x : Act) (r : Res) : SameId x (x.fail r) := ⟨rfl, rfl, rfl, rfl, rfl, rfl, rfl, rfl⟩
theorem stop_same (x : Act) (r : Res) : SameId x (x.stop r) := ⟨rfl, rfl, rfl, rfl, rfl, rfl, rfl, rfl⟩

theorem afterDefer_same (x : Act) : SameId x x.afterDefer := by
  unfold Act.afterDefer
  split <;> exact ⟨rfl, rfl, rfl, rfl, rfl, rfl, rfl, rfl⟩

theorem afterCmd_same (x : Act) (c : Cmd) (r : Res) : SameId x (x.afterCmd c r) := by
  unfold Act.afterCmd
  simp only
  split
  · exact next_same x _ _
  · split
    · exact next_same x _ _
    · exact fail_same _ _
  · exact fail_same x _

section fields
variable (x : Act) (cs : List Cmd) (i : Nat) (r : Res) (c : Cmd)
@[simp] theorem next_kids : (x.next cs i).kids = x.kids := (next_same x cs i).1
@[simp] theorem next_def : (x.next cs i).def_ = x.def_ := (next_same x cs i).2.1
@[simp] theorem next_kind : (x.next cs i).kind = x.kind := (next_same x cs i).2.2.1
@[simp] theorem next_task : (x.next cs i).task = x.task := (next_same x cs i).2.2.2.1
@[simp] theorem next_indirect : (x.next cs i).indirect = x.indirect := (next_same x cs i).2.2.2.2.1
@[simp] theorem next_key : (x.next cs i).key = x.key := (next_same x cs i).2.2.2.2.2.1
@[simp] theorem next_waitsFor : (x.next cs i).waitsFor = x.waitsFor := (next_same x cs i).2.2.2.2.2.2.1
@[simp] theorem next_started : (x.next cs i).started = x.started := (next_same x cs i).2.2.2.2.2.2.2
@[simp] theorem afterCmd_kids : (x.afterCmd c r).kids = x.kids := (afterCmd_same x c r).1
@[simp] theorem afterCmd_def : (x.afterCmd c r).def_ = x.def_ := (afterCmd_same x c r).2.1
@[simp] theorem afterCmd_kind : (x.afterCmd c r).kind = x.kind := (afterCmd_same x c r).2.2.1
@[simp] theorem afterCmd_task : (x.afterCmd c r).task = x.task := (afterCmd_same x c r).2.2.2.1
@[simp] theorem afterCmd_indirect : (x.afterCmd c r).indirect = x.indirect := (afterCmd_same x c r).2.2.2.2.1
@[simp] theorem afterCmd_key : (x.afterCmd c r).key = x.key := (afterCmd_same x c r).2.2.2.2.2.1
@[simp] theorem afterCmd_waitsFor : (x.afterCmd c r).waitsFor = x.waitsFor := (afterCmd_same x c r).2.2.2.2.2.2.1
@[simp] theorem afterCmd_started : (x.afterCmd c r).started = x.started := (afterCmd_same x c r).2.2.2.2.2.2.2
@[simp] theorem afterDefer_kids : x.afterDefer.kids = x.kids := (afterDefer_same x).1
@[simp] theorem afterDefer_def : x.afterDefer.def_ = x.def_ := (afterDefer_same x).2.1
@[simp] theorem afterDefer_kind : x.afterDefer.kind = x.kind := (afterDefer_same x).2.2.1
@[simp] theorem afterDefer_task : x.afterDefer.task = x.task := (afterDefer_same x).2.2.2.1
@[simp] theorem afterDefer_indirect : x.afterDefer.indirect = x.indirect := (afterDefer_same x).2.2.2.2.1
@[simp] theorem afterDefer_key : x.afterDefer.key = x.key := (afterDefer_same x).2.2.2.2.2.1
@[simp] theorem afterDefer_waitsFor : x.afterDefer.waitsFor = x.waitsFor := (afterDefer_same x).2.2.2.2.2.2.1
@[simp] theorem afterDefer_started : x.afterDefer.started = x.started := (afterDefer_same x).2.2.2.2.2.2.2
@[simp] theorem afterDefer_res : x.afterDefer.res = x.res := by unfold Act.afterDefer; split <;> rfl
@[simp] theorem next_res : (x.next cs i).res = x.res := (next_stack x cs i).2.2.2.2.1
end fields

/-! ### phases the helpers can produce -/

theorem fail_phase (x : Act) (r : Res) : (x.fail r).phase = .finished ∨ (x.fail r).phase = .defers := by
  unfold Act.fail; simp only; split
  · left; rfl
  · right; rfl

theorem afterDefer_phase (x : Act) : x.afterDefer.phase = .finished ∨ x.afterDefer.phase = .defers := by
  unfold Act.afterDefer
  split
  · left; rfl
  · simp only; split
    · left; rfl
    · right; rfl

theorem next_phase' (x : Act) (cs : List Cmd) (i : Nat) :
    (x.next cs i).phase = .body ∨ (x.next cs i).phase = .defers ∨ (x.next cs i).phase = .finished := by
  rcases next_phase x cs i with h | ⟨h, _⟩ | ⟨h, _⟩
  · exact .inl h
  · exact .inr (.inl h)
  · exact .inr (.inr h)

theorem afterCmd_phase (x : Act) (c : Cmd) (r : Res) :
    (x.afterCmd c r).phase = .body ∨ (x.afterCmd c r).phase = .defers ∨ (x.afterCmd c r).phase = .finished := by
  unfold Act.afterCmd
  simp only
  split
  · exact next_phase' x _ _
  · split
    · exact next_phase' x _ _
    · rcases fail_phase { x with exitCode := _ } (.exit _) with h | h
      · exact .inr (.inr h)
      · exact .inr (.inl h)
  · rcases fail_phase x ‹Res› with h | h
    · exact .inr (.inr h)
    · exact .inr (.inl h)

end TaskModel.Sched

namespace TaskModel.Sched

/-! ### facts about one accepted `stepLocal` -/

/-- case split of an accepted `stepLocal` (hypothesis `h`) into its transitions; `h` is substituted away -/
macro "step_local_cases " h:ident : tactic =>
  `(tactic| (unfold stepLocal at $h:ident
             split at $h:ident
             all_goals (try (repeat' split at $h:ident))
             all_goals (try cases $h:ident)
             all_goals (try (simp only at $h:ident; split at $h:ident <;> cases $h:ident))))

/-- phases in which a registered execution counts as finished (`execDone` has been accepted) -/
def exFin : Phase → Bool
  | .execDoneP | .released | .done => true
  | _ => false

set_option maxHeartbeats 1000000 in
/-- `stepLocal` never touches the identity of an activation -/
theorem stepLocal_frame (F : Flags) (o : Obs) (x : Act) (ev : Ev) (y : Act) (eff : Eff)
    (h : stepLocal F o x ev = some (y, eff)) :
    y.kids = x.kids ∧ y.def_ = x.def_ ∧ y.kind = x.kind ∧ y.task = x.task ∧ y.indirect = x.indirect := by
  step_local_cases h
  all_goals (simp [Act.stop, Act.stopDeps]; done)

/-- there is no transition out of `done` -/
theorem stepLocal_not_done (F : Flags) (o : Obs) (x : Act) (ev : Ev) (y : Act) (eff : Eff)
    (h : stepLocal F o x ev = some (y, eff)) : x.phase ≠ .done := by
  intro hd
  unfold stepLocal at h
  rw [hd] at h
  split at h <;> simp_all

set_option maxHeartbeats 1000000 in
/-- once `execDone` is behind an activation, its result is final -/
theorem stepLocal_exFin (F : Flags) (o : Obs) (x : Act) (ev : Ev) (y : Act) (eff : Eff)
    (h : stepLocal F o x ev = some (y, eff)) (hf : exFin x.phase = true) :
    exFin y.phase = true ∧ y.res = x.res := by
  step_local_cases h
  all_goals (simp_all [exFin]; done)

set_option maxHeartbeats 1000000 in
/-- … and so is what its execution ended with (the value the waiters take) -/
theorem stepLocal_exFin_out (F : Flags) (o : Obs) (x : Act) (ev : Ev) (y : Act) (eff : Eff)
    (h : stepLocal F o x ev = some (y, eff)) (hf : exFin x.phase = true) : y.out = x.out := by
  step_local_cases h
  all_goals (simp_all [exFin]; done)

set_option maxHeartbeats 1000000 in
/-- `key` is set exactly by `register k`, which is accepted only from `acquired`, for a
deduplicated task, when `k` is not registered yet; its effect is `reg k` -/
theorem stepLocal_key (F : Flags) (o : Obs) (x : Act) (ev : Ev) (y : Act) (eff : Eff)
    (h : stepLocal F o x ev = some (y, eff)) :
    (y.key = x.key ∧ (∀ k, eff ≠ .reg k) ∧ ∀ k, ev ≠ .register k) ∨
    (∃ k, ev = .register k ∧ eff = .reg k ∧ y.key = some k ∧ o.registered k = false ∧
      x.def_.run ≠ .always ∧ x.phase = .acquired ∧ y.phase = .exec) := by
  step_local_cases h
  all_goals (first
    | (left; simp [Act.stop, Act.stopDeps]; done)
    | (right; simp_all; done))

set_option maxHeartbeats 1000000 in
/-- `waitsFor` is set exactly by `waiter k`, accepted only from `acquired`, for a
deduplicated task, when `k` is already registered -/
theorem stepLocal_waitsFor (F : Flags) (o : Obs) (x : Act) (ev : Ev) (y : Act) (eff : Eff)
    (h : stepLocal F o x ev = some (y, eff)) :
    (y.waitsFor = x.waitsFor ∧ ∀ k, ev ≠ .waiter k) ∨
    (∃ k, ev = .waiter k ∧ y.waitsFor = some k ∧ o.registered k = true ∧
      x.def_.run ≠ .always ∧ x.phase = .acquired ∧ y.phase = .wWaiting) := by
  step_local_cases h
  all_goals (first
    | (left; simp [Act.stop, Act.stopDeps]; done)
    | (right; simp_all; done))

/-- the phases `next`, `fail`, `stop`, `afterCmd`, `afterDefer` can produce -/
def midPhase : Phase → Bool
  | .body | .defers | .finished => true
  | _ => false

theorem next_mid {x : Act} {cs : List Cmd} {i : Nat} {p : Phase} (h : (x.next cs i).phase = p) : midPhase p = true := by
  rcases next_phase' x cs i with h' | h' | h' <;> rw [h'] at h <;> subst h <;> rfl
theorem afterCmd_mid {x : Act} {c : Cmd} {r : Res} {p : Phase} (h : (x.afterCmd c r).phase = p) : midPhase p = true := by
  rcases afterCmd_phase x c r with h' | h' | h' <;> rw [h'] at h <;> subst h <;> rfl
theorem afterDefer_mid {x : Act} {p : Phase} (h : x.afterDefer.phase = p) : midPhase p = true := by
  rcases afterDefer_phase x with h' | h' <;> rw [h'] at h <;> subst h <;> rfl
theorem fail_mid {x : Act} {r : Res} {p : Phase} (h : (x.fail r).phase = p) : midPhase p = true := by
  rcases fail_phase x r with h' | h' <;> rw [h'] at h <;> subst h <;> rfl
theorem stop_mid {x : Act} {r : Res} {p : Phase} (h : (x.stop r).phase = p) : midPhase p = true := by
  subst h; rfl

set_option maxHeartbeats 1000000 in
/-- `done` is entered by `exit` only -/
theorem stepLocal_done (F : Flags) (o : Obs) (x : Act) (ev : Ev) (y : Act) (eff : Eff)
    (h : stepLocal F o x ev = some (y, eff)) (hd : y.phase = .done) : ev = .exit := by
  step_local_cases h
  all_goals (first
    | rfl
    | (exfalso; cases hd; done)
    | (exfalso; have := stop_mid hd; cases this; done)
    | (exfalso; have := afterCmd_mid hd; cases this; done)
    | (exfalso; have := afterDefer_mid hd; cases this; done)
    | (exfalso; have := next_mid hd; cases this; done))

theorem exFin_of_mid {p : Phase} (h : midPhase p = true) : exFin p = false := by
  cases p <;> simp [midPhase] at h <;> rfl

theorem exFin_next (x : Act) (cs : List Cmd) (i : Nat) : exFin (x.next cs i).phase = false :=
  exFin_of_mid (next_mid rfl)
theorem exFin_afterCmd (x : Act) (c : Cmd) (r : Res) : exFin (x.afterCmd c r).phase = false :=
  exFin_of_mid (afterCmd_mid rfl)
theorem exFin_afterDefer (x : Act) : exFin x.afterDefer.phase = false :=
  exFin_of_mid (afterDefer_mid rfl)

end TaskModel.Sched
