import TaskModel.Sched.DeferLemmas
import TaskModel.Sched.MonC02
/-! Helper lemmas for C02 (`Props/C02.lean`): the relation between the state of the
sequencing monitor `seqMon` and the model state of one activation, and its preservation
by every local step. -/
namespace TaskModel.Sched.S2

/-- the entry an activation has open: (index, is a `task:` call) -/
def openOf : Phase → Option (Nat × Bool)
  | .inShell i _ => some (i, false)
  | .inCall i _ | .callReturned i _ => some (i, true)
  | _ => none

/-- the non-deferred command an activation has open -/
def openND : Phase → Option Nat
  | .inShell i false | .inCall i false | .callReturned i false => some i
  | _ => none

/-- phases before the command loop -/
def preBodyP : Phase → Bool
  | .early | .entered | .acquired | .wWaiting | .wReleased | .wWoken | .exec | .depsWait | .depsJoined | .guards => true
  | _ => false

theorem openOf_callReturned (i : Nat) (d : Bool) : openOf (.callReturned i d) = openOf (.inCall i d) := rfl
theorem openND_callReturned (i : Nat) (d : Bool) : openND (.callReturned i d) = openND (.inCall i d) := by
  cases d <;> rfl

/-- model state ↔ state of `seqMon` -/
def SeqR (s : SeqSt) (x : Act) : Prop :=
  s.cur = openOf x.phase ∧
  (preBodyP x.phase = true → s.last = none) ∧
  (x.phase = .body → ∀ j, s.last = some j → j < x.idx) ∧
  (∀ i, openND x.phase = some i → ∀ j, s.last = some j → j ≤ x.idx)

theorem SeqR_fresh (P : Program) (F : Flags) (c : Config) (kind : Kind) (t : Nat) :
    SeqR {} (freshAct P F c kind t) := by
  obtain ⟨hph, _⟩ := freshAct_fields P F c kind t
  refine ⟨?_, fun _ => rfl, ?_, ?_⟩
  · rcases hph with h | h <;> rw [h] <;> rfl
  · intro _ j hj; cases hj
  · intro _ _ j hj; cases hj

theorem SeqR_kids (s : SeqSt) (x : Act) (k : List (Nat × Nat)) (h : SeqR s x) : SeqR s { x with kids := k } := h

/-- steps that neither open / close an entry nor move the position in the command list -/
theorem SeqR_same (s : SeqSt) (x y : Act) (hi : y.idx = x.idx)
    (ho : openOf y.phase = openOf x.phase)
    (hp : preBodyP y.phase = true → preBodyP x.phase = true)
    (hb : y.phase = .body → x.phase = .body)
    (hn : ∀ i, openND y.phase = some i → openND x.phase = some i)
    (h : SeqR s x) : SeqR s y := by
  obtain ⟨h1, h2, h3, h4⟩ := h
  refine ⟨by rw [ho]; exact h1, fun hh => h2 (hp hh), ?_, ?_⟩
  · intro hh; rw [hi]; exact h3 (hb hh)
  · intro i hh; rw [hi]; exact h4 i (hn i hh)

/-- once the command loop is over only the open entry matters -/
theorem SeqR_post (s : SeqSt) (y : Act) (hc : s.cur = none) (hp : y.phase = .defers ∨ y.phase = .finished) :
    SeqR s y := by
  rcases hp with h | h <;>
  · refine ⟨by rw [h]; exact hc, ?_, ?_, ?_⟩
    · intro hh; rw [h] at hh; cases hh
    · intro hh; rw [h] at hh; cases hh
    · intro i hh; rw [h] at hh; cases hh

theorem SeqR_next (s : SeqSt) (x : Act) (cs : List Cmd) (i : Nat)
    (hc : s.cur = none) (hl : ∀ j, s.last = some j → j < i) : SeqR s (x.next cs i) := by
  rcases next_phase x cs i with h | ⟨h, _⟩ | ⟨h, _⟩
  · obtain ⟨_, _, h3, _⟩ := next_stack x cs i
    have hle : i ≤ (advance cs i x.regs x.stack).2.1 := by
      -- `advance` never moves backwards
      have : ∀ (cs : List Cmd) (i : Nat) (r st : List Nat), i ≤ (advance cs i r st).2.1 := by
        intro cs
        induction cs with
        | nil => intro i r st; exact Nat.le_refl _
        | cons c cs ih =>
          intro i r st
          simp only [advance]
          split
          · exact Nat.le_trans (Nat.le_succ i) (ih (i+1) _ _)
          · exact Nat.le_refl _
      exact this cs i x.regs x.stack
    refine ⟨by rw [h]; exact hc, ?_, ?_, ?_⟩
    · intro hh; rw [h] at hh; cases hh
    · intro _ j hj; rw [h3]; exact Nat.lt_of_lt_of_le (hl j hj) hle
    · intro k hh; rw [h] at hh; cases hh
  · exact SeqR_post s _ hc (.inl h)
  · exact SeqR_post s _ hc (.inr h)

theorem SeqR_fail (s : SeqSt) (x : Act) (r : Res) (hc : s.cur = none) : SeqR s (x.fail r) := by
  apply SeqR_post s _ hc
  unfold Act.fail
  by_cases h : x.stack.isEmpty = true
  · right; simp [h]
  · left; simp [h]

theorem SeqR_afterCmd (s : SeqSt) (x : Act) (c : Cmd) (r : Res)
    (hc : s.cur = none) (hl : ∀ j, s.last = some j → j ≤ x.idx) : SeqR s (x.afterCmd c r) := by
  have hl' : ∀ j, s.last = some j → j < x.idx + 1 := fun j hj => Nat.lt_succ_of_le (hl j hj)
  unfold Act.afterCmd
  simp only
  split
  · exact SeqR_next s x _ _ hc hl'
  · split
    · exact SeqR_next s x _ _ hc hl'
    · exact SeqR_fail s _ _ hc
  · exact SeqR_fail s x _ hc

theorem SeqR_afterDefer (s : SeqSt) (x : Act) (hc : s.cur = none) : SeqR s x.afterDefer := by
  apply SeqR_post s _ hc
  unfold Act.afterDefer
  split
  · right; rfl
  · rename_i i st _
    by_cases h : st.isEmpty = true
    · right; simp [h]
    · left; simp [h]

/-- an entry is opened -/
theorem SeqR_open (s : SeqSt) (y : Act) (hc : s.cur = openOf y.phase)
    (hp : preBodyP y.phase = false) (hb : y.phase ≠ .body)
    (hn : ∀ i, openND y.phase = some i → ∀ j, s.last = some j → j ≤ y.idx) : SeqR s y := by
  refine ⟨hc, ?_, fun hh => absurd hh hb, hn⟩
  intro hh; rw [hp] at hh; cases hh

theorem ltAfter_of (last : Option Nat) (i : Nat) (h : ∀ j, last = some j → j < i) : ltAfter last i = true := by
  cases last with
  | none => rfl
  | some j => simpa [ltAfter] using h j rfl

set_option maxHeartbeats 1000000 in
theorem SeqR_local (F : Flags) (o : Obs) (s : SeqSt) (x : Act) (ev : Ev) (y : Act) (eff : Eff)
    (hR : SeqR s x) (h : stepLocal F o x ev = some (y, eff)) :
    ∃ s', seqMon.step s ev = some s' ∧ SeqR s' y := by
  have hR' := hR
  obtain ⟨hcur, hpre, hbody, hopen⟩ := hR
  unfold stepLocal at h
  split at h
  all_goals (try (rename_i hph; rw [hph] at hcur hpre hbody hopen))
  all_goals (try (simp only [openOf, openND, preBodyP, forall_const, reduceCtorEq, false_implies,
    Option.some.injEq, forall_eq', Bool.false_eq_true] at hcur hpre hbody hopen))
  all_goals (try (repeat' split at h))
  all_goals (try cases h)
  all_goals (try (first
    | (refine ⟨s, ?_, SeqR_same s x _ rfl ?_ ?_ ?_ ?_ hR'⟩ <;>
        simp [seqMon, openOf, openND, preBodyP, Act.stop, Act.stopDeps, *]; done)))
  -- guardsPassed
  · exact ⟨s, rfl, SeqR_next s x _ 0 hcur (by intro j hj; rw [hpre] at hj; cases hj)⟩
  -- cmdStart (body)
  · rename_i hc
    simp only [Bool.and_eq_true, decide_eq_true_eq, Bool.not_eq_true'] at hc
    obtain ⟨⟨rfl, _⟩, rfl⟩ := hc
    refine ⟨{ last := some x.idx, cur := some (x.idx, false) }, ?_, ?_⟩
    · simp [seqMon, hcur, ltAfter_of _ _ hbody]
    · refine SeqR_open _ _ rfl rfl (by simp) ?_
      intro i _ j hj; cases hj; exact Nat.le_refl _
  -- cmdEnd (body)
  · rename_i hij _ _ _ _ _ _
    have hij' : _ = _ := Decidable.not_not.mp hij
    subst hij'
    refine ⟨{ s with cur := none }, ?_, SeqR_afterCmd _ x _ _ rfl hopen⟩
    simp [seqMon, hcur]
  -- callRelease (body)
  · rename_i hc
    simp only [Bool.and_eq_true, decide_eq_true_eq, Bool.not_eq_true'] at hc
    obtain ⟨rfl, rfl⟩ := hc
    refine ⟨{ last := some x.idx, cur := some (x.idx, true) }, ?_, ?_⟩
    · simp [seqMon, hcur, ltAfter_of _ _ hbody]
    · refine SeqR_open _ _ rfl rfl (by simp) ?_
      intro i _ j hj; cases hj; exact Nat.le_refl _
  -- callRet
  · rename_i hij _ _ _
    have hij' : _ = _ := Decidable.not_not.mp hij
    subst hij'
    refine ⟨s, by simp [seqMon, hcur], SeqR_same s x _ rfl ?_ ?_ ?_ ?_ hR'⟩ <;>
      simp [openOf_callReturned, openND_callReturned, preBodyP, *]
  -- callReacq after a deferred call
  · rename_i hc _
    simp only [Bool.or_eq_true, decide_eq_true_eq, not_or, Decidable.not_not] at hc
    obtain ⟨rfl, _⟩ := hc
    exact ⟨{ s with cur := none }, by simp [seqMon, hcur], SeqR_afterDefer _ _ rfl⟩
  -- callReacq after a call in the body
  · rename_i hc hd' _ _ _ _
    simp only [Bool.or_eq_true, decide_eq_true_eq, not_or, Decidable.not_not] at hc
    obtain ⟨rfl, _⟩ := hc
    have hd'' : _ = false := Bool.eq_false_iff.mpr hd'
    subst hd''
    exact ⟨{ s with cur := none }, by simp [seqMon, hcur], SeqR_afterCmd _ _ _ _ rfl (hopen _ rfl)⟩
  -- cmdStart of a deferred entry (EXIT_CODE set)
  · simp only at h
    split at h
    · rename_i hc
      cases h
      simp only [Bool.and_eq_true, decide_eq_true_eq] at hc
      obtain ⟨⟨rfl, _⟩, rfl⟩ := hc
      refine ⟨{ s with cur := some (_, false) }, by simp [seqMon, hcur], SeqR_open _ _ rfl rfl (by simp) ?_⟩
      intro i hi; cases hi
    · cases h
  -- cmdStart of a deferred entry (no EXIT_CODE)
  · simp only at h
    split at h
    · rename_i hc
      cases h
      simp only [Bool.and_eq_true, decide_eq_true_eq] at hc
      obtain ⟨⟨rfl, _⟩, rfl⟩ := hc
      refine ⟨{ s with cur := some (_, false) }, by simp [seqMon, hcur], SeqR_open _ _ rfl rfl (by simp) ?_⟩
      intro i hi; cases hi
    · cases h
  -- cmdEnd of a deferred entry
  · rename_i hij _ _ _ _
    have hij' : _ = _ := Decidable.not_not.mp hij
    subst hij'
    exact ⟨{ s with cur := none }, by simp [seqMon, hcur], SeqR_afterDefer _ _ rfl⟩
  -- callRelease of a deferred call
  · rename_i hc
    simp only [Bool.and_eq_true, decide_eq_true_eq] at hc
    obtain ⟨rfl, rfl⟩ := hc
    refine ⟨{ s with cur := some (_, true) }, by simp [seqMon, hcur], SeqR_open _ _ rfl rfl (by simp) ?_⟩
    intro i hi; cases hi

end TaskModel.Sched.S2
