import TaskModel.Sched.Monitors
/-!
Sched.MonVal — two monitors over what the acceptor leaves open.

**Values.**  The acceptor does not know which variables a reference hands to the callee.
Here a reference carries a `Pass` for the one variable the generated programs hand around
(`V`): nothing, a literal, the exit code a deferred entry sees (`{{.EXIT_CODE}}`), a variable
of the referring task (`{{.LOCAL}}`) or the referrer's own `V`.  `valsOf` runs the SAME `step`
as `replay` and computes, at every `enter`, the value the new activation must see from the
state of its creator at that moment (`Act.exitCode` for a deferred call); `valMon` compares it
with what the activation's commands printed.  C02: the callee sees what was passed; C14: a
deferred `task:` entry sees the task's exit code like a deferred command does.

**Keys.**  Dedup keys are opaque numbers in the acceptor (`register k` needs `k` fresh,
`waiter k` needs it registered).  `keyMon` adds what C06 says about WHICH key a reference
gets: all references of one `run: once` task use one key, the references of a
`run: when_changed` task one key per value they are called with, a key belongs to one task,
and a `run: always` task uses none.  (The key function itself is `Props.C06Key`'s subject.)
-/
namespace TaskModel.Sched

/-- what a reference (dependency, `task:` entry, deferred `task:` entry) passes as `V` -/
inductive Pass
  | none                 -- no `vars:`
  | lit (n : Nat)        -- `vars: {V: 'n'}`
  | exitCode             -- `vars: {V: '{{.EXIT_CODE}}'}` (defined inside `runDeferred` only, when the body failed)
  | local_               -- `vars: {V: '{{.LOCAL}}'}`: a task-level variable of the REFERRING task
  | own                  -- `vars: {V: '{{.V}}'}`: what the referrer was called with itself
deriving DecidableEq, Repr, Inhabited

/-- the passes of one task: one per dependency, one per entry of `cmds` (ignored for shell entries) -/
structure TaskPasses where
  deps : List Pass := []
  cmds : List Pass := []
deriving Repr, Inhabited

abbrev Passes := List TaskPasses

/-! Values are strings in reality; the encoding is injective on what the programs can produce:
`0` the variable is not set, `1` it is set to the empty string (a template that came out empty — both print
as nothing, but they are different sets of call variables: `printed`), `2n+3` the decimal numeral `n`,
`2t+2` the value of `LOCAL` in task `t`. -/
def valUnset : Nat := 0
def valEmpty : Nat := 1
def valNum (n : Nat) : Nat := 2 * n + 3
def valLocal (t : Nat) : Nat := 2 * t + 2

/-- what a command that prints the variable shows -/
def printed (v : Nat) : Nat := if v = valEmpty then valUnset else v

/-- the value a reference with pass `p` hands over, given the referring activation `px` (its task, the
exit code its deferred entries see) and the value `pv` it was called with itself -/
def passVal (p : Pass) (px : Act) (pv : Nat) : Nat :=
  match p with
  | .none => valUnset
  | .lit n => valNum n
  | .exitCode => if px.exitCode > 0 then valNum px.exitCode else valEmpty
  | .local_ => valLocal px.task
  | .own => if pv = valUnset then valEmpty else pv

def depPass (Ps : Passes) (t j : Nat) : Pass := ((Ps[t]?).bind (·.deps[j]?)).getD .none
def cmdPass (Ps : Passes) (t i : Nat) : Pass := ((Ps[t]?).bind (·.cmds[i]?)).getD .none

/-- the value an activation created now, in configuration `c`, must see; `vals`: what the existing
activations were called with.  A call given on the command line gets nothing. -/
def expectedVal (Ps : Passes) (c : Config) (vals : List (Nat × Nat)) : Kind → Nat
  | .top _ => valUnset
  | .dep p j =>
    match c.act? p with
    | some px => passVal (depPass Ps px.task j) px ((vals.lookup p).getD valUnset)
    | none => valUnset
  | .call p i _ =>
    match c.act? p with
    | some px => passVal (cmdPass Ps px.task i) px ((vals.lookup p).getD valUnset)
    | none => valUnset

/-- run the acceptor and record, at every `enter`, the value the new activation is called with
(read off the configuration BEFORE the step: the creator's state at that moment) -/
def valsOf (Ps : Passes) (P : Program) (F : Flags) : Config → List Label → List (Nat × Nat) → List (Nat × Nat)
  | _, [], vals => vals
  | c, l :: ls, vals =>
    let vals' := match l.ev with
      | .enter kind _ => (l.act, expectedVal Ps c vals kind) :: vals
      | _ => vals
    match step P F c l with
    | some c' => valsOf Ps P F c' ls vals'
    | none => vals'

/-- **value monitor**: every value an activation's commands printed (`obs`: activation, value) is the
value the model says the activation was called with, as a command prints it -/
def valMon (Ps : Passes) (P : Program) (F : Flags) (ncalls : Nat) (tr : List Label) (obs : List (Nat × Nat)) : Bool :=
  let vals := valsOf Ps P F (init ncalls) tr []
  obs.all (fun o => (vals.lookup o.1).map printed == some o.2)

/-! ### keys -/

/-- what a dedup key stands for: a `run: once` task; a `run: when_changed` task together with the value
it is called with; nothing for `run: always` -/
def keyOwner (P : Program) (t v : Nat) : Option (Nat × Nat) :=
  match P[t]? with
  | some d =>
    (match d.run with
     | .once => some (t, 0)
     | .whenChanged => some (t, v + 1)
     | .always => none)
  | none => none

/-- the task of every activation, from its `enter` -/
def taskTable : List Label → List (Nat × Nat)
  | [] => []
  | l :: ls => match l.ev with | .enter _ t => (l.act, t) :: taskTable ls | _ => taskTable ls

def keyOf : Ev → Option Nat
  | .register k => some k
  | .waiter k => some k
  | .waitCycle k => some k
  | _ => none

/-- the (key, owner) pairs of the log; `none` as owner: a key used by an activation that should use none -/
def keyEvents (P : Program) (tasks vals : List (Nat × Nat)) : List Label → List (Nat × Option (Nat × Nat))
  | [] => []
  | l :: ls =>
    match keyOf l.ev with
    | some k =>
      (k, (tasks.lookup l.act).bind (fun t => keyOwner P t ((vals.lookup l.act).getD valUnset))) :: keyEvents P tasks vals ls
    | none => keyEvents P tasks vals ls

/-- keys and owners correspond one to one, and every key has an owner -/
def keysConsistent (l : List (Nat × Option (Nat × Nat))) : Bool :=
  l.all (fun x => x.2.isSome && l.all (fun y => (x.1 == y.1) == (x.2 == y.2)))

/-- **key monitor** -/
def keyMon (Ps : Passes) (P : Program) (F : Flags) (ncalls : Nat) (tr : List Label) : Bool :=
  keysConsistent (keyEvents P (taskTable tr) (valsOf Ps P F (init ncalls) tr []) tr)

theorem beq_beq_iff {α β : Type} [BEq α] [LawfulBEq α] [BEq β] [LawfulBEq β] (a b : α) (c d : β) :
    ((a == b) == (c == d)) = true ↔ (a = b ↔ c = d) := by
  by_cases h1 : a = b <;> by_cases h2 : c = d
  · simp [h1, h2]
  · simp [h1, h2]
  · simp [h1, h2]
  · have e1 : (a == b) = false := by simpa using h1
    have e2 : (c == d) = false := by simpa using h2
    simp [e1, e2, h1, h2]

/-- what `keysConsistent` says: every key event has an owner, and two key events name the same key
exactly when they have the same owner -/
theorem keysConsistent_iff (l : List (Nat × Option (Nat × Nat))) :
    keysConsistent l = true ↔
      ∀ x ∈ l, x.2.isSome = true ∧ ∀ y ∈ l, (x.1 = y.1 ↔ x.2 = y.2) := by
  unfold keysConsistent
  rw [List.all_eq_true]
  constructor
  · intro h x hx
    have hh := h x hx
    rw [Bool.and_eq_true, List.all_eq_true] at hh
    exact ⟨hh.1, fun y hy => (beq_beq_iff _ _ _ _).mp (hh.2 y hy)⟩
  · intro h x hx
    rw [Bool.and_eq_true, List.all_eq_true]
    exact ⟨(h x hx).1, fun y hy => (beq_beq_iff _ _ _ _).mpr ((h x hx).2 y hy)⟩

/-! ### the call limit and acyclic programs

`MaximumTaskCall` counts the calls of a task, not the depth of a recursion: an ACYCLIC program that refers to one
task often enough (a binary tree of calls, a long loop, a `run: once` task with many dependents) ends with the
"called too many times" error although nothing recurses.  The acceptor mirrors the code; `callLimitMon` is the
property's side: an acyclic program never hits the limit. -/

/-- the tasks a task refers to: dependencies, `task:` entries, deferred `task:` entries -/
def edgesOf (d : TaskDef) : List Nat :=
  d.deps ++ d.cmds.filterMap (fun c => match c with | .call t _ => some t | .shell _ _ _ => none)

def addNew (l : List Nat) : List Nat → List Nat
  | [] => l
  | x :: xs => if l.contains x then addNew l xs else addNew (l ++ [x]) xs

/-- one round of the transitive closure: everything reachable from `r` in one more step -/
def closeStep (E : List (List Nat)) (R : List (List Nat)) : List (List Nat) :=
  R.map (fun r => addNew r (r.flatMap (fun v => (E[v]?).getD [])))

def closure (E : List (List Nat)) : Nat → List (List Nat) → List (List Nat)
  | 0, R => R
  | n+1, R => closure E n (closeStep E R)

/-- no task reaches itself along references (paths of length ≥ 1; `P.length` rounds suffice) -/
def acyclic (P : Program) : Bool :=
  let E := P.map (fun d => addNew [] (edgesOf d))
  let R := closure E P.length E
  (List.range P.length).all (fun t => !((R[t]?).getD []).contains t)

/-- is the activation `enter kind t` creates in `c` born with the call-limit error? -/
def limitHit (P : Program) (F : Flags) (c : Config) (t : Nat) : Bool :=
  earlyResult P[t]? (c.callCount t + 1) F.maxCalls == some (.typed 204)

/-- some activation of the run is born with the call-limit error -/
def limitHits (P : Program) (F : Flags) : Config → List Label → Bool
  | _, [] => false
  | c, l :: ls =>
    (match l.ev with | .enter _ t => limitHit P F c t | _ => false) ||
    (match step P F c l with
     | some c' => limitHits P F c' ls
     | none => false)

/-- **call-limit monitor**: an acyclic program does not hit the call limit (a run shorter than the limit
cannot: fewer `enter`s than `maxCalls`) -/
def callLimitMon (P : Program) (F : Flags) (ncalls : Nat) (tr : List Label) : Bool :=
  !(acyclic P && decide (F.maxCalls ≤ tr.length) && limitHits P F (init ncalls) tr)

end TaskModel.Sched
